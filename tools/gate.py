"""Quality gate: run quick checks for the given properties with several seeds,
validate evidence against the schema, report wall time and exit codes.
usage: gate.py C19 C54 ... [--seeds 0,1,2] [--tier quick]"""
import json, subprocess, sys, time, os
args = [a for a in sys.argv[1:] if not a.startswith("--")]
seeds = [0, 1, 2]
tier = "quick"
for a in sys.argv[1:]:
    if a.startswith("--seeds="): seeds = [int(x) for x in a.split("=")[1].split(",")]
    if a.startswith("--tier="): tier = a.split("=")[1]
os.chdir(os.path.dirname(os.path.dirname(os.path.abspath(__file__))))
bad = 0
for pid in args:
    for s in seeds:
        t = time.time()
        env = dict(os.environ, VERIF_SEED=str(s))
        try: os.remove("evidence/%s.json" % pid)
        except FileNotFoundError: pass
        p = subprocess.run(["./check", pid, "--tier", tier], capture_output=True, text=True, env=env)
        dt = time.time() - t
        lines = [l for l in p.stdout.splitlines() if l.startswith(("VIOLATION", "KNOWN-FINDING", "INFRA"))]
        v = subprocess.run(["python3-vt", "-c", "import json,jsonschema,sys; jsonschema.validate(json.load(open('evidence/%s.json')), json.load(open('/root/.vp/EVIDENCE.schema.json')))" % pid], capture_output=True, text=True)
        ev = "evidence-ok" if v.returncode == 0 else "EVIDENCE-INVALID " + v.stderr.strip().splitlines()[-1][:200] if v.stderr.strip() else "EVIDENCE-INVALID"
        status = "OK " if p.returncode == 0 and v.returncode == 0 else "BAD"
        if status == "BAD": bad += 1
        print("%s %s seed=%d rc=%d %.1fs %s %s" % (status, pid, s, p.returncode, dt, ev, " | ".join(lines)[:300]))
        if p.returncode == 2: print(p.stdout[-1500:], p.stderr[-1500:])
        sys.stdout.flush()
sys.exit(1 if bad else 0)
