#!/bin/sh
# usage: merge_branch.sh <branch>... — merge builder branches, regenerate generated files
cd /verif || exit 2
for b in "$@"; do
  n=$(git log --oneline main..$b | wc -l)
  [ "$n" = 0 ] && { echo "$b: nothing new"; continue; }
  git merge -q --no-edit "$b" >/dev/null 2>&1
  for f in $(git diff --name-only --diff-filter=U); do
    case "$f" in
      lean/Driver.lean|lean/SaVerif.lean|MANIFEST.json|known_findings.json) git checkout --ours -- "$f";;
      lean/SaVerif/Gen/*) git checkout --theirs -- "$f";;
      evidence/*) git checkout --theirs -- "$f" 2>/dev/null || git checkout --ours -- "$f" 2>/dev/null || git rm -q --cached "$f";;
      *) echo "CONFLICT in $f (branch $b) — resolve by hand"; git merge --abort; exit 1;;
    esac
    git add "$f" 2>/dev/null
  done
  git commit -q --no-edit -m "merge $b" >/dev/null 2>&1
  left=$(git log --oneline main..$b | wc -l)
  if [ "$left" = 0 ]; then echo "$b: merged $n commits"; else echo "$b: MERGE FAILED ($left commits left)"; git merge --abort 2>/dev/null; fi
done
python3 harness/mkdriver.py >/dev/null && python3 harness/mkmanifest.py
git add -A && git commit -qm "regenerate driver/manifest after merges" >/dev/null 2>&1
exit 0
