#!/bin/sh
# usage: merge_branch.sh <branch>... — merge builder branches, regenerate generated files
cd /verif || exit 2
for b in "$@"; do
  n=$(git log --oneline main..$b | wc -l)
  [ "$n" = 0 ] && { echo "$b: nothing new"; continue; }
  git merge -q --no-edit "$b" >/dev/null 2>&1
  # conflicts: generated files -> ours; evidence -> theirs
  for f in $(git diff --name-only --diff-filter=U); do
    case "$f" in
      lean/Driver.lean|lean/SaVerif.lean|MANIFEST.json|known_findings.json) git checkout --ours -- "$f";;
      evidence/*) git checkout --theirs -- "$f" 2>/dev/null || git checkout --ours -- "$f";;
      *) echo "CONFLICT in $f (branch $b) — resolve by hand"; exit 1;;
    esac
    git add "$f"
  done
  git commit -q --no-edit -m "merge $b" >/dev/null 2>&1
  echo "$b: merged $n commits"
done
python3 harness/mkdriver.py >/dev/null && python3 harness/mkmanifest.py
git add -A && git commit -qm "regenerate driver/manifest after merges" 2>/dev/null
exit 0
