#!/bin/sh
# usage: seed_check.sh <seeded/ID dir> <Cxx> [tier]   — runs the check against a scratch
# worktree of /repo with the seeded patch applied (VERIF_REPO), then removes it.
D="$(cd "$1" && pwd)"; P="$2"; T="${3:-quick}"
WT=/tmp/seedcheck.$$
git -C /repo worktree add -q --detach "$WT" HEAD || exit 2
git -C "$WT" apply "$D/patch.diff" || { echo "PATCH DOES NOT APPLY"; git -C /repo worktree remove --force "$WT"; exit 2; }
cd /verif && VERIF_REPO="$WT" ./check "$P" --tier "$T"; RC=$?
git -C /repo worktree remove --force "$WT"; git -C /verif checkout -- lean/SaVerif/Gen 2>/dev/null
echo "seed_check $D $P rc=$RC"
exit $RC
