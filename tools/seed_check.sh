#!/bin/sh
# usage: seed_check.sh <seeded/ID dir> <Cxx> [tier]   — runs the check against a scratch
# worktree of /repo with the seeded patch applied (VERIF_REPO), then removes it and restores
# the generated tables and the evidence file (evidence is only ever committed from /repo itself).
# VERIF_DIR=<builder worktree> runs the checks of that worktree instead of /verif.
D="$(cd "$1" && pwd)"; P="$2"; T="${3:-quick}"
WT=/tmp/seedcheck.$$
git -C /repo worktree add -q --detach "$WT" HEAD || exit 2
git -C "$WT" apply "$D/patch.diff" || { echo "PATCH DOES NOT APPLY"; git -C /repo worktree remove --force "$WT"; exit 2; }
V="${VERIF_DIR:-/verif}"
cd "$V" && VERIF_REPO="$WT" ./check "$P" --tier "$T"; RC=$?
git -C /repo worktree remove --force "$WT"; git -C "$V" checkout -- lean/SaVerif/Gen "evidence/$P.json" 2>/dev/null
echo "seed_check $D $P rc=$RC"
exit $RC
