#!/bin/sh
# usage: tools/seed_store.sh <P> [variants...]  — verify /tmp/seed/<P>-out/<V>, store in seeded/<P>-<V>, remove worktree
P=$1; shift; VS=${*:-C D}
cd /verif
for V in $VS; do
  if [ -f /tmp/seed/$P-out/$V/patch.diff ]; then
    r=$(tools/seed_verify.sh /tmp/seed/$P-out/$V 2>&1 | tail -1); echo "$P-$V $r"
    case "$r" in SEED-OK*) mkdir -p seeded/$P-$V; cp /tmp/seed/$P-out/$V/patch.diff /tmp/seed/$P-out/$V/demo.py /tmp/seed/$P-out/$V/meta.json seeded/$P-$V/;; esac
  else echo "$P-$V absent"; fi
done
git -C /repo worktree remove --force /tmp/seed/$P 2>/dev/null; rm -rf /tmp/seed/$P-out
