#!/bin/sh
# usage: tools/seed_round.sh <P> <V>  — verify+store /tmp/seed/<P>-out/<V>, then run ./check <P> quick against it
P=$1; V=$2; cd /verif
tools/seed_store.sh $P $V 2>&1 | tail -2
[ -d seeded/$P-$V ] || { echo "$P-$V NOT STORED"; exit 2; }
tools/seed_check.sh seeded/$P-$V $P quick > /tmp/sc_$P$V.log 2>&1
grep -E "^VIOLATION|^seed_check|^INFRA" /tmp/sc_$P$V.log | head -5
