"""Run the pinned suite (xdist) and compare with /root/.vp/BASELINE.json stable_pass.
usage: baseline_compare.py [repo_dir] [-n N] [paths...]"""
import json, subprocess, sys, os, tempfile
import xml.etree.ElementTree as ET
repo = sys.argv[1] if len(sys.argv) > 1 else "/repo"
extra = sys.argv[2:]
base = json.load(open("/root/.vp/BASELINE.json"))
stable = set(base["stable_pass"])
fd, xmlf = tempfile.mkstemp(suffix=".xml"); os.close(fd)
cmd = ["/venv/bin/python", "-m", "pytest", "-q", "-p", "no:cacheprovider", "--timeout=900",
       "--continue-on-collection-errors", "-n", "12", "--junitxml=" + xmlf] + extra
env = dict(os.environ); env["PYTHONPATH"] = os.path.join(repo, "lib")
p = subprocess.run(cmd, cwd=repo, capture_output=True, text=True, env=env)
print(p.stdout[-600:])
passed = set()
for tc in ET.parse(xmlf).getroot().iter("testcase"):
    if not any(ch.tag in ("failure", "error", "skipped") for ch in tc):
        passed.add(tc.get("classname") + "::" + tc.get("name"))
os.remove(xmlf)
if extra:
    pref = [e.rstrip("/").replace("/", ".").replace(".py", "") for e in extra if not e.startswith("-")]
    stable = {s for s in stable if any(s.startswith(x) for x in pref)}
missing = sorted(stable - passed)
print("stable_pass expected:", len(stable), "passed now:", len(passed), "stable tests not passing:", len(missing))
for m in missing[:40]:
    print("  MISSING", m)
sys.exit(1 if missing else 0)
