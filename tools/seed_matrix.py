"""Run every stored seeded change against its property's check (scratch worktree +
VERIF_REPO) and record which are caught: seeded/RESULTS.json.
usage: seed_matrix.py [--only C19,C54] [--redo] [--tier quick]"""
import json, os, subprocess, sys, time
os.chdir(os.path.dirname(os.path.dirname(os.path.abspath(__file__))))
only = None; redo = False; tier = "quick"
for a in sys.argv[1:]:
    if a.startswith("--only="): only = set(a.split("=")[1].split(","))
    if a == "--redo": redo = True
    if a.startswith("--tier="): tier = a.split("=")[1]
RES = "seeded/RESULTS.json"
res = json.load(open(RES)) if os.path.exists(RES) else {}
for d in sorted(os.listdir("seeded")):
    if not os.path.isdir("seeded/" + d): continue
    pid = d.split("-")[0]
    if only and pid not in only and d not in only: continue
    if not os.path.exists("harness/props/%s.py" % pid.lower()):
        continue
    head = subprocess.check_output(["git", "rev-parse", "--short", "HEAD"]).decode().strip()
    if not redo and d in res and res[d].get("caught"):
        continue
    t = time.time()
    p = subprocess.run(["tools/seed_check.sh", "seeded/" + d, pid, tier], capture_output=True, text=True)
    lines = [l for l in p.stdout.splitlines() if l.startswith("VIOLATION")]
    rc = None
    for l in p.stdout.splitlines():
        if l.startswith("seed_check "): rc = int(l.rsplit("rc=", 1)[1])
    res[d] = {"property": pid, "caught": rc == 1, "rc": rc, "violation_lines": lines[:3],
              "no_failing_input_found": any("no-failing-input-found" in l for l in lines),
              "tier": tier, "verif_commit": head, "wall_s": round(time.time() - t, 1)}
    print(d, "CAUGHT" if rc == 1 else "MISSED rc=%s" % rc, lines[:1], flush=True)
    json.dump(res, open(RES, "w"), indent=1, sort_keys=True)
