#!/bin/sh
# usage: seed_verify.sh <dir with patch.diff demo.py> [pytest paths...]
# Confirms in a scratch worktree: demo passes clean, fails patched; optional tests pass patched.
D="$(cd "$1" && pwd)"; shift
WT=/tmp/seedverify.$$
git -C /repo worktree add -q --detach "$WT" HEAD || exit 2
cd "$WT" || exit 2
PYTHONPATH=$WT/lib timeout 600 /venv/bin/python "$D/demo.py" >/tmp/sv.$$.clean 2>&1; C=$?
git apply "$D/patch.diff" || { echo "PATCH DOES NOT APPLY"; git -C /repo worktree remove --force "$WT"; exit 2; }
PYTHONPATH=$WT/lib timeout 600 /venv/bin/python "$D/demo.py" >/tmp/sv.$$.patched 2>&1; P=$?
echo "demo clean rc=$C ; patched rc=$P"; tail -2 /tmp/sv.$$.patched
T=skipped
if [ $# -gt 0 ]; then
  PYTHONPATH=$WT/lib /venv/bin/python -m pytest -q -p no:cacheprovider -n 8 --timeout=900 "$@" 2>&1 | tail -1; 
fi
cd /; git -C /repo worktree remove --force "$WT"; rm -f /tmp/sv.$$.*
[ $C -eq 0 ] && [ $P -ne 0 ] && echo SEED-OK || echo SEED-BAD
