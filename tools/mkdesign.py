"""Regenerate the generated tables of DESIGN.md (between the GENERATED markers):
fix: commits, known findings, per-property status, seeded-change detection matrix."""
import json, os, re, subprocess
os.chdir(os.path.dirname(os.path.dirname(os.path.abspath(__file__))))
man = json.load(open("MANIFEST.json"))
kf = json.load(open("known_findings.json"))["findings"]
out = []
out.append("### 6.2 `fix:` commits applied to /repo (generated from known_findings.json)\n")
out.append("Each is one minimal unguarded commit; the existing suite, unedited, passes with all of them (tools/baseline_compare.py). A fixed entry suppresses nothing.\n")
out.append("| property | commit | key | what failed |\n|---|---|---|---|")
for e in kf:
    if e.get("status") == "fixed":
        out.append("| %s | %s | `%s` | %s |" % (e["property"], e.get("commit", ""), e["key"], e["what"].replace("|", "\\|")[:220]))
out.append("\n### 6.3 Known findings (genuine defects recorded, not repaired; generated)\n")
out.append("Keys are computed from the failing input by the property's oracle, so a different violation of the same property is still reported.\n")
out.append("| property | key | what fails |\n|---|---|---|")
for e in kf:
    if e.get("status") == "known":
        out.append("| %s | `%s` | %s |" % (e["property"], e["key"], e["what"].replace("|", "\\|").replace("\n", " ")[:300]))
out.append("\n### 6.4 Per-property status (generated from MANIFEST.json and the last evidence files)\n")
out.append("| id | level | theorems discharged | technique |\n|---|---|---|---|")
for c in man["checks"]:
    pid = c["property_id"]
    ev = {}
    try: ev = json.load(open("evidence/%s.json" % pid))
    except Exception: pass
    cov = ev.get("coverage", {})
    out.append("| %s | %s | %s/%s | %s |" % (pid, c["level_claimed"]["category"], cov.get("discharged", "?"), cov.get("obligations", "?"), c.get("technique", "")[:160].replace("|", "\\|")))
na = man.get("not_applicable", [])
if na:
    out.append("\nNot claimed: " + "; ".join("%s (%s)" % (n["property_id"], n["reason"][:80]) for n in na))
out.append("\n### 6.6 Per-property assurance statements as built (generated from MANIFEST.json; supersede the plans of §3 where they differ)\n")
for c in man["checks"]:
    out.append("* **%s** (%s) — %s *Trusted / modelled-not-verified:* %s\n" % (c["property_id"], c["level_claimed"]["category"], c["level_claimed"]["text"].replace("\n", " "), c["level_note"].replace("\n", " ")))
out.append("\n### 6.5 Seeded changes and which check catches them (generated from seeded/*/meta.json and seeded/RESULTS.json)\n")
res = json.load(open("seeded/RESULTS.json")) if os.path.exists("seeded/RESULTS.json") else {}
out.append("| seed | what the change does / what it needs | result |\n|---|---|---|")
for d in sorted(os.listdir("seeded")):
    if not os.path.isdir("seeded/" + d): continue
    try: m = json.load(open("seeded/%s/meta.json" % d))
    except Exception: m = {}
    desc = (m.get("description", "") or "")[:230].replace("|", "\\|").replace("\n", " ")
    r = res.get(d)
    if r is None: st = "check not built / not run yet"
    elif r["caught"]: st = "CAUGHT by ./check %s%s" % (r["property"], " (no-failing-input-found)" if r.get("no_failing_input_found") else " with replay")
    else: st = "missed (rc=%s) at %s" % (r["rc"], r.get("verif_commit"))
    out.append("| %s | %s | %s |" % (d, desc, st))
gen = "\n".join(out) + "\n"
s = open("DESIGN.md").read()
b, e = "<!-- GENERATED:BEGIN -->", "<!-- GENERATED:END -->"
if b in s:
    s = s[:s.index(b) + len(b)] + "\n" + gen + s[s.index(e):]
else:
    s += "\n" + b + "\n" + gen + e + "\n"
open("DESIGN.md", "w").write(s)
print("DESIGN.md tables regenerated")
