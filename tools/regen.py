"""Regenerate every lean/SaVerif/Gen/*.lean from /repo's current tree (runs each
property module's gen(ctx) only).  One subprocess per property, so that the set of
imported sqlalchemy modules (which some tables enumerate) is the same as when the
property's own check runs its translator."""
import importlib, os, subprocess, sys
ROOT = os.path.dirname(os.path.dirname(os.path.abspath(__file__)))
sys.path.insert(0, ROOT)


def one(pid):
    from harness import vlib
    vlib.source_mode()
    mod = importlib.import_module("harness.props." + pid.lower())
    if hasattr(mod, "gen"):
        ctx = vlib.Ctx(pid, "quick", 0)
        try:
            mod.gen(ctx)
            print(pid, "regenerated" if ctx.gen_changed else "unchanged", ctx.gen_changed)
        except Exception as e:
            print(pid, "GEN FAILED", repr(e)[:200])


if __name__ == "__main__":
    if len(sys.argv) > 1:
        one(sys.argv[1])
    else:
        from concurrent.futures import ThreadPoolExecutor
        pids = []
        for fn in sorted(os.listdir(os.path.join(ROOT, "harness", "props"))):
            if fn.startswith("c") and fn.endswith(".py"):
                src = open(os.path.join(ROOT, "harness", "props", fn)).read()
                if "\ndef gen(" in src:
                    pids.append(fn[:-3].upper())
        def run(p):
            r = subprocess.run([sys.executable, "-B", os.path.abspath(__file__), p],
                               capture_output=True, text=True, cwd=ROOT)
            return (r.stdout + r.stderr[-300:]).strip()
        with ThreadPoolExecutor(8) as ex:
            for out in ex.map(run, pids):
                print(out)
