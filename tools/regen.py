"""Regenerate every lean/SaVerif/Gen/*.lean from /repo's current tree (runs each
property module's gen(ctx) only)."""
import importlib, os, sys
sys.path.insert(0, os.path.dirname(os.path.dirname(os.path.abspath(__file__))))
from harness import vlib
vlib.source_mode()
for fn in sorted(os.listdir(os.path.join(vlib.VERIF, "harness", "props"))):
    if not fn.startswith("c") or not fn.endswith(".py"): continue
    pid = fn[:-3].upper()
    mod = importlib.import_module("harness.props." + fn[:-3])
    if hasattr(mod, "gen"):
        ctx = vlib.Ctx(pid, "quick", 0)
        try:
            mod.gen(ctx)
            print(pid, "regenerated" if ctx.gen_changed else "unchanged", ctx.gen_changed)
        except Exception as e:
            print(pid, "GEN FAILED", repr(e)[:200])
