import SaVerif.Model.Sess
import SaVerif.Gen.Lifecycle
import SaVerif.Drv.Parse
namespace SaVerif.Drv.Sess
open SaVerif.Drv SaVerif.Sess

def parseOp? (s : String) : Option Op :=
  match s.splitOn ":" with
  | ["new", k] => k.toNat?.map .new
  | ["add", o] => o.toNat?.map .add
  | ["delete", o] => o.toNat?.map .delete
  | ["expunge", o] => o.toNat?.map .expunge
  | ["expire", o] => o.toNat?.map .expire
  | ["mt", o, k] => do let a ← o.toNat?; let b ← k.toNat?; pure (.mt a b)
  | ["mtd", o] => o.toNat?.map .mtd
  | ["setpk", o, k] => do let a ← o.toNat?; let b ← k.toNat?; pure (.setpk a b)
  | ["merge", o] => o.toNat?.map .merge
  | ["get", k] => k.toNat?.map .get
  | ["flush"] => some .flush
  | ["commit"] => some .commit
  | ["rollback"] => some .rollback
  | ["nbegin"] => some .nbegin
  | ["ncommit"] => some .ncommit
  | ["nrollback"] => some .nrollback
  | ["close"] => some .close
  | ["expunge_all"] => some .expungeAll
  | ["query", pe, _yp] => if pe == "1" then some (.query true) else if pe == "0" then some (.query false) else none
  | ["refresh", o] => o.toNat?.map .refresh
  | _ => none

def evName : Ev → String
  | .t2p => "transient_to_pending" | .p2t => "pending_to_transient"
  | .s2t => "persistent_to_transient" | .p2s => "pending_to_persistent"
  | .x2s => "detached_to_persistent" | .l2s => "loaded_as_persistent"
  | .s2d => "persistent_to_deleted" | .d2s => "deleted_to_persistent"
  | .d2x => "deleted_to_detached" | .s2x => "persistent_to_detached"

def errName : Err → String
  | .invalid => "InvalidRequestError" | .pendingRollback => "PendingRollbackError"
  | .integrity => "IntegrityError" | .stale => "StaleDataError" | .flushErr => "FlushError"
  | .objectDeleted => "ObjectDeletedError" | .detachedInst => "DetachedInstanceError"
  | .assertion => "AssertionError" | .noNested => "NoNested"

def b (x : Bool) : String := if x then "1" else "0"

/-- five inspect() flags through the *generated* formulas, then was_deleted, expired,
    modified, and the identity key -/
def showObj (ob : Obj) : String :=
  let k := ob.key.isSome
  let a := ob.att
  let d := ob.del
  b (Gen.Lifecycle.transient k a d) ++ b (Gen.Lifecycle.pending k a d) ++
  b (Gen.Lifecycle.persistent k a d) ++ b (Gen.Lifecycle.deleted k a d) ++
  b (Gen.Lifecycle.detached k a d) ++ b (Gen.Lifecycle.was_deleted k a d) ++
  b ob.expired ++ b ob.modified ++
  (match ob.key with | some k => toString k | none => "N")

def sortStrs (l : List String) : List String :=
  l.foldl (fun acc x => acc.takeWhile (· ≤ x) ++ [x] ++ acc.dropWhile (· ≤ x)) []

def joinOr (l : List String) : String := if l.isEmpty then "-" else ",".intercalate l

def showState (σ : Sess) (evs : List (Ev × Oid)) (res : String) (sqlBefore : Nat) : String :=
  let objs := joinOr (σ.objs.map showObj)
  let new := showNatList (sortNats σ.new)
  let del := showNatList (sortNats σ.deleted)
  let im := joinOr (sortStrs (σ.imap.map (fun e => toString e.1 ++ ">" ++ toString e.2)))
  let ev := joinOr (sortStrs (evs.map (fun e => evName e.1 ++ ":" ++ toString e.2)))
  let tx := "t" ++ toString σ.txns.length ++ "n" ++ toString (σ.txns.filter (·.nested)).length ++
            "a" ++ (match σ.txns with | [] => "1" | t :: _ => b t.active)
  let db := showNatList (sortNats σ.db)
  let q := if σ.sql > sqlBefore then "q1" else "q0"
  "|".intercalate [res, objs, new, del, im, ev, tx, db, q]

def runOps : Sess → List Op → List String → List String
  | _, [], acc => acc
  | σ, op :: ops, acc =>
    if !opValid σ op then acc ++ ["bad-oid"] else
    let n0 := σ.log.length
    let q0 := σ.sql
    let ((σ', e), ro) := step σ op
    let res := match e with
               | some e => "err:" ++ errName e
               | none => match op, ro with
                         | .get _, some l | .merge _, some l =>
                           "ok:" ++ (match l with | o :: _ => toString o | [] => "N")
                         | .query _, some l => "ok:[" ++ ".".intercalate (l.map toString) ++ "]"
                         | _, _ => "ok"
    let rec_ := showState σ' (σ'.log.drop n0) res q0
    if σ'.nondet then acc ++ [rec_ ++ "|nondet"]
    else if !imapOk σ' then acc ++ [rec_, "abstain"]
    else runOps σ' ops (acc ++ [rec_])

/-- `run <eoc 0|1> <op,op,...>` -/
def handle : List String → String
  | ["run", eoc, ops] =>
    let opsL := if ops == "-" then some [] else (ops.splitOn ",").mapM parseOp?
    match opsL, eoc with
    | some os, "1" => ";".intercalate (runOps { eoc := true } os [])
    | some os, "0" => ";".intercalate (runOps { eoc := false } os [])
    | _, _ => "bad-op"
  | _ => "bad-op"

end SaVerif.Drv.Sess
