import SaVerif.Model.Sess
<<<<<<< HEAD
import SaVerif.Gen.Lifecycle
import SaVerif.Drv.Parse
namespace SaVerif.Drv.Sess
open SaVerif.Drv SaVerif.Sess

def parseOp? (s : String) : Option Op :=
  match s.splitOn ":" with
  | ["new", k] => k.toNat?.map .new
  | ["add", o] => o.toNat?.map .add
  | ["delete", o] => o.toNat?.map .delete
  | ["expunge", o] => o.toNat?.map .expunge
  | ["expire", o] => o.toNat?.map .expire
  | ["mt", o, k] => do let a ← o.toNat?; let b ← k.toNat?; pure (.mt a b)
  | ["mtd", o] => o.toNat?.map .mtd
  | ["setpk", o, k] => do let a ← o.toNat?; let b ← k.toNat?; pure (.setpk a b)
  | ["merge", o] => o.toNat?.map .merge
  | ["get", k] => k.toNat?.map .get
  | ["flush"] => some .flush
  | ["commit"] => some .commit
  | ["rollback"] => some .rollback
  | ["nbegin"] => some .nbegin
  | ["ncommit"] => some .ncommit
  | ["nrollback"] => some .nrollback
  | ["close"] => some .close
  | ["expunge_all"] => some .expungeAll
  | ["query", pe, _yp] => if pe == "1" then some (.query true) else if pe == "0" then some (.query false) else none
  | ["refresh", o] => o.toNat?.map .refresh
  | _ => none

def evName : Ev → String
  | .t2p => "transient_to_pending" | .p2t => "pending_to_transient"
  | .s2t => "persistent_to_transient" | .p2s => "pending_to_persistent"
  | .x2s => "detached_to_persistent" | .l2s => "loaded_as_persistent"
  | .s2d => "persistent_to_deleted" | .d2s => "deleted_to_persistent"
  | .d2x => "deleted_to_detached" | .s2x => "persistent_to_detached"

def errName : Err → String
  | .invalid => "InvalidRequestError" | .pendingRollback => "PendingRollbackError"
  | .integrity => "IntegrityError" | .stale => "StaleDataError" | .flushErr => "FlushError"
  | .objectDeleted => "ObjectDeletedError" | .detachedInst => "DetachedInstanceError"
  | .assertion => "AssertionError" | .noNested => "NoNested"

def b (x : Bool) : String := if x then "1" else "0"

/-- five inspect() flags through the *generated* formulas, then was_deleted, expired,
    modified, and the identity key -/
def showObj (ob : Obj) : String :=
  let k := ob.key.isSome
  let a := ob.att
  let d := ob.del
  b (Gen.Lifecycle.transient k a d) ++ b (Gen.Lifecycle.pending k a d) ++
  b (Gen.Lifecycle.persistent k a d) ++ b (Gen.Lifecycle.deleted k a d) ++
  b (Gen.Lifecycle.detached k a d) ++ b (Gen.Lifecycle.was_deleted k a d) ++
  b ob.expired ++ b ob.modified ++
  (match ob.key with | some k => toString k | none => "N")

def sortStrs (l : List String) : List String :=
  l.foldl (fun acc x => acc.takeWhile (· ≤ x) ++ [x] ++ acc.dropWhile (· ≤ x)) []

def joinOr (l : List String) : String := if l.isEmpty then "-" else ",".intercalate l

def showState (σ : Sess) (evs : List (Ev × Oid)) (res : String) (sqlBefore : Nat) : String :=
  let objs := joinOr (σ.objs.map showObj)
  let new := showNatList (sortNats σ.new)
  let del := showNatList (sortNats σ.deleted)
  let im := joinOr (sortStrs (σ.imap.map (fun e => toString e.1 ++ ">" ++ toString e.2)))
  let ev := joinOr (sortStrs (evs.map (fun e => evName e.1 ++ ":" ++ toString e.2)))
  let tx := "t" ++ toString σ.txns.length ++ "n" ++ toString (σ.txns.filter (·.nested)).length ++
            "a" ++ (match σ.txns with | [] => "1" | t :: _ => b t.active)
  let db := showNatList (sortNats σ.db)
  let q := if σ.sql > sqlBefore then "q1" else "q0"
  "|".intercalate [res, objs, new, del, im, ev, tx, db, q]

def runOps : Sess → List Op → List String → List String
  | _, [], acc => acc
  | σ, op :: ops, acc =>
    if !opValid σ op then acc ++ ["bad-oid"] else
    let n0 := σ.log.length
    let q0 := σ.sql
    let ((σ', e), ro) := step σ op
    let res := match e with
               | some e => "err:" ++ errName e
               | none => match op, ro with
                         | .get _, some l | .merge _, some l =>
                           "ok:" ++ (match l with | o :: _ => toString o | [] => "N")
                         | .query _, some l => "ok:[" ++ ".".intercalate (l.map toString) ++ "]"
                         | _, _ => "ok"
    let rec_ := showState σ' (σ'.log.drop n0) res q0
    if σ'.nondet then acc ++ [rec_ ++ "|nondet"]
    else if !imapOk σ' then acc ++ [rec_, "abstain"]
    else runOps σ' ops (acc ++ [rec_])

/-- `run <eoc 0|1> <op,op,...>` -/
def handle : List String → String
  | ["run", eoc, ops] =>
    let opsL := if ops == "-" then some [] else (ops.splitOn ",").mapM parseOp?
    match opsL, eoc with
    | some os, "1" => ";".intercalate (runOps { eoc := true } os [])
    | some os, "0" => ";".intercalate (runOps { eoc := false } os [])
    | _, _ => "bad-op"
=======
import SaVerif.Drv.Parse
/-!
Sub-driver for M-SESS.   `sess run <eoc 0|1> <ops separated by ;>`
op tokens: A<o>:<pk>:<v>  M<o>:<v>  K<o>:<pk>  D<o>  F  L<o>  b  n  C  R  X  c<h>  r<h>
response: one record per op separated by `|`, fields by `/`:
  res / inTxn inNested / depth / objs / committed / working      (see harness/lib_sess.py)
-/
namespace SaVerif.Drv.Sess
open SaVerif.Drv SaVerif.Sess

def nats? (s : String) : Option (List Nat) := (s.splitOn ":").mapM (·.toNat?)

def parseOp (nobj : Nat) (s : String) : Option SOp :=
  match s.toList with
  | ['F'] => some .flush | ['b'] => some .begin | ['n'] => some .beginNested
  | ['C'] => some .commit | ['R'] => some .rollback | ['X'] => some .close
  | c :: rest =>
    match nats? (String.ofList rest), c with
    | some [o, pk, v], 'A' => if o == nobj then some (.add pk v) else none
    | some [o, v], 'M' => if o < nobj then some (.setV o v) else none
    | some [o, pk], 'K' => if o < nobj then some (.setPk o pk) else none
    | some [o], 'D' => if o < nobj then some (.delete o) else none
    | some [o], 'L' => if o < nobj then some (.load o) else none
    | some [h], 'c' => some (.tCommit h)
    | some [h], 'r' => some (.tRollback h)
    | _, _ => none
  | [] => none

def showRes : SRes → String
  | .ok => "ok" | .invalidRequest => "IRE" | .closedTxn => "RCE" | .objectDeleted => "ODE"

def b2s (b : Bool) : String := if b then "1" else "0"

def showRows (r : Rows) : String :=
  let ks := sortNats (r.map (·.1))
  if ks.isEmpty then "-" else
  ",".intercalate (ks.map fun k => toString k ++ "=" ++ toString ((r.get k).getD 0))

def showObj (s : Sess) (o : Nat) : String :=
  let x := s.obj o
  let st :=
    if x.key.isNone then (if x.attached then "P" else "T")
    else if !x.attached then "X"
    else if x.delFlag then "D" else "S"
  st ++ b2s (s.new.contains o)
     ++ b2s (s.imap.contains o && x.modified && !s.marked.contains o)
     ++ b2s (s.marked.contains o)
     ++ ":" ++ (match x.key with | some k => toString k | none => "N")
     ++ ":" ++ (if x.idL then toString x.pk else "E")
     ++ ":" ++ (if x.vL then toString x.v else "E")

def showState (r : SRes) (s : Sess) : String :=
  "/".intercalate [
    showRes r,
    b2s (!s.txns.isEmpty) ++ b2s (s.txns.any (·.nested)),
    toString s.txns.length,
    (if s.objs.isEmpty then "-" else ",".intercalate ((List.range s.objs.length).map (showObj s))),
    showRows s.committed,
    showRows s.rows ]

def runOps : Sess → List String → Option (List String)
  | _, [] => some []
  | s, t :: ts =>
    match parseOp s.objs.length t with
    | none => none
    | some op =>
      let (s', r) := s.step op
      match runOps s' ts with
      | some rest => some (showState r s' :: rest)
      | none => none

def handle : List String → String
  | ["run", eoc, ops] =>
    match eoc with
    | "0" | "1" =>
      match runOps (Sess.init (eoc == "1")) (if ops == "-" then [] else ops.splitOn ";") with
      | some out => if out.isEmpty then "-" else "|".intercalate out
      | none => "bad-op"
    | _ => "bad-op"
>>>>>>> txn
  | _ => "bad-op"

end SaVerif.Drv.Sess
