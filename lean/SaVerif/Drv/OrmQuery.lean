import SaVerif.Model.OrmQuery
import SaVerif.Drv.Loader
namespace SaVerif.Drv.OrmQuery
open SaVerif.Drv SaVerif.Loader SaVerif.OrmQuery SaVerif.Drv.Loader

/--
all over `<parents> <children>` in the encoding of the `loader` driver; results follow the
order of the parent (child) list given
* `any <v>` / `notany <v>`   parents with(out) a child whose k = v     (Core reading)
* `join`                     rows of a JOIN b as `pid.cid`
* `has <x>`                  children whose parent has x = x
* `contains <cid>`           parents whose collection contains child cid
* `groupcount`               `pid=n`
-/
def handle : List String → String
  | ["any", v, ps, cs] =>
    match v.toInt?, parseParents? ps, parseChildren? cs with
    | some k, some p, some c => "ok " ++ showNatList ((anyCore (fun ch => ch.k == k) p c).map (·.id))
    | _, _, _ => "bad-op"
  | ["notany", v, ps, cs] =>
    match v.toInt?, parseParents? ps, parseChildren? cs with
    | some k, some p, some c =>
      "ok " ++ showNatList ((p.filter (fun a => (c.filter (fun ch => belongs a ch && ch.k == k)).isEmpty)).map (·.id))
    | _, _, _ => "bad-op"
  | ["join", ps, cs] =>
    match parseParents? ps, parseChildren? cs with
    | some p, some c =>
      let r := joinCore p c
      if r.isEmpty then "ok -" else "ok " ++ ",".intercalate (r.map (fun pc => s!"{pc.1.id}.{pc.2.id}"))
    | _, _ => "bad-op"
  | ["has", x, ps, cs] =>
    match x.toInt?, parseParents? ps, parseChildren? cs with
    | some v, some p, some c => "ok " ++ showNatList ((hasCore (fun a => a.x == v) p c).map (·.id))
    | _, _, _ => "bad-op"
  | ["contains", cid, ps, cs] =>
    match cid.toNat?, parseParents? ps, parseChildren? cs with
    | some i, some p, some c =>
      match c.find? (fun ch => ch.id == i) with
      | some b => "ok " ++ showNatList ((containsCore b p).map (·.id))
      | none => "bad-op"
    | _, _, _ => "bad-op"
  | ["groupcount", ps, cs] =>
    match parseParents? ps, parseChildren? cs with
    | some p, some c =>
      let r := groupCount p c
      if r.isEmpty then "ok -" else "ok " ++ ",".intercalate (r.map (fun e => s!"{e.1.id}={e.2}"))
    | _, _ => "bad-op"
  | _ => "bad-op"

end SaVerif.Drv.OrmQuery
