import SaVerif.Model.Lambda
import SaVerif.Drv.Parse
namespace SaVerif.Drv.Lambda
open SaVerif.Drv SaVerif.Lambda

/-!
`lambda chains <steps>` ; step = `<code ids joined by .>:<structural id>` → `hit|miss` per step (last link)
`lambda history <steps>` ; steps joined by `;`, step = `<structural id>:<literal values|->`
 → per step `hit|miss:<bound values>` joined by `;`
(the closure of every step is modelled as [obj id] ++ literals)
-/

def parseStep? (s : String) : Option (List CV) :=
  match s.splitOn ":" with
  | [sid, vals] => do
    let i ← sid.toNat?
    let vs ← parseIntList? vals
    pure (CV.obj i :: vs.map CV.lit)
  | _ => none

def showOut (o : List Out) : String :=
  let vs := o.filterMap (fun | .val (.lit v) => some v | _ => none)
  showIntList vs

/-- `<code ids joined by .>:<structural id>` -/
def parseChainStep? (s : String) : Option (List Nat × List CV × List CV) :=
  match s.splitOn ":" with
  | [path, sid] => do
    let p ← (path.splitOn ".").mapM (·.toNat?)
    let i ← sid.toNat?
    pure (p, [CV.obj i], [])
  | _ => none

def handle : List String → String
  | ["chains", steps] =>
    -- hit / miss of the lambda cache for the LAST link of every chain
    match (steps.splitOn ";").mapM parseChainStep? with
    | some hs =>
      let G : List Nat → List CV → Tmpl := fun p _ => p.map Tok.txt
      ";".intercalate ((runChains fullKey G [] hs).map (fun r => if r.1 then "hit" else "miss"))
    | none => "bad-op"
  | ["history", steps] =>
    match (steps.splitOn ";").mapM parseStep? with
    | some hs =>
      -- the template only has to expose the bound values in order: one slot per literal
      let G : List CV → Tmpl := fun _ => (List.range 64).map Tok.slot
      let res := runHistory G { analysis := none, cache := [] } hs
      ";".intercalate (res.map (fun r =>
        (if r.1 then "hit" else "miss") ++ ":" ++ showOut r.2))
    | none => "bad-op"
  | _ => "bad-op"

end SaVerif.Drv.Lambda
