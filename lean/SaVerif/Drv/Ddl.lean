import SaVerif.Model.Ddl
import SaVerif.Drv.Parse
/-!
Sub-driver for M-DDL.

tables  := `-` | T;T;...        T := id/fkcs/extras/indexes
fkcs    := `-` | F,F,...        F := fid.ref.useAlter(0|1).named(0|1)
extras, indexes := nat lists (`-` = empty)

  ddl sort <create|drop1|drop0> <tables>      -> ok <order> | <tid.fid,...> ;  circular
  ddl sortedtables <tables>                   -> ok <order> ; circular
  ddl script <sa 0|1> <tables> <S;S;...>      S := C<cf 0|1>:<*|ids>  (create_all)
                                                   D<cf 0|1>:<*|ids>  (drop_all)
                                                   X:<id>  (manual DROP TABLE .. CASCADE)
     every step is executed on the strict backend, `present` = the backend's tables;
     -> per step `<ops>` or `circular`, `!<k>` appended when op k is rejected (the
        script stops there), then `# tables=.. fks=.. idx=..`
-/
namespace SaVerif.Drv.Ddl
open SaVerif.Drv SaVerif.Ddl

def parseBool? (s : String) : Option Bool :=
  if s == "1" then some true else if s == "0" then some false else none

def parseFkc? (s : String) : Option Fkc :=
  match s.splitOn "." with
  | [a, b, c, d] => do
    let i ← a.toNat?; let r ← b.toNat?; let u ← parseBool? c; let n ← parseBool? d
    pure ⟨i, r, u, n⟩
  | _ => none

def parseTbl? (s : String) : Option Tbl :=
  match s.splitOn "/" with
  | [a, b, c, d] => do
    let i ← a.toNat?
    let fk ← if b == "-" then some [] else (b.splitOn ",").mapM parseFkc?
    let ex ← parseNatList? c
    let ix ← parseNatList? d
    pure ⟨i, fk, ex, ix⟩
  | _ => none

def parseTables? (s : String) : Option (List Tbl) :=
  if s == "-" then some [] else (s.splitOn ";").mapM parseTbl?

/-- insertion sort on pairs, lexicographic -/
def sortPairs (l : List (Nat × Nat)) : List (Nat × Nat) :=
  let le (a b : Nat × Nat) : Bool := a.1 < b.1 || (a.1 == b.1 && a.2 ≤ b.2)
  l.foldl (fun acc x => (acc.takeWhile (le · x)) ++ [x] ++ (acc.dropWhile (le · x))) []

def showPairs (l : List (Nat × Nat)) : String :=
  if l.isEmpty then "-" else ",".intercalate (l.map (fun p => toString p.1 ++ "." ++ toString p.2))

def showRefs (l : List FkRef) : String := showPairs (sortPairs (l.map (fun r => (r.1, r.2.id))))

def showOp : Op → String
  | .createTable t inl => "CT" ++ toString t ++ "[" ++ showNatList (sortNats (inl.map (·.id))) ++ "]"
  | .createIndex t i => "CI" ++ toString t ++ "." ++ toString i
  | .addConstraint t f => "AC" ++ toString t ++ "." ++ toString f.id
  | .dropConstraint t f => "DC" ++ toString t ++ "." ++ toString f.id
  | .dropTable t => "DT" ++ toString t

def showOps (l : List Op) : String :=
  if l.isEmpty then "-" else " ".intercalate (l.map showOp)

def showDB (db : DB) : String :=
  "# tables=" ++ showNatList (sortNats db.tables) ++ " fks=" ++ showRefs db.fks
    ++ " idx=" ++ showPairs (sortPairs db.idx)

/-- run ops one by one; `inr k` = op number k was rejected (state before it is kept) -/
def runCount (strict : Bool) : DB → List Op → Nat → DB × Option Nat
  | db, [], _ => (db, none)
  | db, o :: os, k =>
    match (if strict then exec db o else execLenient db o) with
    | none => (db, some k)
    | some db' => runCount strict db' os (k + 1)

inductive Step where
  | create (cf : Bool) (sub : Option (List Nat))
  | drop (cf : Bool) (sub : Option (List Nat))
  /-- out-of-band `DROP TABLE t CASCADE` typed by hand: the table, its constraints and
      every constraint referencing it disappear -/
  | manual (t : Nat)

def parseStep? (s : String) : Option Step :=
  match s.splitOn ":" with
  | ["X", t] => t.toNat?.map Step.manual
  | [h, sub] => do
    let subset ← if sub == "*" then some none else (parseNatList? sub).map some
    if h == "C0" then pure (.create false subset)
    else if h == "C1" then pure (.create true subset)
    else if h == "D0" then pure (.drop false subset)
    else if h == "D1" then pure (.drop true subset)
    else none
  | _ => none

/-- the `tables=` argument: the given Table objects in the given order -/
def selectTables (tables : List Tbl) : Option (List Nat) → Option (List Tbl)
  | none => some tables
  | some l => l.mapM (lookup tables)

def runScript (sa : Bool) (tables : List Tbl) :
    List Step → DB → List FkRef → List String → Option (List String)
  | [], db, _, acc => some (acc ++ [showDB db])
  | st :: rest, db, disabled, acc =>
    match st with
    | .manual t =>
      let db' : DB := { tables := db.tables.filter (· != t),
                        fks := db.fks.filter (fun r => r.1 != t && r.2.ref != t),
                        idx := db.idx.filter (fun r => r.1 != t) }
      runScript sa tables rest db' disabled (acc ++ ["X"])
    | .create cf sub =>
      match selectTables tables sub with
      | none => none
      | some tbls =>
        match createAll sa cf db.tables disabled tbls with
        | none => runScript sa tables rest db disabled (acc ++ ["circular"])
        | some (ops, dis') =>
          match runCount sa db ops 0 with
          | (db', none) => runScript sa tables rest db' dis' (acc ++ [showOps ops])
          | (db', some k) => some (acc ++ [showOps ops ++ " !" ++ toString k, showDB db'])
    | .drop cf sub =>
      match selectTables tables sub with
      | none => none
      | some tbls =>
        match dropAll sa cf db.tables tbls with
        | none => runScript sa tables rest db disabled (acc ++ ["circular"])
        | some ops =>
          match runCount sa db ops 0 with
          | (db', none) => runScript sa tables rest db' disabled (acc ++ [showOps ops])
          | (db', some k) => some (acc ++ [showOps ops ++ " !" ++ toString k, showDB db'])

def handle : List String → String
  | ["sort", flt, tables] =>
    match parseTables? tables with
    | none => "bad-op"
    | some ts =>
      let f? : Option Filter :=
        if flt == "create" then some fltCreate
        else if flt == "drop1" then some (fltDrop true)
        else if flt == "drop0" then some (fltDrop false)
        else none
      match f? with
      | none => "bad-op"
      | some f =>
        match sortTC f [] ts with
        | none => "circular"
        | some s => "ok " ++ showNatList s.order ++ " | " ++ showRefs s.remaining
  | ["sortedtables", tables] =>
    match parseTables? tables with
    | none => "bad-op"
    | some ts =>
      match sortTables ts with
      | none => "circular"
      | some o => "ok " ++ showNatList o
  | ["script", sa, tables, steps] =>
    match parseBool? sa, parseTables? tables, (steps.splitOn ";").mapM parseStep? with
    | some sa, some ts, some sts =>
      match runScript sa ts sts DB.empty [] [] with
      | none => "bad-op"
      | some out => " ## ".intercalate out
    | _, _, _ => "bad-op"
  | _ => "bad-op"

end SaVerif.Drv.Ddl
