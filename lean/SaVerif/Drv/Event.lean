import SaVerif.Model.Event
import SaVerif.Drv.Parse
namespace SaVerif.Drv.Event
open SaVerif.Drv SaVerif.Event

def parseBool? (s : String) : Option Bool :=
  if s == "1" then some true else if s == "0" then some false else none

def parseTarget? (s : String) : Option Target :=
  if s.startsWith "c" then ((s.drop 1).toString.toNat?).map Target.cls
  else if s.startsWith "i" then ((s.drop 1).toString.toNat?).map Target.inst
  else none

/-- `L:<target>:<fn>:<insert>:<wrap>` `R:<target>:<fn>` `S:<parent>` `N:<cls>` `F:<inst>` -/
def parseOp? (nFns : Nat) (tok : String) : Option Op :=
  match tok.splitOn ":" with
  | ["L", t, fn, ins, wrap] => do
    let t ← parseTarget? t
    let fn ← fn.toNat?
    let ins ← parseBool? ins
    let wrap ← wrap.toNat?
    if fn < nFns ∧ wrap ≤ 2 then some (.listen t fn ins wrap) else none
  | ["R", t, fn] => do
    let t ← parseTarget? t
    let fn ← fn.toNat?
    if fn < nFns then some (.remove t fn) else none
  | ["S", p] => p.toNat?.map .subclass
  | ["N", c] => c.toNat?.map .newinst
  | ["F", i] => i.toNat?.map .fire
  | _ => none

def showOut : Out → String
  | .done => "done"
  | .calls fns => "calls:" ++ showNatList fns
  | .noSuchListener => "err:no-such-listener"
  | .valueError => "err:value-error"
  | .badTarget => "err:bad-target"

/-- `run <nFns> <ops>` -/
def handle : List String → String
  | ["run", nFns, ops] =>
    match nFns.toNat? with
    | some n =>
      match (if ops == "-" then some [] else (ops.splitOn ",").mapM (parseOp? n)) with
      | some ops => ";".intercalate ((run (init n) ops).2.map showOut)
      | none => "bad-op"
    | none => "bad-op"
  | _ => "bad-op"

end SaVerif.Drv.Event
