import SaVerif.Model.Backref
import SaVerif.Drv.Parse
namespace SaVerif.Drv.Backref
open SaVerif.Drv SaVerif.Backref

/-!
`backref run <nparents> <nchildren> <ops>`
ops `;`-separated: sp:c:p (p = `N` for None)  app:p:c  rem:p:c  pop:p:i  del:p:i  set:p:i:c
                   rep:p:list (`.`-separated, `e` = empty)  clr:p
response per op: `ok|value|index` `/` kids of each parent (`,`-separated, members by `.`, `e` = empty)
`~` parent of each child (`.`-separated, `N` = None); ops joined by `|`
-/

def parseL? (s : String) : Option (List Nat) :=
  if s == "e" then some [] else (s.splitOn ".").mapM (·.toNat?)

def parseOp? (s : String) : Option Op :=
  match s.splitOn ":" with
  | ["sp", c, p] => do
    let c ← c.toNat?
    if p == "N" then pure (.setParent c none) else pure (.setParent c (some (← p.toNat?)))
  | ["app", p, c] => do pure (.append (← p.toNat?) (← c.toNat?))
  | ["rem", p, c] => do pure (.remove (← p.toNat?) (← c.toNat?))
  | ["pop", p, i] => do pure (.pop (← p.toNat?) (← i.toInt?))
  | ["del", p, i] => do pure (.delItem (← p.toNat?) (← i.toInt?))
  | ["set", p, i, c] => do pure (.setItem (← p.toNat?) (← i.toInt?) (← c.toNat?))
  | ["rep", p, l] => do pure (.replace (← p.toNat?) (← parseL? l))
  | ["clr", p] => p.toNat?.map .clear
  | _ => none

def showL (l : List Nat) : String := if l.isEmpty then "e" else ".".intercalate (l.map toString)

def showSt (st : St) (np nc : Nat) : String :=
  ",".intercalate ((List.range np).map (fun p => showL (st.kids p))) ++ "~" ++
  ".".intercalate ((List.range nc).map (fun c => match st.par c with | none => "N" | some p => toString p))

def runShow (np nc : Nat) : St → List Op → List String
  | _, [] => []
  | st, op :: ops =>
    let (st1, e) := step st op
    let o := match e with | none => "ok" | some .valueError => "value" | some .indexError => "index"
    (o ++ "/" ++ showSt st1 np nc) :: runShow np nc st1 ops

def handle : List String → String
  | ["run", np, nc, ops] =>
    match np.toNat?, nc.toNat?, (if ops == "-" then some [] else (ops.splitOn ";").mapM parseOp?) with
    | some np, some nc, some ops =>
      let out := runShow np nc init ops
      if out.isEmpty then "-" else "|".intercalate out
    | _, _, _ => "bad-op"
  | _ => "bad-op"

end SaVerif.Drv.Backref
