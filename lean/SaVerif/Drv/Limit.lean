import SaVerif.Model.Limit
import SaVerif.Gen.LimitForms
import SaVerif.Drv.Parse
namespace SaVerif.Drv.Limit
open SaVerif.Drv SaVerif.Limit

def parseOptNat? (s : String) : Option (Option Nat) :=
  if s == "N" then some none else s.toNat?.map some

def parseBool? (s : String) : Option Bool :=
  if s == "1" then some true else if s == "0" then some false else none

def showForm : Form → String
  | .none => "none" | .limitOffset => "limitOffset" | .mysqlLimit => "mysqlLimit"
  | .offsetFetch => "offsetFetch" | .top => "top" | .rowNumber => "rowNumber"
  | .rownum => "rownum" | .error => "error"

/-- the rows a form yields for offset `o` / limit `l` as the dialect renders them -/
def evalForm (form : String) (o l : Option Nat) (rows : List Nat) : Option (List Nat) :=
  match form with
  | "none" => some rows
  | "limitOffset" =>
    -- no limit: SQLite `LIMIT -1`, PostgreSQL `LIMIT ALL`
    some (limitOffset (match l with | none => some (-1) | some n => some (n : Int)) (o.getD 0) rows)
  | "mysqlLimit" =>
    some (mysqlLimit (o.getD 0) (l.getD 18446744073709551615) rows)
  | "offsetFetch" => some (offsetFetch (o.getD 0) l rows)
  | "top" => match o, l with
    | none, some n => some (top n rows)
    | _, _ => none
  | "rowNumber" => some (sortNats (rowNumberWrapper o l (numbered rows)))
  | "rownum" => some (rownumWrapper o l rows)
  | _ => none

/--
* `slice <off> <lim|N> <n>`
* `form <name> <off|N> <lim|N> <n>`
* `lookup <dialect> <hasLimit> <hasOffset> <isFetch> <simple>`
* `ties <off> <lim> <keys>`     positions returned by FETCH FIRST lim ROWS WITH TIES
* `percent <n> <p>`
-/
def handle : List String → String
  | ["slice", o, l, n] =>
    match o.toNat?, parseOptNat? l, n.toNat? with
    | some off, some lim, some k => "ok " ++ showNatList (slice off lim (List.range k))
    | _, _, _ => "bad-op"
  | ["sliceafter", k, a, b, n] =>
    -- rows[k:][a:b] as the limit/offset pair _make_slice must produce: offset k+a, limit b-a
    match k.toNat?, a.toNat?, parseOptNat? b, n.toNat? with
    | some off, some start, some stop, some cnt =>
      "ok " ++ showNatList (slice (off + start) (stop.map (· - start)) (List.range cnt))
    | _, _, _, _ => "bad-op"
  | ["form", f, o, l, n] =>
    match parseOptNat? o, parseOptNat? l, n.toNat? with
    | some off, some lim, some k =>
      match evalForm f off lim (List.range k) with
      | some r => "ok " ++ showNatList r
      | none => "bad-op"
    | _, _, _ => "bad-op"
  | ["lookup", d, a, b, c, e] =>
    match parseBool? a, parseBool? b, parseBool? c, parseBool? e with
    | some hl, some ho, some isf, some simple =>
      match Gen.LimitForms.rows.find? (fun r => r.dialect == d && r.hasLimit == hl && r.hasOffset == ho
          && r.isFetch == isf && r.simple == simple) with
      | some r => "ok " ++ showForm r.form
      | none => "unknown"
    | _, _, _, _ => "bad-op"
  | ["ties", o, l, ks] =>
    match o.toNat?, l.toNat?, parseIntList? ks with
    | some off, some lim, some keys =>
      "ok " ++ showNatList ((withTies (fun (x : Int × Nat) => x.1) off lim (keys.zipIdx)).map (·.2))
    | _, _, _ => "bad-op"
  | ["tiescount", o, l, t, ks] =>
    -- number of rows of FETCH FIRST l ROWS {ONLY | WITH TIES} after OFFSET o over sorted keys
    match o.toNat?, l.toNat?, parseIntList? ks with
    | some off, some lim, some keys =>
      if t == "1" then "ok " ++ toString ((withTies (fun (x : Int × Nat) => x.1) off lim (keys.zipIdx)).length)
      else "ok " ++ toString ((slice off (some lim) keys).length)
    | _, _, _ => "bad-op"
  | ["percent", n, p] =>
    match n.toNat?, p.toNat? with
    | some a, some b => "ok " ++ toString (percentCount a b)
    | _, _ => "bad-op"
  | _ => "bad-op"

end SaVerif.Drv.Limit
