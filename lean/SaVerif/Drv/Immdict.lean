import SaVerif.Model.ImmDict
import SaVerif.Drv.Parse
/-!
Sub-driver for the immutabledict model.

`immdict union <self> <others>`   self = `1:2,3:4` | `-`
                                  others = `-` (no argument) or `;`-separated: `N` None,
                                  `I<kv>` an immutabledict, `O<kv>` another mapping (`I` = empty)
   → `self <kv>` | `arg<i> <kv>` | `fresh <kv>`      (which object is returned + its items)
`immdict or <self> O<kv>|X`  /  `immdict ror <self> O<kv>|X`   (X = a non-dict operand)
   → `fresh <kv>` | `E:TypeError`
-/
namespace SaVerif.Drv.Immdict
open SaVerif.Drv SaVerif.Coll

def parsePairC? (s : String) : Option (Nat × Nat) :=
  match s.splitOn ":" with
  | [a, b] => do let x ← a.toNat?; let y ← b.toNat?; pure (x, y)
  | _ => none

def parseKV? (s : String) : Option KV :=
  if s == "-" || s.isEmpty then some [] else (s.splitOn ",").mapM parsePairC?

/-- a dict cannot hold a key twice: reject -/
def kvOk (d : KV) : Bool := (d.map (·.1)).eraseDups.length == d.length

def showKV (d : KV) : String :=
  if d.isEmpty then "-" else ",".intercalate (d.map (fun e => toString e.1 ++ ":" ++ toString e.2))

def parseDArg? (s : String) : Option DArg :=
  if s == "N" then some .none else
  let body := (s.drop 1).toString
  match s.toList.head? with
  | some 'I' => do let d ← parseKV? body; if kvOk d then pure (.imm d) else none
  | some 'O' => do let d ← parseKV? body; if kvOk d then pure (.other d) else none
  | _ => none

def parseDArgs? (s : String) : Option (List DArg) :=
  if s == "-" then some [] else (s.splitOn ";").mapM parseDArg?

def handle : List String → String
  | ["union", self, others] =>
    match parseKV? self, parseDArgs? others with
    | some d, some os =>
      if !kvOk d then "bad-op" else
      let r := unionOther d os
      let which := match r with
        | .self => "self"
        | .arg i => "arg" ++ toString i
        | .fresh _ => "fresh"
      which ++ " " ++ showKV (r.value d os)
    | _, _ => "bad-op"
  | [cmd, self, other] =>
    if cmd != "or" && cmd != "ror" then "bad-op" else
    match parseKV? self with
    | none => "bad-op"
    | some d =>
      if !kvOk d then "bad-op" else
      let o : Option (Option KV) :=
        if other == "X" then some none
        else match parseDArg? other with
          | some (.other kv) => some (some kv)
          | some (.imm kv) => some (some kv)
          | _ => none
      match o with
      | none => "bad-op"
      | some o =>
        match (if cmd == "or" then orOp d o else rorOp d o) with
        | some r => "fresh " ++ showKV r
        | none => "E:TypeError"
  | _ => "bad-op"

end SaVerif.Drv.Immdict
