import SaVerif.Model.Txn
import SaVerif.Drv.Parse
/-!
Sub-driver for M-TXN.

  txn run <reset> <ops>      reset ∈ {rollback, commit, none};  ops separated by `;`

op tokens
  b n C R X          begin / begin_nested / conn.commit / conn.rollback / conn.close
  i<k> d<k> q        INSERT k / DELETE k / SELECT
  c<h> r<h> x<h>     handle h .commit() / .rollback() / .close()
  e<h> o<h> f<h>     handle h .__enter__() / .__exit__(None…) / .__exit__(exc…)
  I                  conn.invalidate()
  F<p><k>            arm fault: p ∈ {u cursor, x execute, c commit, r rollback}, k ∈ {e, d}
                     (`Fue`: the statement fails before autobegin, the handler emits its autorollback)
  D                  clear armed faults that did not fire
  W<n>               n extra connections opened and returned
  N                  new Connection (engine.connect())
  G                  garbage-collect the Connection without close()
  A                  execution_options(isolation_level="AUTOCOMMIT")

response: one record per op, separated by `|`; record fields separated by `/`:
  res / inTxn inNested closed invalidated / transaction / nested / ctxMgr / actives /
  committed / working / rid / idle / warns
-/
namespace SaVerif.Drv.Txn
open SaVerif.Drv SaVerif.Txn

def parseHandleOp (c : Char) (h : Nat) : Option Op :=
  match c with
  | 'c' => some (.tCommit h) | 'r' => some (.tRollback h) | 'x' => some (.tClose h)
  | 'e' => some (.enter h) | 'o' => some (.exitOk h) | 'f' => some (.exitExc h)
  | _ => none

def parseOp (s : String) : Option Op :=
  match s.toList with
  | ['b'] => some .begin | ['n'] => some .beginNested
  | ['C'] => some .commit | ['R'] => some .rollback | ['X'] => some .close
  | ['q'] => some (.exec .sel) | ['I'] => some .invalidate
  | ['D'] => some .disarm
  | ['N'] => some .connect | ['G'] => some .gc | ['A'] => some .autocommit
  | ['U'] => some .readUnc | ['L'] => some .logToken | ['O'] => some .otherOpt
  | ['L', 'A'] => some .tokenAuto
  | ['F', p, k] =>
    match (match p with | 'u' => some FPoint.cursor | 'x' => some .execute | 'c' => some .commit
                         | 'r' => some .rollback | 'n' => some .connect | _ => none),
          (match k with | 'e' => some FKind.err | 'd' => some .disc | 'k' => some .kbi | _ => none) with
    | some .cursor, some .kbi => none
    | some .execute, some .kbi => none
    | some .connect, some .kbi => none
    | some p, some k => some (.arm p k)
    | _, _ => none
  | c :: rest =>
    match (String.ofList rest).toNat? with
    | none => none
    | some k =>
      match c with
      | 'i' => some (.exec (.ins k)) | 'd' => some (.exec (.del k))
      | 'W' => if k ≤ 3 then some (.warm k) else none
      | _ => parseHandleOp c k
  | [] => none

/-- handle operands must name a transaction object that exists when the op runs -/
def opHandle? : Op → Option Nat
  | .tCommit h | .tRollback h | .tClose h | .enter h | .exitOk h | .exitExc h => some h
  | _ => none

def showRes : Res → String
  | .ok => "ok" | .invalidRequest => "IRE" | .pendingRollback => "PRE"
  | .resourceClosed => "RCE" | .integrity => "IE" | .operational => "OE" | .disconnect => "DISC"
  | .interrupted => "KBI"

def showOpt : Option Nat → String
  | some n => toString n | none => "N"

def b2s (b : Bool) : String := if b then "1" else "0"

def showIdle (l : List (Option Raw)) : String :=
  if l.isEmpty then "-" else ",".intercalate (l.map (fun r => match r with | some r => toString r.rid | none => "N"))

def showState (r : Res) (c : Conn) (sel : Option Data) : String :=
  "/".intercalate [
    showRes r ++ (match sel with | some d => ":" ++ showNatList (sortNats d) | none => ""),
    b2s c.inTransaction ++ b2s c.inNested ++ b2s c.closed ++ b2s c.invalidated,
    showOpt c.transaction, showOpt c.nested, showOpt c.ctxMgr,
    (if c.txns.isEmpty then "-" else String.join (c.txns.map (fun t => b2s t.active))),
    showNatList (sortNats c.db.committed),
    (if c.zombie then "DEAD" else if c.hasDbapi then showNatList (sortNats c.db.raw.working) else "x"),
    (if c.zombie then toString c.db.raw.rid ++ "!"
     else if c.hasDbapi then toString c.db.raw.rid ++ (if c.db.raw.autocommit then "a" else "")
        ++ (if c.db.raw.autocommit && !c.db.raw.saves.isEmpty then "t" else "")
        ++ (if c.db.raw.readUnc then "u" else "") else "x"),
    showIdle c.db.idle,
    toString c.warns ]

/-- `gone`: the Connection was garbage collected; only `N` (and environment ops) may follow -/
def runOps : Bool → Conn → List Op → Option (List String)
  | _, _, [] => some []
  | gone, c, op :: ops =>
    let allowed := match op with
      | .connect | .arm _ _ | .disarm => true
      | _ => !gone
    let handleOk := (match opHandle? op with
      | some h => decide (h < c.txns.length)
      | none => true) &&
      -- a fresh checkout must not meet an armed connect fault (engine.connect() would raise)
      (match op with
       | .connect | .warm _ => !(c.db.faults.any (fun f => f.1 == FPoint.connect))
       | _ => true)
    if !allowed || !handleOk then none else
    let (c', r) := c.step op
    let sel := match op, r with
      | .exec .sel, .ok => some c'.db.raw.working
      | _, _ => none
    let gone' := match op with
      | .gc => true
      | .connect => false
      | _ => gone || r == .interrupted   -- after an interrupt the program only lets go of the Connection
    match runOps gone' c' ops with
    | some rest => some (showState r c' sel :: rest)
    | none => none

def parseReset : String → Option ResetStyle
  | "rollback" => some .rollback | "commit" => some .commit | "none" => some .none
  | _ => none

def parseListener : String → Option Listener
  | "none" => some .none | "force" => some .forceDisc | "nopool" => some .noPoolInval
  | _ => none

def parseEngineOpts : String → Option (List Bool)
  | "none" => some [] | "token" => some [false] | "auto" => some [true]
  | "token+auto" => some [false, true]
  | _ => none

def parseRecycle (s : String) : Option (Option Nat) :=
  if s == "none" then some none else s.toNat?.map some

def runAll (rs : ResetStyle) (ls : Listener) (ops : String) (eo : List Bool := [])
    (rc : Option Nat := none) (skipAc : Bool := false) : String :=
  match (if ops == "-" then some [] else (ops.splitOn ";").mapM parseOp) with
  | some ops =>
    match runOps false (Conn.connect (DB.init rs ls eo rc skipAc)) ops with
    | some out => if out.isEmpty then "-" else "|".intercalate out
    | none => "bad-op"
  | none => "bad-op"

/-- `run <reset> <ops>` (no handle_error listener), `runl <reset> <listener> <ops>`,
    `rune <reset> <engine-opts> <ops>` -/
def handle : List String → String
  | ["run", reset, ops] =>
    match parseReset reset with
    | some rs => runAll rs .none ops
    | none => "bad-op"
  | ["rune", reset, eo, ops] =>
    match parseReset reset, parseEngineOpts eo with
    | some rs, some eo => runAll rs .none ops eo
    | _, _ => "bad-op"
  | ["runc", reset, listener, recycle, ops] =>
    match parseReset reset, parseListener listener, parseRecycle recycle with
    | some rs, some ls, some rc => runAll rs ls ops [] rc
    | _, _, _ => "bad-op"
  | ["runs", reset, eo, ops] =>       -- engine with skip_autocommit_rollback=True
    match parseReset reset, parseEngineOpts eo with
    | some rs, some eo => runAll rs .none ops eo none true
    | _, _ => "bad-op"
  | ["runl", reset, listener, ops] =>
    match parseReset reset, parseListener listener with
    | some rs, some ls => runAll rs ls ops
    | _, _ => "bad-op"
  | _ => "bad-op"

end SaVerif.Drv.Txn
