import SaVerif.Model.Bind
import SaVerif.Lemmas.Bind
import SaVerif.Drv.Parse
namespace SaVerif.Drv.Bind
open SaVerif.Drv SaVerif.Bind

/-!
`bind scan <both|a|b> <s:str>`                       → tokens: `s:lits`, `A(s:name)`, `B(s:name|s:grp)`, `B(s:name|N)` joined by `,`
`bind stage1 <style> <s:pre> <binds> <esc> <vb>`     → `ok <s:string> <strlist|N> <next>` | `err <kind>`
`bind run <style> <s:pre> <binds> <esc> <vb> <params>` → `ok <s:stmt> T <vals>` | `ok <s:stmt> D <k=v,…>` | `err <kind>`
`bind safe <style> <s:pre> <binds>`                  → handled in Drv/BindGuard (Props-free guard evaluation)

binds  = `-` | `<s:name>/<p|e|l|x>/<s:empty>,…`
esc    = `-` | `<s:k>><s:v>,…`
vb     = `N` | strlist
params = `-` | `<s:name>=<val>,…`      val = `<s:v>` | `[<s:v>;<s:v>…]` | `[]`
-/

def str? (s : String) : Option Str := (parseStr? s).map String.toList
def showS (s : Str) : String := showStr (String.ofList s)

def parseMode? : String → Option Mode
  | "both" => some .both | "a" => some .onlyA | "b" => some .onlyB | _ => none

def parseStyle? : String → Option Style
  | "qmark" => some .qmark | "format" => some .format | "numeric" => some .numeric
  | "numeric_dollar" => some .numericDollar | "named" => some .named
  | "pyformat" => some .pyformat | _ => none

def parseKind? : String → Option Kind
  | "p" => some .plain | "e" => some .expanding | "l" => some .litExec
  | "x" => some .litExecExp | _ => none

def parseBind? (s : String) : Option BindInfo :=
  match s.splitOn "/" with
  | [n, k, e] => do
    let n ← str? n; let k ← parseKind? k; let e ← str? e
    pure { name := n, kind := k, emptyExpr := e }
  | _ => none

def parseBinds? (s : String) : Option (List BindInfo) :=
  if s == "-" then some [] else (s.splitOn ",").mapM parseBind?

def parseEsc? (s : String) : Option (List (Str × Str)) :=
  if s == "-" then some [] else
  (s.splitOn ",").mapM (fun p =>
    match p.splitOn ">" with
    | [a, b] => do let a ← str? a; let b ← str? b; pure (a, b)
    | _ => none)

def parseVb? (s : String) : Option (Option (List Str)) :=
  if s == "N" then some none else
  (parseStrList? s).map (fun l => some (l.map String.toList))

def parseVal? (s : String) : Option PVal :=
  if s == "[]" then some (.many [])
  else if s.startsWith "[" && s.endsWith "]" then
    let body := ((s.drop 1).toString.dropEnd 1).toString
    ((body.splitOn ";").mapM str?).map PVal.many
  else (str? s).map PVal.one

def parseParams? (s : String) : Option (List (Str × PVal)) :=
  if s == "-" then some [] else
  (s.splitOn ",").mapM (fun p =>
    match p.splitOn "=" with
    | [a, b] => do let a ← str? a; let b ← parseVal? b; pure (a, b)
    | _ => none)

def showVal : PVal → String
  | .one v => showS v
  | .many [] => "[]"
  | .many vs => "[" ++ ";".intercalate (vs.map showS) ++ "]"

def showErr : Err → String
  | .assertion => "err assertion" | .keyError => "err key"
  | .typeError => "err type" | .indexError => "err index"

def showStrs (l : List Str) : String :=
  if l.isEmpty then "-" else ",".intercalate (l.map showS)

/-- group consecutive literal characters -/
def showToks (ts : List Tok) : String :=
  let rec go : List Tok → Str → List String → List String
    | [], acc, out => (if acc.isEmpty then out else (showS acc.reverse) :: out).reverse
    | .lit c :: r, acc, out => go r (c :: acc) out
    | .hit h :: r, acc, out =>
      let out := if acc.isEmpty then out else (showS acc.reverse) :: out
      let hs := match h with
        | .a n => "A(" ++ showS n ++ ")"
        | .b n none => "B(" ++ showS n ++ "|N)"
        | .b n (some g) => "B(" ++ showS n ++ "|" ++ showS g ++ ")"
      go r [] (hs :: out)
  let l := go ts [] []
  if l.isEmpty then "-" else ",".intercalate l

def insertSorted (x : String × String) : List (String × String) → List (String × String)
  | [] => [x]
  | y :: r => if x.1 < y.1 then x :: y :: r else y :: insertSorted x r

/-- regroup a token list into segments (literal runs become text) -/
def segsOfToks (m : Mode) : List Tok → Str → List Seg → List Seg
  | [], acc, out => (if acc.isEmpty then out else Seg.text acc.reverse :: out).reverse
  | .lit c :: r, acc, out => segsOfToks m r (c :: acc) out
  | .hit h :: r, acc, out =>
    let out := if acc.isEmpty then out else Seg.text acc.reverse :: out
    let sg := match h with
      | .a n => Seg.bind n
      | .b n g => Seg.pc n g
    segsOfToks m r [] (sg :: out)

def handle : List String → String
  | ["safe", m, s] =>
    -- does the NoPattern guard of the alignment theorems hold for this real string?
    match parseMode? m, str? s with
    | some m, some s =>
      let segs := segsOfToks m (tokens m s) [] []
      if renderSegs segs == s && decide (SafeSegs m segs) then "safe" else "unsafe"
    | _, _ => "bad-op"
  | ["scan", m, s] =>
    match parseMode? m, str? s with
    | some m, some s => showToks (tokens m s)
    | _, _ => "bad-op"
  | ["stage1", st, pre, binds, esc, vb] =>
    match parseStyle? st, str? pre, parseBinds? binds, parseEsc? esc, parseVb? vb with
    | some st, some pre, some binds, some esc, some vb =>
      let c : Compiled := { pre := pre, binds := binds, escaped := esc, valuesBind := vb }
      match stage1 c st with
      | .error e => showErr e
      | .ok s1 =>
        "ok " ++ showS s1.string ++ " " ++
          (match s1.positiontup with | none => "N" | some pt => showStrs pt) ++ " " ++
          toString s1.nextNumericPos
    | _, _, _, _, _ => "bad-op"
  | ["run", st, pre, binds, esc, vb, params] =>
    match parseStyle? st, str? pre, parseBinds? binds, parseEsc? esc, parseVb? vb,
          parseParams? params with
    | some st, some pre, some binds, some esc, some vb, some params =>
      let c : Compiled := { pre := pre, binds := binds, escaped := esc, valuesBind := vb }
      -- the request lists one entry per bind object; construct_params returns a dict
      match initCompiled c st (adict params) with
      | .error e => showErr e
      | .ok (stmt, .tuple vs) =>
        "ok " ++ showS stmt ++ " T " ++
          (if vs.isEmpty then "-" else ",".intercalate (vs.map showVal))
      | .ok (stmt, .dict kv) =>
        let items := kv.foldl (fun acc p => insertSorted (showS p.1, showVal p.2) acc) []
        "ok " ++ showS stmt ++ " D " ++
          (if items.isEmpty then "-" else ",".intercalate (items.map (fun p => p.1 ++ "=" ++ p.2)))
    | _, _, _, _, _, _ => "bad-op"
  | _ => "bad-op"

end SaVerif.Drv.Bind
