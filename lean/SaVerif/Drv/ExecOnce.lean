import SaVerif.Model.ExecOnce
import SaVerif.Drv.Parse
namespace SaVerif.Drv.ExecOnce
open SaVerif.Drv SaVerif.ExecOnce

def parseBool? (s : String) : Option Bool :=
  if s == "1" then some true else if s == "0" then some false else none

def parseLabel? (tok : String) : Option (Nat × Label) :=
  match tok.splitOn ":" with
  | [t, "rdFlag", b] => do pure ((← t.toNat?), Label.rdFlag (← parseBool? b))
  | [t, "rdMutex", "N"] => t.toNat?.map (·, Label.rdMutex none)
  | [t, "rdMutex", m] => do pure ((← t.toNat?), Label.rdMutex (some (← m.toNat?)))
  | [t, "rdMutexRet", m] => do pure ((← t.toNat?), Label.rdMutexRet (← m.toNat?))
  | [t, "mk", m] => do pure ((← t.toNat?), Label.mk (← m.toNat?))
  | [t, "asg"] => t.toNat?.map (·, Label.asg)
  | [t, "init", m] => do pure ((← t.toNat?), Label.init (← m.toNat?))
  | [t, "acq"] => t.toNat?.map (·, Label.acq)
  | [t, "rdFlag2", b] => do pure ((← t.toNat?), Label.rdFlag2 (← parseBool? b))
  | [t, "ret"] => t.toNat?.map (·, Label.ret)
  | [t, "setFlag"] => t.toNat?.map (·, Label.setFlag)
  | [t, "rel"] => t.toNat?.map (·, Label.rel)
  | _ => none

/-- `run <atomicInit 0|1> <nthreads> <labels>` -> `ok runs=<n> flag=<b> held=<k>` | `reject <i>` -/
def handle : List String → String
  | ["run", a, n, labels] =>
    match parseBool? a, n.toNat?, (if labels == "-" then some [] else (labels.splitOn ",").mapM parseLabel?) with
    | some a, some n, some ls =>
      let rec go (s : State) (ls : List (Nat × Label)) (i : Nat) : String :=
        match ls with
        | [] => s!"ok runs={s.runs} flag={s.flag} held={s.held.length}"
        | (t, l) :: rest =>
          match step a s t l with
          | some s' => go s' rest (i + 1)
          | none => s!"reject {i}"
      go (init n) ls 0
    | _, _, _ => "bad-op"
  | _ => "bad-op"

end SaVerif.Drv.ExecOnce
