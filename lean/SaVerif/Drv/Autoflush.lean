import SaVerif.Model.Autoflush
import SaVerif.Drv.Parse
namespace SaVerif.Drv.Autoflush
open SaVerif.Drv SaVerif.Autoflush

def parseKey? (t i : String) : Option Key := do pure ⟨← t.toNat?, ← i.toNat?⟩

def parseOptNat? (s : String) : Option (Option Nat) :=
  if s == "N" then some none else s.toNat?.map some

def parseMode? (s : String) : Option AfMode :=
  if s == "on" then some .on else if s == "opt" then some .optOff else if s == "ctx" then some .ctxOff else none

def parseQ? : List String → Option Q
  | ["all", t] => do pure (.all (← t.toNat?))
  | ["a", t, v] => do pure (.byA (← t.toNat?) (← v.toInt?))
  | ["pid", p] => do pure (.byPid (← p.toNat?))
  | ["join", v] => do pure (.joinA (← v.toInt?))
  | _ => none

def parseOp? (tok : String) : Option Op :=
  match tok.splitOn ":" with
  | ["add", t, i, a, p] => do pure (.add (← parseKey? t i) ⟨← a.toInt?, ← parseOptNat? p⟩)
  | ["seta", t, i, v] => do pure (.setA (← parseKey? t i) (← v.toInt?))
  | ["setp", t, i, p] => do pure (.setPid (← parseKey? t i) (← parseOptNat? p))
  | ["del", t, i] => do pure (.del (← parseKey? t i))
  | "q" :: m :: rest => do pure (.query (← parseQ? rest) (← parseMode? m))
  | "cnt" :: m :: rest => do pure (.count (← parseQ? rest) (← parseMode? m))
  | "core" :: m :: rest => do pure (.core (← parseQ? rest) (← parseMode? m))
  | "lq" :: m :: rest => do pure (.legacy (← parseQ? rest) (← parseMode? m))
  | "lcnt" :: m :: rest => do pure (.legacyCount (← parseQ? rest) (← parseMode? m))
  | ["get", m, t, i] => do pure (.get (← parseKey? t i) (← parseMode? m))
  | ["kids", m, p] => do pure (.children (← p.toNat?) (← parseMode? m))
  | ["flush"] => some .flush
  | ["commit"] => some .commit
  | _ => none

def parseOps? (s : String) : Option (List Op) :=
  if s == "-" then some [] else (s.splitOn ",").mapM parseOp?

def showOut : Out → String
  | .skip => "-"
  | .done => "d"
  | .rows l => "[" ++ " ".intercalate (l.map (fun (i, a) => toString i ++ "=" ++ toString a)) ++ "]"
  | .ids l => "{" ++ " ".intercalate (l.map toString) ++ "}"
  | .num n => "#" ++ toString n
  | .obj none => "None"
  | .obj (some (a, d)) => "o" ++ toString a ++ (if d then "!" else "")
  | .integrity => "integrity"

/-- `run <n> <af> <ops>` -/
def handle : List String → String
  | ["run", n, af, ops] =>
    match n.toNat?, (if af == "1" then some true else if af == "0" then some false else none), parseOps? ops with
    | some n, some af, some os =>
      let c : Cfg := ⟨n, af⟩
      if os.all (opOk c) then ";".intercalate ((runOut c St.init os).map showOut) else "bad-op"
    | _, _, _ => "bad-op"
  | _ => "bad-op"

end SaVerif.Drv.Autoflush
