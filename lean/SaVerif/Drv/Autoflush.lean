import SaVerif.Model.Autoflush
import SaVerif.Drv.Parse
namespace SaVerif.Drv.Autoflush
open SaVerif.Drv SaVerif.Autoflush

def parseKey? (t i : String) : Option Key := do pure ⟨← t.toNat?, ← i.toNat?⟩

def parseOptNat? (s : String) : Option (Option Nat) :=
  if s == "N" then some none else s.toNat?.map some

def parseMode? (s : String) : Option AfMode :=
  if s == "on" then some .on else if s == "opt" then some .optOff else if s == "ctx" then some .ctxOff else none

def parseQ? : List String → Option Q
  | ["all", t] => do pure (.all (← t.toNat?))
  | ["a", t, v] => do pure (.byA (← t.toNat?) (← v.toInt?))
  | ["pid", p] => do pure (.byPid (← p.toNat?))
  | ["join", v] => do pure (.joinA (← v.toInt?))
  | _ => none

def parseKind? (s : String) : Option Kind :=
  if s == "q" then some .entity else if s == "cnt" then some .count
  else if s == "core" then some .core else if s == "ccnt" then some .coreCount
  else if s == "txt" then some .text else if s == "tcnt" then some .textCount
  else if s == "ex" then some .existsSel else if s == "exs" then some .existsDot
  else if s == "lq" then some .legacy else if s == "lcnt" then some .legacyCount else none

def parseVia? (s : String) : Option Via :=
  if s == "execute" then some .execute else if s == "scalars" then some .scalars
  else if s == "scalar" then some .scalar else if s == "all" then some .qAll
  else if s == "first" then some .qFirst else if s == "one" then some .qOne
  else if s == "count" then some .qCount else none

def parseOp? (tok : String) : Option Op :=
  match tok.splitOn ":" with
  | ["add", t, i, a, p] => do pure (.add (← parseKey? t i) ⟨← a.toInt?, ← parseOptNat? p⟩)
  | ["seta", t, i, v] => do pure (.setA (← parseKey? t i) (← v.toInt?))
  | ["setp", t, i, p] => do pure (.setPid (← parseKey? t i) (← parseOptNat? p))
  | ["del", t, i] => do pure (.del (← parseKey? t i))
  | ["get", m, t, i] => do pure (.get (← parseKey? t i) (← parseMode? m))
  | ["kids", m, p] => do pure (.children (← p.toNat?) (← parseMode? m))
  | ["flush"] => some .flush
  | ["commit"] => some .commit
  | kind :: m :: via :: rest =>
    -- <kind>:<mode>:<entry point>:<query…>
    match parseKind? kind, parseVia? via with
    | some k, some v => do pure (.read k v (← parseQ? rest) (← parseMode? m))
    | _, _ => none
  | _ => none

def parseOps? (s : String) : Option (List Op) :=
  if s == "-" then some [] else (s.splitOn ",").mapM parseOp?

def showVal : Val → String
  | .ent i a => toString i ++ "=" ++ toString a
  | .id i => toString i
  | .num n => "#" ++ toString n
  | .flag b => if b then "T" else "F"

def showOut : Out → String
  | .skip => "-"
  | .done => "d"
  | .list l => "[" ++ " ".intercalate (l.map showVal) ++ "]"
  | .one none => "None"
  | .one (some v) => "(" ++ showVal v ++ ")"
  | .multi => "multi"
  | .obj none => "None"
  | .obj (some (a, d)) => "o" ++ toString a ++ (if d then "!" else "")
  | .integrity => "integrity"

/-- `run <n> <af> <ops>` -/
def handle : List String → String
  | ["run", n, af, ops] =>
    match n.toNat?, (if af == "1" then some true else if af == "0" then some false else none), parseOps? ops with
    | some n, some af, some os =>
      let c : Cfg := ⟨n, af⟩
      if os.all (opOk c) then ";".intercalate ((runOut c St.init os).map showOut) else "bad-op"
    | _, _, _ => "bad-op"
  | _ => "bad-op"

end SaVerif.Drv.Autoflush
