import SaVerif.Model.Upsert
import SaVerif.Model.Imv
import SaVerif.Drv.Parse
namespace SaVerif.Drv.Upsert
open SaVerif.Drv SaVerif.Upsert

def parseVal? (s : String) : Option Val :=
  if s == "N" then some none else s.toInt?.map some

def parseRow? (s : String) : Option Row :=
  if s == "_" then some [] else (s.splitOn ",").mapM parseVal?

def parseRows? (s : String) : Option (List Row) :=
  if s == "-" then some [] else (s.splitOn ";").mapM parseRow?

/-- postfix expression, tokens separated by `_`: `k5` `kN` const, `e1` excluded, `o1`
    existing, `b0` bound, `+` -/
def parseExpr? (s : String) : Option Expr :=
  let step (st : Option (List Expr)) (tok : String) : Option (List Expr) := do
    let stack ← st
    if tok == "+" then
      match stack with
      | b :: a :: rest => some (Expr.add a b :: rest)
      | _ => none
    else
      let body := (tok.drop 1).toString
      match (tok.take 1).toString with
      | "k" => (parseVal? body).map (fun v => Expr.const v :: stack)
      | "e" => body.toNat?.map (fun c => Expr.excluded c :: stack)
      | "o" => body.toNat?.map (fun c => Expr.existing c :: stack)
      | "b" => body.toNat?.map (fun c => Expr.bound c :: stack)
      | _ => none
  match (s.splitOn "_").foldl step (some []) with
  | some [e] => some e
  | _ => none

/-- `T` | `<:a:b` | `!:a:b` | `0:a` -/
def parseCond? (s : String) : Option Cond :=
  match s.splitOn ":" with
  | ["T"] => some .always
  | ["<", a, b] => do pure (.lt (← parseExpr? a) (← parseExpr? b))
  | ["!", a, b] => do pure (.ne (← parseExpr? a) (← parseExpr? b))
  | ["0", a] => do pure (.isNull (← parseExpr? a))
  | _ => none

/-- `N` | `U<c=expr&c=expr>?<cond>` -/
def parseAction? (s : String) : Option Action :=
  if s == "N" then some .nothing
  else if s.startsWith "U" then
    match ((s.drop 1).toString).splitOn "?" with
    | [set, w] => do
      let assigns ← (set.splitOn "&").mapM (fun a =>
        match a.splitOn "=" with
        | [c, e] => do pure ((← c.toNat?), (← parseExpr? e))
        | _ => none)
      pure (.update assigns (← parseCond? w))
    | _ => none
  else none

def parseCols? (s : String) : Option (List Nat) := (s.splitOn ".").mapM String.toNat?

/-- `target~action`, target `*` = none -/
def parseClause? (s : String) : Option Clause :=
  match s.splitOn "~" with
  | [t, a] => do
    let target ← if t == "*" then some none else (parseCols? t).map some
    pure { target := target, action := (← parseAction? a) }
  | _ => none

def parseClauses? (s : String) : Option (List Clause) :=
  if s == "-" then some [] else (s.splitOn "/").mapM parseClause?

def parseUniques? (s : String) : Option (List (List Nat)) :=
  if s == "-" then some [] else (s.splitOn "|").mapM parseCols?

/-- `row@binds` -/
def parseParam? (s : String) : Option Param :=
  match s.splitOn "@" with
  | [r, b] => do
    let row ← parseRow? r
    let binds ← if b == "-" then some [] else (b.splitOn ",").mapM parseVal?
    pure { row := row, binds := binds }
  | _ => none

def parseParams? (s : String) : Option (List Param) :=
  if s == "-" then some [] else (s.splitOn ";").mapM parseParam?

def showVal : Val → String
  | none => "N"
  | some n => toString n

def showRow (r : Row) : String := if r.isEmpty then "_" else ",".intercalate (r.map showVal)

def showRows (rows : List Row) : String :=
  if rows.isEmpty then "-" else ";".intercalate (rows.map showRow)

def showOuts (outs : List (Option Row)) : String :=
  if outs.isEmpty then "-" else
  ";".intercalate (outs.map (fun o => match o with | none => "x" | some r => showRow r))

/-- rows ordered by their first column (the primary key), as the harness reads them -/
def sortRows (rows : List Row) : List Row :=
  rows.foldl (fun acc r =>
    let k := (cell r 0).getD 0
    (acc.takeWhile (fun x => (cell x 0).getD 0 ≤ k)) ++ [r] ++ (acc.dropWhile (fun x => (cell x 0).getD 0 ≤ k))) []

def showTbl : Except Err (List Row × List (Option Row)) → String
  | .ok (tbl, _) => "ok tbl=" ++ showRows (sortRows tbl)
  | .error .constraint => "err constraint"

def showTblRet : Except Err (List Row × List (Option Row)) → String
  | .ok (tbl, outs) => "ok tbl=" ++ showRows (sortRows tbl) ++ " ret=" ++ showRows (outs.filterMap id)
  | .error .constraint => "err constraint"

def showResult : Except Err (List Row × List (Option Row)) → String
  | .ok (tbl, outs) => "ok tbl=" ++ showRows tbl ++ " ret=" ++ showOuts outs
  | .error .constraint => "err constraint"

/--
* `rows <uniques> <clauses> <table> <params>`         one statement per parameter set
* `batched <n> <uniques> <clauses> <table> <params>`  one statement per batch of `n`
* `usesbound <clauses>`                               has_upsert_bound_parameters
* `seq <set> <old> <new> <binds>`                     MySQL left-to-right assignment
-/
def handle : List String → String
  | ["rows", us, cs, tb, ps] =>
    match parseUniques? us, parseClauses? cs, parseRows? tb, parseParams? ps with
    | some u, some c, some t, some p => showResult (runRows ⟨u, c, [0]⟩ t p)
    | _, _, _, _ => "bad-op"
  | ["batched", n, us, cs, tb, ps] =>
    match n.toNat?, parseUniques? us, parseClauses? cs, parseRows? tb, parseParams? ps with
    | some k, some u, some c, some t, some p =>
      if k == 0 then "bad-op" else showResult (runBatched ⟨u, c, [0]⟩ t (SaVerif.Imv.chunk k p))
    | _, _, _, _, _ => "bad-op"
  | ["rowstbl", us, cs, tb, ps] =>
    match parseUniques? us, parseClauses? cs, parseRows? tb, parseParams? ps with
    | some u, some c, some t, some p => showTbl (runRows ⟨u, c, [0]⟩ t p)
    | _, _, _, _ => "bad-op"
  | ["rowsret", us, cs, tb, ps] =>
    match parseUniques? us, parseClauses? cs, parseRows? tb, parseParams? ps with
    | some u, some c, some t, some p => showTblRet (runRows ⟨u, c, [0]⟩ t p)
    | _, _, _, _ => "bad-op"
  | ["batchedtbl", n, us, cs, tb, ps] =>
    match n.toNat?, parseUniques? us, parseClauses? cs, parseRows? tb, parseParams? ps with
    | some k, some u, some c, some t, some p =>
      if k == 0 then "bad-op" else showTbl (runBatched ⟨u, c, [0]⟩ t (SaVerif.Imv.chunk k p))
    | _, _, _, _, _ => "bad-op"
  | ["batchedfixedtbl", n, us, cs, tb, ps] =>
    match n.toNat?, parseUniques? us, parseClauses? cs, parseRows? tb, parseParams? ps with
    | some k, some u, some c, some t, some p =>
      if k == 0 then "bad-op" else
      showTbl (runBatchedFixed ⟨u, c, [0]⟩ ((p.head?.map (·.binds)).getD []) t (SaVerif.Imv.chunk k p))
    | _, _, _, _, _ => "bad-op"
  | ["usesbound", cs] =>
    match parseClauses? cs with
    | some c => if stmtUsesBound ⟨[], c, []⟩ then "1" else "0"
    | none => "bad-op"
  | ["seq", a, old, new, b] =>
    match parseAction? a, parseRow? old, parseRow? new, (if b == "-" then some [] else (b.splitOn ",").mapM parseVal?) with
    | some (.update set _), some o, some nw, some binds =>
      "ok " ++ showRow (applySetSequential set o nw binds) ++ " " ++ showRow (applySet set o nw binds)
    | _, _, _, _ => "bad-op"
  | _ => "bad-op"

end SaVerif.Drv.Upsert
