import SaVerif.Model.Expire
import SaVerif.Drv.Parse
namespace SaVerif.Drv.Expire
open SaVerif.Drv SaVerif.Expire

def parseAttrs? (s : String) : Option (Option (List Nat)) :=
  if s == "*" then some none else ((s.splitOn "+").mapM (fun (t : String) => t.toNat?)).map some

def parseFilt? (s : String) : Option (Option (Nat × Int)) :=
  if s == "*" then some none else
  match s.splitOn "=" with
  | [a, v] => do pure (some ((← a.toNat?), (← v.toInt?)))
  | _ => none

/-- column subset of a query: `*` = every column, `-` = primary key only, else `a+b+…` -/
def parseCols? (s : String) : Option (Option (List Nat)) :=
  if s == "*" then some none else if s == "-" then some (some []) else parseAttrs? s

def parseBool? (s : String) : Option Bool :=
  if s == "0" then some false else if s == "1" then some true else none

def parseOp? (t : String) : Option Op :=
  match t.splitOn ":" with
  | ["r", k, a] => do pure (.read (← k.toNat?) (← a.toNat?))
  | ["s", k, a, v] => do pure (.set (← k.toNat?) (← a.toNat?) (← v.toInt?))
  | ["x", k, l] => do pure (.expire (← k.toNat?) (← parseAttrs? l))
  | ["X"] => some .expireAll
  | ["f", k, l] => do pure (.refresh (← k.toNat?) (← parseAttrs? l))
  | ["q", p, f, cl] => do pure (.query (← parseBool? p) (← parseFilt? f) (← parseCols? cl))
  | ["F"] => some .flush
  | ["c"] => some .commit
  | ["b"] => some .rollback
  | ["es", k, a, v] => do pure (.extSet (← k.toNat?) (← a.toNat?) (← v.toInt?))
  | ["ed", k] => do pure (.extDel (← k.toNat?))
  | ["ei", k, v] => do pure (.extIns (← k.toNat?) (← v.toInt?))
  | ["dt", k] => do pure (.detach (← k.toNat?))
  | ["at", k, m] => do pure (.attach (← k.toNat?) (← parseBool? m))
  | _ => none

def parseOps? (s : String) : Option (List Op) :=
  if s == "-" then some [] else (s.splitOn ",").mapM parseOp?

def showOut : Out → String
  | .skip => "-" | .done => "d" | .val v => "v" ++ toString v | .gone => "gone"
  | .norow => "norow" | .stale => "stale"

def showObj (c : Cfg) (o : Obj) : String :=
  ",".intercalate ((List.range c.nattr).map (fun a =>
    (match o.dict a with
     | some v => toString v
     | none => "N") ++ (if o.mod a then "*" else "")))

def showState (c : Cfg) (st : St) : String :=
  " ".intercalate ((List.range c.npk).map (fun k =>
    toString k ++ "=" ++
      (match st.objs k with
       | some o => (if o.pk then "+" else "-") ++ "[" ++ showObj c o ++ "]"
       | none => "none") ++ "/" ++
      (match st.rows k with
       | some r => "(" ++ ",".intercalate ((List.range c.nattr).map (fun a => toString (r a))) ++ ")"
       | none => "none")))

/-- `run <npk> <nattr> <af> <eoc> <ops>` -/
def handle : List String → String
  | ["run", npk, nattr, af, eoc, ops] =>
    match npk.toNat?, nattr.toNat?, parseBool? af, parseBool? eoc, parseOps? ops with
    | some n, some m, some af, some eoc, some os =>
      let c : Cfg := ⟨n, m, af, eoc⟩
      if os.all (opOk c) then
        ";".intercalate ((runOut c St.init os).map showOut) ++ " | " ++ showState c (run c St.init os)
      else "bad-op"
    | _, _, _, _, _ => "bad-op"
  | _ => "bad-op"

end SaVerif.Drv.Expire
