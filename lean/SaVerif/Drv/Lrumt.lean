import SaVerif.Model.LruMT
import SaVerif.Drv.Parse
import Std.Data.HashSet
/-!
Sub-driver for the multi-threaded LRUCache transition system.

`lrumt reach <cap> <num> <den> <progs> <rets> <data>`
   progs : threads separated by `|`, ops separated by `,`: `g<k>` (get) `s<k>.<v>` (set) `d<k>` (del); `-` = empty
   rets  : per thread (same separators) the results of its gets in program order: `<k>=<v>` | `<k>=N`
   data  : final dict `k=v,k=v` in dict order, `-` = empty
 → `yes <states>`  some interleaving ends (all threads finished) with exactly these results and
                   this final dict; `no <states>` otherwise; `limit` when the exploration budget
                   is exhausted first.
`lrumt count <cap> <num> <den> <progs>` → number of reachable states / distinct final outcomes
-/
namespace SaVerif.Drv.Lrumt
open SaVerif.Drv SaVerif.LruMT

def parseOp? (s : String) : Option MOp :=
  let body := (s.drop 1).toString
  match s.toList.head? with
  | some 'g' => body.toNat?.map .get
  | some 'd' => body.toNat?.map .del
  | some 's' => match body.splitOn "." with
    | [k, v] => do pure (.set (← k.toNat?) (← v.toNat?))
    | _ => none
  | _ => none

def parseProg? (s : String) : Option (List MOp) :=
  if s == "-" then some [] else (s.splitOn ",").mapM parseOp?

def parseProgs? (s : String) : Option (List (List MOp)) := (s.splitOn "|").mapM parseProg?

def parseRet? (s : String) : Option (Nat × Option Nat) :=
  match s.splitOn "=" with
  | [k, "N"] => do pure (← k.toNat?, none)
  | [k, v] => do pure (← k.toNat?, some (← v.toNat?))
  | _ => none

def parseRets? (s : String) : Option (List (List (Nat × Option Nat))) :=
  (s.splitOn "|").mapM (fun t => if t == "-" then some [] else (t.splitOn ",").mapM parseRet?)

def parseData? (s : String) : Option (List (Nat × Nat)) :=
  if s == "-" then some [] else (s.splitOn ",").mapM (fun e =>
    match e.splitOn "=" with
    | [k, v] => do pure (← k.toNat?, ← v.toNat?)
    | _ => none)

/-- what the harness observes of a finished run -/
def observe (s : MState) : List (List (Nat × Option Nat)) × List (Nat × Nat) :=
  (s.threads.map (fun th => th.rets.reverse), s.data.map (fun e => (e.key, e.val)))

def successors (s : MState) : List MState :=
  (List.range s.threads.length).filterMap (fun t => mstep s t)

/-- breadth-first exploration of every interleaving (fuel = number of states expanded) -/
def explore (target : Option (List (List (Nat × Option Nat)) × List (Nat × Nat))) :
    Nat → List MState → Std.HashSet MState → Nat → (Bool × Nat × Bool)
  | 0, _, seen, _ => (false, seen.size, true)
  | _, [], seen, _ => (false, seen.size, false)
  | fuel + 1, s :: work, seen, n =>
    if quiescent s && target == some (observe s) then (true, seen.size, false)
    else
      let succ := (successors s).filter (fun x => !seen.contains x)
      let seen' := succ.foldl (fun acc x => acc.insert x) seen
      explore target fuel (succ ++ work) seen' (n + 1)

def handle : List String → String
  | ["reach", cap, num, den, progs, rets, data] =>
    match cap.toNat?, num.toNat?, den.toNat?, parseProgs? progs, parseRets? rets, parseData? data with
    | some cap, some num, some den, some ps, some rs, some d =>
      if den == 0 || ps.length != rs.length then "bad-op" else
      let s0 := init cap num den ps
      let (found, n, lim) := explore (some (rs, d)) 400000 [s0] (Std.HashSet.emptyWithCapacity.insert s0) 0
      if found then "yes " ++ toString n else if lim then "limit" else "no " ++ toString n
    | _, _, _, _, _, _ => "bad-op"
  | ["count", cap, num, den, progs] =>
    match cap.toNat?, num.toNat?, den.toNat?, parseProgs? progs with
    | some cap, some num, some den, some ps =>
      if den == 0 then "bad-op" else
      let s0 := init cap num den ps
      let (_, n, lim) := explore none 400000 [s0] (Std.HashSet.emptyWithCapacity.insert s0) 0
      (if lim then "limit " else "states ") ++ toString n
    | _, _, _, _ => "bad-op"
  | _ => "bad-op"

end SaVerif.Drv.Lrumt
