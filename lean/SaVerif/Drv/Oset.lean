import SaVerif.Model.OrderedSet
import SaVerif.Drv.Parse
/-!
Sub-driver for the OrderedSet model.

request : `oset <nregs> <op> <op> ...`   (one whole operation sequence per line)
  op    : `new:dst:ARG|N` `copy:dst:r` `add:r:x` `remove:r:x` `discard:r:x` `pop:r`
          `insert:r:pos:x` `clear:r` `getitem:r:key` `contains:r:x` `len:r`
          `update:r:ARGS` `union:dst:r:ARGS` `inter:dst:r:ARGS` `diff:dst:r:ARGS`
          `symdiff:dst:r:ARG` `interu:r:ARGS` `diffu:r:ARGS` `symdiffu:r:ARG`
  ARG   : `S1.2` set, `D1.2` dict, `Z1.2.2` sized, `I1.2` iterator, `R0` register; `S` = empty
  ARGS  : ARG;ARG;...   or `-` for no argument
response: one token per op: `<ret>@<reg>/<reg>/...`, reg = `<_list>;<sorted set part>`
-/
namespace SaVerif.Drv.Oset
open SaVerif.Drv SaVerif.Coll

def dots (l : List Nat) : String := ".".intercalate (l.map toString)

def parseDots? (s : String) : Option (List Nat) :=
  if s.isEmpty then some [] else (s.splitOn ".").mapM (·.toNat?)

def parseSrc? (n : Nat) (s : String) : Option Src :=
  let body := (s.drop 1).toString
  match s.toList.head? with
  | some 'S' => (parseDots? body).map (fun e => .lit ⟨.set, e⟩)
  | some 'D' => (parseDots? body).map (fun e => .lit ⟨.dict, e⟩)
  | some 'Z' => (parseDots? body).map (fun e => .lit ⟨.sized, e⟩)
  | some 'I' => (parseDots? body).map (fun e => .lit ⟨.iter, e⟩)
  | some 'R' => match body.toNat? with
    | some r => if r < n then some (.reg r) else none
    | none => none
  | _ => none

def parseSrcs? (n : Nat) (s : String) : Option (List Src) :=
  if s == "-" then some [] else (s.splitOn ";").mapM (parseSrc? n)

def reg? (n : Nat) (s : String) : Option Nat :=
  match s.toNat? with
  | some r => if r < n then some r else none
  | none => none

/-- a literal set/dict argument with a repeated element cannot exist in Python: reject -/
def srcOk : Src → Bool
  | .lit ⟨.set, e⟩ => e.eraseDups.length == e.length
  | .lit ⟨.dict, e⟩ => e.eraseDups.length == e.length
  | _ => true

def parseOp? (n : Nat) (tok : String) : Option OOp :=
  match tok.splitOn ":" with
  | ["new", d, "N"] => do let d ← reg? n d; pure (.new d none)
  | ["new", d, a] => do
      let d ← reg? n d; let a ← parseSrc? n a
      if srcOk a then pure (.new d (some a)) else none
  | ["copy", d, r] => do let d ← reg? n d; let r ← reg? n r; pure (.copy d r)
  | ["add", r, x] => do let r ← reg? n r; let x ← x.toNat?; pure (.add r x)
  | ["remove", r, x] => do let r ← reg? n r; let x ← x.toNat?; pure (.remove r x)
  | ["discard", r, x] => do let r ← reg? n r; let x ← x.toNat?; pure (.discard r x)
  | ["pop", r] => do let r ← reg? n r; pure (.pop r)
  | ["insert", r, p, x] => do
      let r ← reg? n r; let p ← p.toInt?; let x ← x.toNat?; pure (.insert r p x)
  | ["clear", r] => do let r ← reg? n r; pure (.clear r)
  | ["getitem", r, k] => do let r ← reg? n r; let k ← k.toInt?; pure (.getitem r k)
  | ["contains", r, x] => do let r ← reg? n r; let x ← x.toNat?; pure (.contains r x)
  | ["len", r] => do let r ← reg? n r; pure (.len r)
  | ["update", r, a] => do
      let r ← reg? n r; let a ← parseSrcs? n a
      if a.all srcOk then pure (.update r a) else none
  | ["union", d, r, a] => do
      let d ← reg? n d; let r ← reg? n r; let a ← parseSrcs? n a
      if a.all srcOk then pure (.union d r a) else none
  | ["inter", d, r, a] => do
      let d ← reg? n d; let r ← reg? n r; let a ← parseSrcs? n a
      if a.all srcOk then pure (.intersection d r a) else none
  | ["diff", d, r, a] => do
      let d ← reg? n d; let r ← reg? n r; let a ← parseSrcs? n a
      if a.all srcOk then pure (.difference d r a) else none
  | ["symdiff", d, r, a] => do
      let d ← reg? n d; let r ← reg? n r; let a ← parseSrc? n a
      if srcOk a then pure (.symDiff d r a) else none
  | ["interu", r, a] => do
      let r ← reg? n r; let a ← parseSrcs? n a
      if a.all srcOk then pure (.interUpdate r a) else none
  | ["diffu", r, a] => do
      let r ← reg? n r; let a ← parseSrcs? n a
      if a.all srcOk then pure (.diffUpdate r a) else none
  | ["symdiffu", r, a] => do
      let r ← reg? n r; let a ← parseSrc? n a
      if srcOk a then pure (.symDiffUpdate r a) else none
  | _ => none

def showErr : Err → String
  | .keyError => "E:KeyError"
  | .indexError => "E:IndexError"
  | .valueError => "E:ValueError"
  | .typeError => "E:TypeError"

def showRet : Ret → String
  | .none => "-"
  | .val v => "v" ++ toString v
  | .bool b => if b then "T" else "F"
  | .err e => showErr e

def showReg (s : OSet) : String := dots s.lst ++ ";" ++ dots (sortNats s.st)

def showStep (p : Ret × Regs) : String :=
  showRet p.1 ++ "@" ++ "/".intercalate (p.2.map showReg)

def handle : List String → String
  | n :: toks =>
    match n.toNat? with
    | none => "bad-op"
    | some n =>
      if n == 0 || n > 8 then "bad-op" else
      match toks.mapM (parseOp? n) with
      | none => "bad-op"
      | some ops => " ".intercalate ((orun (List.replicate n OSet.empty) ops).map showStep)
  | _ => "bad-op"

end SaVerif.Drv.Oset
