import SaVerif.Model.Imv
import SaVerif.Drv.Parse
namespace SaVerif.Drv.Imv
open SaVerif.Drv SaVerif.Imv

def parseBits? (s : String) : Option (List Bool) :=
  s.toList.mapM (fun c => if c == '1' then some true else if c == '0' then some false else none)

def parseFlags? (s : String) : Option Flags :=
  match parseBits? s with
  | some [a, b, c, d, e, g, i, j, k] => some ⟨a, b, c, d, e, g, i, j, k⟩
  | _ => none

def parseMode? : String → Option Mode
  | "row0" => some (.rowAtATime false)
  | "row1" => some (.rowAtATime true)
  | "batched" => some .batched
  | _ => none

def showMode : Mode → String
  | .rowAtATime false => "row0"
  | .rowAtATime true => "row1"
  | .batched => "batched"

def parseStyle? : String → Option Style
  | "none" => some .none
  | "implicit" => some .implicit
  | "explicit" => some .explicit
  | _ => none

/-- `a,b;c,d` ↦ [[a,b],[c,d]]; `-` ↦ []; an empty inner list is written `_` -/
def parseIntRows? (s : String) : Option (List (List Int)) :=
  if s == "-" then some []
  else (s.splitOn ";").mapM (fun r => if r == "_" then some [] else parseIntList? r)

/-- returned row `src:key` -/
def parseRow? (s : String) : Option (Nat × Int) :=
  match s.splitOn ":" with
  | [a, b] => do let x ← a.toNat?; let y ← b.toInt?; pure (x, y)
  | _ => none

def parseAnswers? (s : String) : Option (List (List (Nat × Int))) :=
  if s == "-" then some []
  else (s.splitOn ";").mapM (fun r => if r == "_" then some [] else (r.splitOn ",").mapM parseRow?)

def showBatches (bl : List (Batch Nat)) : String :=
  if bl.isEmpty then "-" else
  ";".intercalate (bl.map (fun b =>
    s!"{b.params.length}/{b.current}/{b.num}/{b.total}/{if b.downgraded then 1 else 0}"))

/-- `k=v` pairs separated by `,`, keys/values are strings -/
def parseKV? (s : String) : Option (String × Int) :=
  match s.splitOn "=" with
  | [a, b] => do let k ← parseStr? a; let v ← b.toInt?; pure (k, v)
  | _ => none

def parseDict? (s : String) : Option (List (String × Int)) :=
  if s == "_" then some [] else (s.splitOn ",").mapM parseKV?

def parseDicts? (s : String) : Option (List (List (String × Int))) :=
  if s == "-" then some [] else (s.splitOn ";").mapM parseDict?

def showNamed (l : List ((String × Option Nat) × Int)) : String :=
  if l.isEmpty then "-" else
  ",".intercalate (l.map (fun ((k, i), v) =>
    showStr (match i with | none => k | some n => k ++ "__" ++ toString n) ++ "=" ++ toString v))

/-- insertion sort on strings (canonical order for dict printing) -/
def sortStrs (l : List String) : List String :=
  l.foldl (fun acc x => (acc.takeWhile (· ≤ x)) ++ [x] ++ (acc.dropWhile (· ≤ x))) []

/-- later entries for the same key win (Python dict update), printed sorted -/
def showNamedSorted (l : List ((String × Option Nat) × Int)) : String :=
  let keyOf := fun (k : String × Option Nat) =>
    match k.2 with | none => k.1 | some n => k.1 ++ "__" ++ toString n
  let dedup := l.foldl (fun (acc : List (String × Int)) kv =>
    (acc.filter (fun e => e.1 != keyOf kv.1)) ++ [(keyOf kv.1, kv.2)]) []
  if dedup.isEmpty then "-" else
  ",".intercalate (sortStrs (dedup.map (fun (k, v) => showStr k ++ "=" ++ toString v)))

/-- mode + effective batch size + delivery, exactly in the order of the Python code:
    the row-at-a-time branches return before the batch size is touched -/
def planOf (f : Flags) (page : Int) (maxp total perB len : Nat) : Except String (List (Batch Nat)) :=
  match chooseMode f with
  | .rowAtATime d => .ok (mkRows len d 1 (List.range len))
  | .batched =>
    match effBatchSize page maxp total perB with
    | none => .error "zerodiv"
    | some k =>
      if k < 0 then .error "negative-batch-size"
      else match deliver .batched k.toNat (List.range len) with
        | none => .error "zerodiv"
        | some bl => .ok bl

/--
* `mode <9 bits>`
* `ebs <batchSize> <maxParams> <totalBinds> <perBatch>`
* `plan <mode> <bs> <n>`            batches as `len/current/num/total/downgraded`
* `bounds <bits>`                   expand_pos_lower/upper_index
* `pos <numIns> <lo> <hi> <rows>`   replaced positional parameters
* `npos <numIns> <lo> <current>`    numeric placeholder numbers
* `named <allKeys> <crudNames> <base dict> <batch dicts>`
* `run <style> <mode> <bs> <sentinels> <answers>`  param `i` has sentinel `sentinels[i]`;
   batch number `k` is answered with `answers[k-1]` (rows `src:key`)
-/
def handle : List String → String
  | ["sortflag", bits] =>
    match parseBits? bits with
    | some ch => if sortFlagAfter ch then "ok 1" else "ok 0"
    | none => "bad-op"
  | ["mode", bits] =>
    match parseFlags? bits with
    | some f => showMode (chooseMode f)
    | none => "bad-op"
  | ["ebs", a, b, c, d] =>
    match a.toInt?, b.toNat?, c.toNat?, d.toNat? with
    | some bs, some mx, some tot, some per =>
      match effBatchSize bs mx tot per with
      | some k => "ok " ++ toString k
      | none => "zerodiv"
    | _, _, _, _ => "bad-op"
  | ["plan", m, b, n] =>
    match parseMode? m, b.toNat?, n.toNat? with
    | some mode, some bs, some len =>
      match deliver mode bs (List.range len) with
      | some bl => "ok " ++ showBatches bl
      | none => "zerodiv"
    | _, _, _ => "bad-op"
  | ["bounds", bits] =>
    match parseBits? bits with
    | some fl => let (lo, hi) := expandBounds fl; s!"ok {lo} {hi}"
    | none => "bad-op"
  | ["pos", a, b, c, rows] =>
    match a.toNat?, b.toNat?, c.toNat?, parseIntRows? rows with
    | some numIns, some lo, some hi, some batch =>
      if batch.isEmpty then "bad-op" else "ok " ++ showIntList (replacedPositional numIns lo hi batch)
    | _, _, _, _ => "bad-op"
  | ["npos", a, b, c] =>
    match a.toNat?, b.toNat?, c.toNat? with
    | some numIns, some lo, some cur => "ok " ++ showNatList (numericPositions numIns lo cur)
    | _, _, _ => "bad-op"
  | ["named", ak, cn, base, batch] =>
    match parseStrList? ak, parseStrList? cn, parseDict? base, parseDicts? batch with
    | some allKeys, some crud, some bd, some bt =>
      "ok " ++ showNamed (replacedNamed (keysToReplace allKeys crud) bd bt)
    | _, _, _, _ => "bad-op"
  | ["run", st, m, b, sents, answers] =>
    match parseStyle? st, parseMode? m, b.toNat?, parseIntList? sents, parseAnswers? answers with
    | some style, some mode, some bs, some ss, some ans =>
      match deliver mode bs (List.range ss.length) with
      | none => "zerodiv"
      | some bl =>
        let answer : Batch Nat → List (Nat × Int) := fun b => ans.getD (b.num - 1) []
        match runBatches style (fun r => r.2) (fun r => r.2) (fun p => ss.getD p 0) answer bl with
        | .ok rows => "ok " ++ showNatList (rows.map (·.1))
        | .error .rowcount => "err rowcount"
        | .error .nomatch => "err nomatch"
    | _, _, _, _, _ => "bad-op"
  -- composite forms: `<bits> <page> <maxParams> <totalBinds> <perBatch>` select mode and
  -- effective batch size exactly as the code does, then plan / run
  | ["plan2", bits, pg, mx, tot, per, n] =>
    match parseFlags? bits, pg.toInt?, mx.toNat?, tot.toNat?, per.toNat?, n.toNat? with
    | some f, some page, some maxp, some total, some perB, some len =>
      match planOf f page maxp total perB len with
      | .ok bl => "ok " ++ showBatches bl
      | .error e => e
    | _, _, _, _, _, _ => "bad-op"
  | ["run2", bits, pg, mx, tot, per, st, sents, answers] =>
    match parseFlags? bits, pg.toInt?, mx.toNat?, tot.toNat?, per.toNat?, parseStyle? st,
        parseIntList? sents, parseAnswers? answers with
    | some f, some page, some maxp, some total, some perB, some style, some ss, some ans =>
      match planOf f page maxp total perB ss.length with
      | .error e => e
      | .ok bl =>
        let answer : Batch Nat → List (Nat × Int) := fun b => ans.getD (b.num - 1) []
        match runBatches style (fun r => r.2) (fun r => r.2) (fun p => ss.getD p 0) answer bl with
        | .ok rows => "ok " ++ showNatList (rows.map (·.1))
        | .error .rowcount => "err rowcount"
        | .error .nomatch => "err nomatch"
    | _, _, _, _, _, _, _, _ => "bad-op"
  | ["pos2", a, bits, rows] =>
    match a.toNat?, (if bits == "-" then some [] else parseBits? bits), parseIntRows? rows with
    | some numIns, some fl, some batch =>
      if batch.isEmpty then "bad-op" else
      let (lo, hi) := expandBounds fl
      "ok " ++ showIntList (replacedPositional numIns lo hi batch)
    | _, _, _ => "bad-op"
  | ["npos2", a, bits, c] =>
    match a.toNat?, (if bits == "-" then some [] else parseBits? bits), c.toNat? with
    | some numIns, some fl, some cur =>
      let (lo, _) := expandBounds fl
      "ok " ++ showNatList (numericPositions numIns lo cur)
    | _, _, _ => "bad-op"
  | ["named2", ak, cn, base, batch] =>
    match parseStrList? ak, parseStrList? cn, parseDict? base, parseDicts? batch with
    | some allKeys, some crud, some bd, some bt =>
      "ok " ++ showNamedSorted (replacedNamed (keysToReplace allKeys crud) bd bt)
    | _, _, _, _ => "bad-op"
  | _ => "bad-op"

end SaVerif.Drv.Imv
