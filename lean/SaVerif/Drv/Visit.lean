import SaVerif.Model.Visit
import SaVerif.Drv.Parse
/-!  visit dispatch <dialect#> <kind#> <visit name>  -> method | unsupported | internal -/
namespace SaVerif.Drv.Visit
open SaVerif.Visit

def handle : List String → String
  | ["dispatch", d, k, name] =>
    match d.toNat?, k.toNat? with
    | some d, some k =>
      if d ≥ 6 || k ≥ 3 then "bad-op" else
      match dispatch d k name with
      | .method => "method"
      | .unsupported => "unsupported"
      | .internal => "internal"
    | _, _ => "bad-op"
  | _ => "bad-op"

end SaVerif.Drv.Visit
