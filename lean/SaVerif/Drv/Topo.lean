import SaVerif.Model.Topo
import SaVerif.Drv.Parse
namespace SaVerif.Drv.Topo
open SaVerif.Drv SaVerif.Topo

/-- `sort <items> <tuples>`, `subsets <items> <tuples>`, `cycles <tuples>` -/
def handle : List String → String
  | ["sort", items, tuples] =>
    match parseNatList? items, parsePairList? tuples with
    | some is, some ts =>
      match sort ts is with
      | some out => "ok " ++ showNatList out
      | none => "circular " ++ showNatList (sortNats (findCycles ts))
    | _, _ => "bad-op"
  | ["subsets", items, tuples] =>
    match parseNatList? items, parsePairList? tuples with
    | some is, some ts =>
      match sortAsSubsets ts is with
      | some out => "ok " ++ "|".intercalate (out.map showNatList)
      | none => "circular"
    | _, _ => "bad-op"
  | ["cycles", tuples] =>
    match parsePairList? tuples with
    | some ts => "ok " ++ showNatList (sortNats (findCycles ts))
    | none => "bad-op"
  | _ => "bad-op"

end SaVerif.Drv.Topo
