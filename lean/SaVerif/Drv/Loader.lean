import SaVerif.Model.Loader
import SaVerif.Drv.Parse
namespace SaVerif.Drv.Loader
open SaVerif.Drv SaVerif.Loader

/-- parents `id:x;id:x`, `-` empty -/
def parseParents? (s : String) : Option (List Parent) :=
  if s == "-" then some [] else
  (s.splitOn ";").mapM (fun t => match t.splitOn ":" with
    | [a, b] => do pure ⟨(← a.toNat?), (← b.toInt?)⟩
    | _ => none)

/-- children `id:fk:k` with fk `N` for NULL -/
def parseChildren? (s : String) : Option (List Child) :=
  if s == "-" then some [] else
  (s.splitOn ";").mapM (fun t => match t.splitOn ":" with
    | [a, b, c] => do
      let fk ← if b == "N" then some none else b.toNat?.map some
      pure ⟨(← a.toNat?), fk, (← c.toInt?)⟩
    | _ => none)

def showGraph (g : Graph) : String :=
  if g.isEmpty then "-" else
  ";".intercalate (g.map (fun e => toString e.1.id ++ "=" ++ showNatList (e.2.map (·.id))))

def parseBool? (s : String) : Option Bool :=
  if s == "1" then some true else if s == "0" then some false else none

/--
* `graph <strategy> <chunk> <parents> <children>`   strategy: lazy|immediate|joined|subquery|selectin
* `unwrapped <off> <lim|N> <parents> <children>`    the joined plan without the wrap
* `count <strategy> <nparents>`
* `nest <eagerJoins> <multiRow> <limit> <offset> <fetch> <distinct> <groupBy>`
* `refs <parents> <children>`                       many-to-one: child=parent pairs
-/
def handle : List String → String
  | ["graph", st, n, ps, cs] =>
    match n.toNat?, parseParents? ps, parseChildren? cs with
    | some k, some parents, some children =>
      match st with
      | "lazy" | "immediate" => "ok " ++ showGraph (lazyGraph sortByK children parents)
      | "joined" => "ok " ++ showGraph (joinedGraph sortByK children parents)
      | "subquery" => "ok " ++ showGraph (subqueryGraph sortByK children parents)
      | "selectin" => if k == 0 then "bad-op" else "ok " ++ showGraph (selectinGraph k sortByK children parents)
      | _ => "bad-op"
    | _, _, _ => "bad-op"
  | ["unwrapped", o, l, ps, cs] =>
    match o.toNat?, (if l == "N" then some none else l.toNat?.map some), parseParents? ps, parseChildren? cs with
    | some off, some lim, some parents, some children =>
      "ok " ++ showGraph (joinedUnwrapped sortByK children parents off lim)
    | _, _, _, _ => "bad-op"
  | ["count", st, n] =>
    match n.toNat? with
    | some k => "ok " ++ toString (statementCount st k)
    | none => "bad-op"
  | ["countn", "selectin", n, c] =>
    match n.toNat?, c.toNat? with
    | some k, some ch => if ch == 0 then "bad-op" else "ok " ++ toString (1 + (SaVerif.Imv.chunk ch (List.range k)).length)
    | _, _ => "bad-op"
  | ["chunks", n, c] =>
    match n.toNat?, c.toNat? with
    | some k, some ch =>
      if ch == 0 then "bad-op" else
      "ok " ++ ",".intercalate ((SaVerif.Imv.chunk ch (List.range k)).map (fun b => toString b.length))
    | _, _ => "bad-op"
  | ["nest", a, b, c, d, f0, e, f] =>
    match parseBool? a, parseBool? b, parseBool? c, parseBool? d, parseBool? f0, parseBool? e, parseBool? f with
    | some ej, some mr, some hl, some ho, some hf, some di, some gb => if shouldNest ej mr hl ho hf di gb then "1" else "0"
    | _, _, _, _, _, _, _ => "bad-op"
  | ["fkcols", pk, pairs] =>
    match parseNatList? pk, parsePairList? pairs with
    | some p, some pr => "ok " ++ showNatList (fkColsPkOrder p pr)
    | _, _ => "bad-op"
  | ["refs", ps, cs] =>
    match parseParents? ps, parseChildren? cs with
    | some parents, some children =>
      let r := selectinRefs parents children
      if r.isEmpty then "ok -" else
      "ok " ++ ";".intercalate (r.map (fun e => toString e.1.id ++ "=" ++ (match e.2 with | none => "N" | some p => toString p.id)))
    | _, _ => "bad-op"
  | _ => "bad-op"

end SaVerif.Drv.Loader
