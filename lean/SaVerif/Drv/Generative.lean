import SaVerif.Model.Generative
import SaVerif.Drv.Parse
namespace SaVerif.Drv.Generative
open SaVerif.Drv SaVerif.Generative

/-!
`generative chain <args>` : a chain of `.where()`-like rebinding calls on attribute 0,
starting from an empty criteria tuple → for every statement of the chain (ancestors
first) its observed attribute 0 after the whole chain was built, joined by `;`
-/

def handle : List String → String
  | ["chain", args] =>
    match parseNatList? args with
    | some as =>
      let r := chain [[]] { attrs := [(0, 0)] } (as.map (Op.rebuild 0))
      ";".intercalate (r.2.map (fun o =>
        match (observe r.1 o).head? with
        | some (_, l) => showNatList l
        | none => "-"))
    | none => "bad-op"
  | _ => "bad-op"

end SaVerif.Drv.Generative
