import SaVerif.Model.SchemaTr
import SaVerif.Drv.Parse
namespace SaVerif.Drv.SchemaTr
open SaVerif.Drv SaVerif.Bind SaVerif.SchemaTr

/-!
`schematr scan <s:str>`                          → `s:lits` / `S(s:name)` joined by `,`
`schematr compile <sym0|sym1|direct> <stmt>`     → `ok <s:string>` | `err <kind>`
`schematr history <dflt> <stmts> <history>`      → results joined by `;` : `ok <s:sql>` | `err <kind>`

stmt    = `-` | segs joined by `,` : `T<s:text>` | `R<s:schema|N>/<0|1>`
stmts   = stmt joined by `;`
history = steps joined by `;` : `<sid>@<map>` ; map = `-` | `<k>><v>` joined by `,` ; k, v = `N` | `<s:str>`
quoting is left symbolic: `q name` = U+0001 name U+0002 (the harness substitutes the
real `quote_schema`).
-/

def str? (s : String) : Option Str := (parseStr? s).map String.toList
def showS (s : Str) : String := showStr (String.ofList s)

def qMark (n : Str) : Str := [Char.ofNat 1] ++ n ++ [Char.ofNat 2]

def optStr? (s : String) : Option (Option Str) :=
  if s == "N" then some none else (str? s).map some

def parseSeg? (s : String) : Option Seg :=
  if s.startsWith "T" then (str? (s.drop 1).toString).map Seg.text
  else if s.startsWith "R" then
    match ((s.drop 1).toString).splitOn "/" with
    | [sch, um] => do
      let sc ← optStr? sch
      let u ← (if um == "1" then some true else if um == "0" then some false else none)
      pure (Seg.ref sc u)
    | _ => none
  else none

def parseStmt? (s : String) : Option (List Seg) :=
  if s == "-" then some [] else (s.splitOn ",").mapM parseSeg?

def parseMap? (s : String) : Option SMap :=
  if s == "-" then some [] else
  (s.splitOn ",").mapM (fun p =>
    match p.splitOn ">" with
    | [a, b] => do let a ← optStr? a; let b ← optStr? b; pure (a, b)
    | _ => none)

def parseStep? (s : String) : Option (Nat × SMap) :=
  match s.splitOn "@" with
  | [sid, m] => do let i ← sid.toNat?; let m ← parseMap? m; pure (i, m)
  | _ => none

def showErr : SchemaTr.Err → String
  | .noneNowPresent => "err none-now-present"
  | .noneNoLongerPresent => "err none-no-longer-present"
  | .noDefaultSchema => "err no-default-schema"
  | .squareBracket => "err square-bracket"

def showRes : Except SchemaTr.Err Str → String
  | .ok s => "ok " ++ showS s
  | .error e => showErr e

def showSToks (ts : List STok) : String :=
  let rec go : List STok → Str → List String → List String
    | [], acc, out => (if acc.isEmpty then out else (showS acc.reverse) :: out).reverse
    | .lit c :: r, acc, out => go r (c :: acc) out
    | .sch n :: r, acc, out =>
      let out := if acc.isEmpty then out else (showS acc.reverse) :: out
      go r [] (("S(" ++ showS n ++ ")") :: out)
  let l := go ts [] []
  if l.isEmpty then "-" else ",".intercalate l

/-- python dict semantics for the request's map (later duplicate keys overwrite) -/
def normMap (m : SMap) : SMap := m.foldl (fun d kv => mset kv.1 kv.2 d) []

def handle : List String → String
  | ["scan", s] =>
    match str? s with
    | some s => showSToks (tokensS s)
    | none => "bad-op"
  | ["compile", mode, stmt] =>
    match parseStmt? stmt with
    | some segs =>
      if mode == "direct" then "ok " ++ showS (compileDirect qMark segs)
      else if mode == "sym0" then showRes (compileSym qMark false segs)
      else if mode == "sym1" then showRes (compileSym qMark true segs)
      else "bad-op"
    | none => "bad-op"
  | ["history", dflt, stmts, hist] =>
    match optStr? dflt, (stmts.splitOn ";").mapM parseStmt?, (hist.splitOn ";").mapM parseStep? with
    | some d, some sts, some steps =>
      let lookup : Nat → List Seg := fun i => sts.getD i []
      let res := runHistory qMark d lookup [] (steps.map (fun p => (p.1, normMap p.2)))
      ";".intercalate (res.map showRes)
    | _, _, _ => "bad-op"
  | _ => "bad-op"

end SaVerif.Drv.SchemaTr
