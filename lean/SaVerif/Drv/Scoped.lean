import SaVerif.Model.Scoped
import SaVerif.Drv.Parse
namespace SaVerif.Drv.Scoped
open SaVerif.Drv SaVerif.Scoped

def parseBool? (s : String) : Option Bool :=
  if s == "1" then some true else if s == "0" then some false else none

/-- `<tid>:<label>[:arg]` -/
def parseLabel? (tok : String) : Option (Nat × Label) :=
  match tok.splitOn ":" with
  | [t, "call"] => t.toNat?.map (·, Label.call)
  | [t, "ret", x] => do pure ((← t.toNat?), Label.ret (← x.toNat?))
  | [t, "miss"] => t.toNat?.map (·, Label.miss)
  | [t, "create", x] => do pure ((← t.toNat?), Label.create (← x.toNat?))
  | [t, "rm"] => t.toNat?.map (·, Label.rm)
  | [t, "has", b] => do pure ((← t.toNat?), Label.has (← parseBool? b))
  | [t, "close", x] => do pure ((← t.toNat?), Label.close (← x.toNat?))
  | [t, "clear"] => t.toNat?.map (·, Label.clear)
  | _ => none

def showReg (r : List (Option Sess)) : String :=
  if r.isEmpty then "-" else ",".intercalate (r.map fun | some x => toString x | none => "-")

/-- `run <nKeys> <scope of thread 0,1,..> <labels>` -/
def handle : List String → String
  | ["run", nKeys, scope, labels] =>
    match nKeys.toNat?, parseNatList? scope,
          (if labels == "-" then some [] else (labels.splitOn ",").mapM parseLabel?) with
    | some nk, some sc, some ls =>
      if sc.any (fun k => decide (nk ≤ k)) then "bad-op" else
      let rec go (s : State) (ls : List (Nat × Label)) (i : Nat) : String :=
        match ls with
        | [] => s!"ok reg={showReg s.reg} closed={showNatList (sortNats s.closed)} got=" ++
                 (if s.got.isEmpty then "-" else ",".intercalate (s.got.reverse.map fun p => s!"{p.1}>{p.2}"))
        | (t, l) :: rest =>
          match step sc s t l with
          | some s' => go s' rest (i + 1)
          | none => s!"reject {i}"
      go (init nk sc.length) ls 0
    | _, _, _ => "bad-op"
  | _ => "bad-op"

end SaVerif.Drv.Scoped
