import SaVerif.Model.Types
import SaVerif.Gen.SqliteFormats
import SaVerif.Drv.Parse
/-!
Sub-driver for M-TYPES.

  types fmt <which> <y,m,d,h,mi,s,us>      which = datetime|datetimetrunc|date|time|timetrunc
                                           (the templates regenerated from the source)
  types parse <kind> <s:…>                 kind = datetime|date|time  → `ok y,m,d,h,mi,s,us` | `err`
  types cfmt <tmpl> <y,m,d,h,mi,s,us>      custom template: tokens `f<field><width>` / `l<codepoint>`
                                           separated by `,` (fields y m d H M S u)
  types cparse <tmpl> <s:…>                regexp parse → `ok …` | `err`
  types enum <members> <bind|result|rt> <id>  members `name>obj,…` → `ok id` | `none`
                                           (rt = result ∘ bind: what the property observes)
  types expand <hasSingle> <escaped> <n>   processors present on the n expanded elements (0/1 each)
  types expandt <mask> <escaped> <n>       same for a tuple IN: per tuple i and position j (mask = which
                                           positions' types have a bind processor)
  types ipk <explicit> <py> <stored> <shift>  inserted_primary_key of a pk whose result processor adds <shift>
  types bool <N|0|1>                       → round trip through boolBind/intToBoolean
-/
namespace SaVerif.Drv.Types
open SaVerif.Drv SaVerif.Types

def parseDT? (s : String) : Option DT :=
  match parseNatList? s with
  | some [y, m, d, h, mi, se, us] => some ⟨y, m, d, h, mi, se, us⟩
  | _ => none

def showDT (d : DT) : String :=
  showNatList [d.year, d.month, d.day, d.hour, d.minute, d.second, d.micro]

def parseField? : Char → Option Field
  | 'y' => some .year | 'm' => some .month | 'd' => some .day | 'H' => some .hour
  | 'M' => some .minute | 'S' => some .second | 'u' => some .micro
  | _ => none

def parseTok? (s : String) : Option Tok :=
  match s.toList with
  | 'f' :: c :: w => do pure (.field (← parseField? c) (← (String.ofList w).toNat?))
  | 'l' :: cp => do pure (.lit (Char.ofNat (← (String.ofList cp).toNat?)))
  | _ => none

def parseTmpl? (s : String) : Option (List Tok) :=
  if s == "-" then some [] else (s.splitOn ",").mapM parseTok?

def whichTmpl? : String → Option (List Tok)
  | "datetime" => some Gen.SqliteFormats.datetimeFormat
  | "datetimetrunc" => some Gen.SqliteFormats.datetimeTruncFormat
  | "date" => some Gen.SqliteFormats.dateFormat
  | "time" => some Gen.SqliteFormats.timeFormat
  | "timetrunc" => some Gen.SqliteFormats.timeTruncFormat
  | _ => none

def showOpt : Option DT → String
  | some d => "ok " ++ showDT d
  | none => "err"

def handle : List String → String
  | ["fmt", which, dt] =>
    match whichTmpl? which, parseDT? dt with
    | some t, some d => showStr (String.ofList (render t d))
    | _, _ => "bad-op"
  | ["parse", kind, s] =>
    match parseStr? s with
    | none => "bad-op"
    | some str =>
      match kind with
      | "datetime" => showOpt (isoDateTime str.toList)
      | "date" => showOpt (isoDate str.toList)
      | "time" => showOpt (isoTime str.toList)
      | _ => "bad-op"
  | ["cfmt", tmpl, dt] =>
    match parseTmpl? tmpl, parseDT? dt with
    | some t, some d => showStr (String.ofList (render t d))
    | _, _ => "bad-op"
  | ["cparse", tmpl, s] =>
    match parseTmpl? tmpl, parseStr? s with
    | some t, some str => showOpt (regexParse t str.toList ⟨0, 0, 0, 0, 0, 0, 0⟩)
    | _, _ => "bad-op"
  | ["enum", members, dir, id] =>
    match parsePairList? members, id.toNat? with
    | some ms, some i =>
      let r := match dir with
        | "bind" => validLookup ms i
        | "rt" => (validLookup ms i).bind (objectLookup ms)
        | _ => objectLookup ms i
      if dir != "bind" && dir != "result" && dir != "rt" then "bad-op" else
      match r with
      | some v => "ok " ++ toString v
      | none => "none"
    | _, _ => "bad-op"
  | ["expand", hasSingle, escaped, n] =>
    match n.toNat? with
    | some k =>
      if (hasSingle != "0" && hasSingle != "1") || (escaped != "0" && escaped != "1") then "bad-op" else
      let procs : List (Nat × Nat) := if hasSingle == "1" then [(1, 7)] else []
      let esc := if escaped == "1" then 2 else 1
      let ex := expandBind procs 1 esc k
      if k == 0 then "-" else
      ",".intercalate ((List.range k).map (fun j => if (ex.lookup (esc, j + 1)).isSome then "1" else "0"))
    | none => "bad-op"
  | ["expandt", mask, escaped, n] =>
    match n.toNat? with
    | some k =>
      if !(mask.toList.all (fun c => c == '0' || c == '1')) || (escaped != "0" && escaped != "1") then "bad-op" else
      let ps : List (Option Nat) := mask.toList.map (fun c => if c == '1' then some 7 else none)
      let esc := if escaped == "1" then 2 else 1
      let ex := expandTupleBind [(1, ps)] 1 esc k
      if k == 0 then "-" else
      ",".intercalate ((List.range k).flatMap (fun i => (List.range ps.length).map (fun j =>
        if (ex.lookup (esc, i + 1, j + 1)).isSome then "1" else "0")))
    | none => "bad-op"
  | ["ipk", explicit, py, stored, shift] =>
    match py.toInt?, stored.toInt?, shift.toInt? with
    | some p, some st, some sh =>
      if explicit == "1" then toString (insertedPk (· + sh) (some p) st)
      else if explicit == "0" then toString (insertedPk (· + sh) none st)
      else "bad-op"
    | _, _, _ => "bad-op"
  | ["bool", b] =>
    let v : Option (Option Bool) := match b with
      | "N" => some none | "0" => some (some false) | "1" => some (some true) | _ => none
    match v with
    | some x =>
      match intToBoolean (boolBind x) with
      | none => "N" | some true => "1" | some false => "0"
    | none => "bad-op"
  | _ => "bad-op"

end SaVerif.Drv.Types
