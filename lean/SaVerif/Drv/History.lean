import SaVerif.Model.History
import SaVerif.Drv.Parse
namespace SaVerif.Drv.History
open SaVerif.Drv SaVerif.History

/-!
`history scalar <isObj 0|1> <init> <ops>`   init: `F` (new object) | `L:<v>` (loaded, v = `N` or int)
    ops: set:v  del  exp  load  lo (read of another expired column)  flush
`history coll <init> <ops>`                 init: `F` | `L:<list>` (ints by `.`, `-` = empty)
    ops: app:x  rem:x  rep:list  del  touch  exp  flush
response per op: `cur~cs~added/unchanged/deleted~db`, ops joined by `|`;
cur: `X` absent; cs: `-` no entry, `NV` NO_VALUE, `NR` PASSIVE_NO_RESULT; db: `R` = no row
-/

def parseSVal? (s : String) : Option SVal :=
  if s == "N" then some none else s.toNat?.map some

def showSVal : SVal → String
  | none => "N"
  | some n => toString n

def showSList (l : List SVal) : String := if l.isEmpty then "-" else ".".intercalate (l.map showSVal)

def showNList (l : List Nat) : String := if l.isEmpty then "e" else ".".intercalate (l.map toString)

def parseNList? (s : String) : Option (List Nat) :=
  if s == "-" || s == "e" then some [] else (s.splitOn ".").mapM (·.toNat?)

def parseSOp? (s : String) : Option Scalar.Op :=
  match s.splitOn ":" with
  | ["set", v] => (parseSVal? v).map .set
  | ["del"] => some .del
  | ["exp"] => some .expire
  | ["load"] => some .load
  | ["lo"] => some .loadOther
  | ["expall"] => some .expireAll
  | ["flush"] => some .flush
  | _ => none

def showScalar (s : Scalar.St) : String :=
  let cur := match s.cur with | .absent => "X" | .val c => showSVal c
  let cs := match s.cs with | .noHistory => "-" | .noValue => "NV" | .noResult => "NR" | .val o => showSVal o
  let h := Scalar.history s
  let db := match s.db with | none => "R" | some v => showSVal v
  cur ++ "~" ++ cs ++ "~" ++ showSList h.added ++ "/" ++ showSList h.unchanged ++ "/" ++ showSList h.deleted ++ "~" ++ db

def sRun : Scalar.St → List Scalar.Op → List String
  | _, [] => []
  | s, op :: ops =>
    let ok := match op with | .del => (Scalar.del s).2 | _ => true
    let s1 := Scalar.step s op
    ((if ok then "ok/" else "attr/") ++ showScalar s1) :: sRun s1 ops

def parseCOp? (s : String) : Option Coll.Op :=
  match s.splitOn ":" with
  | ["app", x] => x.toNat?.map .append
  | ["rem", x] => x.toNat?.map .remove
  | ["rep", l] => (parseNList? l).map .replace
  | ["del"] => some .delete
  | ["touch"] => some .touch
  | ["exp"] => some .expire
  | ["flush"] => some .flush
  | _ => none

def showColl (s : Coll.St) : String :=
  let cur := match s.cur with | .absent => "X" | .val c => showNList c
  let cs := match s.cs with | .noHistory => "-" | .noValue => "NV" | .noResult => "NR" | .val o => showNList o
  let h := Coll.history s
  let db := match s.db with | none => "R" | some v => showNList v
  cur ++ "~" ++ cs ++ "~" ++ showNList h.added ++ "/" ++ showNList h.unchanged ++ "/" ++ showNList h.deleted ++ "~" ++ db

def cRun : Coll.St → List Coll.Op → List String
  | _, [] => []
  | s, op :: ops =>
    let s1 := Coll.step s op
    ("ok/" ++ showColl s1) :: cRun s1 ops

def fin (out : List String) : String := if out.isEmpty then "-" else "|".intercalate out

def handle : List String → String
  | ["scalar", isObj, init, ops] =>
    let io := isObj == "1"
    let st? : Option Scalar.St :=
      if init == "F" then some (Scalar.fresh io)
      else match init.splitOn ":" with
        | ["L", v] => (parseSVal? v).map (fun v => Scalar.loaded v io)
        | _ => none
    match st?, (if ops == "-" then some [] else (ops.splitOn ";").mapM parseSOp?) with
    | some st, some ops => if isObj == "0" || isObj == "1" then fin (sRun st ops) else "bad-op"
    | _, _ => "bad-op"
  | ["coll", init, ops] =>
    let st? : Option Coll.St :=
      if init == "F" then some Coll.fresh
      else match init.splitOn ":" with
        | ["L", l] => (parseNList? l).map Coll.loaded
        | _ => none
    match st?, (if ops == "-" then some [] else (ops.splitOn ";").mapM parseCOp?) with
    | some st, some ops => fin (cRun st ops)
    | _, _ => "bad-op"
  | _ => "bad-op"

end SaVerif.Drv.History
