import SaVerif.Model.OrderingList
import SaVerif.Drv.Parse
namespace SaVerif.Drv.OrderingList
open SaVerif.Drv SaVerif.OrderingList

/-!
`orderinglist run <count_from> <reorder_on_append 0|1> <ops>`

ops `;`-separated, fields by `:`, lists inside a field by `.` (`-` = empty list):
  app:e  ins:i:e  rem:e  pop:i  set:i:e  del:i  delx:idxs  sls:start:stop:step:vals
  ext:vals  clr  rev  ord:vals  reo
response: per op `ok|index|value` `/` `id@pos` joined by `.` (`N` = None, `-` = empty),
ops joined by `|`
-/

def parseDotNats? (s : String) : Option (List Nat) :=
  if s == "-" then some [] else (s.splitOn ".").mapM (·.toNat?)

def parseOp? (s : String) : Option Op :=
  match s.splitOn ":" with
  | ["app", e] => e.toNat?.map .append
  | ["ins", i, e] => do pure (.insert (← i.toInt?) (← e.toNat?))
  | ["rem", e] => e.toNat?.map .remove
  | ["pop", i] => i.toInt?.map .pop
  | ["set", i, e] => do pure (.setItem (← i.toInt?) (← e.toNat?))
  | ["del", i] => i.toInt?.map .delItem
  | ["delx", l] => (parseDotNats? l).map .delIdxs
  | ["sls", a, b, c, l] => do pure (.setSlice (← a.toInt?) (← b.toInt?) (← c.toInt?) (← parseDotNats? l))
  | ["ext", l] => (parseDotNats? l).map .extend
  | ["clr"] => some .clear
  | ["rev"] => some .reverse
  | ["ord", l] => (parseDotNats? l).map .setOrder
  | ["reo"] => some .reorder
  | _ => none

def showSt (st : St) : String :=
  if st.items.isEmpty then "-" else
  ".".intercalate (st.items.map (fun e => toString e ++ "@" ++ (match st.pos e with
    | none => "N"
    | some p => toString p)))

def runShow : St → List Op → List String
  | _, [] => []
  | st, op :: ops =>
    match step st op with
    | .ok st1 => ("ok/" ++ showSt st1) :: runShow st1 ops
    | .error .indexError => ("index/" ++ showSt st) :: runShow st ops
    | .error .valueError => ("value/" ++ showSt st) :: runShow st ops

def handle : List String → String
  | ["run", start, roa, ops] =>
    match start.toInt?, (if roa == "1" then some true else if roa == "0" then some false else none),
          (if ops == "-" then some [] else (ops.splitOn ";").mapM parseOp?) with
    | some s, some r, some ops =>
      let out := runShow (init s r) ops
      if out.isEmpty then "-" else "|".intercalate out
    | _, _, _ => "bad-op"
  | _ => "bad-op"

end SaVerif.Drv.OrderingList
