import SaVerif.Gen.DepTuples
import SaVerif.Drv.Parse
namespace SaVerif.Drv.DepTuples
open SaVerif.Gen.DepTuples

def symName : Sym → String
  | .parent_saves => "parent_saves" | .child_saves => "child_saves" | .parent_deletes => "parent_deletes"
  | .child_deletes => "child_deletes" | .after_save => "after_save" | .before_delete => "before_delete"
  | .child_post_updates => "child_post_updates" | .child_pre_updates => "child_pre_updates"
  | .parent_post_updates => "parent_post_updates" | .parent_pre_updates => "parent_pre_updates"
  | .save_parent => "save_parent" | .delete_parent => "delete_parent" | .child_action => "child_action"

def showTab (l : List (Sym × Sym)) : String :=
  if l.isEmpty then "-" else ",".intercalate (l.map (fun p => symName p.1 ++ ">" ++ symName p.2))

def bool? (s : String) : Option Bool := if s == "1" then some true else if s == "0" then some false else none

/-- `prop <o2m|m2o|m2m> <pu>` / `state <dir> <pu> <isdelete> <childisdelete>` -/
def handle : List String → String
  | ["prop", d, pu] =>
    match bool? pu with
    | some pu =>
      if d == "o2m" then showTab (o2m_prop pu) else if d == "m2o" then showTab (m2o_prop pu)
      else if d == "m2m" then showTab (m2m_prop pu) else "bad-op"
    | none => "bad-op"
  | ["state", d, pu, isd, cd] =>
    match bool? pu, bool? isd, bool? cd with
    | some pu, some isd, some cd =>
      if d == "o2m" then showTab (o2m_state pu isd cd) else if d == "m2o" then showTab (m2o_state pu isd cd)
      else if d == "m2m" then showTab (m2m_state pu isd cd) else "bad-op"
    | _, _, _ => "bad-op"
  | _ => "bad-op"

end SaVerif.Drv.DepTuples
