import SaVerif.Model.Evaluator
import SaVerif.Drv.Parse
namespace SaVerif.Drv.Eval
open SaVerif.Drv SaVerif.Eval SaVerif.Like

/-!
Expressions travel as `;`-separated prefix tokens (no spaces):
  integer sort   `ic<i>` column · `il<int|N>` literal · `i+` `i-` `i*` `i%` `i//` (2 operands) · `ineg`
  string sort    `sc<i>` · `sl<s:…|N>` · `s||` (2 operands)
  boolean sort   `bi<op>` / `bs<op>` (2 operands, op ∈ lt le gt ge eq ne) · `bq<op>` (a b c)
                 `bnulli<0|1>` / `bnulls<0|1>` (1) · `bmem<0|1>:<v,v|->` (1)
                 `blike:<kind>:<icase>:<neg>:<esc|N>:<auto>:<s:…>` (1 string operand)
                 `bbetween` (3) · `band<n>` / `bor<n>` (n operands) · `bnot` (1) · `bconst<T|F|N>`
-/

def parseCmp? (s : String) : Option Cmp :=
  if s == "lt" then some .lt else if s == "le" then some .le else if s == "gt" then some .gt
  else if s == "ge" then some .ge else if s == "eq" then some .eq else if s == "ne" then some .ne
  else none

def parseKind? (s : String) : Option Kind :=
  if s == "contains" then some .contains
  else if s == "startswith" then some .startswith
  else if s == "endswith" then some .endswith
  else none

def parseBool? (s : String) : Option Bool :=
  if s == "1" then some true else if s == "0" then some false else none

def parseEsc? (s : String) : Option (Option Char) :=
  if s == "N" then some none else s.toNat?.map (fun n => some (Char.ofNat n))

def parseOptStr? (s : String) : Option (Option (List Char)) :=
  if s == "N" then some none else (parseStr? s).map (fun x => some x.toList)

def parseOptIntList? (s : String) : Option (List (Option Int)) :=
  if s == "-" then some [] else (s.splitOn ",").mapM parseOptInt?

def parseOptStrList? (s : String) : Option (List (Option (List Char))) :=
  if s == "-" then some [] else (s.splitOn ",").mapM parseOptStr?

def parseI : Nat → List String → Option (IExp × List String)
  | 0, _ => none
  | _, [] => none
  | fuel + 1, t :: ts =>
    let bin (f : IExp → IExp → IExp) : Option (IExp × List String) := do
      let (a, r1) ← parseI fuel ts
      let (b, r2) ← parseI fuel r1
      pure (f a b, r2)
    if t == "i+" then bin .add
    else if t == "i-" then bin .sub
    else if t == "i*" then bin .mul
    else if t == "i%" then bin .mod
    else if t == "i//" then bin .floordiv
    else if t == "ineg" then do
      let (a, r1) ← parseI fuel ts
      pure (.neg a, r1)
    else if t.startsWith "ic" then (t.drop 2).toString.toNat?.map (fun i => (.col i, ts))
    else if t.startsWith "il" then (parseOptInt? (t.drop 2).toString).map (fun v => (.lit v, ts))
    else none

def parseS : Nat → List String → Option (SExp × List String)
  | 0, _ => none
  | _, [] => none
  | fuel + 1, t :: ts =>
    if t == "s||" then do
      let (a, r1) ← parseS fuel ts
      let (b, r2) ← parseS fuel r1
      pure (.concat a b, r2)
    else if t.startsWith "sc" then (t.drop 2).toString.toNat?.map (fun i => (.col i, ts))
    else if t.startsWith "sl" then (parseOptStr? (t.drop 2).toString).map (fun v => (.lit v, ts))
    else none

mutual
def parseB : Nat → List String → Option (BExp × List String)
  | 0, _ => none
  | _, [] => none
  | fuel + 1, t :: ts =>
    if t.startsWith "bi" then do
      let op ← parseCmp? (t.drop 2).toString
      let (a, r1) ← parseI (fuel + 1) ts
      let (b, r2) ← parseI (fuel + 1) r1
      pure (.icmp op a b, r2)
    else if t.startsWith "bs" then do
      let op ← parseCmp? (t.drop 2).toString
      let (a, r1) ← parseS (fuel + 1) ts
      let (b, r2) ← parseS (fuel + 1) r1
      pure (.scmp op a b, r2)
    else if t.startsWith "bq" then do
      let op ← parseCmp? (t.drop 2).toString
      let (a, r1) ← parseI (fuel + 1) ts
      let (b, r2) ← parseI (fuel + 1) r1
      let (c, r3) ← parseI (fuel + 1) r2
      pure (.qcmp op a b c, r3)
    else if t.startsWith "bnulli" then do
      let n ← parseBool? (t.drop 6).toString
      let (a, r1) ← parseI (fuel + 1) ts
      pure (.inull n a, r1)
    else if t.startsWith "bnulls" then do
      let n ← parseBool? (t.drop 6).toString
      let (a, r1) ← parseS (fuel + 1) ts
      pure (.snull n a, r1)
    else if t.startsWith "bmem" then
      match (t.drop 4).toString.splitOn ":" with
      | [n, l] => do
        let n ← parseBool? n
        let l ← parseOptIntList? l
        let (a, r1) ← parseI (fuel + 1) ts
        pure (.iin n a l, r1)
      | _ => none
    else if t.startsWith "blike:" then
      match t.splitOn ":" with
      | [_, k, ic, ng, esc, au, other] => do
        let k ← parseKind? k
        let ic ← parseBool? ic
        let ng ← parseBool? ng
        let esc ← parseEsc? esc
        let au ← parseBool? au
        let other ← parseStr? ("s:" ++ other)
        let (a, r1) ← parseS (fuel + 1) ts
        pure (.like k ic ng a other.toList esc au, r1)
      | _ => none
    else if t == "bbetween" then do
      let (a, r1) ← parseI (fuel + 1) ts
      let (b, r2) ← parseI (fuel + 1) r1
      let (c, r3) ← parseI (fuel + 1) r2
      pure (.between a b c, r3)
    else if t.startsWith "band" then do
      let n ← (t.drop 4).toString.toNat?
      let (l, r1) ← parseBL fuel n ts
      pure (.and l, r1)
    else if t.startsWith "bor" then do
      let n ← (t.drop 3).toString.toNat?
      let (l, r1) ← parseBL fuel n ts
      pure (.or l, r1)
    else if t == "bnot" then do
      let (a, r1) ← parseB fuel ts
      pure (.not a, r1)
    else if t == "bconstT" then some (.const (some true), ts)
    else if t == "bconstF" then some (.const (some false), ts)
    else if t == "bconstN" then some (.const none, ts)
    else none
def parseBL : Nat → Nat → List String → Option (List BExp × List String)
  | _, 0, ts => some ([], ts)
  | 0, _ + 1, _ => none
  | fuel + 1, n + 1, ts => do
    let (e, r1) ← parseB fuel ts
    let (es, r2) ← parseBL fuel n r1
    pure (e :: es, r2)
end

def parseBExp? (s : String) : Option BExp :=
  let toks := s.splitOn ";"
  match parseB (toks.length + 1) toks with
  | some (e, []) => some e
  | _ => none

def parseIExp? (s : String) : Option IExp :=
  let toks := s.splitOn ";"
  match parseI (toks.length + 1) toks with
  | some (e, []) => some e
  | _ => none

/-- `2=i+;ic0;il1|0=ic1`, `-` for none -/
def parseSets? (s : String) : Option (List (Nat × IExp)) :=
  if s == "-" then some [] else
  (s.splitOn "|").mapM (fun a =>
    match a.splitOn "=" with
    | [i, e] => do
      let i ← i.toNat?
      let e ← parseIExp? e
      pure (i, e)
    | _ => none)

def showOptInt : Option Int → String
  | none => "N"
  | some i => toString i

def showInts (l : List (Option Int)) : String :=
  if l.isEmpty then "-" else ",".intercalate (l.map showOptInt)

def showPyB : Py Bool → String
  | .val (some true) => "T"
  | .val (some false) => "F"
  | .val none => "N"
  | .expired => "X"
  | .zerodiv => "Z"

def show3 : Option Bool → String
  | some true => "T"
  | some false => "F"
  | none => "N"

def showOutcome : Outcome Obj → String
  | .ok o =>
    "ok " ++ ",".intercalate ((List.range o.row.ints.length).map (fun i =>
      if o.xi.contains i then "X" else showOptInt (o.row.ints.getD i none)))
  | .zerodiv => "zerodiv"
  | .sentinel => "sentinel"

def mkObj (ints strs xi xs : String) : Option Obj := do
  let i ← parseOptIntList? ints
  let s ← parseOptStrList? strs
  let a ← parseNatList? xi
  let b ← parseNatList? xs
  pure ⟨⟨i, s⟩, a, b⟩

/--
* `py <bexp> <ints> <strs> <xi> <xs>`          → `U` | `T` `F` `N` `X` `Z`
* `sql <bexp> <ints> <strs>`                   → `T` `F` `N`
* `viol <strict> <bexp> <ints> <strs>`         → guard names joined by `,` | `-`
* `update <evaluate|fetch|auto> <bexp> <sets> <ints> <strs> <xi> <xs>`
                                               → `<session outcome> / <db ints>`
* `delete <evaluate|fetch|auto> <bexp> <ints> <strs> <xi> <xs>` → `<outcome> / <db deleted 0|1>`
-/
def handle : List String → String
  | ["py", e, ints, strs, xi, xs] =>
    match parseBExp? e, mkObj ints strs xi xs with
    | some e, some o => if evaluableB e then showPyB (evalPyB o e) else "U"
    | _, _ => "bad-op"
  | ["sql", e, ints, strs] =>
    match parseBExp? e, mkObj ints strs "-" "-" with
    | some e, some o => show3 (evalSqlB o.row e)
    | _, _ => "bad-op"
  | ["viol", strict, e, ints, strs] =>
    match parseBool? strict, parseBExp? e, mkObj ints strs "-" "-" with
    | some st, some e, some o =>
      let v := (violatedB st o.row e).eraseDups
      if v.isEmpty then "-" else ",".intercalate v
    | _, _, _ => "bad-op"
  | ["update", mode, e, sets, ints, strs, xi, xs] =>
    match parseBExp? e, parseSets? sets, mkObj ints strs xi xs with
    | some e, some sets, some o =>
      let db := showInts (dbUpdate e sets o.row).ints
      let ev := evaluableB e
      if mode == "evaluate" then
        (if ev then showOutcome (syncUpdateEvaluate e sets o) ++ " / " ++ db
         else "U / " ++ showInts o.row.ints)  -- raised before the statement was executed
      else if mode == "fetch" then showOutcome (syncUpdateFetch e sets o) ++ " / " ++ db
      else if mode == "auto" then
        showOutcome (if ev then syncUpdateEvaluate e sets o else syncUpdateFetch e sets o) ++ " / " ++ db
      else "bad-op"
    | _, _, _ => "bad-op"
  | ["delete", mode, e, ints, strs, xi, xs] =>
    match parseBExp? e, mkObj ints strs xi xs with
    | some e, some o =>
      let db := if matchedSql o.row e then "1" else "0"
      let ev := evaluableB e
      let viaFetch := if matchedSql o.row e then "removed" else "kept"
      let viaEval := match syncDeleteEvaluate e o with
        | .kept => "kept" | .removed => "removed" | .expiredAll => "expired" | .zerodiv => "zerodiv"
      if mode == "evaluate" then (if ev then viaEval ++ " / " ++ db else "U / 0")
      else if mode == "fetch" then viaFetch ++ " / " ++ db
      else if mode == "auto" then (if ev then viaEval else viaFetch) ++ " / " ++ db
      else "bad-op"
    | _, _ => "bad-op"
  | ["bulkpk", params, slots] =>
    -- params `pk=c:v.c:v|…`; slots `pk/db ints/L|U/loaded ints/expired nats` joined by `;`
    let ps := (params.splitOn "|").mapM (fun (p : String) =>
      match p.splitOn "=" with
      | [pk, cols] => do
        let pk ← pk.toNat?
        let cs ← (if cols == "-" then some [] else (cols.splitOn ".").mapM (fun (cv : String) =>
          match cv.splitOn ":" with
          | [c, v] => do pure ((← c.toNat?), (← parseOptInt? v))
          | _ => none))
        pure (pk, cs)
      | _ => none)
    let ss := (slots.splitOn ";").mapM (fun (sl : String) =>
      match sl.splitOn "/" with
      | [pk, db, flag, vals, xi] => do
        let pk ← pk.toNat?
        let db ← parseOptIntList? db
        if flag == "U" then pure (Slot.mk pk db none)
        else pure (Slot.mk pk db (some ((← parseOptIntList? vals), (← parseNatList? xi))))
      | _ => none)
    match ps, ss with
    | some ps, some ss =>
      ";".intercalate ((bulkByPk ps ss).map (fun (s : Slot) =>
        toString s.pk ++ "/" ++ showInts s.db ++ "/" ++
          (match s.sess with
           | none => "U"
           | some o => ",".intercalate ((List.range s.db.length).map (fun c =>
               if o.2.contains c then "X" else showOptInt (o.1.getD c none))))))
    | _, _ => "bad-op"
  | _ => "bad-op"

end SaVerif.Drv.Eval
