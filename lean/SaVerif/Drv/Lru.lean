import SaVerif.Model.Lru
import SaVerif.Drv.Parse
/-!
Sub-driver for the LRUCache model.

request : `lru <capacity> <thrNum> <thrDen> <alert 0|1> <op> <op> ...`
  op    : `get:k` `getitem:k` `set:k:v` `del:k` `in:k` `setdefault:k:v` `pop:k:0|1` `popitem`
          `clear` `len`
response: one token per op: `<ret>@<counter>;<alerts>;<key:value:counter,...>` (dict order)
-/
namespace SaVerif.Drv.Lru
open SaVerif.Drv SaVerif.Coll

def parseOp? (tok : String) : Option LOp :=
  match tok.splitOn ":" with
  | ["get", k] => k.toNat?.map .get
  | ["getitem", k] => k.toNat?.map .getitem
  | ["set", k, v] => do let k ← k.toNat?; let v ← v.toNat?; pure (.setitem k v)
  | ["del", k] => k.toNat?.map .delitem
  | ["in", k] => k.toNat?.map .contains
  | ["setdefault", k, v] => do let k ← k.toNat?; let v ← v.toNat?; pure (.setdefault k v)
  | ["pop", k, "0"] => k.toNat?.map (fun k => .pop k false)
  | ["pop", k, "1"] => k.toNat?.map (fun k => .pop k true)
  | ["popitem"] => some .popitem
  | ["clear"] => some .clear
  | ["len"] => some .len
  | _ => none

def showRet : LRet → String
  | .none => "-"
  | .val v => "v" ++ toString v
  | .bool b => if b then "T" else "F"
  | .pair k v => "p" ++ toString k ++ "." ++ toString v
  | .keyError => "E:KeyError"

def showState (c : SaVerif.Coll.Lru) : String :=
  toString c.counter ++ ";" ++ toString c.alerts ++ ";" ++
    ",".intercalate (c.data.map (fun e => toString e.key ++ ":" ++ toString e.val ++ ":" ++ toString e.ctr))

def handle : List String → String
  | cap :: num :: den :: alert :: toks =>
    match cap.toNat?, num.toNat?, den.toNat?, toks.mapM parseOp? with
    | some cap, some num, some den, some ops =>
      if den == 0 || (alert != "0" && alert != "1") then "bad-op" else
      " ".intercalate ((lrun (SaVerif.Coll.Lru.new cap num den (alert == "1")) ops).map
        (fun p => showRet p.1 ++ "@" ++ showState p.2))
    | _, _, _, _ => "bad-op"
  | _ => "bad-op"

end SaVerif.Drv.Lru
