import SaVerif.Model.Expr
import SaVerif.Model.ExprGrammar
import SaVerif.Model.ExprEval
import SaVerif.Lemmas.ExprCore
import SaVerif.Lemmas.ExprBuild
import SaVerif.Model.ExprSem
import SaVerif.Drv.Parse
/-!
Sub-driver of M-EXPR.  One request per line:

* `expr render <dialect> <U…>`  → `ok <type> <text>` | `error` (the API raises)
* `expr parse <dialect> <U…>`   → `ok <wb> <same> <core><wg><ok>` | `noparse <wb> <core><wg><ok>` | `error`
   `wb` = the rendered tree is well bracketed up to re-association, `same` = the grammar's reading
   of the text is that tree, `core`/`wg`/`ok` = the hypotheses / conclusion of the general theorem
   (`Lemmas/ExprCore.lean`) evaluated on this element.
* `expr parsedrop <mask> <dialect> <U…>` → `ok <text> <fullparen reading>` | `noparse <text>`

`<U…>` is the prefix serialisation written by `harness/lib_expr.py:wire`.
-/
namespace SaVerif.Drv.Expr
open SaVerif.Drv SaVerif.Expr SaVerif.Pratt

/-- SQLite's `/` on integer values: truncating division, NULL for a zero divisor -/
def sqliteDiv : Val → Val → Val
  | .int a, .int b => if b = 0 then .null else .int (Int.tdiv a b)
  | _, _ => .null

def lowerAscii (c : Char) : Char := if 'A' ≤ c ∧ c ≤ 'Z' then Char.ofNat (c.toNat + 32) else c

/-- SQLite's LIKE on ASCII text (`%` any sequence, `_` any one character, case-insensitive;
    the character after the escape character is literal) — fuel bounds the recursion -/
def likeMatchF (esc : Option Char) : Nat → List Char → List Char → Bool
  | 0, _, _ => false
  | _ + 1, [], s => s.isEmpty
  | f + 1, c :: p, s =>
    if some c = esc then
      match p, s with
      | c2 :: p', x :: s' => lowerAscii x == lowerAscii c2 && likeMatchF esc f p' s'
      | _, _ => false
    else if c = '%' then
      likeMatchF esc f p s || (match s with | _ :: s' => likeMatchF esc f (c :: p) s' | [] => false)
    else if c = '_' then
      (match s with | _ :: s' => likeMatchF esc f p s' | [] => false)
    else
      match s with
      | x :: s' => lowerAscii x == lowerAscii c && likeMatchF esc f p s'
      | [] => false

def sqliteLike (a b : Val) (esc : Option String) : TV :=
  match a, b with
  | .str x, .str pat =>
    some (likeMatchF (esc.bind fun e => e.toList.head?) (2 * (x.length + pat.length) + 2) pat.toList x.toList)
  | _, _ => none

/-- the driver evaluates on rows of integer / ASCII text values the way SQLite does: a CAST to
    INTEGER / NUMERIC and FLOOR of an integer are the identity, `lower` and LIKE as SQLite defines
    them, every other function is not interpreted -/
instance : Abs :=
  ⟨fun n vs =>
      if n = "FLOOR" then vs.headD .null
      else if n = "lower" then
        (match vs with
         | [.str x] => .str (String.ofList (x.toList.map lowerAscii))
         | _ => .null)
      else .null,
   fun _ v => v, sqliteDiv, sqliteLike, sqliteLike⟩

def parseTy? : String → Option Ty
  | "int" => some .int | "num" => some .num | "str" => some .str | "bool" => some .bool
  | "null" => some .null | _ => none

def parseDialect? : String → Option Dialect
  | "sqlite" => some .sqlite | "postgresql" => some .postgresql | "mysql" => some .mysql
  | "mariadb" => some .mariadb | "default" => some .default | _ => none

def parseBinK? : String → Option BinK
  | "add" => some .add | "sub" => some .sub | "mul" => some .mul | "truediv" => some .truediv
  | "floordiv" => some .floordiv | "mod" => some .mod | "concat" => some .concat
  | "eq" => some .eq | "ne" => some .ne | "lt" => some .lt | "le" => some .le
  | "gt" => some .gt | "ge" => some .ge | "is" => some .is_ | "isnot" => some .isnot
  | "isdistinct" => some .isdistinct | "isnotdistinct" => some .isnotdistinct
  | _ => none

def parseStrK? : String → Option StrK
  | "contains" => some .contains | "startswith" => some .startswith | "endswith" => some .endswith
  | "icontains" => some .icontains | "istartswith" => some .istartswith
  | "iendswith" => some .iendswith | _ => none

def parseLikeK? : String → Option LikeK
  | "like" => some .like | "notlike" => some .notlike | "ilike" => some .ilike
  | "notilike" => some .notilike | _ => none

/-- `N` | `b0`/`b1` | `i<int>` | `s:<codepoints>` -/
def parseLit? (s : String) : Option Lit :=
  if s == "N" then some .null
  else if s == "b0" then some (.bool false)
  else if s == "b1" then some (.bool true)
  else if s.startsWith "i" then (parseInt? (s.drop 1).toString).map .int
  else (parseStr? s).map .str

def chunk (n : Nat) : Nat → List Lit → List (List Lit)
  | 0, _ => []
  | k + 1, l => l.take n :: chunk n k (l.drop n)

def parseLits? : Nat → List String → Option (List Lit × List String)
  | 0, ts => some ([], ts)
  | n + 1, t :: ts =>
    match parseLit? t, parseLits? n ts with
    | some v, some (vs, rest) => some (v :: vs, rest)
    | _, _ => none
  | _ + 1, [] => none

mutual
def parseU : Nat → List String → Option (U × List String)
  | 0, _ => none
  | f + 1, tok :: ts =>
    match tok, ts with
    | "col", n :: ty :: rest => (parseTy? ty).map (fun t => (U.col n t, rest))
    | "li", i :: rest => (parseInt? i).map (fun v => (U.li v, rest))
    | "ls", s :: rest => (parseStr? s).map (fun v => (U.ls v, rest))
    | "pi", i :: rest => (parseInt? i).map (fun v => (U.pi v, rest))
    | "ps", s :: rest => (parseStr? s).map (fun v => (U.ps v, rest))
    | "ln", s :: rest => (parseStr? s).map (fun v => (U.ln v, rest))
    | "lb", "1" :: rest => some (U.lb true, rest)
    | "lb", "0" :: rest => some (U.lb false, rest)
    | "null", rest => some (U.null, rest)
    | "true", rest => some (U.true_, rest)
    | "false", rest => some (U.false_, rest)
    | "neg", rest => (parseU f rest).map (fun (a, r) => (U.neg a, r))
    | "not", rest => (parseU f rest).map (fun (a, r) => (U.not_ a, r))
    | "subq", "col" :: n :: ty :: rest => (parseTy? ty).map (fun t => (U.subq n t, rest))
    | "between", rest =>
      match parseUs f 3 rest with
      | some ([x, lo, hi], r) => some (U.between x lo hi, r)
      | _ => none
    | "and", n :: rest =>
      match parseNat? n with
      | some k => (parseUs f k rest).map (fun (cs, r) => (U.and_ cs, r))
      | none => none
    | "or", n :: rest =>
      match parseNat? n with
      | some k => (parseUs f k rest).map (fun (cs, r) => (U.or_ cs, r))
      | none => none
    | "coalesce", n :: rest =>
      match parseNat? n with
      | some k => (parseUs f k rest).map (fun (cs, r) => (U.coalesce cs, r))
      | none => none
    | "cast", ty :: rest =>
      match parseTy? ty, parseU f rest with
      | some t, some (a, r) => some (U.cast t a, r)
      | _, _ => none
    | "case", hv :: n :: he :: rest =>
      match parseNat? n with
      | none => none
      | some k =>
        let r1 := if hv == "1" then parseU f rest else some (U.absent, rest)
        match r1 with
        | none => none
        | some (v, rest1) =>
          match parseUs f (2 * k) rest1 with
          | none => none
          | some (ws, rest2) =>
            if he == "1" then
              (parseU f rest2).map (fun (e, r) => (U.case_ v ws e, r))
            else some (U.case_ v ws U.absent, rest2)
    | "in", n :: rest =>
      match parseNat? n with
      | none => none
      | some k =>
        match parseLits? k rest with
        | none => none
        | some (vs, rest1) => (parseU f rest1).map (fun (x, r) => (U.inOp false vs x, r))
    | "tin", ar :: nr :: rest =>
      match parseNat? ar, parseNat? nr with
      | some a, some k =>
        match parseLits? (a * k) rest with
        | none => none
        | some (vs, rest1) =>
          (parseUs f a rest1).map (fun (xs, r) => (U.tupleIn false (chunk a k vs) xs, r))
      | _, _ => none
    | "tnotin", ar :: nr :: rest =>
      match parseNat? ar, parseNat? nr with
      | some a, some k =>
        match parseLits? (a * k) rest with
        | none => none
        | some (vs, rest1) =>
          (parseUs f a rest1).map (fun (xs, r) => (U.tupleIn true (chunk a k vs) xs, r))
      | _, _ => none
    | "notin", n :: rest =>
      match parseNat? n with
      | none => none
      | some k =>
        match parseLits? k rest with
        | none => none
        | some (vs, rest1) => (parseU f rest1).map (fun (x, r) => (U.inOp true vs x, r))
    | op, rest =>
      match parseBinK? op with
      | some k =>
        match parseUs f 2 rest with
        | some ([a, b], r) => some (U.bin k a b, r)
        | _ => none
      | none =>
        match parseLikeK? op, rest with
        | some k, esc :: rest1 =>
          let e : Option (Option String) :=
            if esc == "N" then some none else (parseStr? esc).map some
          match e, parseUs f 2 rest1 with
          | some e', some ([a, b], r) => some (U.like k e' a b, r)
          | _, _ => none
        | _, _ =>
          match parseStrK? op, rest with
          | some k, esc :: rest1 =>
            let e : Option (Option String) :=
              if esc == "N" then some none else (parseStr? esc).map some
            match e, parseUs f 2 rest1 with
            | some e', some ([a, b], r) => some (U.strop k e' a b, r)
            | _, _ => none
          | _, _ => none
  | _ + 1, [] => none

def parseUs : Nat → Nat → List String → Option (List U × List String)
  | 0, _, _ => none
  | _ + 1, 0, ts => some ([], ts)
  | f + 1, n + 1, ts =>
    match parseU f ts with
    | none => none
    | some (u, rest) =>
      match parseUs f n rest with
      | none => none
      | some (us, rest') => some (u :: us, rest')
end

def parseWire (ts : List String) : Option U :=
  match parseU (2 * ts.length + 2) ts with
  | some (u, []) => some u
  | _ => none

def grammarOf : Dialect → Grammar
  | .sqlite => Pratt.sqlite
  | .postgresql => Pratt.postgresql
  | .mysql => Pratt.mysql
  | .mariadb => Pratt.mysql
  | .default => Pratt.postgresql

def b01 (b : Bool) : String := if b then "1" else "0"

def tvStr : TV → String
  | none => "N"
  | some true => "T"
  | some false => "F"

/-- remove the `paren` nodes selected by the bits of the mask (pre-order, lowest bit
    first): used to validate a grammar table on groupings SQLAlchemy does not produce -/
def dropParens : G → Nat → G × Nat
  | .atom a, m => (.atom a, m)
  | .pre s t c, m =>
    let (c', m1) := dropParens c m
    (.pre s t c', m1)
  | .inf s t l r, m =>
    let (l', m1) := dropParens l m
    let (r', m2) := dropParens r m1
    (.inf s t l' r', m2)
  | .tern s t mid mt a b c, m =>
    let (a', m1) := dropParens a m
    let (b', m2) := dropParens b m1
    let (c', m3) := dropParens c m2
    (.tern s t mid mt a' b' c', m3)
  | .br .paren c, m =>
    let (c', m1) := dropParens c (m / 2)
    if m % 2 == 1 then (c', m1) else (.br .paren c', m1)
  | .br k c, m =>
    let (c', m1) := dropParens c m
    (.br k c', m1)

def symOfName? : String → Option Sym
  | "plus" => some .plus | "minus" => some .minus | "star" => some .star | "slash" => some .slash
  | "percent" => some .percent | "concat" => some .concat | "eq" => some .eq | "ne" => some .ne
  | "lt" => some .lt | "le" => some .le | "gt" => some .gt | "ge" => some .ge | "nseq" => some .nseq
  | "is_" => some .is_ | "isNot" => some .isNot | "isDistinct" => some .isDistinct
  | "isNotDistinct" => some .isNotDistinct | "like" => some .like | "notLike" => some .notLike
  | "ilike" => some .ilike | "notIlike" => some .notIlike | "escape" => some .escape
  | "between" => some .between | "notBetween" => some .notBetween | "in_" => some .in_
  | "notIn" => some .notIn | "and_" => some .and_ | "or_" => some .or_ | "not_" => some .not_
  | "neg" => some .neg | "comma" => some .comma | "as_" => some .as_ | "when_" => some .when_
  | "then_" => some .then_ | "else_" => some .else_ | "collate" => some .collate
  | "values" => some .values | _ => none

def symName (s : Sym) : String := (reprStr s).replace "SaVerif.Pratt.Sym." ""

def bracketOfName? : String → Option Bracket
  | "paren" => some .paren | "caseSearched" => some .caseSearched | "caseSimple" => some .caseSimple
  | "cast" => some .cast | "fn" => some (.fn "") | _ => none

/-- tokens written by `harness/lib_expr.py:lex_sql` -/
def parseTok? (t : String) : Option Tok :=
  if t == "a" then some (Tok.atom ⟨"", .other⟩)
  else if t.startsWith "p:" then (symOfName? (t.drop 2).toString).map (fun s => Tok.pre s "")
  else if t.startsWith "i:" then (symOfName? (t.drop 2).toString).map (fun s => Tok.inf s "")
  else if t.startsWith "o:" then (bracketOfName? (t.drop 2).toString).map Tok.open_
  else if t.startsWith "c:" then (bracketOfName? (t.drop 2).toString).map Tok.close
  else none

/-- forget texts, function names and atoms: what `readtok` and `readu` are compared on -/
def eraseTok : Tok → Tok
  | .atom _ => .atom ⟨"", .other⟩
  | .pre s _ => .pre s ""
  | .inf s _ => .inf s ""
  | .open_ (.fn _) => .open_ (.fn "")
  | .close (.fn _) => .close (.fn "")
  | t => t

/-- `-1` is one literal for the lexer and may be `neg` of a literal in the model: a unary minus
    directly over a leaf is folded into the leaf on both sides -/
def collapseNeg : G.Skel → G.Skel
  | .leaf => .leaf
  | .pre s c =>
    match s, collapseNeg c with
    | .neg, .leaf => .leaf
    | s, c' => .pre s c'
  | .inf s l r => .inf s (collapseNeg l) (collapseNeg r)
  | .tern s m a b c => .tern s m (collapseNeg a) (collapseNeg b) (collapseNeg c)
  | .br c => .br (collapseNeg c)

def skelStr : G.Skel → String
  | .leaf => "x"
  | .pre s c => "(" ++ symName s ++ " " ++ skelStr c ++ ")"
  | .inf s l r => "(" ++ symName s ++ " " ++ skelStr l ++ " " ++ skelStr r ++ ")"
  | .tern s m a b c =>
    "(" ++ symName s ++ "/" ++ symName m ++ " " ++ skelStr a ++ " " ++ skelStr b ++ " " ++ skelStr c ++ ")"
  | .br c => "[" ++ skelStr c ++ "]"

/-- the grammar's reading of a token sequence, as a skeleton (re-associated) -/
def readToks (g : Grammar) (ts : List Tok) : String :=
  match parse g ts with
  | none => "noparse"
  | some t => showStr (skelStr (collapseNeg t.strip.norm.skel))

def handle : List String → String
  | "render" :: d :: rest =>
    match parseDialect? d, parseWire rest with
    | some dl, some u =>
      match build u with
      | none => "error"
      | some e => "ok " ++ (SaExpr.tyOf e).name ++ " " ++ showStr (render dl true (lower e)).text
    | _, _ => "bad-op"
  | "parse" :: d :: rest =>
    match parseDialect? d, parseWire rest with
    | some dl, some u =>
      match build u with
      | none => "error"
      | some e =>
        let t := render dl true (lower e)
        let g := grammarOf dl
        let flags := b01 (Core e) ++ b01 (WG e) ++ b01 (ok g t) ++
          b01 (concatFull g || ConcatSafe dl e)
        match parse g t.print with
        | none => "noparse " ++ b01 (wb g t.norm) ++ " " ++ flags
        | some p => "ok " ++ b01 (wb g t.norm) ++ " " ++ b01 (p == t.norm) ++ " " ++ flags
    | _, _ => "bad-op"
  | "readtok" :: d :: rest =>
    match parseDialect? d, rest.mapM parseTok? with
    | some dl, some ts => "ok " ++ readToks (grammarOf dl) ts
    | _, _ => "bad-op"
  | "readu" :: d :: rest =>
    -- reading of the model's own text, and the skeleton of the tree the model intends
    match parseDialect? d, parseWire rest with
    | some dl, some u =>
      match build u with
      | none => "error"
      | some e =>
        let t := render dl true (lower e)
        "ok " ++ readToks (grammarOf dl) (t.print.map eraseTok) ++ " " ++
          showStr (skelStr (collapseNeg t.strip.norm.skel))
    | _, _ => "bad-op"
  | "evalu" :: ia :: ib :: ic :: sa :: sb :: rest =>
    -- meaning of a fragment tree (`evalNumU` / `evalBoolU`) on one row of the integer and
    -- string columns
    match parseLit? ia, parseLit? ib, parseLit? ic, parseLit? sa, parseLit? sb, parseWire rest with
    | some a, some b, some c, some x, some y, some u =>
      let env : String → Val := fun n =>
        if n == "ia" then litVal a else if n == "ib" then litVal b else if n == "ic" then litVal c
        else if n == "sa" then litVal x else if n == "sb" then litVal y
        else .null
      if NumU u || StrU u then
        match evalNumU env .sqlite u with
        | .int i => "ok i" ++ toString i
        | .null => "ok N"
        | .str z => "ok " ++ showStr z
      else if BoolU u then "ok " ++ tvStr (evalBoolU env .sqlite u)
      else "na"
    | _, _, _, _, _, _ => "bad-op"
  | "evalin" :: x :: n :: rest =>
    match parseLit? x, parseNat? n with
    | some xv, some k =>
      match parseLits? k rest with
      | some (vs, []) =>
        "ok " ++ tvStr (evalIn (litVal xv) (vs.map litVal)) ++ " " ++
          tvStr (evalNotIn (litVal xv) (vs.map litVal))
      | _ => "bad-op"
    | _, _ => "bad-op"
  | "parsedrop" :: mask :: d :: rest =>
    match parseNat? mask, parseDialect? d, parseWire rest with
    | some m, some dl, some u =>
      match build u with
      | none => "error"
      | some e =>
        let t := (dropParens (render dl true (lower e)) m).1
        match parse (grammarOf dl) t.print with
        | none => "noparse " ++ showStr t.text
        | some p => "ok " ++ showStr t.text ++ " " ++ showStr p.fullParen.text
    | _, _, _ => "bad-op"
  | _ => "bad-op"

end SaVerif.Drv.Expr
