import SaVerif.Model.RowKeys
import SaVerif.Drv.Parse
/-!
Sub-driver for M-ROWKEYS.

  rowkeys lookup <flags> <rcs> <desc> <adapt> <probes>

flags   four bits `cols_are_ordered textual_ordered ad_hoc_textual loose`, e.g. `1000`
rcs     `-` or entries `keyname/name/o1.o2.o3` separated by `,` (objects non-empty)
desc    cursor.description names (ids), `-` or `,`-separated
adapt   `N` (metadata used as built) or the keys of `invoked_statement._all_selected_columns`
        when `_adapt_to_context` ran (`-` = none)
probes  keys to look up, `-` or `,`-separated
answer  `K<keys .-separated>;<one of F<i> | A | M per probe, `,`-separated>[;<the same answers read
        off the ordered-dict construction, when not adapted>]` or `dup-error`
-/
namespace SaVerif.Drv.RowKeys
open SaVerif.Drv SaVerif.RowKeys

def parseRC? (s : String) : Option RC :=
  match s.splitOn "/" with
  | [k, n, os] => do
    let objs ← (os.splitOn ".").mapM parseNat?
    pure { keyname := (← k.toNat?), name := (← n.toNat?), objects := objs }
  | _ => none

def parseRCs? (s : String) : Option (List RC) :=
  if s == "-" then some [] else (s.splitOn ",").mapM parseRC?

def parseFlags? (s : String) : Option Flags :=
  match s.toList with
  | [a, b, c, d] =>
    if [a, b, c, d].all (fun ch => ch == '0' || ch == '1') then
      some { colsOrdered := a == '1', textualOrdered := b == '1', adHocTextual := c == '1', loose := d == '1' }
    else none
  | _ => none

def showLook : Look → String
  | .found i => "F" ++ toString i
  | .ambiguous => "A"
  | .missing => "M"

def handle : List String → String
  | ["lookup", flags, rcs, desc, adapt, probes] =>
    let ad : Option (Option (List Key)) := if adapt == "N" then some none else (parseNatList? adapt).map some
    match parseFlags? flags, parseRCs? rcs, parseNatList? desc, ad, parseNatList? probes with
    | some f, some rs, some d, some ad, some ps =>
      if rs.any (fun rc => rc.objects.isEmpty) then "bad-op" else
      match merge f rs d with
      | none => "dup-error"
      | some (raw, keys) =>
        "K" ++ ".".intercalate (keys.map toString) ++ ";" ++
          ",".intercalate (ps.map (fun k => showLook
            (match ad with
             | none => lookup raw rs.length k
             | some cols => lookupAdapted raw rs.length cols k))) ++
          -- the ordered-dict construction must agree with the declarative `lookup`
          (match ad with
           | none => ";" ++ ",".intercalate (ps.map (fun k => showLook
               (match (orderedKeymap raw rs.length).find? (fun e => e.1 == k) with
                | some (_, some r) => .found r.idx
                | some (_, none) => .ambiguous
                | none => .missing)))
           | some _ => "")
    | _, _, _, _, _ => "bad-op"
  | _ => "bad-op"

end SaVerif.Drv.RowKeys
