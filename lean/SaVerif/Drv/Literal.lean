import SaVerif.Model.Literal
import SaVerif.Gen.LiteralTables
import SaVerif.Drv.Ident
namespace SaVerif.Drv.Literal
open SaVerif.Drv SaVerif.Ident SaVerif.Literal SaVerif.Gen.LiteralTables
open SaVerif.Drv.Ident (parseCps? showCps)

def cfg? : String → Option Cfg
  | "default" => some default
  | "sqlite" => some sqlite
  | "postgresql" => some postgresql
  | "postgresqlbs" => some postgresqlbs
  | "pgasyncpg" => some pgasyncpg
  | "mysql" => some mysql
  | "mysqlnobs" => some mysqlnobs
  | "mariadb" => some mariadb
  | "mssql" => some mssql
  | "mssqln" => some mssqln
  | "oracle" => some oracle
  | _ => none

def nats? (l : List String) : Option (List Nat) := l.mapM (fun (t : String) => t.toNat?)

def handle : List String → String
  | ["str", c, s] =>
    match cfg? c, parseCps? s with
    | some cf, some st => showCps (renderString cf st)
    | _, _ => "bad-op"
  | ["int", i] =>
    match i.toInt? with
    | some v => showCps (renderInt v)
    | none => "bad-op"
  | ["bool", c, b] =>
    match cfg? c, b with
    | some cf, "T" => showCps (renderBool cf true)
    | some cf, "F" => showCps (renderBool cf false)
    | _, _ => "bad-op"
  | ["none", c] =>
    match cfg? c with
    | some cf => showCps (renderNone cf)
    | none => "bad-op"
  | ["date", c, y, m, d] =>
    match cfg? c, nats? [y, m, d] with
    | some cf, some [y, m, d] => showCps (renderDate cf y m d)
    | _, _ => "bad-op"
  | ["time", c, h, mi, s, us] =>
    match cfg? c, nats? [h, mi, s, us] with
    | some cf, some [h, mi, s, us] => showCps (renderTime cf h mi s us)
    | _, _ => "bad-op"
  | ["datetime", c, y, m, d, h, mi, s, us] =>
    match cfg? c, nats? [y, m, d, h, mi, s, us] with
    | some cf, some [y, m, d, h, mi, s, us] => showCps (renderDateTime cf y m d h mi s us)
    | _, _ => "bad-op"
  | ["lexstr", mode, npre, s] =>
    match mode.toNat?, parseCps? s with
    | some m, some st =>
      match lexString m (npre == "T") st with
      | some (g, r) => showCps g ++ " " ++ showCps r
      | none => "none"
    | _, _ => "bad-op"
  | ["lexint", s] =>
    match parseCps? s with
    | some st =>
      match lexInt st with
      | some (v, r) => toString v ++ " " ++ showCps r
      | none => "none"
    | none => "bad-op"
  | ["subpyformat", r, s] =>
    match parseCps? r, parseCps? s with
    | some rp, some st => showCps (subPyformat rp (st.length + 1) st)
    | _, _ => "bad-op"
  | _ => "bad-op"

end SaVerif.Drv.Literal
