import SaVerif.Model.ResultMemo
import SaVerif.Gen.ResultPolicy
import SaVerif.Drv.Parse
/-!
Sub-driver for M-RESULT.

  result run <kind> <sss> <width> <rows> <ops>     real strategies (`Src.ops`)
  result plain <kind> <sss> <width> <rows> <ops>   the bare-list reference (`Plain.ops`)
  result hazards <kind> <sss> <width> <rows> <ops> hazard flag per op (0/1)
  result mrun <kind> <sss> <width> <rows> <ops>    real strategies + memoized getters, reset policy
                                                   regenerated from the source (Gen/ResultPolicy)
  result mpure <kind> <sss> <width> <rows> <ops>   same, every call reading the current configuration
  result mhazards …                                hazard flags of the memoizing run

kind   default | buffered:<max_row_buffer> | full | iter | chunked:<0|1>
       | merged:<kind>+<kind>+…   (rows then hold one group per child, separated by `|`)
sss    0|1   (`_source_supports_scalars`; only iter / chunked / merged-of-iter)
rows   `-` or rows separated by `;`, each row = values separated by `.`
ops    `-` or ops separated by `;`, fields of one op separated by `:`
-/
namespace SaVerif.Drv.Result
open SaVerif.Drv SaVerif.Result

def parseRow? (s : String) : Option Row := (s.splitOn ".").mapM parseNat?

def parseRows? (s : String) : Option (List Row) :=
  if s == "-" then some [] else (s.splitOn ";").mapM parseRow?

def parseTgt? : String → Option Tgt
  | "r" => some .r
  | "v" => some .v
  | _ => none

def parseOptNat? (s : String) : Option (Option Nat) :=
  if s == "N" then some none else s.toNat?.map some

def parseStrat? : String → Option UStrat
  | "ident" => some .ident
  | "first" => some .first
  | "parity" => some .parity
  | _ => none

def parseOp? (s : String) : Option Op :=
  match s.splitOn ":" with
  | ["uq", t, u] => do pure (.unique (← parseTgt? t) (← parseStrat? u))
  | ["cols", t, idxs] => do pure (.columns (← parseTgt? t) (← (idxs.splitOn ".").mapM parseNat?))
  | ["yp", t, n] => do pure (.yieldPer (← parseTgt? t) (← n.toNat?))
  | ["sc", i] => do pure (.scalars (← i.toNat?))
  | ["map"] => some .mappings
  | ["f1", t] => do pure (.fetchone (← parseTgt? t))
  | ["nx", t] => do pure (.next (← parseTgt? t))
  | ["fm", t, n] => do pure (.fetchmany (← parseTgt? t) (← parseOptNat? n))
  | ["all", t] => do pure (.fetchall (← parseTgt? t))
  | ["it", t, k] => do pure (.iter (← parseTgt? t) (← k.toNat?))
  | ["pt", t, n, k] => do pure (.partitions (← parseTgt? t) (← parseOptNat? n) (← k.toNat?))
  | ["first", t] => do pure (.first (← parseTgt? t))
  | ["one", t] => do pure (.one (← parseTgt? t))
  | ["oon", t] => do pure (.oneOrNone (← parseTgt? t))
  | ["scalar"] => some .scalar
  | ["s1"] => some .scalarOne
  | ["s1n"] => some .scalarOneOrNone
  | ["close", t] => do pure (.close (← parseTgt? t))
  | ["closed", t] => do pure (.closed (← parseTgt? t))
  | ["freeze"] => some .freeze
  | _ => none

def parseOps? (s : String) : Option (List Op) :=
  if s == "-" then some [] else (s.splitOn ";").mapM parseOp?

def opTgt : Op → Option Tgt
  | .unique t _ | .columns t _ | .yieldPer t _ | .fetchone t | .next t | .fetchmany t _
  | .fetchall t | .iter t _ | .partitions t _ _ | .first t | .one t | .oneOrNone t
  | .close t | .closed t => some t
  | _ => none

/-- reject what the real facade rejects: a view target before a view exists,
    `fetchone`/`columns` on a ScalarResult, `columns` on a scalar source with ≠ 1 index,
    empty index lists, `fetchmany(0)` / `yield_per(0)` sizes are allowed (modelled). -/
def wfOps (sss : Bool) : Option View → List Op → Bool
  | _, [] => true
  | v, op :: ops =>
    let tgtOk := match opTgt op with
      | some .v => v.isSome
      | _ => true
    let opOk := match op with
      | .fetchone .v => v.isSome  -- (a failed `scalars(i)` leaves the previous view in place)
      | .columns t idxs =>
        !idxs.isEmpty && (t == .r || v.isSome) && (!sss || idxs.length == 1)
      | .scalars i => !sss || i == 0
      | _ => true
    let v' := match op with
      | .scalars _ => some View.scalars
      | .mappings => some View.mappings
      | .freeze => none
      | _ => v
    tgtOk && opOk && wfOps sss v' ops

def parseKind1? (s : String) (rows : List Row) : Option Src :=
  match s.splitOn ":" with
  | ["default"] => some (Src.mkDefault rows)
  | ["buffered", m] => do pure (Src.mkBuffered (← m.toNat?) rows)
  | ["full"] => some (Src.mkFull rows)
  | ["iter"] => some (Src.mkIter rows)
  | ["chunked", "0"] => some (Src.mkChunked false rows)
  | ["chunked", "1"] => some (Src.mkChunked true rows)
  | _ => none

/-- (source, all rows in delivery order) -/
def parseSrc? (kind rows : String) : Option (Src × List Row) :=
  if kind.startsWith "merged:" then
    let kinds := ((kind.drop 7).toString).splitOn "+"
    let groups := rows.splitOn "|"
    if kinds.length != groups.length then none else do
      let rs ← groups.mapM parseRows?
      let cs ← (kinds.zip rs).mapM (fun (k, r) => parseKind1? k r)
      pure (Src.mkMerged cs, rs.flatten)
  else do
    let rs ← parseRows? rows
    let s ← parseKind1? kind rs
    pure (s, rs)

def showVals (l : List Val) : String := ".".intercalate (l.map toString)

def showItem : Item → String
  | .row l => "(" ++ showVals l ++ ")"
  | .scalar v => toString v
  | .mapping l => "{" ++ showVals l ++ "}"

def showErr : Err → String
  | .closed => "closed"
  | .noResult => "noresult"
  | .multiple => "multiple"
  | .stopIter => "stop"
  | .unhashable => "unhashable"
  | .index => "index"

def showItems (l : List Item) : String := "[" ++ ",".intercalate (l.map showItem) ++ "]"

def showOut : Out → String
  | .none => "N"
  | .item i => "I" ++ showItem i
  | .items l => "L" ++ showItems l
  | .parts l => "P" ++ "|".intercalate (l.map showItems)
  | .val v => "V" ++ toString v
  | .bool b => if b then "B1" else "B0"
  | .unit => "U"
  | .err e => "E:" ++ showErr e

def isCursorKind (kind : String) : Bool :=
  kind == "default" || kind == "full" || kind.startsWith "buffered:"

def ypKindOf (kind : String) : YpKind :=
  if isCursorKind kind then 1 else if kind.startsWith "chunked:" then 2 else 0

def handle : List String → String
  | [cmd, kind, sss, width, rows, ops] =>
    match parseSrc? kind rows, parseBit? sss, width.toNat?, parseOps? ops with
    | some (src, rs), some sssB, some w, some os =>
      if !(rs.all (fun r => r.length == w)) || w == 0 then "bad-op"
      else if sssB && (w != 1 || isCursorKind kind || (kind.splitOn "default").length > 1
                        || (kind.splitOn "buffered").length > 1 || (kind.splitOn "full").length > 1) then "bad-op"
      else if !wfOps sssB none os then "bad-op"
      else
        match cmd with
        | "run" => ";".intercalate ((run Src.ops (St.init src sssB w) os).map (fun o => showOut o.1))
        | "hazards" =>
          ";".intercalate ((run Src.ops (St.init src sssB w) os).map (fun o => if o.2 then "1" else "0"))
        | "mrun" =>
          ";".intercalate ((mrun Src.ops Gen.ResultPolicy.policy true (MSt.init src sssB w (ypKindOf kind)) os).map
            (fun o => showOut o.1))
        | "mpure" =>
          ";".intercalate ((mrun Src.ops Gen.ResultPolicy.policy false (MSt.init src sssB w (ypKindOf kind)) os).map
            (fun o => showOut o.1))
        | "mhazards" =>
          ";".intercalate ((mrun Src.ops Gen.ResultPolicy.policy true (MSt.init src sssB w (ypKindOf kind)) os).map
            (fun o => if o.2 then "1" else "0"))
        | "plain" =>
          let p : Plain := { rem := rs, hard := false, d1 := kind == "default" }
          ";".intercalate ((run Plain.ops (St.init p sssB w) os).map (fun o => showOut o.1))
        | _ => "bad-op"
    | _, _, _, _ => "bad-op"
  | _ => "bad-op"
where
  parseBit? : String → Option Bool
    | "0" => some false
    | "1" => some true
    | _ => none

end SaVerif.Drv.Result
