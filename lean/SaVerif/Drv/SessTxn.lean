import SaVerif.Model.SessTxn
import SaVerif.Drv.Parse
/-!
Sub-driver for M-SESS.   `sess run <eoc 0|1> <ops separated by ;>`
op tokens: A<o>:<pk>:<v>  M<o>:<v>  K<o>:<pk>  D<o>  F  L<o>  b  n  C  R  X  c<h>  r<h>  Z0 Z1
`sess runa <eoc> <autoflush 0|1> <ops>`
response: one record per op separated by `|`, fields by `/`:
  res / inTxn inNested / depth / objs / committed / working      (see harness/lib_sess.py)
-/
namespace SaVerif.Drv.SessTxn
open SaVerif.Drv SaVerif.SessTxn

def nats? (s : String) : Option (List Nat) := (s.splitOn ":").mapM (·.toNat?)

def parseOp (nobj : Nat) (s : String) : Option SOp :=
  match s.toList with
  | ['F'] => some .flush | ['b'] => some .begin | ['n'] => some .beginNested
  | ['C'] => some .commit | ['R'] => some .rollback | ['X'] => some .close
  | ['Z', '0'] => some (.setAutoflush false) | ['Z', '1'] => some (.setAutoflush true)
  | c :: rest =>
    match nats? (String.ofList rest), c with
    | some [o, pk, v], 'A' => if o == nobj then some (.add pk v) else none
    | some [o, v], 'M' => if o < nobj then some (.setV o v) else none
    | some [o, pk], 'K' => if o < nobj then some (.setPk o pk) else none
    | some [o], 'D' => if o < nobj then some (.delete o) else none
    | some [o], 'L' => if o < nobj then some (.load o) else none
    | some [h], 'c' => some (.tCommit h)
    | some [h], 'r' => some (.tRollback h)
    | _, _ => none
  | [] => none

def showRes : SRes → String
  | .ok => "ok" | .invalidRequest => "IRE" | .closedTxn => "RCE" | .objectDeleted => "ODE"

def b2s (b : Bool) : String := if b then "1" else "0"

def showRows (r : Rows) : String :=
  let ks := sortNats (r.map (·.1))
  if ks.isEmpty then "-" else
  ",".intercalate (ks.map fun k => toString k ++ "=" ++ toString ((r.get k).getD 0))

def showObj (s : Sess) (o : Nat) : String :=
  let x := s.obj o
  let st :=
    if x.key.isNone then (if x.attached then "P" else "T")
    else if !x.attached then "X"
    else if x.delFlag then "D" else "S"
  st ++ b2s (s.new.contains o)
     ++ b2s (s.imap.contains o && x.modified && !s.marked.contains o)
     ++ b2s (s.marked.contains o)
     ++ ":" ++ (match x.key with | some k => toString k | none => "N")
     ++ ":" ++ (if x.idL then toString x.pk else "E")
     ++ ":" ++ (if x.vL then toString x.v else "E")

def showState (r : SRes) (s : Sess) : String :=
  "/".intercalate [
    showRes r,
    b2s (!s.txns.isEmpty) ++ b2s (s.txns.any (·.nested)),
    toString s.txns.length,
    (if s.objs.isEmpty then "-" else ",".intercalate ((List.range s.objs.length).map (showObj s))),
    showRows s.committed,
    showRows s.rows ]

def runOps : Sess → List String → Option (List String)
  | _, [] => some []
  | s, t :: ts =>
    match parseOp s.objs.length t with
    | none => none
    | some op =>
      let (s', r) := s.step op
      match runOps s' ts with
      | some rest => some (showState r s' :: rest)
      | none => none

def handle : List String → String
  | ["run", eoc, ops] =>
    match eoc with
    | "0" | "1" =>
      match runOps (Sess.init (eoc == "1")) (if ops == "-" then [] else ops.splitOn ";") with
      | some out => if out.isEmpty then "-" else "|".intercalate out
      | none => "bad-op"
    | _ => "bad-op"
  | ["runa", eoc, af, ops] =>      -- Session(autoflush=<af>)
    match eoc, af with
    | "0", "0" | "0", "1" | "1", "0" | "1", "1" =>
      match runOps (Sess.init (eoc == "1") (af == "1")) (if ops == "-" then [] else ops.splitOn ";") with
      | some out => if out.isEmpty then "-" else "|".intercalate out
      | none => "bad-op"
    | _, _ => "bad-op"
  | _ => "bad-op"

end SaVerif.Drv.SessTxn
