import SaVerif.Model.Naming
import SaVerif.Gen.NamingTables
import SaVerif.Drv.Ident
namespace SaVerif.Drv.Naming
open SaVerif.Drv SaVerif.Ident SaVerif.Naming
open SaVerif.Drv.Ident (parseCps? showCps parseCpsList?)

/-- `cls>s:..` list separated by `,` -/
def parseReq? (s : String) : Option (Nat × Str) :=
  match s.splitOn ">" with
  | [c, n] => do
    let cc ← c.toNat?
    let nn ← parseCps? n
    pure (cc, nn)
  | _ => none

def showCpsList' (l : List Str) : String := if l.isEmpty then "-" else ",".intercalate (l.map showCps)

def showErr : ConvErr → String
  | .keyError => "keyerror"
  | .needsName => "needsname"
  | .indexError => "indexerror"
  | .badFormat => "badformat"

/-- pairs `name~key` separated by `,`; `-` empty -/
def parseCols? (s : String) : Option (List (Str × Str)) :=
  if s == "-" then some [] else
  (s.splitOn ",").mapM (fun (p : String) =>
    match p.splitOn "~" with
    | [a, b] => do
      let x ← parseCps? a
      let y ← parseCps? b
      pure (x, y)
    | _ => none)

def optNat? (s : String) : Option (Option Nat) :=
  if s == "N" then some none else s.toNat?.map some

/-- `c:<lim|N>` | `i:<T|F>:<name>` | `k:<T|F>:<name>` | `l:<name>`; names as `s:` tokens -/
def parseLOp? (s : String) : Option LOp :=
  match s.splitOn ":" with
  | ["c", l] => (optNat? l).map LOp.connect
  | ["i", t, "s", n] => (parseCps? ("s:" ++ n)).map (LOp.fmtIndex (t == "T"))
  | ["k", t, "s", n] => (parseCps? ("s:" ++ n)).map (LOp.fmtConstraint (t == "T"))
  | ["l", "s", n] => (parseCps? ("s:" ++ n)).map LOp.label
  | _ => none

def showLOut : LOut → String
  | .connected => "connected"
  | .argumentError => "argumenterror"
  | .identifierError => "identifiererror"
  | .name r => showCps r

/-- `id~tbl~name` -/
def parseCol? (s : String) : Option Col :=
  match s.splitOn "~" with
  | [i, t, n] => do
    let ii ← i.toNat?
    let tt ← parseCps? t
    let nn ← parseCps? n
    pure ⟨ii, tt, nn⟩
  | _ => none

/-- canonical pattern of a list of keys: index of the first equal element -/
def firstIdx (l : List BKey) : List Nat := l.map (fun k => l.idxOf k)

def handle : List String → String
  | ["labels", tq, cols] =>
    match (if cols == "-" then some [] else (cols.splitOn ",").mapM parseCol?) with
    | some cs => showCpsList' (renderLabs AMap.empty (genNames (tq == "T") true cs))
    | none => "bad-op"
  | ["derive", uniq, k] =>
    match k.toNat? with
    | some n =>
      let ids := (List.range n).map (· + 2)
      showNatList (firstIdx ((deriveText (mkBind 1 [118] (uniq == "T")) SaVerif.Gen.NamingTables.textBindparamsMaintainKey ids).map (·.key)))
    | none => "bad-op"
  | ["life", mi, ud, ll, mx, mc, md5, ops] =>
    match mi.toNat?, optNat? ll, optNat? mx, optNat? mc, parseCps? md5,
        (if ops == "-" then some [] else (ops.splitOn ",").mapM parseLOp?) with
    | some m, some l, some x, some c, some h, some os =>
      let st : DState := ⟨m, ud == "T", l, x, c⟩
      "|".intercalate ((lifeRun (fun _ => h) st os).map (fun e => showLOut e.2.2))
    | _, _, _, _, _, _ => "bad-op"
  | ["trunc", isT, name, max, mi, md5] =>
    match parseCps? name, max.toNat?, mi.toNat?, parseCps? md5 with
    | some n, some m, some i, some h =>
      match truncMaxlen (fun _ => h) (isT == "T") n m i with
      | some r => showCps r
      | none => "identifiererror"
    | _, _, _, _ => "bad-op"
  | ["effmax", spec, mi] =>
    match mi.toNat? with
    | some i =>
      if spec == "N" then toString (effMax none i) else
      match spec.toNat? with
      | some s => toString (effMax (some s) i)
      | none => "bad-op"
    | none => "bad-op"
  | ["idents", ll, reqs] =>
    match ll.toNat?, (if reqs == "-" then some [] else (reqs.splitOn ",").mapM parseReq?) with
    | some l, some rs => "|".intercalate ((runIdents l TState.empty rs).map showCps)
    | _, _ => "bad-op"
  | ["hex", n] =>
    match n.toNat? with
    | some v => showCps (hexStr v)
    | none => "bad-op"
  | ["conv", tmpl, table, cname, isfk, cols, reft, refcols] =>
    match parseCps? tmpl, parseCps? table, parseCols? cols, parseCps? reft, parseCpsList? refcols with
    | some t, some tb, some cs, some rt, some rc =>
      let cn := if cname == "N" then some none else (parseCps? cname).map some
      match cn with
      | some cno =>
        let ci : ConstInfo := { tableName := tb, constName := cno, isFk := isfk == "T", cols := cs, refTable := rt, refCols := rc }
        match expandConv ci (t.length + 1) t with
        | .ok v => showCps v
        | .error e => showErr e
      | none => "bad-op"
    | _, _, _, _, _ => "bad-op"
  | _ => "bad-op"

end SaVerif.Drv.Naming
