import SaVerif.Model.Merge
import SaVerif.Drv.Parse
namespace SaVerif.Drv.Merge
open SaVerif.Drv SaVerif.Merge

def parseOptInt' (s : String) : Option (Option Int) :=
  if s == "N" then some none else s.toInt?.map some

def parseB? (s : String) : Option Bool :=
  if s == "0" then some false else if s == "1" then some true else none

def parseOp? (tok : String) : Option Op :=
  match tok.splitOn ":" with
  | ["ins", k, a, b] => do pure (.insert (← k.toNat?) (← a.toInt?) (← b.toInt?))
  | ["load", k, t] => do pure (.load (← k.toNat?) (← t.toNat?))
  | ["set", k, t, w, v] => do pure (.set (← k.toNat?) (← t.toNat?) (← parseB? w) (← v.toInt?))
  | ["m", l, pk, t, a, b, p, m] =>
    do pure (.merge (← parseB? l) ⟨← pk.toNat?, ← t.toNat?, ← parseOptInt' a, ← parseOptInt' b, ← parseB? p, ← parseB? m⟩)
  | ["del", k, t] => do pure (.del (← k.toNat?) (← t.toNat?))
  | ["flush"] => some .flush
  | _ => none

def parseOps? (s : String) : Option (List Op) :=
  if s == "-" then some [] else (s.splitOn ",").mapM parseOp?

def showOI : Option Int → String
  | some v => toString v
  | none => "N"

def showOut : Out × Nat × Bool → String
  | (.merged nw t a b d, q, x) =>
    "M" ++ (if nw then "1" else "0") ++ ":" ++ toString t ++ ":" ++ showOI a ++ ":" ++ showOI b ++ ":" ++ (if d then "1" else "0") ++ ":" ++ toString q
      ++ ":" ++ (if x then "1" else "0")
  | (.error, _, _) => "E"
  | (.skip, _, _) => "."

def showDb (n : Nat) (st : St) : String :=
  " ".intercalate ((List.range n).filterMap (fun k => (st.db k).map (fun r => toString k ++ "=" ++ toString r.1 ++ "/" ++ toString r.2)))

/-- `run <n> <autoflush 0|1> <final flush 0|1> <ops>` -/
def handle : List String → String
  | ["run", n, af, ff, ops] =>
    match n.toNat?, parseB? af, parseB? ff, parseOps? ops with
    | some n, some af, some ff, some os =>
      if os.all (opOk n) then
        ";".intercalate ((outs af n St.init os).map showOut) ++ " | " ++
          showDb n (run af n St.init (if ff then os ++ [.flush] else os))
      else "bad-op"
    | _, _, _, _ => "bad-op"
  | _ => "bad-op"

end SaVerif.Drv.Merge
