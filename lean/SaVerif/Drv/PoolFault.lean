import SaVerif.Model.PoolFault
import SaVerif.Drv.Parse
namespace SaVerif.Drv.PoolFault
open SaVerif.Drv SaVerif.PoolFault

def parseBool? (s : String) : Option Bool :=
  if s == "1" then some true else if s == "0" then some false else none

def parseOp? (tok : String) : Option Op :=
  match tok.splitOn ":" with
  | ["co"] => some .co
  | ["ci", h] => h.toNat?.map .ci
  | ["inv", h] => h.toNat?.map .inv
  | ["soft", h] => h.toNat?.map .soft
  | ["pinv", h] => h.toNat?.map .pinv
  | ["drop", h] => h.toNat?.map .drop
  | ["wait", n] => n.toNat?.map .wait
  | _ => none

def parseOps? (s : String) : Option (List Op) :=
  if s == "-" then some [] else (s.splitOn ",").mapM parseOp?

def showOut : Out → String
  | .co (.ok h r c) => s!"ok:{h}:{r}:{c}"
  | .co .timeout => "timeout"
  | .co .connectError => "connect-error"
  | .co .checkoutError => "checkout-error"
  | .co .exhausted => "exhausted"
  | .done => "done"
  | .skip => "skip"

def showIdle (st : St) : String :=
  if st.queue.isEmpty then "-" else
  ",".intercalate (st.queue.map fun r =>
    match (getRec st r).conn with
    | some c => s!"{r}:{c}"
    | none => s!"{r}:-")

def openConns (st : St) : List Nat :=
  (List.range st.conns.length).filter (fun i => st.conns.getD i false)

/-- `run <size> <maxOv> <lifo> <recycle> <prePing> <reset> <hasEvent> <plan> <ops>` -/
def handle : List String → String
  | ["run", size, maxOv, lifo, recycle, prePing, reset, hasEvent, plan, ops] =>
    match size.toNat?, maxOv.toInt?, parseBool? lifo, recycle.toInt?, parseBool? prePing,
          reset.toNat?, parseBool? hasEvent, parseNatList? plan, parseOps? ops with
    | some size, some maxOv, some lifo, some recycle, some prePing, some reset, some hasEvent,
      some plan, some ops =>
      if maxOv < -1 ∨ recycle < -1 ∨ 2 < reset then "bad-op" else
      let c : Cfg := { size := size, maxOv := if size == 0 then -1 else maxOv, lifo := lifo,
                       recycle := recycle, prePing := prePing, reset := reset, hasEvent := hasEvent }
      let (st, outs) := run c (init c plan) ops
      ";".intercalate (outs.map showOut) ++
        s!" ov={st.overflow} co={checkedout c st} idle={showIdle st} open={showNatList (openConns st)}" ++
        s!" inv={st.invTime} clock={st.clock} left={st.plan.length}"
    | _, _, _, _, _, _, _, _, _ => "bad-op"
  | _ => "bad-op"

end SaVerif.Drv.PoolFault
