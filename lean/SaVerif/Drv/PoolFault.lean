import SaVerif.Model.PoolFault
import SaVerif.Model.RecProto
import SaVerif.Drv.Parse
namespace SaVerif.Drv.PoolFault
open SaVerif.Drv SaVerif.PoolFault

def parseBool? (s : String) : Option Bool :=
  if s == "1" then some true else if s == "0" then some false else none

def parseOp? (tok : String) : Option Op :=
  match tok.splitOn ":" with
  | ["co"] => some .co
  | ["ci", h] => h.toNat?.map .ci
  | ["inv", h] => h.toNat?.map .inv
  | ["soft", h] => h.toNat?.map .soft
  | ["pinv", h] => h.toNat?.map .pinv
  | ["drop", h] => h.toNat?.map .drop
  | ["wait", n] => n.toNat?.map .wait
  | _ => none

def parseOps? (s : String) : Option (List Op) :=
  if s == "-" then some [] else (s.splitOn ",").mapM parseOp?

def showOut : Out → String
  | .co (.ok h r c) => s!"ok:{h}:{r}:{c}"
  | .co .timeout => "timeout"
  | .co .connectError => "connect-error"
  | .co .checkoutError => "checkout-error"
  | .co .exhausted => "exhausted"
  | .done => "done"
  | .skip => "skip"

def showIdle (st : St) : String :=
  if st.queue.isEmpty then "-" else
  ",".intercalate (st.queue.map fun r =>
    match (getRec st r).conn with
    | some c => s!"{r}:{c}"
    | none => s!"{r}:-")

def openConns (st : St) : List Nat :=
  (List.range st.conns.length).filter (fun i => st.conns.getD i false)

/-! ### `proto`: replay of the shared-cell writes of a concurrent run against `RecProto.step`

Labels `t:kind[:rid]` in the order in which the real run performed them (t = thread):
`cr` entry created, `pop` entry taken from the queue, `fs` fairy_ref set, `fc` fairy_ref
cleared, `cp` _do_return_conn entered, `put` entry appended to the queue, `cl` entry closed
(queue full).  The driver numbers the checkout attempts (one per cr/pop) and remembers
which attempt of a thread is responsible for an entry -- that is the refinement mapping;
everything else is `RecProto.step`. -/
structure PSt where
  st : SaVerif.RecProto.St
  next : Nat
  owner : List ((Nat × Nat) × Nat)
  lastCp : List (Nat × Nat)
  nrec : Nat

def pOwner (p : PSt) (t r : Nat) : Option Nat :=
  (p.owner.find? (fun e => e.1 == (t, r))).map (·.2)

def pStep (p : PSt) (tok : String) : Option PSt :=
  open SaVerif.RecProto in
  let go (p : PSt) (l : Label) : Option PSt := (step p.st l).map fun s => { p with st := s }
  match tok.splitOn ":" with
  | [t, kind, r] =>
    match t.toNat?, r.toNat? with
    | some t, some r =>
      let p := { p with nrec := max p.nrec (r + 1) }
      if kind == "cr" ∨ kind == "pop" then
        let a := p.next
        let p := { p with next := a + 1, owner := ((t, r), a) :: p.owner.filter (fun e => e.1 != (t, r)) }
        go p (if kind == "cr" then .create a r else .pop a r)
      else
        match pOwner p t r with
        | none => none
        | some a =>
          if kind == "fs" then go p (.setref a r)
          else if kind == "fc" then
            (if p.st.pc a = .got r then go p (.clearf a r) else go p (.clear a r))
          else if kind == "put" then go p (.put a r)
          else if kind == "cp" then some { p with lastCp := (t, r) :: p.lastCp.filter (fun e => e.1 != t) }
          else none
    | _, _ => none
  | [t, "cl"] =>
    match t.toNat? with
    | some t =>
      match (p.lastCp.find? (fun e => e.1 == t)).map (·.2) with
      | some r => match pOwner p t r with
        | some a => go p (.drop a r)
        | none => none
      | none => none
    | none => none
  | _ => none

def pRun (p : PSt) (i : Nat) : List String → Except String PSt
  | [] => .ok p
  | tok :: rest => match pStep p tok with
    | some p' => pRun p' (i + 1) rest
    | none => .error s!"reject@{i}:{tok}"

def pShow (p : PSt) : String :=
  let rs := List.range p.nrec
  let owned (r : Nat) : Bool := (List.range p.next).any fun a =>
    p.st.pc a == .got r || p.st.pc a == .holding r || p.st.pc a == .cleared r
  s!"ok idle={showNatList (rs.filter fun r => p.st.idle r)} owned={showNatList (rs.filter owned)}" ++
    s!" dead={showNatList (rs.filter fun r => p.st.dead r)}"

/-- `run <size> <maxOv> <lifo> <recycle> <prePing> <reset> <hasEvent> <plan> <ops>` /
    `proto <labels>` -/
def handle : List String → String
  | ["proto", labels] =>
    let toks := if labels == "-" then [] else labels.splitOn ","
    match pRun { st := SaVerif.RecProto.init, next := 0, owner := [], lastCp := [], nrec := 0 } 0 toks with
    | .ok p => pShow p
    | .error e => e
  | ["run", size, maxOv, lifo, recycle, prePing, reset, hasEvent, plan, ops] =>
    match size.toNat?, maxOv.toInt?, parseBool? lifo, recycle.toInt?, parseBool? prePing,
          reset.toNat?, parseBool? hasEvent, parseNatList? plan, parseOps? ops with
    | some size, some maxOv, some lifo, some recycle, some prePing, some reset, some hasEvent,
      some plan, some ops =>
      if maxOv < -1 ∨ recycle < -1 ∨ 2 < reset then "bad-op" else
      let c : Cfg := { size := size, maxOv := if size == 0 then -1 else maxOv, lifo := lifo,
                       recycle := recycle, prePing := prePing, reset := reset, hasEvent := hasEvent }
      let (st, outs) := run c (init c plan) ops
      ";".intercalate (outs.map showOut) ++
        s!" ov={st.overflow} co={checkedout c st} idle={showIdle st} open={showNatList (openConns st)}" ++
        s!" inv={st.invTime} clock={st.clock} left={st.plan.length}"
    | _, _, _, _, _, _, _, _, _ => "bad-op"
  | _ => "bad-op"

end SaVerif.Drv.PoolFault
