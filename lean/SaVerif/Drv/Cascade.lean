import SaVerif.Model.Cascade
import SaVerif.Gen.CascadeTable
import SaVerif.Drv.Parse
namespace SaVerif.Drv.Cascade
open SaVerif.Drv SaVerif.Cascade

/-!
`cascade iter <nrels> <flags> <halted> <edges> <root>`
   flags:  one `0|1` per relationship, `.`-separated (does the relationship carry the cascade)
   halted: node ids for which `halt_on` is true, `.`-separated, `-` = none
   edges:  `n:r:c.c.c` items separated by `,` (children of node n through relationship r, in order), `-` = none
   -> `ok <yielded ids .-separated | ->`
`cascade norm <options ,-separated | ->`
   -> the CascadeOptions flags `save-update delete refresh-expire merge expunge delete-orphan` as six `0|1`,
      or `invalid` when an option is not allowed (ArgumentError)
-/

def parseDots? (s : String) : Option (List Nat) :=
  if s == "-" then some [] else (s.splitOn ".").mapM (·.toNat?)

def parseEdge? (s : String) : Option (Nat × Nat × List Nat) :=
  match s.splitOn ":" with
  | [n, r, cs] => do pure ((← n.toNat?), (← r.toNat?), (← parseDots? cs))
  | _ => none

def mkGraph (nrels : Nat) (flags halted : List Nat) (edges : List (Nat × Nat × List Nat)) : Graph where
  nrels := nrels
  flag := fun r => flags[r]? == some 1
  halt := fun n => halted.contains n
  vals := fun n r => ((edges.find? (fun e => e.1 == n && e.2.1 == r)).map (·.2.2)).getD []

def showL (l : List Nat) : String := if l.isEmpty then "-" else ".".intercalate (l.map toString)

def b01 (b : Bool) : String := if b then "1" else "0"

def handle : List String → String
  | ["iter", nrels, flags, halted, edges, root] =>
    match nrels.toNat?, parseDots? flags, parseDots? halted,
          (if edges == "-" then some [] else (edges.splitOn ",").mapM parseEdge?), root.toNat? with
    | some nr, some fl, some hl, some es, some rt =>
      if fl.length != nr then "bad-op" else
      let g := mkGraph nr fl hl es
      let nodes := (es.map (fun e => 1 + e.2.2.foldl max e.1)).foldl max (rt + 1)
      match cascade g (4 * (nodes + 2) * (nr + 2) + 8) rt with
      | some out => "ok " ++ showL out
      | none => "fuel"
    | _, _, _, _, _ => "bad-op"
  | ["norm", opts] =>
    let vs := if opts == "-" then [] else opts.splitOn ","
    match SaVerif.Gen.CascadeTable.normalize vs with
    | none => "invalid"
    | some fl =>
      " ".intercalate (["save-update", "delete", "refresh-expire", "merge", "expunge", "delete-orphan"].map
        (fun o => b01 (fl.contains o)))
  | _ => "bad-op"

end SaVerif.Drv.Cascade
