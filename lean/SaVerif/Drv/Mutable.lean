import SaVerif.Model.Mutable
import SaVerif.Gen.MutableTable
import SaVerif.Drv.Parse
namespace SaVerif.Drv.Mutable
open SaVerif.Drv SaVerif.Mutable

/-!
`mutable run <kind> <af> <np> <rows> <ops>`

* kind: `list` | `dict` | `set` (selects the rows of the regenerated method table)
* af:   `0` | `1`  (Session.autoflush)
* rows: `;`-separated initial row values, `N` = NULL, `e` = empty content,
        otherwise ints joined by `.`
* ops:  `;`-separated, fields by `:`  (`-` = no ops)
    acc:p  mut:p:m:c:r  hold:p  mutv:h:m:c:r  setp:p:c  setn:p  setv:p:h
    flush  commit  rollback  exp:p  expa:p  ref:p  refa:p  refo:p  pik:p  reget:p
* response: one `outcome/par,par,...` per op joined by `|` where
  par = `cur~orig~db`, cur = `X` | `N` | content`@`parents,
  orig = `-` | `NV` | `N` | `=` (same object as cur) | `r`content
-/

def parseContent? (s : String) : Option Content :=
  if s == "e" then some [] else (s.splitOn ".").mapM parseInt?

def parseRow? (s : String) : Option (Option Content) :=
  if s == "N" then some none else (parseContent? s).map some

def parseBool? (s : String) : Option Bool :=
  if s == "1" then some true else if s == "0" then some false else none

/-- `tracked` of the regenerated table; `none` when the method is not a row -/
def lookup (kind m : String) : Option Bool := SaVerif.Gen.MutableTable.lookup kind m

def trackedFn (kind : String) (m : String) : Bool := SaVerif.Gen.MutableTable.tracked kind m

def parseOp? (kind : String) (s : String) : Option Op :=
  match s.splitOn ":" with
  | ["acc", p] => p.toNat?.map .access
  | ["mut", p, m, c, r] => do
    let _ ← lookup kind m
    pure (.mutp (← p.toNat?) m (← parseContent? c) (← parseBool? r))
  | ["hold", p] => p.toNat?.map .hold
  | ["mutv", h, m, c, r] => do
    let _ ← lookup kind m
    pure (.mutv (← h.toNat?) m (← parseContent? c) (← parseBool? r))
  | ["setp", p, c] => do pure (.setPlain (← p.toNat?) (← parseContent? c))
  | ["setn", p] => p.toNat?.map .setNone
  | ["setv", p, h] => do pure (.setVal (← p.toNat?) (← h.toNat?))
  | ["flush"] => some .flush
  | ["commit"] => some .commit
  | ["rollback"] => some .rollback
  | ["exp", p] => p.toNat?.map .expire
  | ["expa", p] => p.toNat?.map .expireAttr
  | ["ref", p] => p.toNat?.map .refresh
  | ["refa", p] => p.toNat?.map .refreshAttr
  | ["refo", p] => p.toNat?.map .refreshOther
  | ["pik", p] => p.toNat?.map .pickle
  | ["reget", p] => p.toNat?.map .reget
  | _ => none

def showContent (c : Content) : String :=
  if c.isEmpty then "e" else ".".intercalate (c.map toString)

def showParents (l : List Nat) : String :=
  if l.isEmpty then "-" else ".".intercalate (l.map toString)

def showPar (st : St) (p : Nat) : String :=
  let x := st.pars p
  let cur := match x.cur with
    | .absent => "X"
    | .none => "N"
    | .ref v => showContent (st.vals v).content ++ "@" ++ showParents (st.vals v).parents
  let orig := match x.orig with
    | .absent => "-"
    | .noValue => "NV"
    | .none => "N"
    | .ref w => if x.cur = .ref w then "=" else "r" ++ showContent (st.vals w).content
  let db := match x.db with
    | none => "N"
    | some c => showContent c
  cur ++ "~" ++ orig ++ "~" ++ db

def showOutcome : Outcome → String
  | .ok => "ok"
  | .errNone => "none"
  | .errInvalidRequest => "invalid"
  | .errBadHandle => "badhandle"

def showState (st : St) (np : Nat) : String :=
  ",".intercalate ((List.range np).map (showPar st))

def runShow (kind : String) (np : Nat) : St → List Op → List String
  | _, [] => []
  | st, op :: ops =>
    let (st1, o) := step (trackedFn kind) st op
    (showOutcome o ++ "/" ++ showState st1 np) :: runShow kind np st1 ops

def handle : List String → String
  | ["run", kind, af, np, rows, ops] =>
    if kind != "list" && kind != "dict" && kind != "set" then "bad-op" else
    match parseBool? af, np.toNat?, (rows.splitOn ";").mapM parseRow?,
          (if ops == "-" then some [] else (ops.splitOn ";").mapM (parseOp? kind)) with
    | some af, some np, some rows, some ops =>
      if rows.length != np then "bad-op" else
      let out := runShow kind np (init rows af) ops
      if out.isEmpty then "-" else "|".intercalate out
    | _, _, _, _ => "bad-op"
  | _ => "bad-op"

end SaVerif.Drv.Mutable
