import SaVerif.Model.SqliteReflect
import SaVerif.Drv.Parse
/-!
  sqlitereflect resolve <s>   -> <class> <n> <ddl text | ?>      (as _resolve_type_affinity)
  sqlitereflect cols <s>      -> <s>,<s>,... | -                  (as _find_cols_in_sig)
  sqlitereflect affinity <s>  -> INTEGER|TEXT|BLOB|REAL|NUMERIC   (SQLite's rule)
-/
namespace SaVerif.Drv.SqliteReflect
open SaVerif.Drv SaVerif.SqliteReflect

def handle : List String → String
  | ["resolve", s] =>
    match parseStr? s with
    | some s =>
      let r := resolve s.toList
      r.1 ++ " " ++ toString r.2 ++ " " ++ (match ddlOf r with | some d => showStr d | none => "?")
    | none => "bad-op"
  | ["cols", s] =>
    match parseStr? s with
    | some s =>
      let r := findColsInSig s.toList
      if r.isEmpty then "-" else ",".intercalate (r.map (fun x => showStr (String.ofList x)))
    | none => "bad-op"
  | ["affinity", s] =>
    match parseStr? s with
    | some s => sqliteAffinity s.toList
    | none => "bad-op"
  | _ => "bad-op"

end SaVerif.Drv.SqliteReflect
