import SaVerif.Model.Ident
import SaVerif.Model.IdentBackends
import SaVerif.Gen.IdentTables
import SaVerif.Drv.Parse
namespace SaVerif.Drv.Ident
open SaVerif.Drv SaVerif.Ident SaVerif.Gen.IdentTables

/-- `s:104.105` ↦ code points (no `Char` round trip) -/
def parseCps? (s : String) : Option Str :=
  if !s.startsWith "s:" then none else
  let body := (s.drop 2).toString
  if body.isEmpty then some [] else (body.splitOn ".").mapM (fun (t : String) => t.toNat?)

def showCps (s : Str) : String := "s:" ++ ".".intercalate (s.map toString)

def parseCpsList? (s : String) : Option (List Str) :=
  if s == "-" then some [] else (s.splitOn ",").mapM parseCps?

def showCpsList (l : List Str) : String :=
  if l.isEmpty then "-" else ",".intercalate (l.map showCps)

def prep? : String → Option Prep
  | "default" => some default
  | "sqlite" => some sqlite
  | "postgresql" => some postgresql
  | "pgasyncpg" => some pgasyncpg
  | "mysql" => some mysql
  | "mariadb" => some mariadb
  | "mysqlansi" => some mysqlansi
  | "mssql" => some mssql
  | "oracle" => some oracle
  | _ => none

def backend? : String → Option Backend
  | "sqlite" => some (Backends.sqlite sqliteRejected)
  | "postgresql" => some (Backends.postgresql pgKeywords)
  | "mysql" => some (Backends.mysql [])
  | "mysqlansi" => some (Backends.mysqlAnsi [])
  | "mssql" => some (Backends.mssql [])
  | "oracle" => some (Backends.oracle [])
  | _ => none

/-- `N` none, `T` true, `F` false -/
def force? : String → Option (Option Bool)
  | "N" => some none
  | "T" => some (some true)
  | "F" => some (some false)
  | _ => none

def showQ : Option Str → String
  | some s => showCps s
  | none => "indexerror"

def parseOp? (s : String) : Option (Option Bool × Str) :=
  match s.splitOn ":" with
  | [f, "s", body] => do
    let ff ← force? f
    let st ← parseCps? ("s:" ++ body)
    pure (ff, st)
  | _ => none

def handle : List String → String
  | ["requires", d, s] =>
    match prep? d, parseCps? s with
    | some p, some st =>
      match requiresQuotes p st with
      | some true => "true" | some false => "false" | none => "indexerror"
    | _, _ => "bad-op"
  | ["legal", d, s] =>
    match prep? d, parseCps? s with
    | some p, some st => toString (legalMatch p st)
    | _, _ => "bad-op"
  | ["quote", d, f, s] =>
    match prep? d, force? f, parseCps? s with
    | some p, some ff, some st => showQ (quote p ff st)
    | _, _, _ => "bad-op"
  | ["quoteseq", d, ops] =>
    match prep? d, (if ops == "-" then some [] else (ops.splitOn ",").mapM parseOp?) with
    | some p, some os => "|".intercalate ((quoteSeq p [] os).map showQ)
    | _, _ => "bad-op"
  | ["normalize", d, s] =>
    match prep? d, parseCps? s with
    | some p, some st =>
      match normalizeName p st with
      | some (n, f) => showCps n ++ " " ++ (match f with | none => "N" | some true => "T" | some false => "F")
      | none => "indexerror"
    | _, _ => "bad-op"
  | ["denormalize", d, f, s] =>
    match prep? d, force? f, parseCps? s with
    | some p, some ff, some st => showQ (denormalizeName p ff st)
    | _, _, _ => "bad-op"
  | ["escape", d, s] =>
    match prep? d, parseCps? s with
    | some p, some st => showCps (escape p st)
    | _, _ => "bad-op"
  | ["unescape", d, s] =>
    match prep? d, parseCps? s with
    | some p, some st => showCps (unescape p st)
    | _, _ => "bad-op"
  | ["format", d, l] =>
    match prep? d, parseCpsList? l with
    | some p, some names =>
      match formatDotted p names with
      | some t => showCps t
      | none => "indexerror"
    | _, _ => "bad-op"
  | ["unformat", d, s] =>
    match prep? d, parseCps? s with
    | some p, some st => showCpsList (unformat p st)
    | _, _ => "bad-op"
  | ["unpercent", s] =>
    match parseCps? s with
    | some st => match unPercent st with | some r => showCps r | none => "error"
    | none => "bad-op"
  | ["lex", bk, s] =>
    match backend? bk, parseCps? s with
    | some b, some st =>
      match lexIdent b st with
      | some (g, r) => showCps g ++ " " ++ showCps r
      | none => "none"
    | _, _ => "bad-op"
  | _ => "bad-op"

end SaVerif.Drv.Ident
