import SaVerif.Model.Version
import SaVerif.Drv.Parse
namespace SaVerif.Drv.Version
open SaVerif.Drv SaVerif.Version

def parseOp? (t : String) : Option Op :=
  match t.splitOn ":" with
  | ["g", s, k] => do pure (.get (← s.toNat?) (← k.toNat?))
  | ["s", s, k, v] => do pure (.set (← s.toNat?) (← k.toNat?) (← v.toInt?))
  | ["d", s, k] => do pure (.del (← s.toNat?) (← k.toNat?))
  | ["a", s, k, v] => do pure (.add (← s.toNat?) (← k.toNat?) (← v.toInt?))
  | ["x", s, k] => do pure (.expire (← s.toNat?) (← k.toNat?))
  | ["c", s] => do pure (.commit (← s.toNat?))
  | ["f", s] => do pure (.tryflush (← s.toNat?))
  | ["r", s] => do pure (.rollback (← s.toNat?))
  | ["n", s] => do pure (.nested (← s.toNat?))
  | _ => none

def parseOps? (s : String) : Option (List Op) :=
  if s == "-" then some [] else (s.splitOn ",").mapM parseOp?

def showOptInt : Option Int → String
  | some v => toString v
  | none => "N"

def showOptNat : Option Nat → String
  | some v => toString v
  | none => "N"

def showDb (n : Nat) (db : DB) : String :=
  "[" ++ ",".intercalate ((List.range n).filterMap (fun k =>
    (db k).map (fun r => toString k ++ "=" ++ toString r.val ++ "@" ++ toString r.ver))) ++ "]"

def showOutcome : Outcome → String
  | .ok => "ok" | .stale => "stale" | .integrity => "integrity" | .gone => "gone"

def showOut (n : Nat) : Out × St → String
  | (.skip, _) => "-"
  | (.none, _) => "n"
  | (.obj v r, _) => "o" ++ showOptInt v ++ "@" ++ showOptNat r
  | (.done, _) => "d"
  | (.flush o, st) => showOutcome o ++ showDb n st.db

def b01 (b : Bool) : String := if b then "1" else "0"

/-! The model keeps its state in functions (`Nat → …`), each step wrapping the previous ones:
    evaluated naively a lookup after `m` commits costs `2^m`.  The driver therefore tabulates
    the state on the finite domain of the run (primary keys `< n`, sessions `< ns`) after every
    step; outside that domain the original function is kept (never asked for).  This is an
    evaluation strategy of the driver only: `freeze` is pointwise the identity. -/

def lookupArr {α : Type} (arr : Array α) (f : Nat → α) (k : Nat) : α :=
  if h : k < arr.size then arr[k] else f k

/-- the arrays are `let` values of a function returning a structure: computed once, here -/
def freeze (n ns : Nat) (st : St) : St :=
  let dbA := (Array.range n).map st.db
  let sessA := (Array.range ns).map (fun s => (Array.range n).map (st.sess s))
  let txnA := (Array.range ns).map st.txn
  let spA := (Array.range ns).map st.sp
  let edA := (Array.range n).map st.everDel
  { st with
    db := lookupArr dbA st.db
    sess := fun s => if h : s < sessA.size then lookupArr sessA[s] (st.sess s) else st.sess s
    txn := lookupArr txnA st.txn
    sp := lookupArr spA st.sp
    everDel := lookupArr edA st.everDel }

/-- `runOut` / `run` of the model with the state tabulated after every step -/
def runFrozen (c : Cfg) (ns : Nat) (st : St) : List Op → List (Out × St) × St
  | [] => ([], st)
  | o :: os =>
    let r := step c st o
    let st' := freeze c.npk ns r.1
    let rest := runFrozen c ns st' os
    ((r.2, st') :: rest.1, rest.2)

/-- `run <c|f> <eoc 0|1> <npk> <nsess> <ops>` -/
def handle : List String → String
  | ["run", g, eoc, npk, nsess, ops] =>
    let g? : Option Gen := if g == "c" then some .counter else if g == "f" then some .fresh else none
    let e? : Option Bool := if eoc == "0" then some false else if eoc == "1" then some true else none
    match g?, e?, npk.toNat?, nsess.toNat?, parseOps? ops with
    | some g, some e, some n, some ns, some os =>
      let c : Cfg := ⟨g, e, n⟩
      if os.all (opOk c ns) then
        let (outs, fin) := runFrozen c ns St.init os
        ";".intercalate (outs.map (showOut n)) ++ " L" ++ b01 fin.lost ++ "R" ++ b01 fin.reins
      else "bad-op"
    | _, _, _, _, _ => "bad-op"
  | _ => "bad-op"

end SaVerif.Drv.Version
