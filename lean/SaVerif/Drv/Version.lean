import SaVerif.Model.Version
import SaVerif.Drv.Parse
namespace SaVerif.Drv.Version
open SaVerif.Drv SaVerif.Version

def parseOp? (t : String) : Option Op :=
  match t.splitOn ":" with
  | ["g", s, k] => do pure (.get (← s.toNat?) (← k.toNat?))
  | ["s", s, k, v] => do pure (.set (← s.toNat?) (← k.toNat?) (← v.toInt?))
  | ["d", s, k] => do pure (.del (← s.toNat?) (← k.toNat?))
  | ["a", s, k, v] => do pure (.add (← s.toNat?) (← k.toNat?) (← v.toInt?))
  | ["x", s, k] => do pure (.expire (← s.toNat?) (← k.toNat?))
  | ["c", s] => do pure (.commit (← s.toNat?))
  | ["f", s] => do pure (.tryflush (← s.toNat?))
  | ["r", s] => do pure (.rollback (← s.toNat?))
  | ["n", s] => do pure (.nested (← s.toNat?))
  | _ => none

def parseOps? (s : String) : Option (List Op) :=
  if s == "-" then some [] else (s.splitOn ",").mapM parseOp?

def showOptInt : Option Int → String
  | some v => toString v
  | none => "N"

def showOptNat : Option Nat → String
  | some v => toString v
  | none => "N"

def showDb (n : Nat) (db : DB) : String :=
  "[" ++ ",".intercalate ((List.range n).filterMap (fun k =>
    (db k).map (fun r => toString k ++ "=" ++ toString r.val ++ "@" ++ toString r.ver))) ++ "]"

def showOutcome : Outcome → String
  | .ok => "ok" | .stale => "stale" | .integrity => "integrity" | .gone => "gone"

def showOut (n : Nat) : Out × St → String
  | (.skip, _) => "-"
  | (.none, _) => "n"
  | (.obj v r, _) => "o" ++ showOptInt v ++ "@" ++ showOptNat r
  | (.done, _) => "d"
  | (.flush o, st) => showOutcome o ++ showDb n st.db

def b01 (b : Bool) : String := if b then "1" else "0"

/-- `run <c|f> <eoc 0|1> <npk> <nsess> <ops>` -/
def handle : List String → String
  | ["run", g, eoc, npk, nsess, ops] =>
    let g? : Option Gen := if g == "c" then some .counter else if g == "f" then some .fresh else none
    let e? : Option Bool := if eoc == "0" then some false else if eoc == "1" then some true else none
    match g?, e?, npk.toNat?, nsess.toNat?, parseOps? ops with
    | some g, some e, some n, some ns, some os =>
      let c : Cfg := ⟨g, e, n⟩
      if os.all (opOk c ns) then
        let outs := runOut c St.init os
        let fin := run c St.init os
        ";".intercalate (outs.map (showOut n)) ++ " L" ++ b01 fin.lost ++ "R" ++ b01 fin.reins
      else "bad-op"
    | _, _, _, _, _ => "bad-op"
  | _ => "bad-op"

end SaVerif.Drv.Version
