import SaVerif.Model.PySetDict
import SaVerif.Drv.Parse
/-!
Sub-driver for M-PYSEQ.

`pyseq indices <len> <start|N> <stop|N> <step|N>`     → `a,b,c` | `E:ValueError`
`pyseq list  <items|-> <op> ...`   instrumented list  → per op `ret@items@events`
`pyseq plist <items|-> <op> ...`   plain list         → per op `ret@items`
`pyseq set   <items|-> <op> ...`   instrumented set   → per op `ret@sorted items@sorted events`
`pyseq pset  <items|-> <op> ...`   plain set          → per op `ok@sorted items` | `raise@`
`pyseq dict  <k=v,..|-> <op> ...`  instrumented dict  → per op `ret@k=v,..@events`
`pyseq pdict <k=v,..|-> <op> ...`  plain dict         → per op `ok@k=v,..` | `raise@`
 list ops: `append:x` `remove:x` `insert:i:x` `set:i:x` `del:i` `pop:i` `clear` `extend:V`
           `setslice:a:b:c:V` `delslice:a:b:c` `imul:n` `reverse`     (a,b,c ∈ Int ∪ {N})
 set ops : `add:x` `discard:x` `remove:x` `pop:x|E` `clear` `update:V` `diffu:V` `interu:V`
           `symdiffu:V` `ior:0|1:V` `isub:0|1:V` `iand:0|1:V` `ixor:0|1:V`
 dict ops: `set:k:v` `del:k` `clear` `pop:k:0|1` `pop:k:i:x` (item x as default) `popitem` `setdefault:k:v` `update:P` `ior:P`
           `kset:v` `kremove:v`                                      (P = `k=v,k=v` | `-`)
 V: `L1.2` sized, `G1.2` iterator, `S` the collection itself, `X` not iterable
-/
namespace SaVerif.Drv.Pyseq
open SaVerif.Drv SaVerif.PySeq

def dots (l : List Nat) : String := ".".intercalate (l.map toString)

def parseDots? (s : String) : Option (List Nat) :=
  if s.isEmpty || s == "-" then some [] else (s.splitOn ".").mapM (·.toNat?)

def optInt? (s : String) : Option (Option Int) :=
  if s == "N" then some none else s.toInt?.map some

def parseVal? (s : String) : Option Val :=
  let body := (s.drop 1).toString
  match s.toList.head? with
  | some 'L' => (parseDots? body).map (fun e => ⟨.sized, e⟩)
  | some 'G' => (parseDots? body).map (fun e => ⟨.iter, e⟩)
  | some 'S' => if body.isEmpty then some ⟨.self, []⟩ else none
  | some 'X' => if body.isEmpty then some ⟨.nonIter, []⟩ else none
  | _ => none

def parseLOp? (tok : String) : Option LOp :=
  match tok.splitOn ":" with
  | ["append", x] => x.toNat?.map .append
  | ["remove", x] => x.toNat?.map .remove
  | ["insert", i, x] => do let i ← i.toInt?; let x ← x.toNat?; pure (.insert i x)
  | ["set", i, x] => do let i ← i.toInt?; let x ← x.toNat?; pure (.setitem i x)
  | ["del", i] => i.toInt?.map .delitem
  | ["pop", i] => i.toInt?.map .pop
  | ["clear"] => some .clear
  | ["extend", v] => (parseVal? v).map .extend
  | ["setslice", a, b, c, v] => do
      let a ← optInt? a; let b ← optInt? b; let c ← optInt? c; let v ← parseVal? v
      pure (.setslice ⟨a, b, c⟩ v)
  | ["delslice", a, b, c] => do
      let a ← optInt? a; let b ← optInt? b; let c ← optInt? c
      pure (.delslice ⟨a, b, c⟩)
  | ["imul", n] => n.toInt?.map .imul
  | ["reverse"] => some .reverse
  | _ => none

def showErr : Err → String
  | .indexError => "E:IndexError"
  | .valueError => "E:ValueError"
  | .typeError => "E:TypeError"
  | .keyError => "E:KeyError"
  | .runtimeError => "E:RuntimeError"
  | .invalidRequest => "E:InvalidRequestError"

def showRet : Ret → String
  | .none => "-"
  | .val x => "v" ++ toString x
  | .err e => showErr e

def showEvent : Event → String
  | .app x => "A" ++ toString x
  | .rem x => "R" ++ toString x

def showEvents (ev : List Event) : String := ".".intercalate (ev.map showEvent)

/-- canonical order for set events: removes sorted, then appends sorted -/
def sortEvents (ev : List Event) : List Event :=
  let rs := ev.filterMap (fun e => match e with | .rem x => some x | _ => none)
  let as := ev.filterMap (fun e => match e with | .app x => some x | _ => none)
  (sortNats rs).map .rem ++ (sortNats as).map .app

def parseBool? (s : String) : Option Bool :=
  if s == "1" then some true else if s == "0" then some false else none

def parseSOp? (tok : String) : Option SOp :=
  match tok.splitOn ":" with
  | ["add", x] => x.toNat?.map .add
  | ["discard", x] => x.toNat?.map .discard
  | ["remove", x] => x.toNat?.map .remove
  | ["pop", "E"] => some (.pop none)
  | ["pop", x] => x.toNat?.map (fun x => .pop (some x))
  | ["clear"] => some .clear
  | ["update", v] => (parseVal? v).map .update
  | ["diffu", v] => (parseVal? v).map .diffUpdate
  | ["interu", v] => (parseVal? v).map .interUpdate
  | ["symdiffu", v] => (parseVal? v).map .symDiffUpdate
  | ["ior", b, v] => do let b ← parseBool? b; let v ← parseVal? v; pure (.ior b v)
  | ["isub", b, v] => do let b ← parseBool? b; let v ← parseVal? v; pure (.isub b v)
  | ["iand", b, v] => do let b ← parseBool? b; let v ← parseVal? v; pure (.iand b v)
  | ["ixor", b, v] => do let b ← parseBool? b; let v ← parseVal? v; pure (.ixor b v)
  | _ => none

def parseKV1? (s : String) : Option (Nat × Nat) :=
  match s.splitOn "=" with
  | [a, b] => do let x ← a.toNat?; let y ← b.toNat?; pure (x, y)
  | _ => none

def parseDict? (s : String) : Option Dict :=
  if s == "-" || s.isEmpty then some [] else (s.splitOn ",").mapM parseKV1?

def showDict (d : Dict) : String :=
  ",".intercalate (d.map (fun e => toString e.1 ++ "=" ++ toString e.2))

def dictOk (d : Dict) : Bool := (d.map (·.1)).eraseDups.length == d.length

def parseDOp? (tok : String) : Option DOp :=
  match tok.splitOn ":" with
  | ["set", k, v] => do let k ← k.toNat?; let v ← v.toNat?; pure (.setitem k v)
  | ["del", k] => k.toNat?.map .delitem
  | ["clear"] => some .clear
  | ["pop", k, h] => do let k ← k.toNat?; let h ← parseBool? h; pure (.pop k h none)
  | ["pop", k, "i", x] => do let k ← k.toNat?; let x ← x.toNat?; pure (.pop k true (some x))
  | ["popitem"] => some .popitem
  | ["setdefault", k, v] => do let k ← k.toNat?; let v ← v.toNat?; pure (.setdefault k v)
  | ["update", p] => do let p ← parseDict? p; if dictOk p then pure (.update p) else none
  | ["ior", p] => do let p ← parseDict? p; if dictOk p then pure (.ior p) else none
  | ["kset", v] => v.toNat?.map .kset
  | ["kremove", v] => v.toNat?.map .kremove
  | _ => none

def nodupNats (l : List Nat) : Bool := l.eraseDups.length == l.length

def handle : List String → String
  | ["indices", len, a, b, c] =>
    match len.toNat?, optInt? a, optInt? b, optInt? c with
    | some len, some a, some b, some c =>
      match sliceIndices len ⟨a, b, c⟩ with
      | some (x, y, z) => toString x ++ "," ++ toString y ++ "," ++ toString z
      | none => "E:ValueError"
    | _, _, _, _ => "bad-op"
  | "list" :: init :: toks =>
    match parseDots? init, toks.mapM parseLOp? with
    | some l, some ops =>
      " ".intercalate ((iRun l ops).map (fun r =>
        showRet r.ret ++ "@" ++ dots r.items ++ "@" ++ showEvents r.events))
    | _, _ => "bad-op"
  | "plist" :: init :: toks =>
    match parseDots? init, toks.mapM parseLOp? with
    | some l, some ops =>
      " ".intercalate ((pRun l ops).map (fun r => showRet r.2 ++ "@" ++ dots r.1))
    | _, _ => "bad-op"
  | "set" :: init :: toks =>
    match parseDots? init, toks.mapM parseSOp? with
    | some s, some ops =>
      if !nodupNats s then "bad-op" else
      " ".intercalate ((sRun s ops).map (fun r =>
        showRet r.ret ++ "@" ++ dots (sortNats r.items) ++ "@" ++ showEvents (sortEvents r.events)))
    | _, _ => "bad-op"
  | "pset" :: init :: toks =>
    match parseDots? init, toks.mapM parseSOp? with
    | some s, some ops =>
      if !nodupNats s then "bad-op" else
      -- each op applied to the result of the previous one (a raising op leaves the set alone)
      let step := fun (acc : List Item × List String) (op : SOp) =>
        match sPlain acc.1 op with
        | some s' => (s', acc.2 ++ ["ok@" ++ dots (sortNats s')])
        | none => (acc.1, acc.2 ++ ["raise@" ++ dots (sortNats acc.1)])
      " ".intercalate (ops.foldl step (s, [])).2
    | _, _ => "bad-op"
  | "dict" :: init :: toks =>
    match parseDict? init, toks.mapM parseDOp? with
    | some d, some ops =>
      if !dictOk d then "bad-op" else
      " ".intercalate ((dRun d ops).map (fun r =>
        showRet r.ret ++ "@" ++ showDict r.items ++ "@" ++ showEvents r.events))
    | _, _ => "bad-op"
  | "pdict" :: init :: toks =>
    match parseDict? init, toks.mapM parseDOp? with
    | some d, some ops =>
      if !dictOk d then "bad-op" else
      let step := fun (acc : Dict × List String) (op : DOp) =>
        match dPlain acc.1 op with
        | some d' => (d', acc.2 ++ ["ok@" ++ showDict d'])
        | none => (acc.1, acc.2 ++ ["raise@" ++ showDict acc.1])
      " ".intercalate (ops.foldl step (d, [])).2
    | _, _ => "bad-op"
  | _ => "bad-op"

end SaVerif.Drv.Pyseq
