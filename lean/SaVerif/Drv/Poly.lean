import SaVerif.Model.Poly
import SaVerif.Drv.Parse
namespace SaVerif.Drv.Poly
open SaVerif.Drv SaVerif.Poly

/-!
* `single <ancs> <selectin> <idents> <C> <wp> <rows> <pe> <cnt> <pre>`                rows `id:disc:v.v.v;…`
* `joined <ancs> <selectin> <idents> <root> <C> <wp> <base> <subs> <pe> <cnt> <pre>`  base `id:disc:v;…`, subs per class `id:v,id:v|…`
* `concrete <ancs> <C> <tables> <pe> <cnt> <pre>`                                     per class `id:v.v,id:v.v|…`
ancs `0|0.1|0.2|0.1.3`; selectin `0.1.0.0`; idents `3.N.0.1` (identity value per class, `N` =
polymorphic_abstract, `-` = the class numbers); wp `N`, `*` or `1.3`; `N` = NULL; `-` = empty;
disc = the discriminator VALUE of the row; pe `0/1` = populate_existing; cnt `0/1` = report the
statement counts; pre = state of the objects already in the Session `id:t.t.t;…`, one token per
attribute column: `U` unloaded (expired), `N` loaded NULL, an integer.
→ `ok <id:cls:v.v;…> / <primary statements> / <deferred loads>` or `err <kind>`; the values are
those attribute access returns after the load
-/

def parseDots? (s : String) : Option (List Nat) :=
  if s == "-" then some [] else (s.splitOn ".").mapM (·.toNat?)

def parseVals? (s : String) : Option (List (Option Int)) :=
  if s == "-" then some [] else (s.splitOn ".").mapM parseOptInt?

def parseOptNat? (s : String) : Option (Option Nat) :=
  if s == "N" then some none else s.toNat?.map some

def parseIdents? (s : String) : Option (List (Option Nat)) :=
  if s == "-" then some [] else (s.splitOn ".").mapM parseOptNat?

def parseHier? (ancs sel ids : String) : Option Hier := do
  let a ← (ancs.splitOn "|").mapM parseDots?
  let s ← parseDots? sel
  let i ← parseIdents? ids
  pure ⟨a, s.map (· != 0), i⟩

def parseASt? (s : String) : Option ASt :=
  if s == "U" then some ⟨none, true⟩
  else if s == "N" then some ⟨some none, false⟩
  else s.toInt?.map (fun i => ⟨some (some i), false⟩)

abbrev Pre := List (Nat × List ASt)

def parsePre? (s : String) : Option Pre :=
  if s == "-" then some [] else
  (s.splitOn ";").mapM (fun r =>
    match r.splitOn ":" with
    | [i, t] => do pure ((← i.toNat?), (← (t.splitOn ".").mapM parseASt?))
    | _ => none)

def preFn (p : Pre) (id : Nat) : Option (Nat → ASt) :=
  (p.find? (fun x => x.1 == id)).map (fun x a => x.2.getD a {})

def parseFlag? (s : String) : Option Bool :=
  if s == "1" then some true else if s == "0" then some false else none

def parseTail? (pe cnt pre : String) : Option (Bool × Bool × Pre) := do
  pure ((← parseFlag? pe), (← parseFlag? cnt), (← parsePre? pre))

def parseWP? (s : String) : Option WP :=
  if s == "N" then some .none else if s == "*" then some .all else (parseDots? s).map .some

def splitList (s : String) (sep : String) : List String := if s == "-" then [] else s.splitOn sep

def showVals (l : List (Option Int)) : String :=
  if l.isEmpty then "-" else ".".intercalate (l.map (fun v => match v with | none => "N" | some i => toString i))

def showEnts (l : List Ent) : String :=
  if l.isEmpty then "-" else ";".intercalate (l.map (fun e => toString e.id ++ ":" ++ toString e.cls ++ ":" ++ showVals e.vals))

def showErr : LoadError → String
  | .unknownIdentity => "unknown-identity"
  | .nullDiscriminator => "null-discriminator"
  | .notSubMapper => "not-sub-mapper"
  | .missingRow => "missing-row"

def finish (h : Hier) (k : Kind) (c : Nat) (wp : WP) (pe cnt : Bool) (pre : Pre) : Res (List Ent) → String
  | .error e => "err " ++ showErr e
  | .ok ents =>
    "ok " ++ showEnts (ents.map (readEnt h c wp pe (preFn pre))) ++ " / " ++
      (if cnt then toString (primaryStatements h k c ents) else "-") ++ " / " ++
      (if !cnt || h.selectin.any id then "-" else toString (deferredLoadsSt h k c wp pe (preFn pre) ents))

def handle : List String → String
  | ["single", ancs, sel, ids, c, wp, rows, pe, cnt, pre] =>
    match parseTail? pe cnt pre, parseHier? ancs sel ids, c.toNat?, parseWP? wp,
      (splitList rows ";").mapM (fun r =>
        match r.splitOn ":" with
        | [i, d, v] => do pure (SRow.mk (← i.toNat?) (← parseOptNat? d) (← parseVals? v))
        | _ => none) with
    | some (pe, cnt, pre), some h, some c, some wp, some rows => finish h .single c wp pe cnt pre (querySingle h c rows)
    | _, _, _, _, _ => "bad-op"
  | ["joined", ancs, sel, ids, root, c, wp, base, subs, pe, cnt, pre] =>
    match parseTail? pe cnt pre, parseHier? ancs sel ids, root.toNat?, c.toNat?, parseWP? wp,
      (splitList base ";").mapM (fun r =>
        match r.splitOn ":" with
        | [i, d, v] => do pure ((← i.toNat?), (← parseOptNat? d), (← parseOptInt? v))
        | _ => none),
      (subs.splitOn "|").mapM (fun t => (splitList t ",").mapM (fun r =>
        match r.splitOn ":" with
        | [i, v] => do pure ((← i.toNat?), (← parseOptInt? v))
        | _ => none)) with
    | some (pe, cnt, pre), some h, some root, some c, some wp, some base, some subs =>
      finish h .joined c wp pe cnt pre (queryJoined h root c ⟨base, subs⟩)
    | _, _, _, _, _, _, _ => "bad-op"
  | ["concrete", ancs, c, tables, pe, cnt, pre] =>
    match parseTail? pe cnt pre, parseHier? ancs "-" "-", c.toNat?,
      (tables.splitOn "|").mapM (fun t => (splitList t ",").mapM (fun r =>
        match r.splitOn ":" with
        | [i, v] => do pure ((← i.toNat?), (← parseVals? v))
        | _ => none)) with
    | some (pe, cnt, pre), some h, some c, some ts => finish h .concrete c .all pe cnt pre (queryConcrete h c ts)
    | _, _, _, _ => "bad-op"
  | _ => "bad-op"

end SaVerif.Drv.Poly
