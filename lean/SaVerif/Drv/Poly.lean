import SaVerif.Model.Poly
import SaVerif.Drv.Parse
namespace SaVerif.Drv.Poly
open SaVerif.Drv SaVerif.Poly

/-!
* `single <ancs> <selectin> <C> <wp> <rows>`                 rows `id:disc:v.v.v;…`
* `joined <ancs> <selectin> <root> <C> <wp> <base> <subs>`   base `id:disc:v;…`, subs per class `id:v,id:v|…`
* `concrete <ancs> <C> <tables>`                             per class `id:v.v,id:v.v|…`
ancs `0|0.1|0.2|0.1.3`; selectin `0.1.0.0`; wp `N`, `*` or `1.3`; `N` = NULL; `-` = empty.
→ `ok <id:cls:v.v;…> / <primary statements> / <deferred loads>` or `err <kind>`
-/

def parseDots? (s : String) : Option (List Nat) :=
  if s == "-" then some [] else (s.splitOn ".").mapM (·.toNat?)

def parseVals? (s : String) : Option (List (Option Int)) :=
  if s == "-" then some [] else (s.splitOn ".").mapM parseOptInt?

def parseOptNat? (s : String) : Option (Option Nat) :=
  if s == "N" then some none else s.toNat?.map some

def parseHier? (ancs sel : String) : Option Hier := do
  let a ← (ancs.splitOn "|").mapM parseDots?
  let s ← parseDots? sel
  pure ⟨a, s.map (· != 0)⟩

def parseWP? (s : String) : Option WP :=
  if s == "N" then some .none else if s == "*" then some .all else (parseDots? s).map .some

def splitList (s : String) (sep : String) : List String := if s == "-" then [] else s.splitOn sep

def showVals (l : List (Option Int)) : String :=
  if l.isEmpty then "-" else ".".intercalate (l.map (fun v => match v with | none => "N" | some i => toString i))

def showEnts (l : List Ent) : String :=
  if l.isEmpty then "-" else ";".intercalate (l.map (fun e => toString e.id ++ ":" ++ toString e.cls ++ ":" ++ showVals e.vals))

def showErr : LoadError → String
  | .unknownIdentity => "unknown-identity"
  | .nullDiscriminator => "null-discriminator"
  | .notSubMapper => "not-sub-mapper"
  | .missingRow => "missing-row"

def finish (h : Hier) (k : Kind) (c : Nat) (wp : WP) : Res (List Ent) → String
  | .error e => "err " ++ showErr e
  | .ok ents =>
    "ok " ++ showEnts ents ++ " / " ++ toString (primaryStatements h k c ents) ++ " / " ++
      (if h.selectin.any id then "-" else toString (deferredLoads h k c wp ents))

def handle : List String → String
  | ["single", ancs, sel, c, wp, rows] =>
    match parseHier? ancs sel, c.toNat?, parseWP? wp,
      (splitList rows ";").mapM (fun r =>
        match r.splitOn ":" with
        | [i, d, v] => do pure (SRow.mk (← i.toNat?) (← parseOptNat? d) (← parseVals? v))
        | _ => none) with
    | some h, some c, some wp, some rows => finish h .single c wp (querySingle h c rows)
    | _, _, _, _ => "bad-op"
  | ["joined", ancs, sel, root, c, wp, base, subs] =>
    match parseHier? ancs sel, root.toNat?, c.toNat?, parseWP? wp,
      (splitList base ";").mapM (fun r =>
        match r.splitOn ":" with
        | [i, d, v] => do pure ((← i.toNat?), (← parseOptNat? d), (← parseOptInt? v))
        | _ => none),
      (subs.splitOn "|").mapM (fun t => (splitList t ",").mapM (fun r =>
        match r.splitOn ":" with
        | [i, v] => do pure ((← i.toNat?), (← parseOptInt? v))
        | _ => none)) with
    | some h, some root, some c, some wp, some base, some subs =>
      finish h .joined c wp (queryJoined h root c ⟨base, subs⟩)
    | _, _, _, _, _, _ => "bad-op"
  | ["concrete", ancs, c, tables] =>
    match parseHier? ancs "-", c.toNat?,
      (tables.splitOn "|").mapM (fun t => (splitList t ",").mapM (fun r =>
        match r.splitOn ":" with
        | [i, v] => do pure ((← i.toNat?), (← parseVals? v))
        | _ => none)) with
    | some h, some c, some ts => finish h .concrete c .all (queryConcrete h c ts)
    | _, _, _ => "bad-op"
  | _ => "bad-op"

end SaVerif.Drv.Poly
