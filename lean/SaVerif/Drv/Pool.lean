import SaVerif.Model.Pool
import SaVerif.Drv.Parse
namespace SaVerif.Drv.Pool
open SaVerif.Drv SaVerif.Pool

def parseBool? (s : String) : Option Bool :=
  if s == "1" then some true else if s == "0" then some false else none

/-- `<tid>:<label>[:arg[:arg]]` -/
def parseLabel? (tok : String) : Option (Nat × Label) :=
  match tok.splitOn ":" with
  | [t, "cg"] => t.toNat?.map (·, Label.cg)
  | [t, "rv", v] => do pure ((← t.toNat?), Label.rv (← v.toInt?))
  | [t, "rmw", v, w] => do pure ((← t.toNat?), Label.rmw (← v.toInt?) (← w.toInt?))
  | [t, "wv", w] => do pure ((← t.toNat?), Label.wv (← w.toInt?))
  | [t, "qg", b] => do pure ((← t.toNat?), Label.qg (← parseBool? b))
  | [t, "pop", r] => do pure ((← t.toNat?), Label.pop (← r.toNat?))
  | [t, "qe"] => t.toNat?.map (·, Label.qe)
  | [t, "to"] => t.toNat?.map (·, Label.to)
  | [t, "ci"] => t.toNat?.map (·, Label.ci)
  | [t, "cd"] => t.toNat?.map (·, Label.cd)
  | [t, "la"] => t.toNat?.map (·, Label.la)
  | [t, "lr"] => t.toNat?.map (·, Label.lr)
  | [t, "cr", r] => do pure ((← t.toNat?), Label.cr (← r.toNat?))
  | [t, "cf"] => t.toNat?.map (·, Label.cf)
  | [t, "cp", r] => do pure ((← t.toNat?), Label.cp (← r.toNat?))
  | [t, "put", r] => do pure ((← t.toNat?), Label.put (← r.toNat?))
  | [t, "qf"] => t.toNat?.map (·, Label.qf)
  | [t, "cl"] => t.toNat?.map (·, Label.cl)
  | [t, "qset"] => t.toNat?.map (·, Label.qset)
  | [t, "cancel"] => t.toNat?.map (·, Label.cancel)
  | [t, "ccancel"] => t.toNat?.map (·, Label.ccancel)
  | _ => none

def parseLabels? (s : String) : Option (List (Nat × Label)) :=
  if s == "-" then some [] else (s.splitOn ",").mapM parseLabel?

def showPc : Pc → String
  | .idle => "idle" | .g0 => "g0" | .g1 v => s!"g1({v})" | .gq w => s!"gq({w})"
  | .ge w => s!"ge({w})" | .ge1 w v => s!"ge1({w},{v})" | .gr => "gr"
  | .i0 => "i0" | .i1 => "i1" | .i2 v => s!"i2({v})" | .i3 => "i3" | .c0 => "c0"
  | .cfail => "cfail" | .d0 => "d0" | .d1 => "d1" | .d2 => "d2"
  | .p0 r => s!"p0({r})" | .p1 r => s!"p1({r})" | .p2 => "p2"

def showState (c : Cfg) (s : State) : String :=
  s!"ov={s.overflow} q={showNatList s.queue} out={showNatList (sortNats s.out)} co={checkedout c s} " ++
  "pcs=" ++ "/".intercalate (s.pcs.map showPc)

/-- `run <size> <maxOv> <lifo 0|1> <nthreads> <labels>`:
    `ok <state>` if the label sequence is a run of the LTS, else
    `reject <index> <state before the rejected label>` -/
def handle : List String → String
  | ["run", size, maxOv, lifo, n, labels] =>
    match size.toNat?, maxOv.toInt?, parseBool? lifo, n.toNat?, parseLabels? labels with
    | some size, some maxOv, some lifo, some n, some ls =>
      -- QueuePool.__init__: `_max_overflow = -1 if pool_size == 0 else max_overflow`
      if maxOv < -1 then "bad-op" else
      let c : Cfg := { size := size, maxOv := if size == 0 then -1 else maxOv, lifo := lifo }
      -- prefix run, to be able to print the state before the rejected label
      let rec go (s : State) (ls : List (Nat × Label)) (i : Nat) : String :=
        match ls with
        | [] => "ok " ++ showState c s
        | (t, l) :: rest =>
          match step c s t l with
          | some s' => go s' rest (i + 1)
          | none => s!"reject {i} " ++ showState c s
      go (init c n) ls 0
    | _, _, _, _, _ => "bad-op"
  | _ => "bad-op"

end SaVerif.Drv.Pool
