import SaVerif.Model.Defaults
import SaVerif.Drv.Parse
namespace SaVerif.Drv.Defaults
open SaVerif.Drv SaVerif.Defaults

/-- `n` none, `s7` scalar, `c100` callable, `x0:1000` context src:add, `q9` sqlexpr, `v3` server -/
def parseKind? (s : String) : Option Kind :=
  if s == "n" then some .none else
  let body := (s.drop 1).toString
  match s.take 1 |>.toString with
  | "s" => body.toInt?.map .scalar
  | "c" => body.toInt?.map .callable
  | "q" => body.toInt?.map .sqlexpr
  | "v" => body.toInt?.map .server
  | "x" => match body.splitOn ":" with
    | [a, b] => do let src ← a.toNat?; let add ← b.toInt?; pure (.context src add)
    | _ => none
  | _ => none

def parseKinds? (s : String) : Option (List Kind) :=
  if s == "-" then some [] else (s.splitOn ",").mapM parseKind?

/-- cell of a parameter set: `_` absent, `N` NULL, integer -/
def parseCell? (s : String) : Option (Option Val) :=
  if s == "_" then some none
  else if s == "N" then some (some none)
  else s.toInt?.map (fun n => some (some n))

def parseParams? (s : String) : Option (List Params) :=
  if s == "-" then some [] else (s.splitOn ";").mapM (fun r => (r.splitOn ",").mapM parseCell?)

def parseVal? (s : String) : Option Val :=
  if s == "N" then some none else s.toInt?.map some

def parseRows? (s : String) : Option (List (List Val)) :=
  if s == "-" then some [] else (s.splitOn ";").mapM (fun r => (r.splitOn ",").mapM parseVal?)

def showVal : Val → String
  | none => "N"
  | some n => toString n

def showRows (rows : List (List Val)) : String :=
  if rows.isEmpty then "-" else ";".intercalate (rows.map (fun r => ",".intercalate (r.map showVal)))

def showDisp : Disp → String
  | .bound => "b" | .prefetch => "p" | .inline => "i" | .omitted => "o"

def showResult : Except Err (List (List Val) × List Nat) → String
  | .ok (rows, counts) => "ok rows=" ++ showRows rows ++ " counts=" ++ showNatList counts
  | .error .valueRequired => "err valueRequired"

/--
* `insert <kinds> <params>`           stored rows + invocation counts
* `update <onupdate kinds> <params> <old rows>`
* `disp <kinds> <params>`             disposition per column for the first set's keys
-/
def handle : List String → String
  | ["insert", ks, ps] =>
    match parseKinds? ks, parseParams? ps with
    | some kinds, some params =>
      if params.isEmpty || params.any (fun p => p.length != kinds.length) then "bad-op"
      else showResult (execInsert kinds params)
    | _, _ => "bad-op"
  | ["insertmv", ks, ps] =>
    match parseKinds? ks, parseParams? ps with
    | some kinds, some params =>
      if params.isEmpty || params.any (fun p => p.length != kinds.length) then "bad-op"
      else showResult (execInsertMulti kinds params)
    | _, _ => "bad-op"
  | ["update", ks, ps, os] =>
    match parseKinds? ks, parseParams? ps, parseRows? os with
    | some kinds, some params, some olds =>
      if params.isEmpty || params.any (fun p => p.length != kinds.length)
          || olds.length != params.length || olds.any (fun o => o.length != kinds.length) then "bad-op"
      else showResult (execUpdate kinds params olds)
    | _, _, _ => "bad-op"
  | ["disp", ks, ps] =>
    match parseKinds? ks, parseParams? ps with
    | some kinds, some (p :: _) =>
      if p.length != kinds.length then "bad-op"
      else "ok " ++ String.join ((disps kinds (keysOf p)).map showDisp)
    | _, _ => "bad-op"
  | _ => "bad-op"

end SaVerif.Drv.Defaults
