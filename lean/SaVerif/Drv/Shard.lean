import SaVerif.Model.Shard
import SaVerif.Drv.Parse
namespace SaVerif.Drv.Shard
open SaVerif.Drv SaVerif.Shard

def parseFilt? (s : String) : Option Filt :=
  if s == "all" then some .all
  else if s.startsWith "r" then (s.drop 1).toString.toNat?.map .region
  else if s.startsWith "v" then (s.drop 1).toString.toInt?.map .val
  else none

def parseShards? (s : String) : Option (Option (List Nat)) :=
  if s == "*" then some none else ((s.splitOn "+").mapM (fun (t : String) => t.toNat?)).map some

def parseTok? (s : String) : Option (Option Nat) :=
  if s == "N" then some none else s.toNat?.map some

def parseOp? (tok : String) : Option Op :=
  match tok.splitOn ":" with
  | ["add", pk, r, v] => do pure (.add (← pk.toNat?) ⟨← r.toNat?, ← v.toInt?⟩)
  | ["set", pk, s, v] => do pure (.set (← pk.toNat?) (← s.toNat?) (← v.toInt?))
  | ["setr", pk, s, r] => do pure (.setR (← pk.toNat?) (← s.toNat?) (← r.toNat?))
  | ["mrg", pk, s, v] => do pure (.mergeDet (← pk.toNat?) (← s.toNat?) (← v.toInt?))
  | ["del", pk, s] => do pure (.del (← pk.toNat?) (← s.toNat?))
  | ["flush"] => some .flush
  | ["q", f, sh] => do pure (.query (← parseFilt? f) (← parseShards? sh))
  | ["get", pk, t] => do pure (.get (← pk.toNat?) (← parseTok? t))
  | _ => none

def parseOps? (s : String) : Option (List Op) :=
  if s == "-" then some [] else (s.splitOn ",").mapM parseOp?

def showOut : Out → String
  | .skip => "-"
  | .done => "d"
  | .rows l => "[" ++ " ".intercalate (l.map (fun (k, s, v) => toString k ++ "@" ++ toString s ++ "=" ++ toString v)) ++ "]"
  | .found k s v => "o" ++ toString k ++ "@" ++ toString s ++ "=" ++ toString v
  | .none => "None"
  | .multiple => "multiple"
  | .integrity => "integrity"

def showShards (c : Cfg) (st : St) : String :=
  " ".intercalate ((allShards c).map (fun s =>
    "s" ++ toString s ++ "{" ++ " ".intercalate ((List.range c.n).filterMap (fun k =>
      (st.shards s k).map (fun r => toString k ++ "=" ++ toString r.region ++ "/" ++ toString r.val))) ++ "}"))

/-- `run <n> <nshards> <region→shard list> <identity order> <ops>` -/
def handle : List String → String
  | ["run", n, ns, rs, ord, ops] =>
    match n.toNat?, ns.toNat?, parseNatList? rs, parseNatList? ord, parseOps? ops with
    | some n, some ns, some rs, some ord, some os =>
      let c : Cfg := ⟨n, ns, fun r => rs.getD r 0, ord⟩
      if os.all (opOk c) && rs.all (· < ns) && ord.all (· < ns) && ns > 0 then
        -- the harness ends every history with a flush
        let o1 := outs c St.init os
        if o1.contains Out.integrity then ";".intercalate (o1.map showOut) ++ " | "
        else
          let fin := run c St.init os
          match doFlush c fin with
          | none => ";".intercalate ((o1 ++ [Out.integrity]).map showOut) ++ " | "
          | some f => ";".intercalate (o1.map showOut) ++ " | " ++ showShards c f
      else "bad-op"
    | _, _, _, _, _ => "bad-op"
  | _ => "bad-op"

end SaVerif.Drv.Shard
