/-
Line-protocol helpers shared by all sub-drivers.  One request per line, one
response per line; a line is `<model> <cmd> <field> <field> ...`, fields are
separated by single spaces, lists inside a field by `,`, pairs by `>`; the empty
list is written `-`.  Integers may be negative (`-3`); `N` is None.
-/
namespace SaVerif.Drv

def splitOn (s : String) (sep : String) : List String := s.splitOn sep

def parseNat? (s : String) : Option Nat := s.toNat?

def parseInt? (s : String) : Option Int := s.toInt?

/-- `-` ↦ []; `1,2,3` ↦ [1,2,3] -/
def parseNatList? (s : String) : Option (List Nat) :=
  if s == "-" then some [] else (s.splitOn ",").mapM parseNat?

def parseIntList? (s : String) : Option (List Int) :=
  if s == "-" then some [] else (s.splitOn ",").mapM parseInt?

/-- `N` ↦ none -/
def parseOptInt? (s : String) : Option (Option Int) :=
  if s == "N" then some none else (s.toInt?).map some

def parsePair? (s : String) : Option (Nat × Nat) :=
  match s.splitOn ">" with
  | [a, b] => do let x ← a.toNat?; let y ← b.toNat?; pure (x, y)
  | _ => none

def parsePairList? (s : String) : Option (List (Nat × Nat)) :=
  if s == "-" then some [] else (s.splitOn ",").mapM parsePair?

def showNatList (l : List Nat) : String :=
  if l.isEmpty then "-" else ",".intercalate (l.map toString)

def showIntList (l : List Int) : String :=
  if l.isEmpty then "-" else ",".intercalate (l.map toString)

/-- insertion sort; used to canonicalise sets before printing -/
def sortNats (l : List Nat) : List Nat :=
  l.foldl (fun acc x => (acc.takeWhile (· ≤ x)) ++ [x] ++ (acc.dropWhile (· ≤ x))) []

/-- strings travel as `s:` followed by dot-separated decimal code points
    (`s:` alone is the empty string), so spaces/newlines never break a line -/
def parseStr? (s : String) : Option String :=
  if !s.startsWith "s:" then none else
  let body := (s.drop 2).toString
  if body.isEmpty then some "" else
  ((body.splitOn ".").mapM (fun (t : String) => t.toNat?.map Char.ofNat)).map String.ofList

def showStr (s : String) : String :=
  "s:" ++ ".".intercalate (s.toList.map (fun c => toString c.toNat))

def parseStrList? (s : String) : Option (List String) :=
  if s == "-" then some [] else (s.splitOn ",").mapM parseStr?

def showStrList (l : List String) : String :=
  if l.isEmpty then "-" else ",".intercalate (l.map showStr)

end SaVerif.Drv
