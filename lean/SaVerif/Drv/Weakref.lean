import SaVerif.Model.Weakref
import SaVerif.Drv.Parse
namespace SaVerif.Drv.Weakref
open SaVerif.Drv SaVerif.Weakref

def parseOp? (tok : String) : Option Op :=
  match tok.splitOn ":" with
  | ["get", k] => do pure (.get (← k.toNat?))
  | ["set", k, v] => do pure (.set (← k.toNat?) (← v.toInt?))
  | ["del", k] => do pure (.del (← k.toNat?))
  | ["add", k, v] => do pure (.add (← k.toNat?) (← v.toInt?))
  | ["drop", k] => do pure (.drop (← k.toNat?))
  | ["exp", k] => do pure (.expire (← k.toNat?))
  | ["expa", k] => do pure (.expireVal (← k.toNat?))
  | ["expi", k] => do pure (.expireId (← k.toNat?))
  | ["begin"] => some .begin
  | ["bn"] => some .beginNested
  | ["rbn"] => some .rollbackNested
  | ["rel"] => some .releaseNested
  | ["flush"] => some .flush
  | ["commit"] => some .commit
  | ["rollback"] => some .rollback
  | ["len"] => some .len
  | _ => none

def parseOps? (s : String) : Option (List Op) :=
  if s == "-" then some [] else (s.splitOn ",").mapM parseOp?

def showDb (n : Nat) (db : DB) : String :=
  "[" ++ " ".intercalate ((List.range n).filterMap (fun k => (db k).map (fun v => toString k ++ "=" ++ toString v))) ++ "]"

def showOut (n : Nat) (op : Op) (st : St) : Out → String
  | .skip => "-"
  | .done =>
    match op with
    | .flush | .commit | .rollback | .beginNested | .rollbackNested | .releaseNested => "d" ++ showDb n st.db
    | _ => "d"
  | .raised => "x"
  | .val none => "None"
  | .val (some v) => "v" ++ toString v
  | .num k => "#" ++ toString k
  | .integrity => "integrity" ++ showDb n st.db

def go (c : Cfg) (gc : Bool) : St → List Op → List String
  | _, [] => []
  | st, o :: os =>
    let r := if gc then stepGc c st o else step c st o
    showOut c.n o r.1 r.2 :: go c gc r.1 os

def b? (s : String) : Option Bool := if s == "1" then some true else if s == "0" then some false else none

/-- `run <n> <eoc> <autobegin> <gc 0|1> <ops>` -/
def handle : List String → String
  | ["run", n, eoc, ab, gc, ops] =>
    match n.toNat?, b? eoc, b? ab, b? gc, parseOps? ops with
    | some n, some eoc, some ab, some gc, some os =>
      let c : Cfg := ⟨n, eoc, ab⟩
      if os.all (opOk c) then ";".intercalate (go c gc St.init os) else "bad-op"
    | _, _, _, _, _ => "bad-op"
  | _ => "bad-op"

end SaVerif.Drv.Weakref
