import SaVerif.Model.Pickle
import SaVerif.Gen.PickleTables
/-!
Sub-driver for the pickling tables.

  pickle survive <Class> <field>   → `1` if the regenerated tables say the key is written by
                                     `__getstate__` and read by `__setstate__`, else `0`
-/
namespace SaVerif.Drv.Pickle
open SaVerif.Pickle SaVerif.Gen.PickleTables

def tables? : String → Option (List String × List String)
  | "InstanceState" => some (savedInstanceState, restoredInstanceState)
  | "Row" => some (savedRow, restoredRow)
  | "SimpleResultMetaData" => some (savedSimpleResultMetaData, restoredSimpleResultMetaData)
  | "CursorResultMetaData" => some (savedCursorResultMetaData, restoredCursorResultMetaData)
  | "MetaData" => some (savedMetaData, restoredMetaData)
  | "CollectionAdapter" => some (savedCollectionAdapter, restoredCollectionAdapter)
  | _ => none

def handle : List String → String
  | ["survive", cls, f] =>
    match tables? cls with
    | some (s, r) => if survives s r f then "1" else "0"
    | none => "bad-op"
  | _ => "bad-op"

end SaVerif.Drv.Pickle
