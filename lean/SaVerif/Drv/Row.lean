import SaVerif.Model.Row
import SaVerif.Drv.Parse
/-!
Sub-driver for M-ROW.  Output tokens use the canonical value syntax of harness/lib_cy.py
(`canon`): ints, `True`/`False`, `(a,b)` tuples, `{s'c0':1}` dicts, `s'…'` strings.

`row <nkeys> <procs|N> <data|-> <op> <op> ...`   procs: n (none) g (neg) d (dbl), e.g. `n.g.d`
  ops: `len` `iter` `get:i` `slice:a:b:c` `attr:k|zz` `map:k|zz` `in:v` `hash` `eq` `cmp:v.v.v`
       `setattr` `delattr` `pickle` `asdict` `fields` `tuple` `repr` `mapping-items`
-/
namespace SaVerif.Drv.Row
open SaVerif.Drv SaVerif.Row SaVerif.PySeq

def parseInts? (s : String) : Option (List Int) :=
  if s == "-" || s.isEmpty then some [] else (s.splitOn ".").mapM (·.toInt?)

def parseProcs? (s : String) : Option (Option (List Proc)) :=
  if s == "N" then some none else
  ((s.splitOn ".").mapM (fun t => match t with
    | "n" => some Proc.none | "g" => some Proc.neg | "d" => some Proc.dbl | _ => none)).map some

def optInt? (s : String) : Option (Option Int) := if s == "N" then some none else s.toInt?.map some

def tup (l : List Int) : String := "(" ++ ",".intercalate (l.map toString) ++ ")"
def pyBool (b : Bool) : String := if b then "True" else "False"
def key (k : Nat) : String := "s'c" ++ toString k ++ "'"

def showErr : SaVerif.Row.Err → String
  | .indexError => "E:IndexError"
  | .attributeError => "E:AttributeError"
  | .keyError => "E:KeyError"
  | .valueError => "E:ValueError"
  | .assertion => "E:AssertionError"

/-- `repr(tuple)` as Python prints it -/
def pyReprTuple (l : List Int) : String :=
  match l with
  | [x] => "s'(" ++ toString x ++ ",)'"
  | _ => "s'(" ++ ", ".intercalate (l.map toString) ++ ")'"

def keyOf? (s : String) : Option Nat :=
  if s == "zz" then some 1000 else if s.startsWith "c" then ((s.drop 1).toString).toNat? else none

def runOp (r : SaVerif.Row.Row) (tok : String) : String :=
  let val (x : Except SaVerif.Row.Err Int) := match x with | .ok v => toString v | .error e => showErr e
  match tok.splitOn ":" with
  | ["len"] => toString r.len
  | ["iter"] => tup r.data
  | ["get", i] => match i.toInt? with | some i => val (r.getitem i) | none => "bad-op"
  | ["slice", a, b, c] =>
    match optInt? a, optInt? b, optInt? c with
    | some a, some b, some c =>
      match r.getslice ⟨a, b, c⟩ with | .ok l => tup l | .error e => showErr e
    | _, _, _ => "bad-op"
  | ["attr", k] => match keyOf? k with | some k => val (r.getattr k) | none => "bad-op"
  | ["map", k] => match keyOf? k with | some k => val (r.getkey k) | none => "bad-op"
  | ["in", v] => match v.toInt? with | some v => pyBool (r.contains v) | none => "bad-op"
  | ["hash"] => pyBool (r.hashKey == r.data)
  | ["eq"] =>
    "(" ++ ",".intercalate [pyBool (r.eq r.data), pyBool (r.eq (r.data ++ [0])),
      pyBool (!r.eq r.data), pyBool (r.eq r.data)] ++ ")"
  | ["cmp", o] => match parseInts? o with
    | some o => "(" ++ ",".intercalate [pyBool (r.lt o), pyBool (r.le o), pyBool (r.gt o), pyBool (r.ge o)] ++ ")"
    | none => "bad-op"
  | ["setattr"] => "E:AttributeError"
  | ["delattr"] => "E:AttributeError"
  | ["pickle"] =>
    let p := r.pickle
    "(" ++ ",".intercalate [tup p.data, "s'Row'", pyBool (p == r),
      "(" ++ ",".intercalate ((List.range p.nkeys).map key) ++ ")"] ++ ")"
  | ["asdict"] => "{" ++ ",".intercalate (r.asdict.map (fun e => key e.1 ++ ":" ++ toString e.2)) ++ "}"
  | ["fields"] => "(" ++ ",".intercalate ((List.range r.nkeys).map key) ++ ")"
  | ["tuple"] => "(True," ++ tup r.data ++ ")"
  | ["repr"] => pyReprTuple r.data
  | ["mapping-items"] =>
    "(" ++ ",".intercalate ["(" ++ ",".intercalate ((List.range r.nkeys).map key) ++ ")", tup r.data,
      toString r.nkeys] ++ ")"
  | _ => "bad-op"

def handle : List String → String
  | nk :: procs :: data :: ops =>
    match nk.toNat?, parseProcs? procs, parseInts? data with
    | some nk, some ps, some d =>
      if d.length != nk then "bad-op" else
      match SaVerif.Row.Row.make nk ps d with
      | .error e => showErr e
      | .ok r => " ".intercalate (ops.map (runOp r))
    | _, _, _ => "bad-op"
  | _ => "bad-op"

end SaVerif.Drv.Row
