import SaVerif.Model.MergeLists
import SaVerif.Drv.Parse
namespace SaVerif.Drv.MergeLists
open SaVerif.Drv SaVerif.MergeLists

/-- `merge <a> <b>` — `util.merge_lists_w_ordering(a, b)` on lists of naturals -/
def handle : List String → String
  | ["merge", a, b] =>
    match parseNatList? a, parseNatList? b with
    | some xs, some ys => "ok " ++ showNatList (mergeListsWOrdering xs ys)
    | _, _ => "bad-op"
  | _ => "bad-op"

end SaVerif.Drv.MergeLists
