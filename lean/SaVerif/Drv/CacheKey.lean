import SaVerif.Model.CacheKey
import SaVerif.Drv.Parse
namespace SaVerif.Drv.CacheKey
open SaVerif.Drv SaVerif.CacheKey

/-!
`cachekey rebind <orig oids> <compile-order oids> <own values> <extracted values>` → values
   (the lists are `-` or comma separated; own values are aligned with the compile order)
`cachekey key <sexpr>` → `<key tokens> <extracted oids>`;  sexpr in prefix form:
   `a<tag>` atom, `b<oid>/<ty>/<name>/<le>` bind, `p` pair (followed by its two subtrees), items joined by `,`
-/

def mkBind (oid : Nat) (v : Int) : Bind := { oid := oid, ty := 0, name := 0, le := false, val := v }

def parseT : Nat → List String → Option (T × List String)
  | 0, _ => none
  | _ + 1, [] => none
  | fuel + 1, t :: rest =>
    if t == "p" then
      match parseT fuel rest with
      | some (l, r1) =>
        match parseT fuel r1 with
        | some (r, r2) => some (T.pair l r, r2)
        | none => none
      | none => none
    else if t.startsWith "a" then (t.drop 1).toString.toNat?.map (fun n => (T.atom n, rest))
    else if t.startsWith "b" then
      match ((t.drop 1).toString).splitOn "/" with
      | [o, ty, nm, le] => do
        let o ← o.toNat?; let ty ← ty.toNat?; let nm ← nm.toNat?
        pure (T.bind { oid := o, ty := ty, name := nm, le := le == "1", val := 0 }, rest)
      | _ => none
    else none

def showK : KTok → String
  | .a t => "a" ++ toString t
  | .b i ty nm le => "b" ++ toString i ++ "/" ++ toString ty ++ "/" ++ toString nm ++ "/" ++ (if le then "1" else "0")
  | .ref i => "r" ++ toString i
  | .op => "("
  | .cl => ")"

def handle : List String → String
  | ["rebind", orig, co, own, ext] =>
    match parseNatList? orig, parseNatList? co, parseIntList? own, parseIntList? ext with
    | some orig, some co, some own, some ext =>
      if own.length ≠ co.length then "bad-op" else
      let ownf : Nat → Int := fun o => (own.getD (co.idxOf o) 0)
      let origB := orig.map (fun o => mkBind o 0)
      let extB := (List.range ext.length).zip ext |>.map (fun p => mkBind (1000000 + p.1) p.2)
      showIntList (constructParams co ownf origB extB)
    | _, _, _, _ => "bad-op"
  | ["key", sx] =>
    match parseT ((sx.splitOn ",").length + 1) (sx.splitOn ",") with
    | some (t, []) =>
      ",".intercalate ((keyOf t).map showK) ++ " " ++ showNatList ((extract t).map (·.oid))
    | _ => "bad-op"
  | _ => "bad-op"

end SaVerif.Drv.CacheKey
