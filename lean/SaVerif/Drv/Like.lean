import SaVerif.Model.Like
import SaVerif.Drv.Parse
namespace SaVerif.Drv.Like
open SaVerif.Drv SaVerif.Like

/-- `N` ↦ none; a decimal code point ↦ some char -/
def parseEsc? (s : String) : Option (Option Char) :=
  if s == "N" then some none else s.toNat?.map (fun n => some (Char.ofNat n))

def parseBool? (s : String) : Option Bool :=
  if s == "1" then some true else if s == "0" then some false else none

def parseKind? (s : String) : Option Kind :=
  if s == "contains" then some .contains
  else if s == "startswith" then some .startswith
  else if s == "endswith" then some .endswith
  else none

def showEsc : Option Char → String
  | none => "N"
  | some c => toString c.toNat

def bit (b : Bool) : String := if b then "1" else "0"

/--
* `escape <esc> <auto> <other>`                       → `<bind> <esc>`
* `sqlite <nc> <esc> <pat> <text>`                    → `0|1`
* `std <nc> <esc> <pat> <text>`                       → `0|1`
* `py <kind> <p> <s>`                                 → `0|1`
* `op <backend> <kind> <icase> <neg> <esc> <auto> <other> <col,col,…>` → one bit per col;
  backend ∈ sqlite-cs | sqlite-ci | std-lower | std-ilike
-/
def handle : List String → String
  | ["escape", esc, auto, other] =>
    match parseEsc? esc, parseBool? auto, parseStr? other with
    | some e, some a, some o =>
      let (b, e') := effective e a o.toList
      showStr (String.ofList b) ++ " " ++ showEsc e'
    | _, _, _ => "bad-op"
  | ["sqlite", nc, esc, pat, text] =>
    match parseBool? nc, parseEsc? esc, parseStr? pat, parseStr? text with
    | some n, some e, some p, some t => bit (likeSqlite n e p.toList t.toList)
    | _, _, _, _ => "bad-op"
  | ["std", nc, esc, pat, text] =>
    match parseBool? nc, parseEsc? esc, parseStr? pat, parseStr? text with
    | some n, some e, some p, some t => bit (likeStd n e p.toList t.toList)
    | _, _, _, _ => "bad-op"
  | ["py", kind, p, s] =>
    match parseKind? kind, parseStr? p, parseStr? s with
    | some k, some p, some s => bit (pyTest k p.toList s.toList)
    | _, _, _ => "bad-op"
  | ["op", backend, kind, icase, neg, esc, auto, other, cols] =>
    match parseKind? kind, parseBool? icase, parseBool? neg, parseEsc? esc, parseBool? auto,
          parseStr? other, parseStrList? cols with
    | some k, some i, some n, some e, some a, some o, some cs =>
      let op : Op := ⟨k, i, n⟩
      let f? : Option (List Char → Bool) :=
        if backend == "sqlite-cs" then some (evalSqlite false op e a o.toList)
        else if backend == "sqlite-ci" then some (evalSqlite true op e a o.toList)
        else if backend == "std-lower" then some (evalStd false op e a o.toList)
        else if backend == "std-ilike" then some (evalStd true op e a o.toList)
        else none
      match f? with
      | some f => if cs.isEmpty then "-" else String.join (cs.map (fun c => bit (f c.toList)))
      | none => "bad-op"
    | _, _, _, _, _, _, _ => "bad-op"
  | _ => "bad-op"

end SaVerif.Drv.Like
