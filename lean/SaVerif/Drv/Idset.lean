import SaVerif.Model.IdentitySet
import SaVerif.Drv.Parse
/-!
Sub-driver for the IdentitySet model.

request : `idset <nregs> <op> <op> ...`
  op    : `new:dst:ARG|N` `copy:dst:r` `add:r:x` `remove:r:x` `discard:r:x` `pop:r` `clear:r`
          `contains:r:x` `len:r` `eq:r:o` `ne:r:o` `lt:r:o` `gt:r:o` `issubset:r:ARG`
          `issuperset:r:ARG` `update:r:ARG` `union:dst:r:ARG` `diff:dst:r:ARG` `inter:dst:r:ARG`
          `symdiff:dst:r:ARG` `diffu:r:ARG` `interu:r:ARG` `symdiffu:r:ARG`
  ARG   : `L1.2.2` any iterable of objects (ids in iteration order), `R0` a live IdentitySet
response: one token per op: `<ret>@<reg>/<reg>/...`, reg = ids in iteration order
-/
namespace SaVerif.Drv.Idset
open SaVerif.Drv SaVerif.Coll

def dots (l : List Nat) : String := ".".intercalate (l.map toString)

def parseDots? (s : String) : Option (List Nat) :=
  if s.isEmpty then some [] else (s.splitOn ".").mapM (·.toNat?)

def reg? (n : Nat) (s : String) : Option Nat :=
  match s.toNat? with
  | some r => if r < n then some r else none
  | none => none

def parseSrc? (n : Nat) (s : String) : Option ISrc :=
  let body := (s.drop 1).toString
  match s.toList.head? with
  | some 'L' => (parseDots? body).map .lit
  | some 'R' => (reg? n body).map .reg
  | _ => none

def parseOp? (n : Nat) (tok : String) : Option IOp :=
  match tok.splitOn ":" with
  | ["new", d, "N"] => do let d ← reg? n d; pure (.new d none)
  | ["new", d, a] => do let d ← reg? n d; let a ← parseSrc? n a; pure (.new d (some a))
  | ["copy", d, r] => do let d ← reg? n d; let r ← reg? n r; pure (.copy d r)
  | ["add", r, x] => do let r ← reg? n r; let x ← x.toNat?; pure (.add r x)
  | ["remove", r, x] => do let r ← reg? n r; let x ← x.toNat?; pure (.remove r x)
  | ["discard", r, x] => do let r ← reg? n r; let x ← x.toNat?; pure (.discard r x)
  | ["pop", r] => do let r ← reg? n r; pure (.pop r)
  | ["clear", r] => do let r ← reg? n r; pure (.clear r)
  | ["contains", r, x] => do let r ← reg? n r; let x ← x.toNat?; pure (.contains r x)
  | ["len", r] => do let r ← reg? n r; pure (.len r)
  | ["eq", r, o] => do let r ← reg? n r; let o ← reg? n o; pure (.eq r o)
  | ["ne", r, o] => do let r ← reg? n r; let o ← reg? n o; pure (.ne r o)
  | ["lt", r, o] => do let r ← reg? n r; let o ← reg? n o; pure (.lt r o)
  | ["gt", r, o] => do let r ← reg? n r; let o ← reg? n o; pure (.gt r o)
  | ["issubset", r, a] => do let r ← reg? n r; let a ← parseSrc? n a; pure (.issubset r a)
  | ["issuperset", r, a] => do let r ← reg? n r; let a ← parseSrc? n a; pure (.issuperset r a)
  | ["update", r, a] => do let r ← reg? n r; let a ← parseSrc? n a; pure (.update r a)
  | ["union", d, r, a] => do
      let d ← reg? n d; let r ← reg? n r; let a ← parseSrc? n a; pure (.union d r a)
  | ["diff", d, r, a] => do
      let d ← reg? n d; let r ← reg? n r; let a ← parseSrc? n a; pure (.difference d r a)
  | ["inter", d, r, a] => do
      let d ← reg? n d; let r ← reg? n r; let a ← parseSrc? n a; pure (.intersection d r a)
  | ["symdiff", d, r, a] => do
      let d ← reg? n d; let r ← reg? n r; let a ← parseSrc? n a; pure (.symDiff d r a)
  | ["diffu", r, a] => do let r ← reg? n r; let a ← parseSrc? n a; pure (.diffUpdate r a)
  | ["interu", r, a] => do let r ← reg? n r; let a ← parseSrc? n a; pure (.interUpdate r a)
  | ["symdiffu", r, a] => do let r ← reg? n r; let a ← parseSrc? n a; pure (.symDiffUpdate r a)
  | _ => none

def showRet : IRet → String
  | .none => "-"
  | .val v => "v" ++ toString v
  | .bool b => if b then "T" else "F"
  | .err .keyError => "E:KeyError"
  | .err .typeError => "E:TypeError"

def showStep (p : IRet × IRegs) : String :=
  showRet p.1 ++ "@" ++ "/".intercalate (p.2.map dots)

def handle : List String → String
  | n :: toks =>
    match n.toNat? with
    | none => "bad-op"
    | some n =>
      if n == 0 || n > 8 then "bad-op" else
      match toks.mapM (parseOp? n) with
      | none => "bad-op"
      | some ops => " ".intercalate ((irun (List.replicate n []) ops).map showStep)
  | _ => "bad-op"

end SaVerif.Drv.Idset
