import SaVerif.Model.Url
import SaVerif.Drv.Parse
/-!
Sub-driver for M-URL.  Strings travel as `s:<code points>`; `N` is None.

  url quote <safe> <s>            -> <s>
  url quoteplus <s>               -> <s>
  url unquote <s>                 -> <s>
  url parseqsl <keep 0|1> <s>     -> k=v,k=v,...   (`-` = empty list)
  url scan <s>                    -> none | name user pw ipv4 ipv6 port db query
  url parse <s>                   -> ok drv user pw host port db query | err argument | err value
  url render drv user pw host port db query       -> <s>
  url roundtrip drv user pw host port db query    -> eq | ne <parse output> | err ...
query := `-` | entry,entry,...   entry := <s>=<s> | <s>=[<s>|<s>|...]  (`[]` = empty tuple)
-/
namespace SaVerif.Drv.Url
open SaVerif.Drv SaVerif.Url

def pStr? (s : String) : Option Str := (parseStr? s).map String.toList
def sStr (s : Str) : String := showStr (String.ofList s)

def pOptStr? (s : String) : Option (Option Str) :=
  if s == "N" then some none else (pStr? s).map some

def sOptStr : Option Str → String
  | none => "N"
  | some s => sStr s

def pQVal? (s : String) : Option QVal :=
  if s.startsWith "[" && s.endsWith "]" then
    let body := ((s.drop 1).dropEnd 1).toString
    if body.isEmpty then some (.multi [])
    else ((body.splitOn "|").mapM pStr?).map QVal.multi
  else (pStr? s).map QVal.single

def pEntry? (s : String) : Option (Str × QVal) :=
  match s.splitOn "=" with
  | [k, v] => do let k ← pStr? k; let v ← pQVal? v; pure (k, v)
  | _ => none

def pQuery? (s : String) : Option (List (Str × QVal)) :=
  if s == "-" then some [] else (s.splitOn ",").mapM pEntry?

def sQVal : QVal → String
  | .single v => sStr v
  | .multi vs => "[" ++ "|".intercalate (vs.map sStr) ++ "]"

def sQuery (q : List (Str × QVal)) : String :=
  if q.isEmpty then "-" else ",".intercalate (q.map (fun e => sStr e.1 ++ "=" ++ sQVal e.2))

def pUrl? : List String → Option URL
  | [d, u, p, h, po, db, q] => do
    let d ← pStr? d
    let u ← pOptStr? u
    let p ← pOptStr? p
    let h ← pOptStr? h
    let po ← parseOptInt? po
    let db ← pOptStr? db
    let q ← pQuery? q
    pure ⟨d, u, p, h, po, db, q⟩
  | _ => none

def sUrl (u : URL) : String :=
  " ".intercalate [sStr u.drivername, sOptStr u.username, sOptStr u.password, sOptStr u.host,
    (match u.port with | none => "N" | some p => toString p), sOptStr u.database,
    sQuery (sortEntries u.query)]

def sErr : Err → String
  | .argument => "err argument"
  | .value => "err value"

def sParse : Except Err URL → String
  | .ok u => "ok " ++ sUrl u
  | .error e => sErr e

/-- URL.__eq__: componentwise, the query compared as a dict (order-insensitive) -/
def urlEq (a b : URL) : Bool :=
  a.drivername == b.drivername && a.username == b.username && a.password == b.password
    && a.host == b.host && a.port == b.port && a.database == b.database
    && sortEntries a.query == sortEntries b.query

def handle : List String → String
  | ["quote", safe, s] =>
    match pStr? safe, pStr? s with
    | some safe, some s => sStr (quote safe s)
    | _, _ => "bad-op"
  | ["quoteplus", s] =>
    match pStr? s with
    | some s => sStr (quotePlus s)
    | none => "bad-op"
  | ["unquote", s] =>
    match pStr? s with
    | some s => sStr (unquote s)
    | none => "bad-op"
  | ["parseqsl", k, s] =>
    match pStr? s with
    | some s =>
      if k != "0" && k != "1" then "bad-op" else
      let r := parseQsl (k == "1") s
      if r.isEmpty then "-" else ",".intercalate (r.map (fun kv => sStr kv.1 ++ "=" ++ sStr kv.2))
    | none => "bad-op"
  | ["scan", s] =>
    match pStr? s with
    | some s =>
      match scan s with
      | none => "none"
      | some m => " ".intercalate [sStr m.name, sOptStr m.username, sOptStr m.password,
          sOptStr m.ipv4host, sOptStr m.ipv6host, sOptStr m.port, sOptStr m.database, sOptStr m.query]
    | none => "bad-op"
  | ["parse", s] =>
    match pStr? s with
    | some s => sParse (parseUrl s)
    | none => "bad-op"
  | "render" :: rest =>
    match pUrl? rest with
    | some u => sStr (render u)
    | none => "bad-op"
  | "roundtrip" :: rest =>
    match pUrl? rest with
    | some u =>
      match parseUrl (render u) with
      | .ok v => if urlEq u v then "eq" else "ne " ++ sUrl v
      | .error e => sErr e
    | none => "bad-op"
  | _ => "bad-op"

end SaVerif.Drv.Url
