import SaVerif.Model.AssocProxy
import SaVerif.Drv.Parse
namespace SaVerif.Drv.AssocProxy
open SaVerif.Drv SaVerif.AssocProxy

/-!
`assocproxy set <ops>`   add:v dis:v rem:v upd:vals dif:vals int:vals sym:vals clr
`assocproxy dict <ops>`  set:k:v del:k pop:k:d(0 none|1 None|2 other) sdf:k:v upd:k=v.k=v clr
`assocproxy list <ops>`  app:v ext:vals ins:i:v del:i pop:i set:i:v rem:v clr mul:n
values / keys are ints, lists by `.`, `-` = empty.
response per op: `ok|key|index|value|getter` `/` members; a member created by this op is
suffixed `+`.  set: values sorted; dict: `k=v` sorted by key; list: in order.  ops by `|`.
-/

def parseDotInts? (s : String) : Option (List Int) :=
  if s == "-" then some [] else (s.splitOn ".").mapM (·.toInt?)

def parsePairs? (s : String) : Option (List (Int × Int)) :=
  if s == "-" then some [] else
  (s.splitOn ".").mapM (fun t => match t.splitOn "=" with
    | [a, b] => do pure ((← a.toInt?), (← b.toInt?))
    | _ => none)

def showErr : Err → String
  | .keyError => "key"
  | .indexError => "index"
  | .valueError => "value"
  | .getterOnDefault => "getter"

def insertSorted (x : Int × String) : List (Int × String) → List (Int × String)
  | [] => [x]
  | y :: ys => if x.1 ≤ y.1 then x :: y :: ys else y :: insertSorted x ys

def sortByKey (l : List (Int × String)) : List (Int × String) := l.foldr insertSorted []

def joinOr (l : List String) : String := if l.isEmpty then "-" else ".".intercalate l

/-! ### set -/
inductive SOp where
  | add (v : Int) | dis (v : Int) | rem (v : Int) | upd (l : List Int) | dif (l : List Int)
  | int (l : List Int) | sym (l : List Int) | clr

def parseSOp? (s : String) : Option SOp :=
  match s.splitOn ":" with
  | ["add", v] => v.toInt?.map .add
  | ["dis", v] => v.toInt?.map .dis
  | ["rem", v] => v.toInt?.map .rem
  | ["upd", l] => (parseDotInts? l).map .upd
  | ["dif", l] => (parseDotInts? l).map .dif
  | ["int", l] => (parseDotInts? l).map .int
  | ["sym", l] => (parseDotInts? l).map .sym
  | ["clr"] => some .clr
  | _ => none

def sStep (s : Set.St) : SOp → Except Err Set.St
  | .add v => .ok (Set.add s v)
  | .dis v => .ok (Set.discard s v)
  | .rem v => Set.remove s v
  | .upd l => .ok (Set.update s l)
  | .dif l => .ok (Set.differenceUpdate s l)
  | .int l => Set.intersectionUpdate s l
  | .sym l => Set.symDiffUpdate s l
  | .clr => .ok (Set.clear s)

def showSet (s : Set.St) (before : Nat) : String :=
  joinOr ((sortByKey (s.col.map (fun m => (m.val, toString m.val ++ (if m.id ≥ before then "+" else ""))))).map (·.2))

def sRun : Set.St → List SOp → List String
  | _, [] => []
  | s, op :: ops =>
    match sStep s op with
    | .ok s1 => ("ok/" ++ showSet s1 s.next) :: sRun s1 ops
    | .error e => (showErr e ++ "/" ++ showSet s s.next) :: sRun s ops

/-! ### dict -/
inductive DOp where
  | set (k v : Int) | del (k : Int) | pop (k : Int) (d : Nat) | sdf (k v : Int)
  | upd (l : List (Int × Int)) | clr

def parseDOp? (s : String) : Option DOp :=
  match s.splitOn ":" with
  | ["set", k, v] => do pure (.set (← k.toInt?) (← v.toInt?))
  | ["del", k] => k.toInt?.map .del
  | ["pop", k, d] => do pure (.pop (← k.toInt?) (← d.toNat?))
  | ["sdf", k, v] => do pure (.sdf (← k.toInt?) (← v.toInt?))
  | ["upd", l] => (parsePairs? l).map .upd
  | ["clr"] => some .clr
  | _ => none

def dStep (s : Dict.St) : DOp → Except Err Dict.St
  | .set k v => .ok (Dict.setItem s k v)
  | .del k => Dict.delItem s k
  | .pop k d => Dict.pop s k d
  | .sdf k v => .ok (Dict.setDefault s k v)
  | .upd l => .ok (Dict.update s l)
  | .clr => .ok (Dict.clear s)

def showDict (s : Dict.St) (before : Nat) : String :=
  joinOr ((sortByKey (s.col.map (fun p => (p.1, toString p.1 ++ "=" ++ toString p.2.val ++
    (if p.2.id ≥ before then "+" else ""))))).map (·.2))

def dRun : Dict.St → List DOp → List String
  | _, [] => []
  | s, op :: ops =>
    match dStep s op with
    | .ok s1 => ("ok/" ++ showDict s1 s.next) :: dRun s1 ops
    | .error e => (showErr e ++ "/" ++ showDict s s.next) :: dRun s ops

/-! ### list -/
inductive LOp where
  | app (v : Int) | ext (l : List Int) | ins (i v : Int) | del (i : Int) | pop (i : Int)
  | set (i v : Int) | rem (v : Int) | clr | mul (n : Int)

def parseLOp? (s : String) : Option LOp :=
  match s.splitOn ":" with
  | ["app", v] => v.toInt?.map .app
  | ["ext", l] => (parseDotInts? l).map .ext
  | ["ins", i, v] => do pure (.ins (← i.toInt?) (← v.toInt?))
  | ["del", i] => i.toInt?.map .del
  | ["pop", i] => i.toInt?.map .pop
  | ["set", i, v] => do pure (.set (← i.toInt?) (← v.toInt?))
  | ["rem", v] => v.toInt?.map .rem
  | ["clr"] => some .clr
  | ["mul", n] => n.toInt?.map .mul
  | _ => none

def lStep (s : Lst.St) : LOp → Except Err Lst.St
  | .app v => .ok (Lst.append s v)
  | .ext l => .ok (Lst.extend s l)
  | .ins i v => .ok (Lst.insert s i v)
  | .del i => Lst.delItem s i
  | .pop i => Lst.pop s i
  | .set i v => Lst.setItem s i v
  | .rem v => Lst.remove s v
  | .clr => .ok (Lst.clear s)
  | .mul n => .ok (Lst.imul s n)

def showList (s : Lst.St) (before : Nat) : String :=
  joinOr (s.col.map (fun m => toString m.val ++ (if m.id ≥ before then "+" else "")))

def lRun : Lst.St → List LOp → List String
  | _, [] => []
  | s, op :: ops =>
    match lStep s op with
    | .ok s1 => ("ok/" ++ showList s1 s.next) :: lRun s1 ops
    | .error e => (showErr e ++ "/" ++ showList s s.next) :: lRun s ops

def finish (out : List String) : String := if out.isEmpty then "-" else "|".intercalate out

def handle : List String → String
  | ["set", ops] =>
    match (if ops == "-" then some [] else (ops.splitOn ";").mapM parseSOp?) with
    | some ops => finish (sRun ⟨[], 0⟩ ops)
    | none => "bad-op"
  | ["dict", ops] =>
    match (if ops == "-" then some [] else (ops.splitOn ";").mapM parseDOp?) with
    | some ops => finish (dRun ⟨[], 0⟩ ops)
    | none => "bad-op"
  | ["list", ops] =>
    match (if ops == "-" then some [] else (ops.splitOn ";").mapM parseLOp?) with
    | some ops => finish (lRun ⟨[], 0⟩ ops)
    | none => "bad-op"
  | _ => "bad-op"

end SaVerif.Drv.AssocProxy
