import SaVerif.Model.CyUtil
import SaVerif.Drv.Parse
/-!
`cyutil tuplegetter <i,j,..> <row items|->`  → `(a,b,..)` canonical tuple | `E:IndexError`
`cyutil anon o3 k1 o3 ...`                   → per op `<index><T|F>` for objects, `<index>` for keys
`cyutil panon <ident>.<name> ...`            → per key `<name>.<counter>`
-/
namespace SaVerif.Drv.Cyutil
open SaVerif.Drv SaVerif.CyUtil

def parseAnon? (s : String) : Option (Bool × Nat) :=
  let body := (s.drop 1).toString
  match s.toList.head? with
  | some 'o' => body.toNat?.map (fun n => (true, n))
  | some 'k' => body.toNat?.map (fun n => (false, n))
  | _ => none

def parsePairDot? (s : String) : Option (Nat × Nat) :=
  match s.splitOn "." with
  | [a, b] => do let x ← a.toNat?; let y ← b.toNat?; pure (x, y)
  | _ => none

def handle : List String → String
  | ["tuplegetter", idx, row] =>
    match parseNatList? idx, parseNatList? row with
    | some idx, some row =>
      match tupleGetter idx row with
      | some r => "(" ++ ",".intercalate (r.map toString) ++ ")"
      | none => "E:IndexError"
    | _, _ => "bad-op"
  | "anon" :: toks =>
    match toks.mapM parseAnon? with
    | none => "bad-op"
    | some ops =>
      -- objects and keys live in one map: encode object n as 2n, key n as 2n+1
      let ks := ops.map (fun p => if p.1 then 2 * p.2 else 2 * p.2 + 1)
      let rs := AnonMap.run [] ks
      " ".intercalate ((ops.zip rs).map (fun pr =>
        toString pr.2.1 ++ (if pr.1.1 then (if pr.2.2 then "T" else "F") else "")))
  | "panon" :: toks =>
    match toks.mapM parsePairDot? with
    | none => "bad-op"
    | some ks => " ".intercalate ((PrefixMap.run PrefixMap.empty ks).map
        (fun v => toString v.1 ++ "." ++ toString v.2))
  | _ => "bad-op"

end SaVerif.Drv.Cyutil
