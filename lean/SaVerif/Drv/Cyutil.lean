import SaVerif.Model.CyUtil
import SaVerif.Model.ApplyProcs
import SaVerif.Drv.Parse
/-!
`cyutil tuplegetter <i,j,..> <row items|->`  → `(a,b,..)` canonical tuple | `E:IndexError`
`cyutil anon o3 k1 o3 ...`                   → per op `<index><T|F>` for objects, `<index>` for keys
`cyutil panon <ident>.<name> ...`            → per key `<name>.<counter>`
`cyutil applyprocs <procs|N> <data|-> <view> ...` → per view the processed row as delivered:
     procs `n.g.d.z` (none / neg / dbl / nz = default 77 for NULL), data `1.N.3` (N = NULL),
     views `t` (tuple) `s<k>` (column k) `m` (mapping); both branches of `_apply_processors` are
     evaluated, `BRANCHES-DIFFER` if they disagree, `E:AssertionError` on a width mismatch
-/
namespace SaVerif.Drv.Cyutil
open SaVerif.Drv SaVerif.CyUtil

def parseAnon? (s : String) : Option (Bool × Nat) :=
  let body := (s.drop 1).toString
  match s.toList.head? with
  | some 'o' => body.toNat?.map (fun n => (true, n))
  | some 'k' => body.toNat?.map (fun n => (false, n))
  | _ => none

def parsePairDot? (s : String) : Option (Nat × Nat) :=
  match s.splitOn "." with
  | [a, b] => do let x ← a.toNat?; let y ← b.toNat?; pure (x, y)
  | _ => none

def parseNProcs? (s : String) : Option (List SaVerif.ApplyProcs.NProc) :=
  if s == "N" then some [] else
  (s.splitOn ".").mapM (fun t => match t with
    | "n" => some .none | "g" => some .neg | "d" => some .dbl | "z" => some .nz | _ => none)

def parseNullable? (s : String) : Option (List (Option Int)) :=
  if s == "-" || s.isEmpty then some [] else
  (s.splitOn ".").mapM (fun t => if t == "N" then some none else t.toInt?.map some)

def showNullable : Option Int → String
  | none => "None"
  | some v => toString v

def showView (row : List (Option Int)) (v : String) : String :=
  if v == "t" then "(" ++ ",".intercalate (row.map showNullable) ++ ")"
  else if v == "m" then
    "{" ++ ",".intercalate ((List.range row.length).zip row |>.map
      (fun e => "s'c" ++ toString e.1 ++ "':" ++ showNullable e.2)) ++ "}"
  else if v.startsWith "s" then
    match ((v.drop 1).toString).toNat? with
    | some k => match row[k]? with | some x => showNullable x | none => "E:IndexError"
    | none => "bad-op"
  else "bad-op"

def handleApplyProcs (procs data : String) (views : List String) : String :=
  match parseNProcs? procs, parseNullable? data with
  | some ps, some d =>
    -- no processors at all: the simple getters hand the raw row over
    if procs == "N" then " ".intercalate (views.map (showView d)) else
    -- neg / dbl raise on NULL in Python: outside what this request language describes
    if (ps.zip d).any (fun e => e.2.isNone && !e.1.acceptsNull) then "bad-op" else
    match SaVerif.ApplyProcs.applyProcsBoth (ps.map (·.slot)) d with
    | none => "E:AssertionError"
    | some (c, p) =>
      if c != p then "BRANCHES-DIFFER" else " ".intercalate (views.map (showView c))
  | _, _ => "bad-op"

def handle : List String → String
  | "applyprocs" :: procs :: data :: views => handleApplyProcs procs data views
  | ["tuplegetter", idx, row] =>
    match parseNatList? idx, parseNatList? row with
    | some idx, some row =>
      match tupleGetter idx row with
      | some r => "(" ++ ",".intercalate (r.map toString) ++ ")"
      | none => "E:IndexError"
    | _, _ => "bad-op"
  | "anon" :: toks =>
    match toks.mapM parseAnon? with
    | none => "bad-op"
    | some ops =>
      -- objects and keys live in one map: encode object n as 2n, key n as 2n+1
      let ks := ops.map (fun p => if p.1 then 2 * p.2 else 2 * p.2 + 1)
      let rs := AnonMap.run [] ks
      " ".intercalate ((ops.zip rs).map (fun pr =>
        toString pr.2.1 ++ (if pr.1.1 then (if pr.2.2 then "T" else "F") else "")))
  | "panon" :: toks =>
    match toks.mapM parsePairDot? with
    | none => "bad-op"
    | some ks => " ".intercalate ((PrefixMap.run PrefixMap.empty ks).map
        (fun v => toString v.1 ++ "." ++ toString v.2))
  | _ => "bad-op"

end SaVerif.Drv.Cyutil
