/-
M-COLL (1/4): transcription of `OrderedSet` and `unique_list` from
lib/sqlalchemy/util/_collections_cy.py.  Import-free, total, executable.

An `OrderedSet` is a subclass of the builtin `set` carrying an extra `_list`.
The builtin set part is modelled as a duplicate-free list observed only through
membership and length (`st`); `_list` is `lst`.  Elements are natural numbers
(the harness maps hashable Python values to indices of a pool).

Python                                          model
----------------------------------------------  -------------------------------
unique_list(seq) (both branches)                uniqueList
set.add / set.remove / set.update(self, l)      setAdd / setRemove / setUpdate
set.intersection(self, *o) / difference         setInter / setDiff
set.symmetric_difference_update(self, coll)     setSymDiff
x in self      (set.__contains__)               OSet.has
OrderedSet.__init__(d)                          OSet.init
_from_list(new_list)                            OSet.fromList
copy, __copy__ (= self.copy(), F19 fix)         OSet.copy
add/remove/pop/insert/discard/clear             OSet.add … OSet.clear
__getitem__                                     OSet.getitem
update/__ior__, union/__or__/__add__            OSet.update, OSet.union
intersection/__and__, difference/__sub__        OSet.intersection, OSet.difference
symmetric_difference/__xor__                    OSet.symDiff
intersection_update/__iand__ …                  OSet.interUpdate, diffUpdate, symDiffUpdate
list.remove(x) raising ValueError               listRemove = none
list.insert(pos, x) (index clamping)            listInsert
list[key] (negative index, IndexError)          listGet

An iterable argument is its element list in iteration order plus the fact the
code branches on (`isinstance(d, set)`, `isinstance(d, dict)`, `hasattr(__len__)`).
Exceptions are returned as values together with the state they leave behind.
-/
namespace SaVerif.Coll

abbrev Elem := Nat

inductive Err where
  | keyError | indexError | valueError | typeError
deriving Repr, DecidableEq

/-! ### the builtin `set`, membership/length only -/

def setAdd (st : List Elem) (x : Elem) : List Elem :=
  if st.contains x then st else x :: st

def setRemove (st : List Elem) (x : Elem) : List Elem :=
  st.filter (fun y => y != x)

/-- `set.update(st, l)` / `set(l)` when `st = []` -/
def setUpdate (st : List Elem) (l : List Elem) : List Elem :=
  l.foldl setAdd st

/-- `set.intersection(st, *others)` -/
def setInter (st : List Elem) (others : List (List Elem)) : List Elem :=
  st.filter (fun x => others.all (fun o => o.contains x))

/-- `set.difference(st, *others)` -/
def setDiff (st : List Elem) (others : List (List Elem)) : List Elem :=
  st.filter (fun x => others.all (fun o => !o.contains x))

/-- `set.symmetric_difference_update(st, coll)`: `coll` is first turned into a set -/
def setSymDiff (st : List Elem) (coll : List Elem) : List Elem :=
  st.filter (fun x => !coll.contains x) ++ (setUpdate [] coll).filter (fun x => !st.contains x)

/-! ### unique_list -/

/-- compiled branch: `[x for x in seq if x not in seen and not seen.add(x)]`;
    pure branch: `list(dict.fromkeys(seq))` — both keep first occurrences. -/
def uniqueList (seq : List Elem) : List Elem :=
  seq.foldl (fun acc x => if acc.contains x then acc else acc ++ [x]) []

/-! ### Python list primitives used by OrderedSet -/

/-- `l.remove(x)`; `none` = ValueError -/
def listRemove (l : List Elem) (x : Elem) : Option (List Elem) :=
  if l.contains x then some (l.erase x) else none

/-- index clamping of `list.insert` -/
def insertPos (n : Nat) (pos : Int) : Nat :=
  if pos < 0 then (if pos + n < 0 then 0 else (pos + n).toNat)
  else (if pos > n then n else pos.toNat)

def listInsert (l : List Elem) (pos : Int) (x : Elem) : List Elem :=
  let k := insertPos l.length pos
  l.take k ++ x :: l.drop k

/-- `l[key]`; `none` = IndexError -/
def listGet (l : List Elem) (key : Int) : Option Elem :=
  let k := if key < 0 then key + l.length else key
  if k < 0 then none else l[k.toNat]?

/-! ### arguments -/

inductive ArgKind where
  | set    -- isinstance(x, set): set, OrderedSet
  | dict   -- isinstance(x, dict)
  | sized  -- has __len__, neither set nor dict: list, tuple, frozenset, dict views
  | iter   -- no __len__: generators, iterators
deriving Repr, DecidableEq

structure Arg where
  kind : ArgKind
  elems : List Elem
deriving Repr, DecidableEq

/-! ### OrderedSet -/

structure OSet where
  lst : List Elem
  st : List Elem
deriving Repr, DecidableEq

namespace OSet

def empty : OSet := ⟨[], []⟩

/-- `x in self` is `set.__contains__` (not overridden) -/
def has (s : OSet) (x : Elem) : Bool := s.st.contains x

/-- `len(self)` is `set.__len__` -/
def len (s : OSet) : Nat := s.st.length

def fromList (l : List Elem) : OSet := ⟨l, setUpdate [] l⟩

def init (a : Option Arg) : OSet :=
  match a with
  | none => empty
  | some a =>
    let l := match a.kind with
      | .set | .dict => a.elems
      | _ => uniqueList a.elems
    ⟨l, setUpdate [] l⟩

def copy (s : OSet) : OSet := fromList s.lst

def add (s : OSet) (x : Elem) : OSet :=
  if s.has x then s else ⟨s.lst ++ [x], setAdd s.st x⟩

def remove (s : OSet) (x : Elem) : OSet × Option Err :=
  if !s.has x then (s, some .keyError)
  else
    let st' := setRemove s.st x
    match listRemove s.lst x with
    | some l => (⟨l, st'⟩, none)
    | none => (⟨s.lst, st'⟩, some .valueError)

def pop (s : OSet) : OSet × Except Err Elem :=
  match s.lst.getLast? with
  | none => (s, .error .keyError)
  | some v =>
    let l := s.lst.dropLast
    if s.st.contains v then (⟨l, setRemove s.st v⟩, .ok v)
    else (⟨l, s.st⟩, .error .keyError)

def insert (s : OSet) (pos : Int) (x : Elem) : OSet :=
  if s.has x then s else ⟨listInsert s.lst pos x, setAdd s.st x⟩

def discard (s : OSet) (x : Elem) : OSet × Option Err :=
  if s.has x then
    let st' := setRemove s.st x
    match listRemove s.lst x with
    | some l => (⟨l, st'⟩, none)
    | none => (⟨s.lst, st'⟩, some .valueError)
  else (s, none)

def clear (_ : OSet) : OSet := empty

def getitem (s : OSet) (key : Int) : Except Err Elem :=
  match listGet s.lst key with
  | some v => .ok v
  | none => .error .indexError

/-- `update(*iterables)`: the inlined `add` per element -/
def update (s : OSet) (args : List (List Elem)) : OSet :=
  args.foldl (fun s a => a.foldl add s) s

def union (s : OSet) (args : List (List Elem)) : OSet :=
  (fromList s.lst).update args

def intersection (s : OSet) (args : List (List Elem)) : OSet :=
  let other := setInter s.st args
  fromList (s.lst.filter (fun a => other.contains a))

def difference (s : OSet) (args : List (List Elem)) : OSet :=
  let other := setDiff s.st args
  fromList (s.lst.filter (fun a => other.contains a))

/-- all three branches (`set` / sized / iterator) give `collection` = the element
    sequence and `other_set` = its set -/
def symDiff (s : OSet) (coll : List Elem) : OSet :=
  let otherSet := setUpdate [] coll
  let result := fromList (s.lst.filter (fun a => !otherSet.contains a))
  result.update [coll.filter (fun a => !s.has a)]

def interUpdate (s : OSet) (args : List (List Elem)) : OSet :=
  let st' := setInter s.st args
  ⟨s.lst.filter (fun a => st'.contains a), st'⟩

def diffUpdate (s : OSet) (args : List (List Elem)) : OSet :=
  let st' := setDiff s.st args
  ⟨s.lst.filter (fun a => st'.contains a), st'⟩

/-- `dedup = true` is the code as it stands (`unique_list(collection)`);
    `dedup = false` is the code before the F9 fix, kept for the counterexample -/
def symDiffUpdateGen (dedup : Bool) (s : OSet) (coll : List Elem) : OSet :=
  let st' := setSymDiff s.st coll
  let l1 := s.lst.filter (fun a => st'.contains a)
  let c := if dedup then uniqueList coll else coll
  ⟨l1 ++ c.filter (fun a => st'.contains a), st'⟩

def symDiffUpdate (s : OSet) (coll : List Elem) : OSet := symDiffUpdateGen true s coll

end OSet

/-! ### operation sequences over a register file of OrderedSets -/

/-- an argument is a literal iterable or another live OrderedSet -/
inductive Src where
  | lit (a : Arg)
  | reg (r : Nat)
deriving Repr, DecidableEq

inductive OOp where
  | new (dst : Nat) (a : Option Src)
  | copy (dst r : Nat)
  | add (r : Nat) (x : Elem)
  | remove (r : Nat) (x : Elem)
  | discard (r : Nat) (x : Elem)
  | pop (r : Nat)
  | insert (r : Nat) (pos : Int) (x : Elem)
  | clear (r : Nat)
  | getitem (r : Nat) (key : Int)
  | contains (r : Nat) (x : Elem)
  | len (r : Nat)
  | update (r : Nat) (args : List Src)
  | union (dst r : Nat) (args : List Src)
  | intersection (dst r : Nat) (args : List Src)
  | difference (dst r : Nat) (args : List Src)
  | symDiff (dst r : Nat) (a : Src)
  | interUpdate (r : Nat) (args : List Src)
  | diffUpdate (r : Nat) (args : List Src)
  | symDiffUpdate (r : Nat) (a : Src)
deriving Repr

inductive Ret where
  | none
  | val (v : Elem)
  | bool (b : Bool)
  | err (e : Err)
deriving Repr, DecidableEq

abbrev Regs := List OSet

def Regs.get (rs : Regs) (r : Nat) : OSet := rs.getD r OSet.empty

def Src.arg (rs : Regs) : Src → Arg
  | .lit a => a
  | .reg r => ⟨.set, (rs.get r).lst⟩

def Src.elems (rs : Regs) (s : Src) : List Elem := (s.arg rs).elems

def retOfErr : Option Err → Ret
  | none => .none
  | some e => .err e

def ostep (rs : Regs) : OOp → Regs × Ret
  | .new dst a => (rs.set dst (OSet.init (a.map (Src.arg rs))), .none)
  | .copy dst r => (rs.set dst (rs.get r).copy, .none)
  | .add r x => (rs.set r ((rs.get r).add x), .none)
  | .remove r x => let (s, e) := (rs.get r).remove x; (rs.set r s, retOfErr e)
  | .discard r x => let (s, e) := (rs.get r).discard x; (rs.set r s, retOfErr e)
  | .pop r =>
    let (s, v) := (rs.get r).pop
    (rs.set r s, match v with | .ok v => .val v | .error e => .err e)
  | .insert r pos x => (rs.set r ((rs.get r).insert pos x), .none)
  | .clear r => (rs.set r (rs.get r).clear, .none)
  | .getitem r key =>
    (rs, match (rs.get r).getitem key with | .ok v => .val v | .error e => .err e)
  | .contains r x => (rs, .bool ((rs.get r).has x))
  | .len r => (rs, .val (rs.get r).len)
  | .update r args => (rs.set r ((rs.get r).update (args.map (Src.elems rs))), .none)
  | .union dst r args => (rs.set dst ((rs.get r).union (args.map (Src.elems rs))), .none)
  | .intersection dst r args =>
    (rs.set dst ((rs.get r).intersection (args.map (Src.elems rs))), .none)
  | .difference dst r args =>
    (rs.set dst ((rs.get r).difference (args.map (Src.elems rs))), .none)
  | .symDiff dst r a => (rs.set dst ((rs.get r).symDiff (a.elems rs)), .none)
  | .interUpdate r args => (rs.set r ((rs.get r).interUpdate (args.map (Src.elems rs))), .none)
  | .diffUpdate r args => (rs.set r ((rs.get r).diffUpdate (args.map (Src.elems rs))), .none)
  | .symDiffUpdate r a => (rs.set r ((rs.get r).symDiffUpdate (a.elems rs)), .none)

/-- run a whole sequence, collecting the return value and register file after each op -/
def orun (rs : Regs) : List OOp → List (Ret × Regs)
  | [] => []
  | op :: ops => let (rs', ret) := ostep rs op; (ret, rs') :: orun rs' ops

def ofinal (rs : Regs) (ops : List OOp) : Regs := ops.foldl (fun rs op => (ostep rs op).1) rs

end SaVerif.Coll
