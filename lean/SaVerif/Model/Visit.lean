import SaVerif.Gen.VisitTable
/-
M-VISIT: transcription of lib/sqlalchemy/sql/visitors.py Visitable._generate_compiler_dispatch

    try:
        meth = getter(visitor)                      # operator.attrgetter("visit_<name>")
    except AttributeError as err:
        return visitor.visit_unsupported_compilation(self, err, **kw)
    else:
        return meth(self, **kw)

over the table regenerated from the working tree: which (dialect, compiler kind, visit name)
have a `visit_<name>` method, and whether the compiler's `visit_unsupported_compilation`
raises UnsupportedCompilationError.
-/
namespace SaVerif.Visit
open SaVerif.Gen.VisitTable

inductive Outcome where
  | method        -- visit_<name> is called
  | unsupported   -- UnsupportedCompilationError (documented)
  | internal      -- the fallback is missing or is not the documented one: AttributeError escapes
deriving DecidableEq, Repr

def hasMethod (d k : Nat) (name : String) : Bool :=
  rows.any (fun r => r.1 == d && r.2.1 == k && r.2.2.1 == name && r.2.2.2)

def fallbackOK (d k : Nat) : Bool :=
  fallback.any (fun r => r.1 == d && r.2.1 == k && r.2.2)

def dispatch (d k : Nat) (name : String) : Outcome :=
  if hasMethod d k name then .method
  else if fallbackOK d k then .unsupported
  else .internal

end SaVerif.Visit
