import SaVerif.Model.ExprOp
/-!
# M-EXPR — three-valued semantics of the operators

Values are `NULL`, integers and text (booleans are the integers 0/1, as on SQLite and
MySQL).  Comparison follows SQLite's storage-class order (every integer sorts before every
text, text compares by code points = BINARY collation for ASCII).  Truth values are
`Option Bool` (`none` = UNKNOWN).  The integer fragment of this evaluator is compared with
the real SQLite library by `harness/props/c01.py` (`corr/c01:eval`).
-/
namespace SaVerif.Expr

inductive Val
  | null
  | int (i : Int)
  | str (s : String)
  deriving DecidableEq, Repr, Inhabited

abbrev TV := Option Bool

def not3 : TV → TV
  | none => none
  | some b => some (!b)

def and3 : TV → TV → TV
  | some false, _ => some false
  | _, some false => some false
  | some true, some true => some true
  | _, _ => none

def or3 : TV → TV → TV
  | some true, _ => some true
  | _, some true => some true
  | some false, some false => some false
  | _, _ => none

/-- total order on non-NULL values (SQLite storage classes: INTEGER < TEXT) -/
def cmpVal : Val → Val → Option Ordering
  | .null, _ => none
  | _, .null => none
  | .int a, .int b => some (compare a b)
  | .int _, .str _ => some .lt
  | .str _, .int _ => some .gt
  | .str a, .str b => some (compare a b)

def tvOf (o : Option Ordering) (f : Ordering → Bool) : TV := o.map f

/-- null-safe equality (`IS`, `IS NOT DISTINCT FROM`) -/
def isSame (a b : Val) : Bool :=
  match a, b with
  | .null, .null => true
  | .null, _ => false
  | _, .null => false
  | a, b => cmpVal a b == some .eq

/-- the binary comparison operators with an independent definition each -/
def evalCmp (op : Op) (a b : Val) : TV :=
  match op with
  | .eq => tvOf (cmpVal a b) (· == .eq)
  | .ne => tvOf (cmpVal a b) (· != .eq)
  | .lt => tvOf (cmpVal a b) (· == .lt)
  | .le => tvOf (cmpVal a b) (· != .gt)
  | .gt => tvOf (cmpVal a b) (· == .gt)
  | .ge => tvOf (cmpVal a b) (· != .lt)
  | .is_ => some (isSame a b)
  | .is_not => some (!isSame a b)
  | .is_not_distinct_from => some (isSame a b)
  | .is_distinct_from => some (!isSame a b)
  | _ => none

/-- truth value of a value used as a condition (`WHERE v`) -/
def truth : Val → TV
  | .null => none
  | .int i => some (i != 0)
  | .str _ => some false

def ofTV : TV → Val
  | none => .null
  | some true => .int 1
  | some false => .int 0

/-- arithmetic / concatenation; an operand of the wrong class gives NULL, NULL propagates -/
def evalArith (op : Op) (a b : Val) : Val :=
  match op, a, b with
  | .add, .int x, .int y => .int (x + y)
  | .sub, .int x, .int y => .int (x - y)
  | .mul, .int x, .int y => .int (x * y)
  | .floordiv, .int x, .int y => if y = 0 then .null else .int (Int.tdiv x y)
  | .mod, .int x, .int y => if y = 0 then .null else .int (Int.tmod x y)
  | .concat_op, .str x, .str y => .str (x ++ y)
  | .and_, x, y => ofTV (and3 (truth x) (truth y))
  | .or_, x, y => ofTV (or3 (truth x) (truth y))
  | _, _, _ => .null

end SaVerif.Expr
