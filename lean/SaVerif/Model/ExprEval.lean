import SaVerif.Model.ExprOp
import SaVerif.Model.Pratt
/-!
# M-EXPR — three-valued semantics of the operators

Values are `NULL`, integers and text (booleans are the integers 0/1, as on SQLite and
MySQL).  Comparison follows SQLite's storage-class order (every integer sorts before every
text, text compares by code points = BINARY collation for ASCII).  Truth values are
`Option Bool` (`none` = UNKNOWN).  The integer fragment of this evaluator is compared with
the real SQLite library by `harness/props/c01.py` (`corr/c01:eval`).
-/
namespace SaVerif.Expr

inductive Val
  | null
  | int (i : Int)
  | str (s : String)
  deriving DecidableEq, Repr, Inhabited

abbrev TV := Option Bool

def not3 : TV → TV
  | none => none
  | some b => some (!b)

def and3 : TV → TV → TV
  | some false, _ => some false
  | _, some false => some false
  | some true, some true => some true
  | _, _ => none

def or3 : TV → TV → TV
  | some true, _ => some true
  | _, some true => some true
  | some false, some false => some false
  | _, _ => none

/-- n-ary AND / OR (TRUE resp. FALSE for no clause) -/
def andAll : List TV → TV
  | [] => some true
  | t :: ts => and3 t (andAll ts)

def orAll : List TV → TV
  | [] => some false
  | t :: ts => or3 t (orAll ts)

/-- total order on non-NULL values (SQLite storage classes: INTEGER < TEXT) -/
def cmpVal : Val → Val → Option Ordering
  | .null, _ => none
  | _, .null => none
  | .int a, .int b => some (compare a b)
  | .int _, .str _ => some .lt
  | .str _, .int _ => some .gt
  | .str a, .str b => some (compare a b)

def tvOf (o : Option Ordering) (f : Ordering → Bool) : TV := o.map f

/-- null-safe equality (`IS`, `IS NOT DISTINCT FROM`) -/
def isSame (a b : Val) : Bool :=
  match a, b with
  | .null, .null => true
  | .null, _ => false
  | _, .null => false
  | a, b => cmpVal a b == some .eq

/-- the binary comparison operators with an independent definition each -/
def evalCmp (op : Op) (a b : Val) : TV :=
  match op with
  | .eq => tvOf (cmpVal a b) (· == .eq)
  | .ne => tvOf (cmpVal a b) (· != .eq)
  | .lt => tvOf (cmpVal a b) (· == .lt)
  | .le => tvOf (cmpVal a b) (· != .gt)
  | .gt => tvOf (cmpVal a b) (· == .gt)
  | .ge => tvOf (cmpVal a b) (· != .lt)
  | .is_ => some (isSame a b)
  | .is_not => some (!isSame a b)
  | .is_not_distinct_from => some (isSame a b)
  | .is_distinct_from => some (!isSame a b)
  | _ => none

/-- truth value of a value used as a condition (`WHERE v`) -/
def truth : Val → TV
  | .null => none
  | .int i => some (i != 0)
  | .str _ => some false

def ofTV : TV → Val
  | none => .null
  | some true => .int 1
  | some false => .int 0

/-- arithmetic / concatenation; an operand of the wrong class gives NULL, NULL propagates -/
def evalArith (op : Op) (a b : Val) : Val :=
  match op, a, b with
  | .add, .int x, .int y => .int (x + y)
  | .sub, .int x, .int y => .int (x - y)
  | .mul, .int x, .int y => .int (x * y)
  | .floordiv, .int x, .int y => if y = 0 then .null else .int (Int.tdiv x y)
  | .mod, .int x, .int y => if y = 0 then .null else .int (Int.tmod x y)
  | .concat_op, .str x, .str y => .str (x ++ y)
  | .and_, x, y => ofTV (and3 (truth x) (truth y))
  | .or_, x, y => ofTV (or3 (truth x) (truth y))
  | _, _, _ => .null

/-- three-valued `x BETWEEN lo AND hi`: `x >= lo AND x <= hi` -/
def evalBetween (x lo hi : Val) : TV := and3 (evalCmp .ge x lo) (evalCmp .le x hi)

/-- three-valued `x IN (v₁, …, vₙ)`: the OR of the equalities (FALSE for the empty list) -/
def evalIn (x : Val) : List Val → TV
  | [] => some false
  | v :: vs => or3 (evalCmp .eq x v) (evalIn x vs)

def evalNotIn (x : Val) (vs : List Val) : TV := not3 (evalIn x vs)

/-! ## a standard interpretation of token trees (scalar fragment)

Values of token trees are scalars or comma lists of scalars (the right side of `IN`). -/

/-- what the model leaves abstract about a backend: the value of a function call and of a
    CAST to a named type (the theorems hold for every choice) -/
class Abs where
  fn : String → List Val → Val
  castF : String → Val → Val
  /-- the backend's `/` (integer or real division depending on the operands; `Val` has no
      non-integer numbers, so it stays abstract) -/
  div : Val → Val → Val
  /-- the backend's `x LIKE y [ESCAPE c]` / `x ILIKE y [ESCAPE c]` (three-valued) -/
  like : Val → Val → Option String → TV
  ilike : Val → Val → Option String → TV

/-- `COALESCE(v₁, …)`: the first value that is not NULL -/
def coalesceVal (args : List Val) : Val := (args.find? (fun v => v != Val.null)).getD .null

/-- MySQL's `concat(v₁, …, vₙ)` -/
def concatAllVal : List Val → Val
  | [] => .null
  | v :: vs => vs.foldl (evalArith .concat_op) v

/-- `coalesce` and `concat` are interpreted, every other function is abstract -/
def fnVal [Abs] (name : String) (args : List Val) : Val :=
  if name = "coalesce" then coalesceVal args
  else if name = "concat" then concatAllVal args
  else Abs.fn name args

/-- searched CASE over the flattened operand list `[c₁, r₁, c₂, r₂, …, (else)]` -/
def caseSearchedVal : List Val → Val
  | [] => .null
  | [e] => e
  | c :: r :: rest => if truth c = some true then r else caseSearchedVal rest

/-- simple CASE: `v` compared with each `cᵢ` -/
def caseSimpleVal (v : Val) : List Val → Val
  | [] => .null
  | [e] => e
  | c :: r :: rest => if evalCmp .eq v c = some true then r else caseSimpleVal v rest

inductive SV
  | s (v : Val)
  | l (vs : List Val)
  deriving DecidableEq, Repr, Inhabited

open SaVerif.Pratt in
def atomVal (env : String → Val) (a : Atom) : SV :=
  match a.kind with
  | .col n => .s (env n)
  | .int i => .s (.int i)
  | .str x => .s (.str x)
  | .num _ => .s .null
  | .null => .s .null
  | .true_ => .s (.int 1)
  | .false_ => .s (.int 0)
  | .emptySet => .l []
  | .other => .s (.str a.text)

def SV.scalar : SV → Val
  | .s v => v
  | .l _ => .null

def SV.items : SV → List Val
  | .s v => [v]
  | .l vs => vs

open SaVerif.Pratt in
/-- comparison / boolean / IN symbols over `SV`; every other symbol yields NULL (the
    theorems that use `stdI` only speak about these symbols) -/
def stdInf [Abs] (s : Sym) (a b : SV) : SV :=
  match s with
  | .comma => .l (a.items ++ b.items)
  | .when_ => .l (a.items ++ b.items)
  | .then_ => .l (a.items ++ b.items)
  | .else_ => .l (a.items ++ b.items)
  | .as_ => (match b.scalar with | .str n => .s (Abs.castF n a.scalar) | _ => .s .null)
  | .eq => .s (ofTV (evalCmp .eq a.scalar b.scalar))
  | .ne => .s (ofTV (evalCmp .ne a.scalar b.scalar))
  | .lt => .s (ofTV (evalCmp .lt a.scalar b.scalar))
  | .le => .s (ofTV (evalCmp .le a.scalar b.scalar))
  | .gt => .s (ofTV (evalCmp .gt a.scalar b.scalar))
  | .ge => .s (ofTV (evalCmp .ge a.scalar b.scalar))
  | .is_ => .s (ofTV (evalCmp .is_ a.scalar b.scalar))
  | .isNot => .s (ofTV (evalCmp .is_not a.scalar b.scalar))
  | .and_ => .s (ofTV (and3 (truth a.scalar) (truth b.scalar)))
  | .or_ => .s (ofTV (or3 (truth a.scalar) (truth b.scalar)))
  | .in_ => .s (ofTV (evalIn a.scalar b.items))
  | .notIn => .s (ofTV (evalNotIn a.scalar b.items))
  | .plus => .s (evalArith .add a.scalar b.scalar)
  | .minus => .s (evalArith .sub a.scalar b.scalar)
  | .star => .s (evalArith .mul a.scalar b.scalar)
  | .percent => .s (evalArith .mod a.scalar b.scalar)
  | .slash => .s (Abs.div a.scalar b.scalar)
  | .concat => .s (evalArith .concat_op a.scalar b.scalar)
  | .like => .s (ofTV (Abs.like a.scalar b.scalar none))
  | .notLike => .s (ofTV (not3 (Abs.like a.scalar b.scalar none)))
  | .ilike => .s (ofTV (Abs.ilike a.scalar b.scalar none))
  | .notIlike => .s (ofTV (not3 (Abs.ilike a.scalar b.scalar none)))
  | _ => .s .null

open SaVerif.Pratt in
def stdI [Abs] (env : String → Val) : Interp SV where
  atom := atomVal env
  pre := fun s v =>
    match s with
    | .not_ => .s (ofTV (not3 (truth v.scalar)))
    | .neg => match v.scalar with | .int i => .s (.int (-i)) | _ => .s .null
    | _ => .s .null
  inf := stdInf
  tern := fun s m a b c =>
    -- `a LIKE b ESCAPE c`
    match m, c.scalar with
    | .escape, .str ch =>
      (match s with
       | .like => .s (ofTV (Abs.like a.scalar b.scalar (some ch)))
       | .notLike => .s (ofTV (not3 (Abs.like a.scalar b.scalar (some ch))))
       | .ilike => .s (ofTV (Abs.ilike a.scalar b.scalar (some ch)))
       | .notIlike => .s (ofTV (not3 (Abs.ilike a.scalar b.scalar (some ch))))
       | _ => .s .null)
    | .and_, hi =>
      -- `a BETWEEN b AND c`
      (match s with
       | .between => .s (ofTV (evalBetween a.scalar b.scalar hi))
       | .notBetween => .s (ofTV (not3 (evalBetween a.scalar b.scalar hi)))
       | _ => .s .null)
    | _, _ => .s .null
  br := fun k v =>
    match k with
    | .paren => v
    | .cast => v
    | .fn name => .s (fnVal name v.items)
    | .caseSearched => .s (caseSearchedVal v.items)
    | .caseSimple =>
      (match v.items with
       | x :: rest => .s (caseSimpleVal x rest)
       | [] => .s .null)

end SaVerif.Expr
