import SaVerif.Gen.ExprTables
import SaVerif.Model.Pratt
/-!
# M-EXPR — SQLAlchemy side: element construction and rendering

Hand transcription of the construction-time and compile-time code the property C01/C07
speaks about.  Python ↔ model:

| Python (lib/sqlalchemy/sql)                                    | model                         |
|----------------------------------------------------------------|-------------------------------|
| `operators.is_precedent`                                       | `isPrecedent`                 |
| `operators.is_boolean`                                         | `isBoolean`                   |
| `ColumnElement.self_group`                                     | `columnSelfGroup`             |
| `OperatorExpression.self_group`, `ClauseList.self_group`,      | `selfGroup`                   |
| `BooleanClauseList.self_group`, `UnaryExpression.self_group`,  |                               |
| `AsBoolean.self_group`, `GroupedElement.self_group`            |                               |
| `BinaryExpression.__init__`                                    | `mkBinary`                    |
| `ExpressionClauseList._construct_for_list`                     | `constructForList`            |
| `OperatorExpression._construct_for_op`                         | `constructForOp`              |
| `Comparator._adapt_expression` (Integer/Numeric/String/…)      | `adaptExpression`             |
| `default_comparator._binary_operate`                           | `binaryOperate`               |
| `default_comparator._boolean_compare`                          | `booleanCompare`              |
| `default_comparator._between_impl`                             | `betweenImpl`                 |
| `default_comparator._neg_impl`, `UnaryExpression.__init__`     | `negImpl`                     |
| `ColumnElement._negate`, `BinaryExpression._negate`,           | `columnNegate`, `negate`      |
| `ExpressionClauseList._negate`, `UnaryExpression._negate`,     |                               |
| `AsBoolean._negate`, `True_/False_._negate`                    |                               |
| `BooleanClauseList._process_clauses_for_boolean`               | `pcbLoop`, `processClauses`   |
| `BooleanClauseList._construct` (`and_`, `or_`)                 | `boolConstruct`               |
| `Case.__init__`, `Cast.__init__`, `ReturnTypeFromArgs`         | `mkCase`, `.cast`, `mkFunc`   |
| `SQLCompiler.visit_binary/unary/grouping/…` + dialect overrides| `render`                      |

A tree of API calls is a `U`; `build : U → Option SaExpr` applies the constructors in the
order Python evaluates the calls (`none` = the API raises `ArgumentError`).
`render d lb e : Pratt.G` is the token tree the compiler emits (its `text` is compared with
the real compiler's output string on every run).
-/
namespace SaVerif.Expr
open SaVerif.Expr.Gen
open SaVerif.Pratt (G Sym Atom AtomKind Bracket)

inductive Lit
  | int (i : Int)
  | str (s : String)
  | num (s : String)
  | bool (b : Bool)
  | null
  deriving DecidableEq, Repr, Inhabited

/-- constructed expression elements (`ClauseElement` subclasses in scope) -/
inductive SaExpr
  | col (name : String) (ty : Ty)                    -- ColumnClause
  | bind (v : Lit) (ty : Ty)                         -- BindParameter (literal())
  | null | true_ | false_                            -- Null / True_ / False_ singletons
  | binary (op : Op) (l r : SaExpr) (negate : Option Op) (esc : Option String) (ty : Ty)
  | clist (op : Op) (cs : List SaExpr) (group : Bool) (boolList : Bool) (ty : Ty)
  | unary (op : Op) (e : SaExpr) (ty : Ty)           -- UnaryExpression(operator=op)
  | asbool (e : SaExpr) (op negOp : Op)                -- AsBoolean
  | grouping (e : SaExpr)                            -- Grouping
  | case_ (value : SaExpr) (whens : List SaExpr) (else_ : SaExpr) (ty : Ty)
  | cast (e : SaExpr) (ty : Ty)
  | func (name : String) (args : List SaExpr) (ty : Ty)
  | subq (name : String) (ty : Ty)                   -- select(col).scalar_subquery()
  | inlist (vals : List Lit) (ty : Ty) (expandOp : Op) -- expanding BindParameter of IN
  | inrows (rows : List (List Lit)) (arity : Nat) (expandOp : Op) -- same, TupleType
  | tuple_ (es : List SaExpr)                        -- Tuple
  | litcol (text : String) (ty : Ty)                 -- literal_column(text, type_)
  | ilikeOperand (e : SaExpr)                        -- compiler.ilike_case_insensitive(e)
  | absent                                           -- Python `None` (missing value=/else_=)
  deriving Repr, Inhabited

namespace SaExpr

/-- `.type` (affinity) -/
def tyOf : SaExpr → Ty
  | col _ ty => ty
  | bind _ ty => ty
  | null => .null
  | true_ => .bool
  | false_ => .bool
  | binary _ _ _ _ _ ty => ty
  | clist _ _ _ _ ty => ty
  | unary _ _ ty => ty
  | asbool _ _ _ => .bool
  | grouping e => tyOf e
  | case_ _ _ _ ty => ty
  | cast _ ty => ty
  | func _ _ ty => ty
  | subq _ ty => ty
  | inlist _ ty _ => ty
  | inrows _ _ _ => .null
  | tuple_ _ => .null
  | litcol _ ty => ty
  | ilikeOperand e => tyOf e
  | absent => .null

/-- `getattr(x, "operator", None)` (Grouping proxies attribute access to its element) -/
def operatorOf : SaExpr → Option Op
  | binary op _ _ _ _ _ => some op
  | clist op _ _ _ _ => some op
  | unary op _ _ => some op
  | asbool _ op _ => some op
  | grouping e => operatorOf e
  | _ => none

/-- `x._flattened_operator_clauses` -/
def flattened : SaExpr → List SaExpr
  | binary _ l r _ _ _ => [l, r]
  | clist _ cs _ _ _ => cs
  | grouping e => flattened e
  | e => [e]

/-- `x._is_implicitly_boolean` -/
def implBool : SaExpr → Bool
  | binary op _ _ _ _ _ => comparison op || booleans op
  | clist _ _ _ b _ => b
  | asbool e _ _ => implBool e
  | grouping e => implBool e
  | _ => false

end SaExpr
open SaExpr

/-- `operators.is_boolean` -/
def isBoolean (op : Op) : Bool := comparison op || booleans op

/-- `operators.is_precedent(operator, against)` -/
def isPrecedent (operator : Op) (against : Option Op) : Bool :=
  match against with
  | none => true
  | some a =>
    if operator = a ∧ naturalSelfPrecedent operator = true then false
    else decide ((precedence operator).getD opSmallest ≤ (precedence a).getD opLargest)

/-- `ColumnElement.self_group` -/
def columnSelfGroup (against : Option Op) (e : SaExpr) : SaExpr :=
  if (against = some .and_ ∨ against = some .or_ ∨ against = some .asbool_) ∧ tyOf e = .bool then
    .asbool e .is_true .is_false
  else e

/-- does `x.self_group(against=…)` wrap `x` in a `Grouping`?
    (`OperatorExpression.self_group`, `BooleanClauseList.self_group`,
    `UnaryExpression.self_group`; every other class never does) -/
def wouldGroup (against : Option Op) (e : SaExpr) : Bool :=
  match e with
  | .binary op _ _ _ _ _ =>
    isPrecedent op against || (against = some .inv && !isBoolean op)
  | .clist op cs group boolList _ =>
    !(boolList && cs.isEmpty) &&
      ((group && isPrecedent op against) || (against = some .inv && !isBoolean op))
  | .unary op _ _ => isPrecedent op against
  | _ => false

/-- `x.self_group(against=…)` dispatched on the element class -/
def selfGroup (against : Option Op) (e : SaExpr) : SaExpr :=
  if wouldGroup against e then .grouping e
  else
    match e with
    | .binary _ _ _ _ _ _ => e
    | .clist _ _ _ _ _ => e
    | .unary _ _ _ => e
    | .asbool _ _ _ => e
    | .grouping _ => e
    | .subq _ _ => e
    | .inlist _ _ _ => e
    | .inrows _ _ _ => e
    | .tuple_ _ => e
    | .ilikeOperand _ => e
    | .absent => e
    | _ => columnSelfGroup against e

/-- `BinaryExpression(left, right, operator, type_, negate, modifiers)` -/
def mkBinary (l r : SaExpr) (op : Op) (ty : Ty) (negate : Option Op) (esc : Option String) : SaExpr :=
  .binary op (selfGroup (some op) l) (selfGroup (some op) r) negate esc ty

/-- `ExpressionClauseList._construct_for_list(op, type_, *clauses, group=True)` -/
def constructForList (op : Op) (ty : Ty) (cs : List SaExpr) : SaExpr :=
  .clist op (cs.map (selfGroup (some op))) true false ty

/-- `OperatorExpression._construct_for_op` -/
def constructForOp (l r : SaExpr) (op : Op) (ty : Ty) (negate : Option Op)
    (esc : Option String) : SaExpr :=
  if associative op then
    let lflat := operatorOf l = some op ∧ ty = tyOf l
    let rflat := operatorOf r = some op ∧ ty = tyOf r
    if lflat ∨ rflat then
      constructForList op ty
        ((if lflat then flattened l else [l]) ++ (if rflat then flattened r else [r]))
    else mkBinary l r op ty negate esc
  else mkBinary l r op ty negate esc

/-- `Integer._expression_adaptations` looked up as in
    `HasExpressionLookup.Comparator._adapt_expression` -/
def intAdapt (op : Op) (other : Ty) : Ty :=
  match op, other with
  | .add, .num => .num
  | .mul, .num => .num
  | .sub, .num => .num
  | .truediv, .int => .num
  | .truediv, .num => .num
  | .floordiv, .num => .num
  | _, _ => .int

/-- `left.comparator._adapt_expression(op, right.comparator)` for the non-null types -/
def adaptTyped (op : Op) (lt rt : Ty) : Op × Ty :=
  match lt with
  | .int => (op, intAdapt op rt)
  | .num => (op, .num)
  | .str => if op = .add ∧ (rt = .str ∨ rt = .null) then (.concat_op, .str) else (op, .str)
  | .bool => (op, .bool)
  | .null => (op, .null)

/-- same, including `NullType.Comparator._adapt_expression` (delegates to the other side
    for commutative operators) -/
def adaptExpression (op : Op) (lt rt : Ty) : Op × Ty :=
  match lt with
  | .null => if rt = .null ∨ commutative op = false then (op, .null) else adaptTyped op rt .null
  | _ => adaptTyped op lt rt

/-- `default_comparator._binary_operate(expr, op, obj)` -/
def binaryOperate (expr : SaExpr) (op : Op) (obj : SaExpr) : SaExpr :=
  let (op', ty) := adaptExpression op (tyOf expr) (tyOf obj)
  constructForOp expr obj op' ty none none

/-- `default_comparator._boolean_compare(expr, op, obj, negate_op=…, **modifiers)`;
    `none` = `ArgumentError` -/
def booleanCompare (expr : SaExpr) (op : Op) (obj : SaExpr) (negateOp : Option Op)
    (esc : Option String) : Option SaExpr :=
  let isBoolConst := match obj with | .true_ => true | .false_ => true | _ => false
  let isConst := match obj with | .null => true | .true_ => true | .false_ => true | _ => false
  if isConst then
    if (op = .eq ∨ op = .ne) ∧ isBoolConst = true then
      some (constructForOp expr obj op .bool negateOp esc)
    else if op = .is_distinct_from ∨ op = .is_not_distinct_from then
      some (constructForOp expr obj op .bool negateOp esc)
    else if op = .eq ∨ op = .is_ then
      some (constructForOp expr obj .is_ .bool (some .is_not) none)
    else if op = .ne ∨ op = .is_not then
      some (constructForOp expr obj .is_not .bool (some .is_) none)
    else none
  else some (constructForOp expr obj op .bool negateOp esc)

/-- `default_comparator._between_impl` -/
def betweenImpl (expr lo hi : SaExpr) : SaExpr :=
  mkBinary expr (.clist .and_ [lo, hi] false false .null) .between_op .null
    (some .not_between_op) none

/-- `default_comparator._neg_impl` -/
def negImpl (expr : SaExpr) : SaExpr :=
  .unary .neg (selfGroup (some .neg) expr) (tyOf expr)

/-- `ColumnElement._negate` -/
def columnNegate (e : SaExpr) : SaExpr :=
  if tyOf e = .bool then .asbool e .is_false .is_true
  else .unary .inv (selfGroup (some .inv) (selfGroup (some .inv) e)) .null

/-- `BindParameter._negate_in_binary` (expanding IN parameter) / default -/
def negateInBinary (r : SaExpr) (negatedOp originalOp : Op) : SaExpr :=
  match r with
  | .inlist vs ty eo => if eo = originalOp then .inlist vs ty negatedOp else r
  | .inrows rows n eo => if eo = originalOp then .inrows rows n negatedOp else r
  | _ => r

/-- `expr._negate()` dispatched on the element class (`~expr`, `not_(expr)`) -/
def negate (e : SaExpr) : SaExpr :=
  match e with
  | .true_ => .false_
  | .false_ => .true_
  | .binary op l r (some n) esc ty => mkBinary l (negateInBinary r n op) n ty (some op) esc
  | .binary _ _ _ none _ _ => columnNegate (selfGroup none e)
  | .clist _ _ _ _ _ => .unary .inv (selfGroup (some .inv) (selfGroup (some .inv) e)) .null
  | .unary _ _ ty =>
    .unary .inv (selfGroup (some .inv) (selfGroup (some .inv) e)) (if ty = .bool then .bool else .null)
  | .asbool el op nop =>
    match el with
    | .true_ => .false_
    | .false_ => .true_
    | _ => .asbool el nop op
  | _ => columnNegate e

/-- loop of `BooleanClauseList._process_clauses_for_boolean`; state
    `(has_continue_on, convert_clauses, against, lcc)` -/
def pcbLoop (operator : Op) (isContinue isSkip : SaExpr → Bool) :
    List SaExpr → Option SaExpr → List SaExpr → Op → Nat →
    Option SaExpr × List SaExpr × Op × Nat
  | [], hc, conv, ag, lcc => (hc, conv, ag, lcc)
  | c :: cs, hc, conv, ag, lcc =>
    if isContinue c then pcbLoop operator isContinue isSkip cs (some c) conv ag lcc
    else if isSkip c then (hc, [c], ag, 1)
    else if lcc = 0 then pcbLoop operator isContinue isSkip cs hc (conv ++ [c]) ag 1
    else pcbLoop operator isContinue isSkip cs hc (conv ++ [c]) operator 2

def isTrueConst : SaExpr → Bool
  | .true_ => true
  | _ => false

def isFalseConst : SaExpr → Bool
  | .false_ => true
  | _ => false

/-- `BooleanClauseList._process_clauses_for_boolean(operator, continue_on, skip_on, clauses)` -/
def processClauses (operator : Op) (clauses : List SaExpr) : Nat × List SaExpr :=
  let isC := if operator = .and_ then isTrueConst else isFalseConst
  let isS := if operator = .and_ then isFalseConst else isTrueConst
  let (hc, conv, ag, lcc) := pcbLoop operator isC isS clauses none [] .asbool_ 0
  let (conv, lcc) :=
    match conv, hc with
    | [], some c => ([c], 1)
    | _, _ => (conv, lcc)
  (lcc, conv.map (selfGroup (some ag)))

/-- `BooleanClauseList._construct(operator, continue_on, skip_on, *clauses)` for a non-empty
    argument list (`and_(*clauses)` / `or_(*clauses)`) -/
def boolConstruct (operator : Op) (clauses : List SaExpr) : SaExpr :=
  let (lcc, conv) := processClauses operator clauses
  if lcc > 1 then
    .clist operator
      (conv.flatMap (fun c => if operatorOf c = some operator then flattened c else [c]))
      true true .bool
  else conv.headD .absent

/-- every condition of `whens` (even positions) gets `.self_group()` -/
def groupConds : List SaExpr → List SaExpr
  | c :: r :: rest => selfGroup none c :: r :: groupConds rest
  | l => l

/-- results of `whens` (odd positions) -/
def caseResults : List SaExpr → List SaExpr
  | _ :: r :: rest => r :: caseResults rest
  | _ => []

/-- `Case.__init__` -/
def mkCase (value : SaExpr) (whens : List SaExpr) (else_ : SaExpr) : SaExpr :=
  let ty :=
    match (caseResults whens).reverse.find? (fun r => tyOf r ≠ .null) with
    | some r => tyOf r
    | none => tyOf else_
  .case_ value (groupConds whens) else_ ty

/-- `func.<name>(*args)` for a `ReturnTypeFromArgs` function -/
def mkFunc (name : String) (args : List SaExpr) : SaExpr :=
  let ty :=
    match args.find? (fun a => tyOf a ≠ .null) with
    | some a => tyOf a
    | none => .null
  .func name (args.map (selfGroup (some .comma_op))) ty

/-! ## the API-call tree -/

inductive BinK
  | add | sub | mul | truediv | floordiv | mod | concat
  | eq | ne | lt | le | gt | ge
  | is_ | isnot | isdistinct | isnotdistinct
  deriving DecidableEq, Repr, Inhabited

inductive LikeK
  | like | notlike | ilike | notilike
  deriving DecidableEq, Repr, Inhabited

inductive StrK
  | contains | startswith | endswith | icontains | istartswith | iendswith
  deriving DecidableEq, Repr, Inhabited

def StrK.op : StrK → Op
  | .contains => .contains_op | .startswith => .startswith_op | .endswith => .endswith_op
  | .icontains => .icontains_op | .istartswith => .istartswith_op | .iendswith => .iendswith_op

inductive U
  | col (name : String) (ty : Ty)
  | li (i : Int)
  | ls (s : String)
  | pi (i : Int)        -- a plain Python int used directly as an operand (`col + 5`, `5 - col`)
  | ps (s : String)     -- a plain Python str used directly as an operand
  | ln (s : String)
  | lb (b : Bool)
  | null | true_ | false_
  | bin (k : BinK) (a b : U)
  | like (k : LikeK) (esc : Option String) (a b : U)
  | strop (k : StrK) (esc : Option String) (a b : U)
  | neg (a : U)
  | not_ (a : U)
  | between (x lo hi : U)
  | and_ (cs : List U)
  | or_ (cs : List U)
  | case_ (value : U) (whens : List U) (else_ : U)
  | cast (ty : Ty) (a : U)
  | coalesce (cs : List U)
  | subq (name : String) (ty : Ty)
  | inOp (negated : Bool) (vals : List Lit) (x : U)
  | tupleIn (negated : Bool) (rows : List (List Lit)) (xs : List U)
  | absent
  deriving Repr, Inhabited

def BinK.op : BinK → Op
  | .add => .add | .sub => .sub | .mul => .mul | .truediv => .truediv
  | .floordiv => .floordiv | .mod => .mod | .concat => .concat_op
  | .eq => .eq | .ne => .ne | .lt => .lt | .le => .le | .gt => .gt | .ge => .ge
  | .is_ => .is_ | .isnot => .is_not | .isdistinct => .is_distinct_from
  | .isnotdistinct => .is_not_distinct_from

def BinK.isArith : BinK → Bool
  | .add | .sub | .mul | .truediv | .floordiv | .mod | .concat => true
  | _ => false

def LikeK.op : LikeK → Op
  | .like => .like_op | .notlike => .not_like_op | .ilike => .ilike_op
  | .notilike => .not_ilike_op

/-- type of the expanding parameter of `x.in_([...])`: the left side's type unless it is
    NullType (then the type of the first value) -/
def inListTy (x : SaExpr) (vals : List Lit) : Ty :=
  if tyOf x ≠ .null then tyOf x
  else
    match vals.find? (fun v => v ≠ .null) with
    | some (.int _) => .int
    | some (.str _) => .str
    | some (.num _) => .num
    | some (.bool _) => .bool
    | _ => .null

/-- Python's rich-comparison dispatch: `x == y` (and `!=`, `<`, …) calls the *reflected*
    method of `y` first when `type(y)` is a proper subclass of `type(x)`.  In scope:
    `AsBoolean` ⊂ `UnaryExpression` and `BooleanClauseList` ⊂ `ExpressionClauseList`. -/
def pyReflected (x y : SaExpr) : Bool :=
  match x, y with
  | .unary _ _ _, .asbool _ _ _ => true
  | .clist _ _ _ false _, .clist _ _ _ true _ => true
  | _, _ => false

/-- the reflected comparison (`__lt__` ↔ `__gt__`, `__le__` ↔ `__ge__`, `__eq__`, `__ne__`) -/
def BinK.reflected : BinK → Option BinK
  | .eq => some .eq | .ne => some .ne
  | .lt => some .gt | .gt => some .lt | .le => some .ge | .ge => some .le
  | _ => none

def isPyLit : U → Bool
  | .pi _ => true
  | .ps _ => true
  | _ => false

mutual
/-- apply the API calls of `u` in Python's evaluation order -/
def build : U → Option SaExpr
  | .col n ty => some (.col n ty)
  | .li i => some (.bind (.int i) .int)
  | .ls s => some (.bind (.str s) .str)
  -- `expr._bind_param(op, value)`: a BindParameter typed by `coerce_compared_value`, which for
  -- int / str values has the affinity of the value
  | .pi i => some (.bind (.int i) .int)
  | .ps s => some (.bind (.str s) .str)
  | .ln s => some (.bind (.num s) .num)
  | .lb b => some (.bind (.bool b) .bool)
  | .null => some .null
  | .true_ => some .true_
  | .false_ => some .false_
  | .bin k a b =>
    match build a, build b with
    | some x, some y =>
      if k.isArith then some (binaryOperate x k.op y)
      else
        match k.reflected with
        | some k' =>
          -- a plain Python value on the left has no `__lt__` for elements: Python calls the
          -- reflected method of the right operand (`5 < col` is `col > 5`)
          if pyReflected x y || isPyLit a then booleanCompare y k'.op x (negateOp k'.op) none
          else booleanCompare x k.op y (negateOp k.op) none
        | none => booleanCompare x k.op y (negateOp k.op) none
    | _, _ => none
  | .like k esc a b =>
    match build a, build b with
    | some x, some y => booleanCompare x k.op y (negateOp k.op) esc
    | _, _ => none
  | .strop k esc a b =>
    match build a, build b with
    | some x, some y => booleanCompare x k.op y (negateOp k.op) esc
    | _, _ => none
  | .neg a => (build a).map negImpl
  | .not_ a => (build a).map negate
  | .between x lo hi =>
    match build x, build lo, build hi with
    | some x', some lo', some hi' => some (betweenImpl x' lo' hi')
    | _, _, _ => none
  | .and_ cs =>
    match buildList cs with
    | some (c :: cs') => some (boolConstruct .and_ (c :: cs'))
    | _ => none
  | .or_ cs =>
    match buildList cs with
    | some (c :: cs') => some (boolConstruct .or_ (c :: cs'))
    | _ => none
  | .case_ v whens e =>
    match build v, buildList whens, build e with
    | some v', some ws, some e' => some (mkCase v' ws e')
    | _, _, _ => none
  | .cast ty a => (build a).map (fun x => .cast x ty)
  | .coalesce cs => (buildList cs).map (mkFunc "coalesce")
  | .subq n ty => some (.subq n ty)
  | .inOp negated vals x =>
    match build x with
    | some x' =>
      let op := if negated then Op.not_in_op else Op.in_op
      booleanCompare x' op (.inlist vals (inListTy x' vals) op) (negateOp op) none
    | none => none
  | .tupleIn negated rows xs =>
    match buildList xs with
    | some es =>
      let op := if negated then Op.not_in_op else Op.in_op
      booleanCompare (.tuple_ (es.map (selfGroup (some .comma_op)))) op
        (.inrows rows es.length op) (negateOp op) none
    | none => none
  | .absent => some .absent

def buildList : List U → Option (List SaExpr)
  | [] => some []
  | u :: us =>
    match build u, buildList us with
    | some x, some xs => some (x :: xs)
    | _, _ => none
end

/-! ## rendering (`SQLCompiler` + dialect overrides) -/

def quoteStr (d : Dialect) (s : String) : String :=
  let s1 := s.replace "'" "''"
  let s2 := if doublePercents d then s1.replace "%" "%%" else s1
  "'" ++ s2 ++ "'"

def trueText (d : Dialect) : String :=
  match d with
  | .sqlite => "1"
  | .mysql => "true"
  | .mariadb => "true"
  | _ => if supportsNativeBoolean d then "true" else "1"

def falseText (d : Dialect) : String :=
  match d with
  | .sqlite => "0"
  | .mysql => "false"
  | .mariadb => "false"
  | _ => if supportsNativeBoolean d then "false" else "0"

/-- placeholder of a bound parameter when `literal_binds` is not in effect -/
def placeholder (d : Dialect) : String :=
  match d with
  | .mysql => "%s"
  | .mariadb => "%s"
  | _ => "?"

/-- `render_literal_value` / `bindparam_string` -/
def renderLit (d : Dialect) (lb : Bool) (v : Lit) : Atom :=
  if lb then
    match v with
    | .int i => ⟨toString i, .int i⟩
    | .str s => ⟨quoteStr d s, .str s⟩
    | .num s => ⟨s, .num s⟩
    | .bool true => ⟨trueText d, .true_⟩
    | .bool false => ⟨falseText d, .false_⟩
    | .null => ⟨"NULL", .null⟩
  else
    match v with
    | .int i => ⟨placeholder d, .int i⟩
    | .str s => ⟨placeholder d, .str s⟩
    | .num s => ⟨placeholder d, .num s⟩
    | .bool true => ⟨placeholder d, .true_⟩
    | .bool false => ⟨placeholder d, .false_⟩
    | .null => ⟨placeholder d, .null⟩

def opaqueG (s : String) : G := G.atom ⟨s, .other⟩

/-- backend symbol of a generically rendered operator -/
def symOf : Op → Sym
  | .add => .plus | .sub => .minus | .mul => .star | .truediv => .slash
  | .floordiv => .slash | .mod => .percent | .neg => .neg | .concat_op => .concat
  | .eq => .eq | .ne => .ne | .lt => .lt | .le => .le | .gt => .gt | .ge => .ge
  | .is_ => .is_ | .is_not => .isNot | .is_distinct_from => .isDistinct
  | .is_not_distinct_from => .isNotDistinct
  | .like_op => .like | .not_like_op => .notLike | .ilike_op => .ilike
  | .not_ilike_op => .notIlike | .between_op => .between | .not_between_op => .notBetween
  | .in_op => .in_ | .not_in_op => .notIn | .and_ => .and_ | .or_ => .or_ | .inv => .not_
  | .is_true => .eq | .is_false => .eq | .comma_op => .comma | .asbool_ => .eq
  | .contains_op => .like | .startswith_op => .like | .endswith_op => .like
  | .icontains_op => .like | .istartswith_op => .like | .iendswith_op => .like
  | .not_contains_op => .notLike | .not_startswith_op => .notLike | .not_endswith_op => .notLike
  | .not_icontains_op => .notLike | .not_istartswith_op => .notLike | .not_iendswith_op => .notLike

def opText (op : Op) : String := (opString op).getD ("<no OPERATORS entry for " ++ op.name ++ ">")

/-- `sep.join(parts)` as a left-nested chain of infix nodes -/
def chainFrom (s : Sym) (t : String) : G → List G → G
  | acc, [] => acc
  | acc, g :: gs => chainFrom s t (G.inf s t acc g) gs

def chain (s : Sym) (t : String) : List G → G
  | [] => opaqueG ""
  | g :: gs => chainFrom s t g gs

/-- `WHEN c THEN r WHEN c THEN r …` appended to `acc` -/
def whenChain : G → List G → G
  | acc, c :: r :: rest =>
    whenChain (G.inf .then_ " THEN " (G.inf .when_ " WHEN " acc c) r) rest
  | acc, _ => acc

def lowerG (g : G) : G := G.br (.fn "lower") g

/-- one element of the rendered list of an expanding IN parameter -/
def litListG (d : Dialect) (lb : Bool) (vs : List Lit) : G :=
  chain .comma ", " (vs.map (fun v => G.atom (renderLit d lb v)))

def intAtom (i : Int) : G := G.atom ⟨toString i, .int i⟩
def nullAtom : G := G.atom ⟨"NULL", .null⟩

def commaList (gs : List G) : G := chain .comma ", " gs

def replicateG (n : Nat) (g : G) : List G := (List.range n).map (fun _ => g)

/-- what replaces an expanding IN parameter under `literal_binds`
    (`_literal_execute_expanding_parameter_literal_binds`, `visit_empty_set_op_expr`,
    `visit_empty_set_expr`), *including* the operator text the empty-set trick appends:
    `core rhs` is `left IN (rhs)`; the result is the whole `left IN (…) [AND (1 != 1)]` -/
def inG (d : Dialect) (lb : Bool) (core : G → G) : SaExpr → Option G
  | .inlist vs _ eo =>
    if vs.isEmpty then
      if d = .sqlite then
        some (core (G.br .paren (G.atom ⟨"SELECT 1 FROM (SELECT 1) WHERE 1!=1", .emptySet⟩)))
      else if eo = .not_in_op then
        some (G.inf .or_ " OR " (core (G.br .paren nullAtom))
          (G.br .paren (G.inf .eq " = " (intAtom 1) (intAtom 1))))
      else if eo = .in_op then
        some (G.inf .and_ " AND " (core (G.br .paren nullAtom))
          (G.br .paren (G.inf .ne " != " (intAtom 1) (intAtom 1))))
      else none
    else some (core (G.br .paren (litListG d lb vs)))
  | .inrows rows n eo =>
    if rows.isEmpty then
      if d = .sqlite then
        let ones := ", ".intercalate ((List.range n).map (fun _ => "1"))
        -- tuple_in_values: the literal path prepends VALUES even to the empty-set SELECT
        some (core (G.br .paren (G.atom
          ⟨"VALUES SELECT " ++ ones ++ " FROM (SELECT " ++ ones ++ ") WHERE 1!=1", .emptySet⟩)))
      else
        let nulls := G.br .paren (commaList (replicateG n nullAtom))
        if eo = .not_in_op then
          some (G.inf .or_ " OR " (core (G.br .paren nulls))
            (G.br .paren (G.inf .eq " = " (intAtom 1) (intAtom 1))))
        else if eo = .in_op then
          some (G.inf .and_ " AND " (core (G.br .paren nulls))
            (G.br .paren (G.inf .ne " != " (intAtom 1) (intAtom 1))))
        else none
    else
      let rowGs := rows.map (fun r => G.br .paren (litListG d lb r))
      if d = .sqlite then
        some (core (G.br .paren (G.pre .values "VALUES " (commaList rowGs))))
      else some (core (G.br .paren (commaList rowGs)))
  | _ => none

/-! ### compile-time rewriting of the LIKE-based string operators

`visit_contains_op_binary` & co. clone the binary, replace its right side by
`'%' || right || '%'` (built with the *expression API*, so associative flattening applies and a
`Grouping` around a concatenation is dissolved through `Grouping.__getattr__`), wrap the
operands of the case-insensitive variants in `ilike_case_insensitive(…)`, and hand the clone to
the LIKE visitor.  `lower` performs that rewriting bottom-up; `emit d e = render d true (lower e)`
is what the compiler outputs. -/

def percentLit : SaExpr := .litcol "'%'" .str

/-- `a.concat(b)` as the visitors call it -/
def concatApi (a b : SaExpr) : SaExpr := binaryOperate a .concat_op b

def strOpKind (op : Op) : Option (Bool × Bool × Bool × Bool) :=
  -- (leading %, trailing %, case-insensitive, negated)
  match op with
  | .contains_op => some (true, true, false, false)
  | .not_contains_op => some (true, true, false, true)
  | .startswith_op => some (false, true, false, false)
  | .not_startswith_op => some (false, true, false, true)
  | .endswith_op => some (true, false, false, false)
  | .not_endswith_op => some (true, false, false, true)
  | .icontains_op => some (true, true, true, false)
  | .not_icontains_op => some (true, true, true, true)
  | .istartswith_op => some (false, true, true, false)
  | .not_istartswith_op => some (false, true, true, true)
  | .iendswith_op => some (true, false, true, false)
  | .not_iendswith_op => some (true, false, true, true)
  | _ => none

mutual
def lower : SaExpr → SaExpr
  | .binary op l r n esc ty =>
    let l' := lower l
    let r' := lower r
    match strOpKind op with
    | none => .binary op l' r' n esc ty
    | some (lead, trail, ci, negated) =>
      let lo := if ci then SaExpr.ilikeOperand l' else l'
      let ro := if ci then SaExpr.ilikeOperand r' else r'
      -- contains: percent.concat(right).concat(percent); startswith: percent._rconcat(right);
      -- endswith: percent.concat(right)
      let r1 := if lead then concatApi percentLit ro else ro
      let r2 := if trail then concatApi r1 percentLit else r1
      if ci then .binary op lo r2 n esc ty
      else .binary (if negated then .not_like_op else .like_op) lo r2 n esc ty
  | .clist op cs g b ty => .clist op (lowerList cs) g b ty
  | .unary op e ty => .unary op (lower e) ty
  | .asbool e op nop => .asbool (lower e) op nop
  | .grouping e => .grouping (lower e)
  | .case_ v ws e ty => .case_ (lower v) (lowerList ws) (lower e) ty
  | .cast e ty => .cast (lower e) ty
  | .func n args ty => .func n (lowerList args) ty
  | .tuple_ es => .tuple_ (lowerList es)
  | .ilikeOperand e => .ilikeOperand (lower e)
  | e => e
def lowerList : List SaExpr → List SaExpr
  | [] => []
  | e :: es => lower e :: lowerList es
end

def isAbsent : SaExpr → Bool
  | .absent => true
  | _ => false

/-- a missing `value=` / `else_=` (Python `None`) -/
def optG (e : SaExpr) (g : G) : Option G :=
  match e with
  | .absent => none
  | _ => some g

/-- `visit_case`: `CASE [value] WHEN c THEN r … [ELSE e] END` from the rendered parts -/
def caseBody (v : Option G) (ws : List G) : Option (Bracket × G) :=
  match v, ws with
  | none, c :: r :: rest => some (.caseSearched, whenChain (G.inf .then_ " THEN " c r) rest)
  | none, _ => none
  | some vg, _ => some (.caseSimple, whenChain vg ws)

def caseEnd (k : Bracket) (b : G) (e : Option G) : G :=
  match e with
  | none => G.br k b
  | some eg => G.br k (G.inf .else_ " ELSE " b eg)

def caseG (v : Option G) (ws : List G) (e : Option G) : G :=
  match caseBody v ws with
  | none => opaqueG "CASE END"
  | some (k, b) => caseEnd k b e

/-- `visit_cast`: `CAST(x AS T)`; MySQL skips the CAST for types it cannot cast to and renders
    `process(cast.clause.self_group())` -/
def castG (name : Option String) (grouped : Bool) (x : G) : G :=
  match name with
  | some n => G.br .cast (G.inf .as_ " AS " x (opaqueG n))
  | none => if grouped then G.br .paren x else x

/-- `visit_like_op_binary` & co.: `l LIKE r [ESCAPE 'c']` -/
def likeG (d : Dialect) (s : Sym) (t : String) (l r : G) (esc : Option String) : G :=
  match esc with
  | none => G.inf s t l r
  | some c => G.tern s t .escape " ESCAPE " l r (G.atom ⟨quoteStr d c, .str c⟩)

/-- `_generate_generic_binary(binary, " BETWEEN ")`: the right side is the ungrouped
    two-element `and_` list, which prints as `lo AND hi` -/
def betweenG (s : Sym) (t : String) (l r : G) : G :=
  match r with
  | G.inf .and_ mt lo hi => G.tern s t .and_ mt l lo hi
  | _ => G.inf s t l r

/-- `visit_truediv_binary`: SQLite `l / (r + 0.0)`, dialects whose `/` is integer division
    `l / CAST(r AS NUMERIC)`, otherwise `l / r` -/
def truedivG (d : Dialect) (L R : G) : G :=
  if d = .sqlite then
    G.inf .slash " / " L (G.br .paren (G.inf .plus " + " R (G.atom ⟨"0.0", .num "0.0"⟩)))
  else if divIsFloordiv d then
    G.inf .slash " / " L
      (G.br .cast (G.inf .as_ " AS " R (opaqueG ((castName d .num).getD "NUMERIC"))))
  else G.inf .slash " / " L R

/-- `visit_floordiv_binary`: `l / r` when `/` is integer division and both sides are Integer,
    else `FLOOR(l / r)` -/
def floordivG (d : Dialect) (lt rt : Ty) (L R : G) : G :=
  if divIsFloordiv d ∧ rt = .int ∧ lt = .int then G.inf .slash " / " L R
  else G.br (.fn "FLOOR") (G.inf .slash " / " L R)

mutual
/-- `element._compiler_dispatch(compiler, literal_binds=lb)` -/
def render (d : Dialect) (lb : Bool) : SaExpr → G
  | .col n _ => G.atom ⟨n, .col n⟩
  | .bind v _ => G.atom (renderLit d lb v)
  | .null => G.atom ⟨"NULL", .null⟩
  | .true_ => G.atom ⟨trueText d, .true_⟩
  | .false_ => G.atom ⟨falseText d, .false_⟩
  | .binary op l r _ esc _ =>
    match op with
    | .truediv => truedivG d (render d lb l) (render d lb r)
    | .floordiv => floordivG d (tyOf l) (tyOf r) (render d lb l) (render d lb r)
    | .mod =>
      G.inf .percent (if doublePercents d then " %% " else " % ") (render d lb l) (render d lb r)
    | .concat_op =>
      if d = .mysql ∨ d = .mariadb then
        G.br (.fn "concat") (G.inf .comma ", " (render d lb l) (render d lb r))
      else G.inf .concat (opText .concat_op) (render d lb l) (render d lb r)
    | .is_distinct_from =>
      if d = .sqlite then G.inf .isNot " IS NOT " (render d false l) (render d false r)
      else if d = .mysql ∨ d = .mariadb then
        G.pre .not_ "NOT " (G.br .paren (G.inf .nseq " <=> " (render d false l) (render d false r)))
      else G.inf .isDistinct (opText op) (render d lb l) (render d lb r)
    | .is_not_distinct_from =>
      if d = .sqlite then G.inf .is_ " IS " (render d false l) (render d false r)
      else if d = .mysql ∨ d = .mariadb then
        G.inf .nseq " <=> " (render d false l) (render d false r)
      else G.inf .isNotDistinct (opText op) (render d lb l) (render d lb r)
    | .like_op => likeG d .like " LIKE " (render d lb l) (render d lb r) esc
    | .not_like_op => likeG d .notLike " NOT LIKE " (render d lb l) (render d lb r) esc
    | .ilike_op =>
      if d = .postgresql then likeG d .ilike " ILIKE " (render d lb l) (render d lb r) esc
      else likeG d .like " LIKE " (lowerG (render d lb l)) (lowerG (render d lb r)) esc
    | .not_ilike_op =>
      if d = .postgresql then likeG d .notIlike " NOT ILIKE " (render d lb l) (render d lb r) esc
      else likeG d .notLike " NOT LIKE " (lowerG (render d lb l)) (lowerG (render d lb r)) esc
    | .icontains_op | .istartswith_op | .iendswith_op =>
      -- operands already wrapped by `lower`; "else we assume ilower() has been applied"
      if d = .postgresql then likeG d .ilike " ILIKE " (render d lb l) (render d lb r) esc
      else likeG d .like " LIKE " (render d lb l) (render d lb r) esc
    | .not_icontains_op | .not_istartswith_op | .not_iendswith_op =>
      if d = .postgresql then likeG d .notIlike " NOT ILIKE " (render d lb l) (render d lb r) esc
      else likeG d .notLike " NOT LIKE " (render d lb l) (render d lb r) esc
    | .between_op => betweenG .between " BETWEEN " (render d lb l) (render d lb r)
    | .not_between_op => betweenG .notBetween " NOT BETWEEN " (render d lb l) (render d lb r)
    | .in_op =>
      match inG d lb (fun rhs => G.inf .in_ (opText .in_op) (render d lb l) rhs) r with
      | some g => g
      | none => G.inf .in_ (opText .in_op) (render d lb l) (render d lb r)
    | .not_in_op =>
      match inG d lb (fun rhs => G.inf .notIn (opText .not_in_op) (render d lb l) rhs) r with
      | some g => G.br .paren g
      | none => G.br .paren (G.inf .notIn (opText .not_in_op) (render d lb l) (render d lb r))
    | _ => G.inf (symOf op) (opText op) (render d lb l) (render d lb r)
  | .clist op cs _ _ _ =>
    if op = .concat_op ∧ (d = .mysql ∨ d = .mariadb) then
      G.br (.fn "concat") (chain .comma ", " (renderList d lb cs))
    else chain (symOf op) (opText op) (renderList d lb cs)
  | .unary op e _ => G.pre (symOf op) (opText op) (render d lb e)
  | .asbool e op _ =>
    if implBool e || supportsNativeBoolean d then
      (if op = .is_true then render d lb e else G.pre .not_ "NOT " (render d lb e))
    else
      G.inf .eq " = " (render d lb e)
        (if op = .is_true then G.atom ⟨"1", .int 1⟩ else G.atom ⟨"0", .int 0⟩)
  | .grouping e => G.br .paren (render d lb e)
  | .case_ v whens e _ =>
    caseG (optG v (render d lb v)) (renderList d lb whens) (optG e (render d lb e))
  | .cast e ty => castG (castName d ty) (wouldGroup none e) (render d lb e)
  | .func name args _ => G.br (.fn name) (chain .comma ", " (renderList d lb args))
  | .subq n _ => G.atom ⟨"(SELECT " ++ n ++ ")", .col n⟩
  | .inlist vs _ _ => G.br .paren (litListG d lb vs)
  | .inrows rows _ _ => G.br .paren (commaList (rows.map (fun r => G.br .paren (litListG d lb r))))
  | .tuple_ es => G.br .paren (chain .comma ", " (renderList d lb es))
  | .litcol t _ =>
    -- `escape_literal_column`: % doubled for the pyformat / format paramstyles
    G.atom ⟨if doublePercents d then t.replace "%" "%%" else t, .str "%"⟩
  | .ilikeOperand e => if d = .postgresql then render d lb e else lowerG (render d lb e)
  | .absent => opaqueG ""

def renderList (d : Dialect) (lb : Bool) : List SaExpr → List G
  | [] => []
  | e :: es => render d lb e :: renderList d lb es
end

/-- what the compiler emits for an element -/
def emit (d : Dialect) (e : SaExpr) : G := render d true (lower e)

end SaVerif.Expr
