/-
M-EXPR (row limiting): list semantics of the forms in which SQLAlchemy renders
LIMIT / OFFSET / FETCH, transcribed from
  lib/sqlalchemy/sql/compiler.py          limit_clause, fetch_clause
  lib/sqlalchemy/dialects/sqlite/base.py  limit_clause          (LIMIT -1 OFFSET o)
  lib/sqlalchemy/dialects/mysql/base.py   limit_clause          (LIMIT o, l / o, 2^64-1)
  lib/sqlalchemy/dialects/postgresql/base.py limit_clause       (LIMIT ALL OFFSET o)
  lib/sqlalchemy/dialects/mssql/base.py   get_select_precolumns (TOP), _row_limit_clause
                                          (OFFSET/FETCH), translate_select_structure
                                          (ROW_NUMBER() wrapper)
  lib/sqlalchemy/dialects/oracle/base.py  _row_limit_clause, translate_select_structure
                                          (ROWNUM wrappers)
Import-free, total, executable.  A query result is the list `rows` of the fully ordered,
unlimited query; each form is a function of that list and of the numbers that are rendered.

SQL                                                    model
-----------------------------------------------------  -----------------------------------
LIMIT l OFFSET o   (l < 0 / ALL = no limit)            limitOffset
LIMIT o, l                                             mysqlLimit
OFFSET o ROWS FETCH FIRST l ROWS ONLY                  offsetFetch
SELECT TOP l                                           top
SELECT .. FROM (SELECT .., ROW_NUMBER() OVER (ORDER BY ..) AS mssql_rn FROM ..) AS a
  WHERE mssql_rn > o AND mssql_rn <= l + o             rowNumberWrapper (the derived table
                                                       has no ORDER BY: its rows come in an
                                                       arbitrary order `inner`)
SELECT .. FROM (SELECT .., ROWNUM AS ora_rn FROM (ordered) WHERE ROWNUM <= l + o)
  WHERE ora_rn > o                                     rownumWrapper
FETCH FIRST l ROWS WITH TIES / TOP l WITH TIES         withTies
FETCH FIRST p PERCENT ROWS ONLY / TOP p PERCENT        percentCount
-/
namespace SaVerif.Limit

/-- the slice the property asks for: rows `off .. off+lim` of the ordered result -/
def slice (off : Nat) (lim : Option Nat) (rows : List α) : List α :=
  match lim with
  | none => rows.drop off
  | some l => (rows.drop off).take l

/-- `LIMIT l`: a negative number (SQLite's `-1`) / `ALL` means no limit -/
def sqlLimit (l : Option Int) (rows : List α) : List α :=
  match l with
  | none => rows
  | some n => if n < 0 then rows else rows.take n.toNat

/-- `LIMIT l OFFSET o`: skip, then cut -/
def limitOffset (l : Option Int) (o : Nat) (rows : List α) : List α :=
  sqlLimit l (rows.drop o)

/-- MySQL `LIMIT o, l` -/
def mysqlLimit (o l : Nat) (rows : List α) : List α := (rows.drop o).take l

/-- `OFFSET o ROWS [FETCH FIRST l ROWS ONLY]` -/
def offsetFetch (o : Nat) (l : Option Nat) (rows : List α) : List α :=
  match l with
  | none => rows.drop o
  | some n => (rows.drop o).take n

/-- `SELECT TOP l` -/
def top (l : Nat) (rows : List α) : List α := rows.take l

/-- the criterion `translate_select_structure` (MSSQL) puts on `mssql_rn`:
    offset given: `rn > o` and, with a limit, `rn <= l + o`; no offset: `rn <= l` -/
def rnPred (o : Option Nat) (l : Option Nat) (rn : Nat) : Bool :=
  match o, l with
  | some off, some lim => decide (off < rn) && decide (rn ≤ lim + off)
  | some off, none => decide (off < rn)
  | none, some lim => decide (rn ≤ lim)
  | none, none => true

/-- ROW_NUMBER() OVER (ORDER BY <the query's order>): row `i` of the ordered result gets
    number `i + 1`.  `numbered` pairs each row with its number. -/
def numbered (rows : List α) : List (α × Nat) := rows.zipIdx.map (fun x => (x.1, x.2 + 1))

/-- the MSSQL wrapper: `inner` is the derived table as the server happens to deliver it
    (some arrangement of the numbered rows — it carries no ORDER BY); the outer query
    filters on the number and projects it away, also without ORDER BY -/
def rowNumberWrapper (o l : Option Nat) (inner : List (α × Nat)) : List α :=
  (inner.filter (fun x => rnPred o l x.2)).map (·.1)

/-- the Oracle wrappers.  `ROWNUM <= k` in the WHERE of a query block keeps its first `k`
    rows; `ROWNUM AS ora_rn` numbers the rows of the block from 1. -/
def rownumWrapper (o l : Option Nat) (rows : List α) : List α :=
  match o with
  | none =>
    match l with
    | none => rows
    | some lim => rows.take lim                          -- WHERE ROWNUM <= lim
  | some off =>
    let stage1 := match l with
      | none => rows
      | some lim => rows.take (lim + off)                -- WHERE ROWNUM <= lim + off
    ((numbered stage1).filter (fun x => decide (off < x.2))).map (·.1)   -- WHERE ora_rn > off

/-- `FETCH FIRST l ROWS WITH TIES` after `OFFSET o`: the slice plus every following row
    whose sort key equals that of the slice's last row -/
def withTies [BEq κ] (key : α → κ) (o l : Nat) (rows : List α) : List α :=
  let s := (rows.drop o).take l
  match s.getLast? with
  | none => s
  | some last => s ++ ((rows.drop o).drop l).takeWhile (fun r => key r == key last)

/-- `FETCH FIRST p PERCENT`: ceil(n * p / 100) rows -/
def percentCount (n p : Nat) : Nat := (n * p + 99) / 100

/-! ## which form a dialect renders (table regenerated from the source) -/

inductive Form where
  | none | limitOffset | mysqlLimit | offsetFetch | top | rowNumber | rownum | error
deriving Repr, DecidableEq

/-- one probe: dialect configuration name, statement shape, rendered form -/
structure FormRow where
  dialect : String
  hasLimit : Bool      -- .limit() or .fetch() given
  hasOffset : Bool
  isFetch : Bool       -- .fetch() rather than .limit()
  simple : Bool        -- plain integers (not SQL expressions)
  form : Form
deriving Repr, DecidableEq

/-- is the form able to express the requested combination? -/
def formApplicable (r : FormRow) : Bool :=
  match r.form with
  | .none => !r.hasLimit && !r.hasOffset
  | .top => r.hasLimit && !r.hasOffset
  | .error => true
  | _ => r.hasLimit || r.hasOffset

end SaVerif.Limit
