import SaVerif.Model.Loader
/-
M-ORM (queries): the two readings of an ORM query over a parent/child mapping.

* the ORM reading navigates the object graph: `A.bs.any(crit)` = "some member of a.bs
  satisfies crit", `select(A).join(A.bs)` = one result per (a, member of a.bs),
  `B.a.has(crit)` = "b.a exists and satisfies crit";
* the Core reading is the SQL that lib/sqlalchemy/orm/relationships.py (Comparator.any /
  has / contains, `_criterion_exists`) and orm/context.py (join along a relationship)
  render: correlated EXISTS subqueries and JOIN .. ON child.fk = parent.id over the tables.

Core Lean only, total, executable.
-/
namespace SaVerif.OrmQuery
open SaVerif.Loader

/-- the collection `a.bs` as the mapping defines it -/
def collection (cs : List Child) (p : Parent) : List Child := cs.filter (belongs p)

/-! `A.bs.any(crit)` -/
def anyOrm (crit : Child → Bool) (ps : List Parent) (cs : List Child) : List Parent :=
  ps.filter (fun p => (collection cs p).any crit)

/-- `WHERE EXISTS (SELECT 1 FROM b WHERE a.id = b.a_id AND crit)` -/
def anyCore (crit : Child → Bool) (ps : List Parent) (cs : List Child) : List Parent :=
  ps.filter (fun p => !(cs.filter (fun c => belongs p c && crit c)).isEmpty)

/-! `select(A, B).join(A.bs)` -/
def joinOrm (ps : List Parent) (cs : List Child) : List (Parent × Child) :=
  ps.flatMap (fun p => (collection cs p).map (fun c => (p, c)))

/-- `FROM a JOIN b ON a.id = b.a_id`: cross product filtered by the ON clause -/
def joinCore (ps : List Parent) (cs : List Child) : List (Parent × Child) :=
  (ps.flatMap (fun p => cs.map (fun c => (p, c)))).filter (fun pc => belongs pc.1 pc.2)

/-! `B.a.has(crit)` -/
def hasOrm (crit : Parent → Bool) (ps : List Parent) (cs : List Child) : List Child :=
  cs.filter (fun c => ((parentOf ps c).map crit).getD false)

/-- `WHERE EXISTS (SELECT 1 FROM a WHERE a.id = b.a_id AND crit)` -/
def hasCore (crit : Parent → Bool) (ps : List Parent) (cs : List Child) : List Child :=
  cs.filter (fun c => !(ps.filter (fun p => belongs p c && crit p)).isEmpty)

/-- `A.bs.contains(b)` : `a.id = :b_a_id` -/
def containsOrm (b : Child) (ps : List Parent) (cs : List Child) : List Parent :=
  ps.filter (fun p => (collection cs p).contains b)

def containsCore (b : Child) (ps : List Parent) : List Parent :=
  ps.filter (fun p => belongs p b)

/-- SELECT count(*) FROM (q) / EXISTS (q) -/
def countOf (rows : List α) : Nat := rows.length
def existsOf (rows : List α) : Bool := !rows.isEmpty

/-- UNION (set semantics, first occurrence order) / UNION ALL -/
def unionRows [BEq α] (l1 l2 : List α) : List α := (l1 ++ l2).eraseDups
def unionAllRows (l1 l2 : List α) : List α := l1 ++ l2

/-- GROUP BY parent with count of children through a LEFT OUTER JOIN -/
def groupCount (ps : List Parent) (cs : List Child) : List (Parent × Nat) :=
  ps.map (fun p => (p, (collection cs p).length))

end SaVerif.OrmQuery
