/-
M-BIND (part 3, C17): lambda statements.  Transcription of the caching discipline of

  lib/sqlalchemy/sql/lambdas.py
    AnalyzedCode.get / __init__      one analysis per code object, made from the FIRST
                                     closure it sees: each closure variable is classified
                                     "literal -> PyWrapper -> bound value" or
                                     "tracked for the cache key"
    LambdaElement._retrieve_tracker_rec
                                     closure_cache_key from the tracked variables,
                                     lambda_cache[(code,) + key] -> AnalyzedFunction;
                                     bound values re-extracted from the CURRENT closure
    AnalyzedFunction                 runs the user function once per cache key with
                                     PyWrappers in place of the literal variables

Python                                   model
---------------------------------------  ------------------------------------------
closure cell contents                    `CV` : literal value, SQL/structural object, None
coercions._deep_is_literal(value)        `lambdaBound` (None counts as a literal)
operator special-casing of None          `directBound` (None is structural: IS NULL)
the user function                        `G : List CV → Tmpl` on the structural part, with
                                         numbered slots for the bound part (parametricity
                                         in the literals is an assumption on the user fn)
lambda_cache                             association list keyed by the structural values

Import-free, total, executable.
-/
namespace SaVerif.Lambda

inductive CV
  | lit (v : Int)
  | obj (id : Nat)
  | none
  deriving DecidableEq, Repr

/-- how the lambda analysis classifies a closure value (true = becomes a bound value) -/
def lambdaBound : CV → Bool
  | .obj _ => false
  | _ => true

/-- how the directly built statement treats it (`col == None` is `IS NULL`) -/
def directBound : CV → Bool
  | .lit _ => true
  | _ => false

inductive Tok
  | txt (n : Nat)
  | slot (i : Nat)
  deriving DecidableEq, Repr

abbrev Tmpl := List Tok

inductive Out
  | txt (n : Nat)
  | val (v : CV)
  | missing
  deriving DecidableEq, Repr

def fill (tm : Tmpl) (bound : List CV) : List Out :=
  tm.map (fun
    | .txt n => Out.txt n
    | .slot i => match bound[i]? with | some v => Out.val v | none => Out.missing)

def structPart : List Bool → List CV → List CV
  | k :: ks, v :: vs => if k then structPart ks vs else v :: structPart ks vs
  | _, _ => []

def boundPart : List Bool → List CV → List CV
  | k :: ks, v :: vs => if k then v :: boundPart ks vs else boundPart ks vs
  | _, _ => []

/-- the statement built directly from the current closure values -/
def direct (G : List CV → Tmpl) (vals : List CV) : List Out :=
  let ks := vals.map directBound
  fill (G (structPart ks vals)) (boundPart ks vals)

structure State where
  analysis : Option (List Bool)            -- AnalyzedCode._fns[code]
  cache : List (List CV × Tmpl)            -- lambda_cache
  deriving Repr

def clookup (k : List CV) : List (List CV × Tmpl) → Option Tmpl
  | [] => none
  | (k', t) :: r => if k' = k then some t else clookup k r

/-- `AnalyzedCode.get`: the classification made for the first closure is reused -/
def analysisKinds (st : State) (vals : List CV) : List Bool :=
  match st.analysis with
  | some ks => ks
  | none => vals.map lambdaBound

/-- one construction of the LambdaElement: (cache hit?, resulting statement) -/
def invoke (G : List CV → Tmpl) (st : State) (vals : List CV) : (Bool × List Out) × State :=
  let ks := analysisKinds st vals
  let key := structPart ks vals
  match clookup key st.cache with
  | some tm => ((true, fill tm (boundPart ks vals)), { st with analysis := some ks })
  | none =>
    let tm := G key
    ((false, fill tm (boundPart ks vals)), { analysis := some ks, cache := (key, tm) :: st.cache })

def runHistory (G : List CV → Tmpl) : State → List (List CV) → List (Bool × List Out)
  | _, [] => []
  | st, v :: r =>
    let res := invoke G st v
    res.1 :: runHistory G res.2 r

/-! ## chains of linked lambdas (`stmt + fn`, `add_criteria`)

`LinkedLambdaElement.tracker_key = parent_lambda.tracker_key + (fn.__code__,)`: the
analyzed form of a link holds the statement built by ALL links above it, so the lambda
cache key must identify the whole path of code objects. -/

/-- key function applied to the path of code ids (root first) -/
def fullKey (path : List Nat) : List Nat := path

/-- the (wrong) alternative: only the parent's and the link's own code -/
def truncKey (path : List Nat) : List Nat := path.drop (path.length - 2)

abbrev ChainCache := List ((List Nat × List CV) × Tmpl)

def cclookup (k : List Nat × List CV) : ChainCache → Option Tmpl
  | [] => none
  | (k', t) :: r => if k' = k then some t else cclookup k r

/-- one construction of the last link of a chain: `path` = code ids, `sv` = accumulated
    structural closure values, `lits` = current literal closure values -/
def invokeChain (kf : List Nat → List Nat) (G : List Nat → List CV → Tmpl) (cache : ChainCache)
    (path : List Nat) (sv lits : List CV) : (Bool × List Out) × ChainCache :=
  match cclookup (kf path, sv) cache with
  | some tm => ((true, fill tm lits), cache)
  | none => ((false, fill (G path sv) lits), ((kf path, sv), G path sv) :: cache)

def directChain (G : List Nat → List CV → Tmpl) (path : List Nat) (sv lits : List CV) : List Out :=
  fill (G path sv) lits

def runChains (kf : List Nat → List Nat) (G : List Nat → List CV → Tmpl) :
    ChainCache → List (List Nat × List CV × List CV) → List (Bool × List Out)
  | _, [] => []
  | cache, (p, sv, lits) :: r =>
    let res := invokeChain kf G cache p sv lits
    res.1 :: runChains kf G res.2 r

end SaVerif.Lambda
