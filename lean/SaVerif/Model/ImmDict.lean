/-
M-COLL (3/4): transcription of `immutabledict` from
lib/sqlalchemy/util/_immutabledict_cy.py.  Import-free, total, executable.

A dict is an association list with unique keys in insertion order.

Python                                         model
---------------------------------------------  -------------------------------
d[k] = v  (existing key keeps its position)    kvSet
PyDict_Update(result, d) / dict.update         kvUpdate
`not d`  (None, empty mapping)                 DArg.falsy
isinstance(d, immutabledict)                   DArg.imm
_union_other(others)  (union / merge_with)     unionOther  (returns WHICH object)
only_one : immutabledict | None | False        OnlyOne
__or__ / __ror__                               orOp / rorOp
__setitem__/__delitem__/clear/pop/popitem/
  setdefault/update/__ior__/__setattr__        all raise TypeError (mutators)
copy()                                         returns self
-/
namespace SaVerif.Coll

abbrev KV := List (Nat × Nat)

def kvGet (d : KV) (k : Nat) : Option Nat := (d.find? (fun e => e.1 == k)).map (·.2)

def kvSet (d : KV) (k v : Nat) : KV :=
  if d.any (fun e => e.1 == k) then d.map (fun e => if e.1 == k then (k, v) else e)
  else d ++ [(k, v)]

def kvUpdate (d : KV) (o : KV) : KV := o.foldl (fun d e => kvSet d e.1 e.2) d

/-- an element of `*dicts` -/
inductive DArg where
  | none                 -- None
  | imm (items : KV)     -- an immutabledict
  | other (items : KV)   -- any other mapping (dict, OrderedDict, Mapping implementations)
deriving Repr, DecidableEq

def DArg.items : DArg → KV
  | .none => []
  | .imm d => d
  | .other d => d

/-- `not d` -/
def DArg.falsy (a : DArg) : Bool := a.items.isEmpty

inductive OnlyOne where
  | isFalse               -- nothing non-empty seen
  | isSelf                -- only_one is self
  | isArg (i : Nat)       -- only_one is others[i]
  | isNone                -- more than one / a plain dict with contents
deriving Repr, DecidableEq

/-- the first `for i in range(size)` loop (with its `break`) -/
def scanOnlyOne : OnlyOne → Nat → List DArg → OnlyOne
  | oo, _, [] => oo
  | oo, i, d :: ds =>
    if d.falsy then scanOnlyOne oo (i + 1) ds
    else
      match oo, d with
      | .isFalse, .imm _ => scanOnlyOne (.isArg i) (i + 1) ds
      | _, _ => .isNone

/-- which object `union` returns -/
inductive URes where
  | self
  | arg (i : Nat)
  | fresh (items : KV)
deriving Repr, DecidableEq

def unionOther (self : KV) (others : List DArg) : URes :=
  if others.isEmpty then .self else
  let start : OnlyOne := if self.isEmpty then .isFalse else .isSelf
  match scanOnlyOne start 0 others with
  | .isFalse => .self
  | .isSelf => .self
  | .isArg i => .arg i
  | .isNone =>
    let result : KV := if self.isEmpty then [] else kvUpdate [] self
    .fresh (others.foldl (fun res d => if d.falsy then res else kvUpdate res d.items) result)

/-- the dict value of the returned object -/
def URes.value (self : KV) (others : List DArg) : URes → KV
  | .self => self
  | .arg i => (others.getD i .none).items
  | .fresh d => d

/-- `self | other` : `immutabledict(dict.__or__(self, other))`; a non-dict operand makes
    `dict.__or__` return NotImplemented and the constructor raise TypeError -/
def orOp (self : KV) (other : Option KV) : Option KV :=
  other.map (fun o => kvUpdate (kvUpdate [] self) o)

/-- `other | self` with a plain dict on the left -/
def rorOp (self : KV) (other : Option KV) : Option KV :=
  other.map (fun o => kvUpdate (kvUpdate [] o) self)

end SaVerif.Coll
