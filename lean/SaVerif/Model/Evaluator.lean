import SaVerif.Model.Like
import SaVerif.Gen.EvalOps
/-
M-EXPR / evaluator: transcription of lib/sqlalchemy/orm/evaluator.py `_EvaluatorCompiler`
(`evalPy*`) next to SQL three-valued semantics as SQLite executes the rendered
criteria (`evalSql*`), and of the part of orm/bulk_persistence.py that applies them
(`_get_matched_objects_on_criteria`, `_apply_update_set_values_to_objects`).
Core-only, total, executable.  Expression trees are typed (integer / string / boolean
sorts): the evaluator's static type tests (`_straight_evaluate_numeric_only`,
`Concatenable`) are what the sorts encode; ill-sorted trees are the harness's
malformed stream.

Python (orm/evaluator.py)                          model
-------------------------------------------------  --------------------------------
process(): getattr(self, "visit_…", None) is None   `supported name` over Gen.EvalOps.visitNames
  -> UnevaluatableError                               (`evaluable*` = compile-time check)
visit_column.get_corresponding_attr                 `IExp.col` / `SExp.col`: loaded value,
  PASSIVE_NO_RESULT -> _EXPIRED_OBJECT                or `.expired` when the flag is set
visit_bindparam                                     `lit`
_straight_evaluate(operator, l, r)                  `straight` (left raises first, then right;
                                                      EXPIRED before None; then the operator)
operator.mod / operator.truediv                     Python floor-mod `pyMod`; ZeroDivisionError
                                                      = `.zerodiv`
visit_in_op_binary_op / not_in: `a in b`            `List.contains` on the bound list
visit_is_binary_op / is_not: `==` / `!=`            `inull`
visit_startswith_op / endswith_op: a.startswith(b)  `pyTest` of Model.Like on the *bind value*
                                                      (already escaped when autoescape)
visit_and_clauselist_op (loop, early return)        `andLoop`
visit_or_clauselist_op (loop, has_null)             `orLoop`
visit_unary (inv only)                              `BExp.not`
_get_matched_objects_on_criteria:                   `matchedPy`
   evaled_condition is True or is _EXPIRED_OBJECT
_apply_update_set_values_to_objects:                `applySeq` (reads the dict it writes)
   for key in to_evaluate: dict_[key] = ev(obj)

SQL as rendered for SQLite                          model
-------------------------------------------------  --------------------------------
x % y (C truncation; y = 0 -> NULL)                 `sqlMod`
x / (y + 0.0) (y = 0 -> NULL)                       `qcmp` (exact rational comparison)
AND / OR / NOT, comparisons with NULL               Kleene logic `and3`, `or3`, `not3`
x IN (…) / NOT IN, empty list, NULL members         `sqlIn`
LIKE … ESCAPE (case_sensitive_like = ON)            `likeSqlite false` of Model.Like
UPDATE … SET a = e1, b = e2 (simultaneous)          `applySim`

Not modelled: 64-bit overflow (SQLite switches to REAL), floats, collations other than
BINARY, type coercion between sorts, joins / `_NO_OBJECT`, tuples.
-/
namespace SaVerif.Eval
open SaVerif.Like SaVerif.Gen.EvalOps

inductive Cmp where | lt | le | gt | ge | eq | ne
deriving DecidableEq, Repr

/-- a table row: integer columns and string columns (`none` = NULL) -/
structure Row where
  ints : List (Option Int)
  strs : List (Option (List Char))
deriving DecidableEq, Repr

/-- the in-session object for that row: same values + which attributes are expired -/
structure Obj where
  row : Row
  xi : List Nat := []   -- expired integer attributes
  xs : List Nat := []   -- expired string attributes
deriving DecidableEq, Repr

inductive IExp where
  | col (i : Nat)
  | lit (v : Option Int)
  | add (a b : IExp)
  | sub (a b : IExp)
  | mul (a b : IExp)
  | mod (a b : IExp)
  | floordiv (a b : IExp)   -- no visit_floordiv_binary_op
  | neg (a : IExp)          -- visit_unary handles `inv` only
deriving Repr

inductive SExp where
  | col (i : Nat)
  | lit (v : Option (List Char))
  | concat (a b : SExp)
deriving Repr

inductive BExp where
  | icmp (op : Cmp) (a b : IExp)
  | scmp (op : Cmp) (a b : SExp)
  | qcmp (op : Cmp) (a b c : IExp)          -- (a / b) op c
  | inull (neg : Bool) (a : IExp)           -- a IS [NOT] NULL
  | snull (neg : Bool) (a : SExp)
  | iin (neg : Bool) (a : IExp) (l : List (Option Int))
  | like (k : Kind) (icase neg : Bool) (a : SExp) (other : List Char)
      (escape : Option Char) (auto : Bool)
  | between (a lo hi : IExp)                -- no visit_between_op_binary_op
  | and (l : List BExp)
  | or (l : List BExp)
  | not (a : BExp)
  | const (v : Option Bool)                 -- true() / false() / null()
deriving Repr

/-! ## values of the Python evaluator -/

inductive Py (α : Type) where
  | val (v : Option α)   -- a Python value; `none` = None
  | expired              -- _EXPIRED_OBJECT
  | zerodiv              -- ZeroDivisionError propagating out of the evaluator
deriving DecidableEq, Repr

def supported (name : String) : Bool := visitNames.contains name

/-- `_straight_evaluate`: both sides are evaluated (left first), EXPIRED is tested
    before None, then the operator runs -/
def straight {α β γ : Type} (op : α → β → Py γ) : Py α → Py β → Py γ
  | .zerodiv, _ => .zerodiv
  | _, .zerodiv => .zerodiv
  | .expired, _ => .expired
  | _, .expired => .expired
  | .val none, _ => .val none
  | _, .val none => .val none
  | .val (some a), .val (some b) => op a b

/-- Python `a % b` on ints: result has the sign of `b` -/
def pyMod (a b : Int) : Py Int := if b = 0 then .zerodiv else .val (some (Int.fmod a b))

def cmpInt : Cmp → Int → Int → Bool
  | .lt, a, b => a < b
  | .le, a, b => a ≤ b
  | .gt, a, b => a > b
  | .ge, a, b => a ≥ b
  | .eq, a, b => a == b
  | .ne, a, b => a != b

/-- lexicographic order on code points (Python `str`, SQLite BINARY collation) -/
def strLt : List Char → List Char → Bool
  | [], [] => false
  | [], _ :: _ => true
  | _ :: _, [] => false
  | a :: as, b :: bs => if a.toNat < b.toNat then true else if a.toNat > b.toNat then false else strLt as bs

def cmpStr : Cmp → List Char → List Char → Bool
  | .lt, a, b => strLt a b
  | .le, a, b => !strLt b a
  | .gt, a, b => strLt b a
  | .ge, a, b => !strLt a b
  | .eq, a, b => a == b
  | .ne, a, b => a != b

/-- `(a / b) op c` decided exactly (both sides agree with IEEE division on the small
    integers the harness uses) -/
def cmpQuot (op : Cmp) (a b c : Int) : Bool :=
  if b > 0 then cmpInt op a (c * b) else cmpInt op (c * b) a

def getI (o : Obj) (i : Nat) : Py Int :=
  if o.xi.contains i then .expired else .val ((o.row.ints.getD i none))

def getS (o : Obj) (i : Nat) : Py (List Char) :=
  if o.xs.contains i then .expired else .val ((o.row.strs.getD i none))

/-! ## compile time: `process()` raises UnevaluatableError for a missing visitor -/

def IExp.isAdd : IExp → Bool
  | .add _ _ => true
  | _ => false

def IExp.isMul : IExp → Bool
  | .mul _ _ => true
  | _ => false

def SExp.isConcat : SExp → Bool
  | .concat _ _ => true
  | _ => false

/-- `OperatorExpression._construct_for_op` flattens chains of an associative operator
    (add, mul, concat) into one ExpressionClauseList; the evaluator then looks for
    `visit_<op>_clauselist_op`, which exists for and / or only -/
def evaluableI : IExp → Bool
  | .col _ => supported "visit_column"
  | .lit _ => supported "visit_bindparam"
  | .add a b =>
      (if a.isAdd || b.isAdd then supported "visit_add_clauselist_op" else supported "visit_add_binary_op")
        && evaluableI a && evaluableI b
  | .sub a b => supported "visit_sub_binary_op" && evaluableI a && evaluableI b
  | .mul a b =>
      (if a.isMul || b.isMul then supported "visit_mul_clauselist_op" else supported "visit_mul_binary_op")
        && evaluableI a && evaluableI b
  | .mod a b => supported "visit_mod_binary_op" && evaluableI a && evaluableI b
  | .floordiv a b => supported "visit_floordiv_binary_op" && evaluableI a && evaluableI b
  | .neg _ => false

def evaluableS : SExp → Bool
  | .col _ => supported "visit_column"
  | .lit _ => supported "visit_bindparam"
  | .concat a b =>
      (if a.isConcat || b.isConcat then supported "visit_concat_op_clauselist_op"
       else supported "visit_concat_op_binary_op") && evaluableS a && evaluableS b

def cmpVisit : Cmp → String
  | .lt => "visit_lt_binary_op" | .le => "visit_le_binary_op" | .gt => "visit_gt_binary_op"
  | .ge => "visit_ge_binary_op" | .eq => "visit_eq_binary_op" | .ne => "visit_ne_binary_op"

def likeVisit (k : Kind) (icase neg : Bool) : String :=
  "visit_" ++ (if neg then "not_" else "") ++ (if icase then "i" else "") ++
    (match k with | .contains => "contains" | .startswith => "startswith" | .endswith => "endswith")
    ++ "_op_binary_op"

mutual
def evaluableB : BExp → Bool
  | .icmp op a b => supported (cmpVisit op) && evaluableI a && evaluableI b
  | .scmp op a b => supported (cmpVisit op) && evaluableS a && evaluableS b
  | .qcmp op a b c =>
      supported (cmpVisit op) && supported "visit_truediv_binary_op" &&
        evaluableI a && evaluableI b && evaluableI c
  | .inull neg a => supported (if neg then "visit_is_not_binary_op" else "visit_is_binary_op") && evaluableI a
  | .snull neg a => supported (if neg then "visit_is_not_binary_op" else "visit_is_binary_op") && evaluableS a
  | .iin neg a _ => supported (if neg then "visit_not_in_op_binary_op" else "visit_in_op_binary_op") && evaluableI a
  | .like k icase neg a _ _ _ => supported (likeVisit k icase neg) && evaluableS a
  | .between _ _ _ => supported "visit_between_op_binary_op"
  | .and l => supported "visit_and_clauselist_op" && evaluableL l
  | .or l => supported "visit_or_clauselist_op" && evaluableL l
  | .not a => supported "visit_unary" && evaluableB a
  | .const _ => true
def evaluableL : List BExp → Bool
  | [] => true
  | e :: es => evaluableB e && evaluableL es
end

/-! ## run time: the evaluator closures -/

def evalPyI (o : Obj) : IExp → Py Int
  | .col i => getI o i
  | .lit v => .val v
  | .add a b => straight (fun x y => .val (some (x + y))) (evalPyI o a) (evalPyI o b)
  | .sub a b => straight (fun x y => .val (some (x - y))) (evalPyI o a) (evalPyI o b)
  | .mul a b => straight (fun x y => .val (some (x * y))) (evalPyI o a) (evalPyI o b)
  | .mod a b => straight pyMod (evalPyI o a) (evalPyI o b)
  | .floordiv _ _ => .val none
  | .neg _ => .val none

def evalPyS (o : Obj) : SExp → Py (List Char)
  | .col i => getS o i
  | .lit v => .val v
  | .concat a b => straight (fun x y => .val (some (x ++ y))) (evalPyS o a) (evalPyS o b)

/-- `operator.truediv(a, b)` kept as the exact fraction -/
def pyQuot (a b : Int) : Py (Int × Int) := if b = 0 then .zerodiv else .val (some (a, b))

mutual
def evalPyB (o : Obj) : BExp → Py Bool
  | .icmp op a b => straight (fun x y => .val (some (cmpInt op x y))) (evalPyI o a) (evalPyI o b)
  | .scmp op a b => straight (fun x y => .val (some (cmpStr op x y))) (evalPyS o a) (evalPyS o b)
  | .qcmp op a b c =>
      straight (fun (q : Int × Int) z => .val (some (cmpQuot op q.1 q.2 z)))
        (straight pyQuot (evalPyI o a) (evalPyI o b)) (evalPyI o c)
  | .inull neg a =>
      match evalPyI o a with
      | .zerodiv => .zerodiv
      | .expired => .expired
      | .val v => .val (some (if neg then v.isSome else v.isNone))
  | .snull neg a =>
      match evalPyS o a with
      | .zerodiv => .zerodiv
      | .expired => .expired
      | .val v => .val (some (if neg then v.isSome else v.isNone))
  | .iin neg a l =>
      straight (fun x (ys : List (Option Int)) => .val (some (if neg then !ys.contains (some x) else ys.contains (some x))))
        (evalPyI o a) (.val (some l))
  | .like k _ _ a other escape auto =>
      straight (fun x (b : List Char) => .val (some (pyTest k b x)))
        (evalPyS o a) (.val (some (effective escape auto other).1))
  | .between _ _ _ => .val none
  | .and l => andLoop o l
  | .or l => orLoop o l false
  | .not a =>
      match evalPyB o a with
      | .zerodiv => .zerodiv
      | .expired => .expired
      | .val none => .val none
      | .val (some v) => .val (some (!v))
  | .const v => .val v
/-- visit_and_clauselist_op: first falsy value decides (None -> None, False -> False) -/
def andLoop (o : Obj) : List BExp → Py Bool
  | [] => .val (some true)
  | e :: es =>
    match evalPyB o e with
    | .zerodiv => .zerodiv
    | .expired => .expired
    | .val none => .val none
    | .val (some false) => .val (some false)
    | .val (some true) => andLoop o es
/-- visit_or_clauselist_op: first truthy value returns True; `has_null` remembered -/
def orLoop (o : Obj) : List BExp → Bool → Py Bool
  | [], hasNull => if hasNull then .val none else .val (some false)
  | e :: es, hasNull =>
    match evalPyB o e with
    | .zerodiv => .zerodiv
    | .expired => .expired
    | .val (some true) => .val (some true)
    | .val (some false) => orLoop o es hasNull
    | .val none => orLoop o es true
end

/-! ## SQL semantics -/

def and3 : Option Bool → Option Bool → Option Bool
  | some false, _ => some false
  | _, some false => some false
  | some true, some true => some true
  | _, _ => none

def or3 : Option Bool → Option Bool → Option Bool
  | some true, _ => some true
  | _, some true => some true
  | some false, some false => some false
  | _, _ => none

def not3 : Option Bool → Option Bool
  | none => none
  | some b => some (!b)

def lift2 {α β γ : Type} (f : α → β → Option γ) : Option α → Option β → Option γ
  | some a, some b => f a b
  | _, _ => none

/-- SQLite integer `%`: C truncation, NULL for a zero divisor -/
def sqlMod (a b : Int) : Option Int := if b = 0 then none else some (Int.tmod a b)

def evalSqlI (r : Row) : IExp → Option Int
  | .col i => r.ints.getD i none
  | .lit v => v
  | .add a b => lift2 (fun x y => some (x + y)) (evalSqlI r a) (evalSqlI r b)
  | .sub a b => lift2 (fun x y => some (x - y)) (evalSqlI r a) (evalSqlI r b)
  | .mul a b => lift2 (fun x y => some (x * y)) (evalSqlI r a) (evalSqlI r b)
  | .mod a b => lift2 sqlMod (evalSqlI r a) (evalSqlI r b)
  | .floordiv a b => lift2 (fun x y => if y = 0 then none else some (Int.tdiv x y)) (evalSqlI r a) (evalSqlI r b)
  | .neg a => (evalSqlI r a).map (fun x => -x)

def evalSqlS (r : Row) : SExp → Option (List Char)
  | .col i => r.strs.getD i none
  | .lit v => v
  | .concat a b => lift2 (fun x y => some (x ++ y)) (evalSqlS r a) (evalSqlS r b)

/-- `x IN (l)`: empty list is FALSE even for NULL x; NULL members make a miss NULL -/
def sqlIn (x : Option Int) (l : List (Option Int)) : Option Bool :=
  if l.isEmpty then some false else
  match x with
  | none => none
  | some v => if l.contains (some v) then some true else if l.contains none then none else some false

mutual
def evalSqlB (r : Row) : BExp → Option Bool
  | .icmp op a b => lift2 (fun x y => some (cmpInt op x y)) (evalSqlI r a) (evalSqlI r b)
  | .scmp op a b => lift2 (fun x y => some (cmpStr op x y)) (evalSqlS r a) (evalSqlS r b)
  | .qcmp op a b c =>
      lift2 (fun (q : Int × Int) z => some (cmpQuot op q.1 q.2 z))
        (lift2 (fun x y => if y = 0 then none else some (x, y)) (evalSqlI r a) (evalSqlI r b))
        (evalSqlI r c)
  | .inull neg a => some (if neg then (evalSqlI r a).isSome else (evalSqlI r a).isNone)
  | .snull neg a => some (if neg then (evalSqlS r a).isSome else (evalSqlS r a).isNone)
  | .iin neg a l => if neg then not3 (sqlIn (evalSqlI r a) l) else sqlIn (evalSqlI r a) l
  | .like k icase neg a other escape auto =>
      (evalSqlS r a).map (fun col => evalSqlite false ⟨k, icase, neg⟩ escape auto other col)
  | .between a lo hi =>
      and3 (lift2 (fun x y => some (cmpInt .ge x y)) (evalSqlI r a) (evalSqlI r lo))
           (lift2 (fun x y => some (cmpInt .le x y)) (evalSqlI r a) (evalSqlI r hi))
  | .and l => andSql r l
  | .or l => orSql r l
  | .not a => not3 (evalSqlB r a)
  | .const v => v
def andSql (r : Row) : List BExp → Option Bool
  | [] => some true
  | e :: es => and3 (evalSqlB r e) (andSql r es)
def orSql (r : Row) : List BExp → Option Bool
  | [] => some false
  | e :: es => or3 (evalSqlB r e) (orSql r es)
end

/-! ## what the bulk UPDATE / DELETE does with them -/

/-- `_get_matched_objects_on_criteria`: `is True` or `is _EXPIRED_OBJECT` -/
def matchedPy (o : Obj) (w : BExp) : Option Bool :=
  match evalPyB o w with
  | .val (some true) => some true
  | .expired => some true
  | .zerodiv => none          -- the exception escapes after the statement ran
  | _ => some false

def matchedSql (r : Row) (w : BExp) : Bool := evalSqlB r w == some true

def setAt (l : List (Option Int)) (i : Nat) (v : Option Int) : List (Option Int) := l.set i v

/-- UPDATE … SET: every right-hand side sees the old row -/
def applySim (sets : List (Nat × IExp)) (r : Row) : Row :=
  { r with ints := sets.foldl (fun acc (p : Nat × IExp) => setAt acc p.1 (evalSqlI r p.2)) r.ints }

/-- `for key in to_evaluate: dict_[key] = value_evaluators[key](obj)`: every evaluator
    reads the dict the loop is writing.  `none` = an exception escaped. -/
def applySeq : List (Nat × IExp) → Row → Option Row
  | [], r => some r
  | (i, e) :: rest, r =>
    match evalPyI ⟨r, [], []⟩ e with
    | .val v => applySeq rest { r with ints := setAt r.ints i v }
    | _ => none


/-! ## the hypotheses the proofs force (each failing guard is a known-finding shape) -/

/-- Python floor-mod and C truncating `%` agree: divisor non-zero and (it divides, or the
    operands have the same sign) — exact, see `Int.fmod_eq_tmod` -/
def modOk (a b : Int) : Bool :=
  b != 0 && (decide (a % b = 0) || (decide (0 ≤ a) && decide (0 ≤ b)) || (decide (a < 0) && decide (b < 0)))

/-- the bind value spells itself as a LIKE pattern: no `%`, `_`, escape character in it,
    and the escape is not `%` (the compiler's own wildcard) -/
def likeOk (other : List Char) (escape : Option Char) (auto : Bool) : Bool :=
  let be := effective escape auto other
  be.2 != some '%' &&
    be.1.all (fun c => c != '%' && c != '_' && be.2 != some c)

def violatedI (r : Row) : IExp → List String
  | .col _ => []
  | .lit _ => []
  | .add a b => violatedI r a ++ violatedI r b
  | .sub a b => violatedI r a ++ violatedI r b
  | .mul a b => violatedI r a ++ violatedI r b
  | .mod a b =>
    violatedI r a ++ violatedI r b ++
      (match evalSqlI r a, evalSqlI r b with
       | some x, some y => if y = 0 then ["div-zero"] else if modOk x y then [] else ["mod-sign"]
       | _, _ => [])
  | .floordiv a b => violatedI r a ++ violatedI r b
  | .neg a => violatedI r a

mutual
/-- names of the guards of `evaluator_eq_sql_partial` that fail for this tree on this row;
    `strict = false` leaves out the AND-order guard (theorem `evaluator_matches_sql_partial`) -/
def violatedB (strict : Bool) (r : Row) : BExp → List String
  | .icmp _ a b => violatedI r a ++ violatedI r b
  | .scmp _ _ _ => []
  | .qcmp _ a b c =>
    violatedI r a ++ violatedI r b ++ violatedI r c ++
      (if evalSqlI r b == some 0 then ["div-zero"] else [])
  | .inull _ a => violatedI r a
  | .snull _ _ => []
  | .iin _ a l =>
    violatedI r a ++ (if l.contains none then ["in-null-member"] else []) ++
      (if l.isEmpty && (evalSqlI r a).isNone then ["in-empty-null-left"] else [])
  | .like _ _ _ _ other escape auto => if likeOk other escape auto then [] else ["like-wildcard-or-escape"]
  | .between a lo hi => violatedI r a ++ violatedI r lo ++ violatedI r hi
  | .and l => violatedAnd strict r l
  | .or l => violatedL strict r l
  | .not a => violatedB strict r a
  | .const _ => []
def violatedAnd (strict : Bool) (r : Row) : List BExp → List String
  | [] => []
  | e :: es =>
    violatedB strict r e ++ violatedAnd strict r es ++
      (if strict && evalSqlB r e == none && andSql r es == some false then ["and-null-before-false"] else [])
def violatedL (strict : Bool) (r : Row) : List BExp → List String
  | [] => []
  | e :: es => violatedB strict r e ++ violatedL strict r es
end

def safeI (r : Row) (e : IExp) : Bool := (violatedI r e).isEmpty
def safeB (strict : Bool) (r : Row) (e : BExp) : Bool := (violatedB strict r e).isEmpty

mutual
/-- no `NOT` node anywhere (SQLAlchemy pushes NOT into comparisons; a `not` node only
    remains above AND / OR) -/
def notFree : BExp → Bool
  | .and l => notFreeL l
  | .or l => notFreeL l
  | .not _ => false
  | _ => true
def notFreeL : List BExp → Bool
  | [] => true
  | e :: es => notFree e && notFreeL es
end

/-! ## session synchronisation -/

inductive Outcome (α : Type) where
  | ok (v : α)
  | zerodiv            -- ZeroDivisionError escaped after the statement was executed
  | sentinel           -- `_EXPIRED_OBJECT` was stored as an attribute value
deriving DecidableEq, Repr

/-- `_apply_update_set_values_to_objects` on an object that may have expired attributes -/
def applySeqObj : List (Nat × IExp) → Obj → Outcome Obj
  | [], o => .ok o
  | (i, e) :: rest, o =>
    if o.xi.contains i then applySeqObj rest o   -- `if key in dict_`: absent keys are skipped
    else
    match evalPyI o e with
    | .val v => applySeqObj rest { o with row := { o.row with ints := setAt o.row.ints i v } }
    | .zerodiv => .zerodiv
    | .expired => .sentinel

/-- SET values the evaluator cannot compile get no entry in `value_evaluators`; after the
    loop those attributes are expired (`attrib.intersection(dict_).difference(to_evaluate)`) -/
def syncSets (sets : List (Nat × IExp)) (o : Obj) : Outcome Obj :=
  match applySeqObj (sets.filter (fun p => evaluableI p.2)) o with
  | .ok o' => .ok { o' with xi := o'.xi ++ (sets.filter (fun p => !evaluableI p.2)).map (·.1) }
  | r => r

/-- `_BulkORMUpdate._do_post_synchronize_evaluate`: every matched object — including
    those matched only because an attribute was expired — gets the SET values -/
def syncUpdateEvaluate (w : BExp) (sets : List (Nat × IExp)) (o : Obj) : Outcome Obj :=
  match evalPyB o w with
  | .val (some true) => syncSets sets o
  | .expired => syncSets sets o
  | .zerodiv => .zerodiv
  | _ => .ok o

def dbUpdate (w : BExp) (sets : List (Nat × IExp)) (r : Row) : Row :=
  if matchedSql r w then applySim sets r else r

/-- synchronize_session='fetch': the matched primary keys come from the database -/
def syncUpdateFetch (w : BExp) (sets : List (Nat × IExp)) (o : Obj) : Outcome Obj :=
  if matchedSql o.row w then syncSets sets o else .ok o

inductive DelOutcome where
  | kept | removed | expiredAll | zerodiv
deriving DecidableEq, Repr

/-- `_BulkORMDelete._do_post_synchronize_evaluate` -/
def syncDeleteEvaluate (w : BExp) (o : Obj) : DelOutcome :=
  match evalPyB o w with
  | .val (some true) => .removed
  | .expired => .expiredAll
  | .zerodiv => .zerodiv
  | _ => .kept

/-- does expression `e` read integer column `i`? -/
def readsI (i : Nat) : IExp → Bool
  | .col j => i == j
  | .lit _ => false
  | .add a b => readsI i a || readsI i b
  | .sub a b => readsI i a || readsI i b
  | .mul a b => readsI i a || readsI i b
  | .mod a b => readsI i a || readsI i b
  | .floordiv a b => readsI i a || readsI i b
  | .neg a => readsI i a

/-- no SET right-hand side reads a column that the statement assigns, and no column is
    assigned twice -/
def setsIndependent : List (Nat × IExp) → Bool
  | [] => true
  | (i, e) :: rest =>
    rest.all (fun p => !readsI i p.2 && p.1 != i) && rest.all (fun p => !readsI p.1 e) &&
      setsIndependent rest


/-! ## ORM bulk UPDATE by primary key: `session.execute(update(E), [ {pk, col: value, …}, … ])`

`_BulkORMUpdate._do_post_synchronize_bulk_evaluate`: for every parameter set, the object
with that primary key — if the identity map has one — gets the given values for the
attributes present in its dict. -/

/-- a table row together with the in-session object for it, if loaded -/
structure Slot where
  pk : Nat
  db : List (Option Int)
  sess : Option (List (Option Int) × List Nat)   -- loaded values, expired attributes
deriving DecidableEq, Repr

abbrev BulkParam := Nat × List (Nat × Option Int)   -- primary key, (column, value) pairs

def applyCols (cols : List (Nat × Option Int)) (skip : List Nat) (r : List (Option Int)) : List (Option Int) :=
  cols.foldl (fun acc p => if skip.contains p.1 then acc else setAt acc p.1 p.2) r

/-- one parameter set: the UPDATE of its row, and the synchronisation of its object
    (`if not state: continue`; `if key in dict_`) -/
def bulkStep (p : BulkParam) (slots : List Slot) : List Slot :=
  slots.map (fun s =>
    if s.pk == p.1 then
      { s with db := applyCols p.2 [] s.db,
               sess := s.sess.map (fun o => (applyCols p.2 o.2 o.1, o.2)) }
    else s)

def bulkByPk (params : List BulkParam) (slots : List Slot) : List Slot :=
  params.foldl (fun acc p => bulkStep p acc) slots

/-- every loaded, unexpired attribute equals the database value -/
def Slot.inSync (s : Slot) : Bool :=
  match s.sess with
  | none => true
  | some o => (List.range s.db.length).all (fun c => o.2.contains c || o.1.getD c none == s.db.getD c none)

end SaVerif.Eval
