/-
M-BACKREF: the bidirectional one-to-many / many-to-one synchronisation of
lib/sqlalchemy/orm/attributes.py `_backref_listeners` together with the collection decorators of
lib/sqlalchemy/orm/collections.py, for loaded collections.

`kids p` = `parent_p.children` (a list), `par c` = `child_c.parent`.

Python                                                     model
---------------------------------------------------------  --------------------------------------
child.parent = x  (_ScalarObjectAttributeImpl.set ->        `setParent`
  emit_backref_from_scalar_set_event: `oldchild is child`
  -> nothing; old parent: impl.pop(old, child) = remove the
  first occurrence, ValueError swallowed; new parent:
  child_impl.append(new, child) unless the initiator is the
  collection's own append / bulk_replace token)
parent.children.append(c)  (decorator fires the append       `append`
  event first: emit_backref_from_collection_append_event ->
  scalar `set(c, parent)` carrying the collection's append
  token -> scalar listener removes c from its old parent's
  list and does NOT append again; then list.append)
parent.children.remove(c)  (remove event first:              `remove`
  emit_backref_from_collection_remove_event: unless
  util.has_dupes(collection, c): scalar pop = set(None) only
  if c.parent is this parent; then list.remove -> ValueError)
pop(i) (list.pop first, then the remove event)              `pop`
__setitem__(i, c) (remove event for the existing element,   `setItem`
  append event for the new one, then the store)
__delitem__(i)                                              `delItem`
parent.children = [...] (bulk_replace: additions fire        `replace`
  append, constants nothing, removals fire remove against the
  NEW collection)
clear() (remove event for every element, then list.clear)   `clear`
Import-free, total, executable.
-/
namespace SaVerif.Backref

structure St where
  kids : Nat → List Nat
  par  : Nat → Option Nat

inductive Err where
  | valueError
  | indexError
deriving Repr, DecidableEq

def setKids (st : St) (p : Nat) (l : List Nat) : St :=
  { st with kids := fun q => if q = p then l else st.kids q }

def setPar (st : St) (c : Nat) (x : Option Nat) : St :=
  { st with par := fun d => if d = c then x else st.par d }

/-- `impl.pop(old_state, old_dict, child, …)` on the collection side: remove, swallowing
    ValueError; `list.remove` takes the first occurrence -/
def popKid (st : St) (q c : Nat) : St := setKids st q ((st.kids q).erase c)

/-- `util.has_dupes(sequence, target)`: the target occurs more than once (by identity) -/
def hasDupes (l : List Nat) (c : Nat) : Bool := l.count c > 1

/-- the scalar side receives `set(child, value)` (from the user or from a collection event):
    `emit_backref_from_scalar_set_event` then `dict[key] = value`.
    `appendToNew` = the initiator is not the new parent's collection append / bulk_replace token -/
def scalarSet (st : St) (c : Nat) (new : Option Nat) (appendToNew : Bool) : St :=
  let old := st.par c
  if old = new then st
  else
    let st1 := match old with
      | some q => popKid st q c
      | none => st
    let st2 := match new with
      | some p => if appendToNew then setKids st1 p (st1.kids p ++ [c]) else st1
      | none => st1
    setPar st2 c new

/-- `child.parent = new` -/
def setParent (st : St) (c : Nat) (new : Option Nat) : St := scalarSet st c new true

/-- `emit_backref_from_collection_append_event` -/
def appendEvent (st : St) (p c : Nat) : St := scalarSet st c (some p) false

/-- `emit_backref_from_collection_remove_event(state = p, child = c)` evaluated against the
    collection `coll` that `state.dict[key]` holds at that moment: scalar `pop` = set(None) only
    when the child's parent is `p` -/
def removeEvent (st : St) (p c : Nat) (coll : List Nat) : St :=
  if hasDupes coll c then st
  else if st.par c = some p then setPar st c none else st

/-- `parent.children.append(c)` -/
def append (st : St) (p c : Nat) : St :=
  let st1 := appendEvent st p c
  setKids st1 p (st1.kids p ++ [c])

/-- `parent.children.remove(c)`: event, then `list.remove` -/
def remove (st : St) (p c : Nat) : St × Option Err :=
  let st1 := removeEvent st p c (st.kids p)
  if (st1.kids p).contains c then (setKids st1 p ((st1.kids p).erase c), none)
  else (st1, some .valueError)

def normIdx (n : Nat) (i : Int) : Option Nat :=
  if i < 0 then (if i + n < 0 then none else some (i + n).toNat)
  else (if i < n then some i.toNat else none)

/-- `parent.children.pop(i)`: `list.pop` first, then the remove event -/
def pop (st : St) (p : Nat) (i : Int) : St × Option Err :=
  match normIdx (st.kids p).length i with
  | none => (st, some .indexError)
  | some k =>
    match (st.kids p)[k]? with
    | none => (st, some .indexError)
    | some c =>
      let st1 := setKids st p ((st.kids p).eraseIdx k)
      (removeEvent st1 p c (st1.kids p), none)

/-- `del parent.children[i]`: remove event, then `list.__delitem__` -/
def delItem (st : St) (p : Nat) (i : Int) : St × Option Err :=
  match normIdx (st.kids p).length i with
  | none => (st, some .indexError)
  | some k =>
    match (st.kids p)[k]? with
    | none => (st, some .indexError)
    | some c =>
      let st1 := removeEvent st p c (st.kids p)
      (setKids st1 p ((st1.kids p).eraseIdx k), none)

/-- `parent.children[i] = c`: remove event for the existing element, append event for the new
    one, then the store -/
def setItem (st : St) (p : Nat) (i : Int) (c : Nat) : St × Option Err :=
  match normIdx (st.kids p).length i with
  | none => (st, some .indexError)
  | some k =>
    match (st.kids p)[k]? with
    | none => (st, some .indexError)
    | some e =>
      let st1 := removeEvent st p e (st.kids p)
      let st2 := appendEvent st1 p c
      (setKids st2 p ((st2.kids p).set k c), none)

/-- `parent.children = new` (`collections.bulk_replace`): additions fire the append event and
    are appended, constants are appended silently, then removals fire the remove event (the
    collection in `dict` is already the new one) -/
def replace (st : St) (p : Nat) (new : List Nat) : St :=
  let old := st.kids p
  let st0 := setKids st p []
  let st1 := new.foldl (fun s c =>
      if old.contains c then setKids s p (s.kids p ++ [c])
      else
        let s1 := appendEvent s p c
        setKids s1 p (s1.kids p ++ [c])) st0
  let removals := (old.filter (fun c => !new.contains c)).eraseDups
  removals.foldl (fun s c => removeEvent s p c (s.kids p)) st1

/-- `parent.children.clear()`: remove event for every element, then `list.clear` -/
def clear (st : St) (p : Nat) : St :=
  let st1 := (st.kids p).foldl (fun s c => removeEvent s p c (s.kids p)) st
  setKids st1 p []

inductive Op where
  | setParent (c : Nat) (new : Option Nat)
  | append (p c : Nat)
  | remove (p c : Nat)
  | pop (p : Nat) (i : Int)
  | delItem (p : Nat) (i : Int)
  | setItem (p : Nat) (i : Int) (c : Nat)
  | replace (p : Nat) (new : List Nat)
  | clear (p : Nat)
deriving Repr

def step (st : St) : Op → St × Option Err
  | .setParent c new => (setParent st c new, none)
  | .append p c => (append st p c, none)
  | .remove p c => remove st p c
  | .pop p i => pop st p i
  | .delItem p i => delItem st p i
  | .setItem p i c => setItem st p i c
  | .replace p new => (replace st p new, none)
  | .clear p => (clear st p, none)

def run (st : St) : List Op → St
  | [] => st
  | op :: ops => run (step st op).1 ops

def init : St := { kids := fun _ => [], par := fun _ => none }

end SaVerif.Backref
