import SaVerif.Gen.MergeCfg
/-
M-ORM/merge: `Session.merge()` of a detached / transient source object with partially
loaded column attributes into a Session that may or may not already hold the
identity.

Transcribed code (lib/sqlalchemy/orm):

Python                                                    model
--------------------------------------------------------  --------------------------------
Session._merge: key = state.key or                         `Src.pk` (sources always carry a
  mapper._identity_key_from_state(state)                     full primary key), `Src.persistent`
  merged = identity_map.get(key)                            `St.objs k`
  not load: new_instance with that key, no SQL;             `mergeNoLoad`
    InvalidRequestError for transient or dirty sources
  load: Session.get(...) (one SELECT) → instance | None     `St.db k`, `St.sql`
  None → new_instance + _save_or_update_state (pending)     `St.new k`
ColumnProperty.merge: key in source_dict → impl.set on     `copyAttr` (current value replaced,
  dest (load) / dest_dict[key] = value (no load);            committed value kept: history)
  key absent → `_expire_attributes` only when dest has
  an identity and the key is not in dest_dict (no-op)
not load: merged_state._commit_all (no history)             `commitAll`
Session.is_modified / attribute history                    `Obj.netChange`

Session.merge (public entry point):                         `mergeAf`
  if load: self._autoflush()                                 `afGuard` (regenerated flag
  with self.no_autoflush: return self._merge(...)            `Gen.MergeCfg.mergeAutoflushGuardIsLoad`)
Session._autoflush: `if self.autoflush: self.flush()`        the `af` parameter, `flushSt`
Session.get: identity-map hit -> no SQL, no flush;           `loadAf`
  miss -> ORM execute -> `_autoflush()` -> SELECT
Session.delete(persistent obj): `_deleted[state] = obj`,     `St.del`, `Op.del`
  the instance stays in the identity map until the flush
Session.flush: INSERT pending, UPDATE net changes, DELETE    `flushSt` (deleted-marked instance:
  deleted-marked (instance leaves the identity map)            row removed, instance removed)

Relationship cascades of merge are exercised by the harness's graph stream and its
oracle only; this model is the column-attribute core.  With autoflush off the harness
never merges an identity that is pending in the Session (documented behaviour: a second
pending instance); with autoflush on it does.  The harness never flushes two modified
instances of one row, nor operates on an identity while an instance of the same primary
key under ANOTHER token is marked deleted (`otherDel`: such ops are skipped on both sides).

Imports only the regenerated `SaVerif.Gen.MergeCfg`; total, executable.
-/
namespace SaVerif.Merge

/-- one column attribute of a Session object: current value (none = not loaded) and
    the committed value kept when it was modified (`committed_state`) -/
structure Attr where
  cur : Option Int
  com : Option (Option Int)     -- none: not in committed_state; some x: old value (x = none: NO_VALUE)
deriving DecidableEq, Repr

structure Obj where
  a : Attr
  b : Attr
deriving DecidableEq, Repr

structure Src where
  pk : Nat
  tok : Nat                -- identity token of the source's key (0 = None); transient: 0
  a : Option Int           -- none: not loaded on the source
  b : Option Int
  persistent : Bool        -- has an identity key (detached) vs. transient with pk set
  modified : Bool          -- source state is dirty
deriving DecidableEq, Repr

structure St where
  db : Nat → Option (Int × Int)
  objs : Nat → Nat → Option Obj      -- identity map: (pk, identity token) ↦ instance
  new : Nat → Option Obj             -- pending instances created by merge
  del : Nat → Nat → Bool             -- Session.delete() pending for the instance (pk, token)
  sql : Nat                          -- SELECT statements emitted so far

def St.init : St := ⟨fun _ => none, fun _ _ => none, fun _ => none, fun _ _ => false, 0⟩

/-- identity-map update at one key -/
def putObj (objs : Nat → Nat → Option Obj) (k t : Nat) (o : Obj) : Nat → Nat → Option Obj :=
  fun j u => if j = k ∧ u = t then some o else objs j u

inductive Out
  | merged (isNew : Bool) (tok : Nat) (a b : Option Int) (dirty : Bool)   -- tok: token of the result's key
  | error            -- InvalidRequestError (load=False with transient / dirty source)
  | skip
deriving DecidableEq, Repr

def Attr.netChange (x : Attr) : Bool :=
  match x.com with
  | none => false
  | some old => old != x.cur || old.isNone

def Obj.netChange (o : Obj) : Bool := o.a.netChange || o.b.netChange

def loaded (v : Int) : Attr := ⟨some v, none⟩
def unloaded : Attr := ⟨none, none⟩

/-- `impl.set(dest_state, dest_dict, value)`: remembers the old value once -/
def setAttr (x : Attr) (v : Int) : Attr :=
  ⟨some v, match x.com with
           | none => some x.cur
           | some old => some old⟩

/-- ColumnProperty.merge with load=True -/
def copyAttr (x : Attr) (s : Option Int) : Attr :=
  match s with
  | some v => setAttr x v
  | none => x

/-- ColumnProperty.merge with load=False, followed by `_commit_all` -/
def copyAttrNoLoad (x : Attr) (s : Option Int) : Attr :=
  match s with
  | some v => ⟨some v, none⟩
  | none => ⟨x.cur, none⟩

def outOf (isNew : Bool) (tok : Nat) (o : Obj) : Out := .merged isNew tok o.a.cur o.b.cur o.netChange

/-- `session.merge(src)` (load=True).  The identity looked up, and loaded by
    `Session.get(..., identity_token=key[2])`, is the source's full key. -/
def mergeLoad (st : St) (s : Src) : St × Out :=
  match st.new s.pk with
  | some _ => (st, .skip)
  | none =>
    match st.objs s.pk s.tok with
    | some o =>
      let o' : Obj := ⟨copyAttr o.a s.a, copyAttr o.b s.b⟩
      ({ st with objs := putObj st.objs s.pk s.tok o' }, outOf false s.tok o')
    | none =>
      -- Session.get: one SELECT
      match st.db s.pk with
      | some (va, vb) =>
        let o' : Obj := ⟨copyAttr (loaded va) s.a, copyAttr (loaded vb) s.b⟩
        ({ st with objs := putObj st.objs s.pk s.tok o', sql := st.sql + 1 }, outOf false s.tok o')
      | none =>
        let o' : Obj := ⟨copyAttr unloaded s.a, copyAttr unloaded s.b⟩
        -- a pending instance always carries history (its primary key was just set); it has
        -- no identity token
        ({ st with new := fun j => if j = s.pk then some o' else st.new j, sql := st.sql + 1 },
         .merged true 0 o'.a.cur o'.b.cur true)

/-- `session.merge(src, load=False)` -/
def mergeNoLoad (st : St) (s : Src) : St × Out :=
  match st.new s.pk with
  | some _ => (st, .skip)
  | none =>
    if !s.persistent then (st, .error)
    else
      match st.objs s.pk s.tok with
      | some o =>
        let o' : Obj := ⟨copyAttrNoLoad o.a s.a, copyAttrNoLoad o.b s.b⟩
        ({ st with objs := putObj st.objs s.pk s.tok o' }, outOf false s.tok o')
      | none =>
        if s.modified then (st, .error)
        else
          let o' : Obj := ⟨copyAttrNoLoad unloaded s.a, copyAttrNoLoad unloaded s.b⟩
          ({ st with objs := putObj st.objs s.pk s.tok o' }, outOf true s.tok o')

def merge (load : Bool) (st : St) (s : Src) : St × Out :=
  if load then mergeLoad st s else mergeNoLoad st s

/-! ### the rest of a history (to reach interesting states) -/

inductive Op
  | insert (k : Nat) (a b : Int)        -- row written by someone else before the session looks
  | load (k t : Nat)                    -- session.get(T, k, identity_token=t)
  | set (k t : Nat) (which : Bool) (v : Int)   -- which = false: a, true: b
  | merge (load : Bool) (s : Src)
  | del (k t : Nat)                     -- session.delete(identity-map instance (k, t)), pending
  | flush                               -- writes pending + net changes + deletes, clears history
deriving Repr

def flushObj (o : Obj) : Obj := ⟨⟨o.a.cur, none⟩, ⟨o.b.cur, none⟩⟩

def rowAfter (o : Obj) (row : Option (Int × Int)) : Option (Int × Int) :=
  let ra := row.map (·.1)
  let rb := row.map (·.2)
  let va := if o.a.netChange then o.a.cur else ra
  let vb := if o.b.netChange then o.b.cur else rb
  match row with
  | some _ => some (va.getD 0, vb.getD 0)
  | none => none

/-- identity tokens in use: None, "t1", "t2" -/
def tokens : List Nat := [0, 1, 2]

/-- UPDATEs of the instances of one row; the harness never flushes two modified instances
    of one row (their UPDATE order is unspecified) -/
def rowFlush (st : St) (k : Nat) : Option (Int × Int) :=
  tokens.foldl (fun row t => match st.objs k t with
                             | some o => rowAfter o row
                             | none => row) (st.db k)

def anyObj (st : St) (k : Nat) : Bool := tokens.any (fun t => (st.objs k t).isSome)

/-- some instance of primary key `k` is marked deleted -/
def anyDel (st : St) (k : Nat) : Bool := tokens.any (fun t => st.del k t)

/-- an instance of primary key `k` under a token other than `t` is marked deleted -/
def otherDel (st : St) (k t : Nat) : Bool := tokens.any (fun u => u != t && st.del k u)

/-- (k, t) is the only instance of primary key `k` the Session tracks -/
def onlyInstance (st : St) (k t : Nat) : Bool :=
  (st.new k).isNone && tokens.all (fun u => u == t || (st.objs k u).isNone)

/-- `Session.flush()` over the identities `< n`: pending instances are INSERTed and become
    persistent under token None, net changes are UPDATEd, deleted-marked instances are
    DELETEd (row gone, instance leaves the identity map), history is cleared. -/
def flushSt (n : Nat) (st : St) : St :=
  { db := fun k => if k < n then
                     (match st.new k with
                      | some o => some ((o.a.cur).getD 0, (o.b.cur).getD 0)
                      | none => if anyDel st k then none else rowFlush st k)
                   else st.db k,
    objs := fun k t => if k < n then
                         (match st.new k, t with
                          | some o, 0 => some (flushObj o)
                          | _, _ => if st.del k t then none else (st.objs k t).map flushObj)
                       else st.objs k t,
    new := fun k => if k < n then none else st.new k,
    del := fun k t => if k < n then false else st.del k t,
    sql := st.sql }

/-- the condition under which `Session.merge` calls `self._autoflush()`, beyond `load`:
    none when the guard is exactly `if load:` (regenerated flag true); for any other shape
    the model takes the weaker reading "only when the identity is not in the identity map" -/
def afGuard (st : St) (s : Src) : Bool :=
  SaVerif.Gen.MergeCfg.mergeAutoflushGuardIsLoad || (st.objs s.pk s.tok).isNone

/-- `Session.merge(src, load=load)` of a Session created with `autoflush=af`:
    `if load: self._autoflush()` then `_merge` under `no_autoflush` -/
def mergeAf (af : Bool) (n : Nat) (load : Bool) (st : St) (s : Src) : St × Out :=
  if af && load && afGuard st s then merge load (flushSt n st) s else merge load st s

/-- `Session.get(T, k, identity_token=t)`: identity-map hit returns at once; a miss runs a
    SELECT through the ORM, which autoflushes first.  The instance found in the identity
    map after the flush (a just-flushed pending one) is returned as it is. -/
def loadAf (af : Bool) (n : Nat) (st : St) (k t : Nat) : St :=
  match st.objs k t with
  | some _ => st
  | none =>
    let st1 := if af then flushSt n st else st
    match st1.objs k t, st1.db k with
    | none, some (va, vb) =>
      { st1 with objs := putObj st1.objs k t ⟨loaded va, loaded vb⟩, sql := st1.sql + 1 }
    | _, _ => { st1 with sql := st1.sql + 1 }

def step (af : Bool) (n : Nat) (st : St) : Op → St × Out
  | .insert k a b =>
    match st.db k, anyObj st k, st.new k with
    | none, false, none => ({ st with db := fun j => if j = k then some (a, b) else st.db j }, .skip)
    | _, _, _ => (st, .skip)
  | .load k t =>
    -- harness: not while another token's instance is doomed; with autoflush off not while pending
    if otherDel st k t || (!af && (st.new k).isSome) then (st, .skip)
    else (loadAf af n st k t, .skip)
  | .set k t w v =>
    match st.objs k t with
    | some o =>
      let o' : Obj := if w then ⟨o.a, setAttr o.b v⟩ else ⟨setAttr o.a v, o.b⟩
      ({ st with objs := putObj st.objs k t o' }, .skip)
    | none => (st, .skip)
  | .merge l s =>
    if otherDel st s.pk s.tok then (st, .skip) else mergeAf af n l st s
  | .del k t =>
    if (st.objs k t).isSome && onlyInstance st k t then
      ({ st with del := fun j u => if j = k ∧ u = t then true else st.del j u }, .skip)
    else (st, .skip)
  | .flush => (flushSt n st, .skip)

def run (af : Bool) (n : Nat) (st : St) : List Op → St
  | [] => st
  | o :: os => run af n (step af n st o).1 os

/-- is the instance a merge returned marked deleted in the state after it -/
def resultDeleted (st' : St) : Op → Out → Bool
  | .merge _ s, .merged false t _ _ _ => st'.del s.pk t
  | _, _ => false

/-- per op: result, number of SELECTs, result-marked-deleted -/
def outs (af : Bool) (n : Nat) (st : St) : List Op → List (Out × Nat × Bool)
  | [] => []
  | o :: os =>
    ((step af n st o).2, (step af n st o).1.sql - st.sql, resultDeleted (step af n st o).1 o (step af n st o).2)
      :: outs af n (step af n st o).1 os

def opOk (n : Nat) : Op → Bool
  | .insert k _ _ => k < n
  | .load k t | .set k t _ _ | .del k t => k < n && t < 3
  | .merge _ s => s.pk < n && s.tok < 3 && (s.persistent || s.tok == 0)
  | .flush => true

end SaVerif.Merge
