import SaVerif.Gen.LikeDefaults
/-
M-STR / LIKE: transcription of the autoescape code and of the LIKE renderings of
the string operators, plus two executable LIKE matchers.
Core-only, total, executable (imports only the generated constants file
`Gen/LikeDefaults.lean`: default escape and the `("%", "_", escape)` tuple
are read from the source by the translator in harness/props/c08.py).
Strings are `List Char` (the driver converts).

Python (lib/sqlalchemy)                              model
---------------------------------------------------  ------------------------------
sql/operators.py  _escaped_like_impl(fn, other,      `effective` (escape / bind value
   escape, autoescape)                                 actually handed to `fn`)
     if escape is None: escape = "/"                  `escape.getD defaultEscape` (Gen)
     other = "".join(escape + char                    `escapeLike`: single pass;
        if char in ("%", "_", escape) else char          tuple = `escapedChars` (Gen) +
        for char in other)                               `escapesEscape` (Gen)
sql/compiler.py visit_contains_op_binary              `wrap .contains   b = % ++ b ++ %`
                visit_startswith_op_binary            `wrap .startswith b = b ++ %`
                visit_endswith_op_binary              `wrap .endswith   b = % ++ b`
                visit_i*_op_binary                    lower() around column and bind:
                 (ilike_case_insensitive -> lower())   `lowerS` on both sides
                visit_not_*_op_binary                 `neg`: NOT LIKE
                visit_like_op_binary " ESCAPE " lit   `esc : Option Char` given to matcher

SQLite 3.40 func.c                                   model
---------------------------------------------------  ------------------------------
likeFunc: escape==matchAll -> matchAll=0,             `mAll`, `mOne` (Option Char)
          escape==matchOne -> matchOne=0
patternCompare (LIKE: matchSet==0)                    `mtch` (top-level loop) /
   while((c=read(pat))==matchAll || c==matchOne)      `star` (the loop after a '%') /
   strcspn / Utf8Read search loop + recursion         `search`
   SQLITE_MATCH / NOMATCH / NOWILDCARDMATCH           `R.yes / R.no / R.abort`
   noCase && tolower(c)==tolower(c2) && both <0x80    `eqv nc`
sqlite3Tolower / SQL lower()  (ASCII only)            `lowerAscii`

`likeStd` is the SQL-standard reading (escape first, then `%`, `_`, literal); it is
the assumed semantics of PostgreSQL / MySQL LIKE and is *not* validated against a
server here (DESIGN §1.5).
Not modelled: U+0000 inside a pattern (C string terminator in SQLite),
SQLITE_MAX_LIKE_PATTERN_LENGTH, multi-character `escape` strings (SQLite raises).
-/
namespace SaVerif.Like
open SaVerif.Gen.LikeDefaults

/-! ## Python side -/

/-- `"".join(escape + char if char in ("%", "_", escape) else char for char in other)`:
    one pass; the tuple's literal members and whether it mentions `escape` come from the
    translator (Gen.LikeDefaults) -/
def escapeLike (esc : Char) : List Char → List Char
  | [] => []
  | c :: cs =>
    if escapedChars.contains c || (escapesEscape && c == esc) then esc :: c :: escapeLike esc cs
    else c :: escapeLike esc cs

/-- what `_escaped_like_impl` passes on: (bind value, escape modifier) -/
def effective (escape : Option Char) (autoescape : Bool) (other : List Char) :
    List Char × Option Char :=
  if autoescape then
    let e := escape.getD defaultEscape
    (escapeLike e other, some e)
  else (other, escape)

inductive Kind where | contains | startswith | endswith
deriving DecidableEq, Repr

/-- `'%' || bind || '%'` etc. as concatenated by the compiler -/
def wrap : Kind → List Char → List Char
  | .contains, b => '%' :: (b ++ ['%'])
  | .startswith, b => b ++ ['%']
  | .endswith, b => '%' :: b

/-- ASCII lower-casing: SQLite `lower()` and `sqlite3Tolower` -/
def lowerAscii (c : Char) : Char :=
  if 65 ≤ c.toNat ∧ c.toNat ≤ 90 then Char.ofNat (c.toNat + 32) else c

def lowerS (s : List Char) : List Char := s.map lowerAscii

/-! ## SQLite's patternCompare for LIKE -/

inductive R where
  | yes    -- SQLITE_MATCH
  | no     -- SQLITE_NOMATCH
  | abort  -- SQLITE_NOWILDCARDMATCH
deriving DecidableEq, Repr

/-- `c==c2 || (noCase && tolower(c)==tolower(c2) && c<0x80 && c2<0x80)` -/
def eqv (nc : Bool) (a b : Char) : Bool :=
  a == b || (nc && lowerAscii a == lowerAscii b && decide (a.toNat < 128) && decide (b.toNat < 128))

/-- likeFunc: a wildcard equal to the escape character is switched off -/
def mAll (esc : Option Char) : Option Char := if esc == some '%' then none else some '%'
def mOne (esc : Option Char) : Option Char := if esc == some '_' then none else some '_'

/-- the search loop after a `%`: try `f` on the text following every occurrence of
    `c`; the first result other than NOMATCH is returned -/
def search (nc : Bool) (f : List Char → R) (c : Char) : List Char → R
  | [] => .abort
  | c2 :: s =>
    if eqv nc c c2 then
      match f s with
      | .no => search nc f c s
      | r => r
    else search nc f c s

mutual
/-- the outer `while( (c = Utf8Read(zPattern))!=0 )` loop -/
def mtch (nc : Bool) (esc : Option Char) : List Char → List Char → R
  | [], s => if s.isEmpty then .yes else .no
  | c :: p, s =>
    if mAll esc == some c then star nc esc p s
    else if esc == some c then
      match p with
      | [] => .no
      | c' :: p' =>
        match s with
        | [] => .no
        | c2 :: s' => if eqv nc c' c2 then mtch nc esc p' s' else .no
    else
      match s with
      | [] => .no
      | c2 :: s' => if eqv nc c c2 || mOne esc == some c then mtch nc esc p s' else .no
/-- the code after a matchAll was read: skip further `%`/`_`, then search -/
def star (nc : Bool) (esc : Option Char) : List Char → List Char → R
  | [], _ => .yes
  | c :: p, s =>
    if mAll esc == some c then star nc esc p s
    else if mOne esc == some c then
      match s with
      | [] => .abort
      | _ :: s' => star nc esc p s'
    else if esc == some c then
      match p with
      | [] => .abort
      | c' :: p' => search nc (mtch nc esc p') c' s
    else search nc (mtch nc esc p) c s
end

/-- `text LIKE pat [ESCAPE esc]` on SQLite; `nc` = NOT `PRAGMA case_sensitive_like` -/
def likeSqlite (nc : Bool) (esc : Option Char) (pat text : List Char) : Bool :=
  mtch nc esc pat text == .yes

/-! ## SQL-standard LIKE (assumed for PostgreSQL / MySQL) -/

/-- `f` holds of some suffix of the text (`any(f(s[i:]) for i in range(len(s)+1))`) -/
def anySuffix (f : List Char → Bool) : List Char → Bool
  | [] => f []
  | c :: s => f (c :: s) || anySuffix f s

/-- character comparison of the standard matcher; `nc` = case-insensitive (ILIKE) -/
def ceq (nc : Bool) (a b : Char) : Bool :=
  if nc then lowerAscii a == lowerAscii b else a == b

/-- escape first; an escape at the very end of the pattern is an error there (PostgreSQL
    raises) and is reported as no match here -/
def likeStd (nc : Bool) (esc : Option Char) : List Char → List Char → Bool
  | [], s => s.isEmpty
  | c :: p, s =>
    if esc == some c then
      match p with
      | [] => false
      | c' :: p' =>
        match s with
        | [] => false
        | c2 :: s' => ceq nc c' c2 && likeStd nc esc p' s'
    else if c == '%' then anySuffix (likeStd nc esc p) s
    else
      match s with
      | [] => false
      | c2 :: s' => (c == '_' || ceq nc c c2) && likeStd nc esc p s'

/-! ## the whole operator as executed -/

structure Op where
  kind : Kind
  icase : Bool
  neg : Bool
deriving DecidableEq, Repr

/-- value of `col.<op>(other, escape=, autoescape=)` for a non-NULL column value on
    SQLite (default compiler: the i-variants render `lower(col) LIKE … lower(?) …`) -/
def evalSqlite (nc : Bool) (op : Op) (escape : Option Char) (autoescape : Bool)
    (other col : List Char) : Bool :=
  let (bind, esc) := effective escape autoescape other
  let pat := if op.icase then wrap op.kind (lowerS bind) else wrap op.kind bind
  let txt := if op.icase then lowerS col else col
  let m := likeSqlite nc esc pat txt
  if op.neg then !m else m

/-- same under the SQL-standard matcher.  `nativeIlike = true` is the PostgreSQL
    rendering (`col ILIKE pat`, no lower()); `false` is the default / MySQL rendering
    (`lower(col) LIKE lower(bind)`). -/
def evalStd (nativeIlike : Bool) (op : Op) (escape : Option Char) (autoescape : Bool)
    (other col : List Char) : Bool :=
  let (bind, esc) := effective escape autoescape other
  let m :=
    if op.icase then
      if nativeIlike then likeStd true esc (wrap op.kind bind) col
      else likeStd false esc (wrap op.kind (lowerS bind)) (lowerS col)
    else likeStd false esc (wrap op.kind bind) col
  if op.neg then !m else m

/-- Python's own test, the specification side -/
def pyTest : Kind → List Char → List Char → Bool
  | .contains, p, s => anySuffix (fun t => p.isPrefixOf t) s
  | .startswith, p, s => p.isPrefixOf s
  | .endswith, p, s => p.isSuffixOf s

end SaVerif.Like
