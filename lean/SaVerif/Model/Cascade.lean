/-
M-CASCADE: cascade traversal of lib/sqlalchemy/orm/mapper.py `Mapper.cascade_iterator` +
lib/sqlalchemy/orm/relationships.py `RelationshipProperty.cascade_iterator`, and the session
operations of lib/sqlalchemy/orm/session.py that are driven by it.

Python                                                     model
---------------------------------------------------------  ------------------------------------
object graph: `state.dict[rel.key]` (scalar / collection)  `Graph.vals n r : List Nat` (children of
                                                            node n through relationship r, in order;
                                                            `None` members are already skipped)
`prop.cascade` (CascadeOptions) / `type_ in prop.cascade`  `Graph.flag r : Bool` for the cascade under
                                                            consideration (table regenerated from
                                                            orm/util.py CascadeOptions)
`mapper._props.values()`                                   `Graph.nrels` relationships `0 .. nrels-1`
Mapper.cascade_iterator: `visitables` stack of             `Frame.props n rs` / `Frame.insts q`
   (deque(props), prp, state) / (deque(instances), mpp)
   prp item: `prop.cascade_iterator(..)` evaluated eagerly  `expand`: children not yet in
   into a deque; every yielded child is added to            `visited_states` (and not halted) are
   `visited_states` at that moment; `halt_on(child)` and    marked visited and queued
   already visited children are skipped
   mpp item: yield the instance, push its props            `step`
`visited_states` does NOT contain the root                 `visited` starts empty
Import-free, total, executable.
-/
namespace SaVerif.Cascade

structure Graph where
  /-- number of relationship properties of every mapper (unused ones have no values) -/
  nrels : Nat
  /-- does relationship `r` carry the cascade under consideration -/
  flag  : Nat → Bool
  /-- related objects of node `n` through relationship `r` -/
  vals  : Nat → Nat → List Nat
  /-- `halt_on(state)` : the child is neither yielded nor traversed -/
  halt  : Nat → Bool

inductive Frame where
  | props (n : Nat) (rs : List Nat)
  | insts (q : List Nat)
deriving Repr

/-- `RelationshipProperty.cascade_iterator`: the children that are yielded, with the updated
    visited set -/
def expand (g : Graph) : List Nat → List Nat → List Nat × List Nat
  | [], visited => ([], visited)
  | c :: cs, visited =>
    if visited.contains c || g.halt c then expand g cs visited
    else
      let (q, v) := expand g cs (c :: visited)
      (c :: q, v)

structure St where
  stack : List Frame
  visited : List Nat
  /-- yielded instances, in order -/
  out : List Nat

def allRels (g : Graph) : List Nat := List.range g.nrels

/-- one iteration of `while visitables:` -/
def step (g : Graph) (s : St) : St :=
  match s.stack with
  | [] => s
  | .props _ [] :: rest => { s with stack := rest }
  | .props n (r :: rs) :: rest =>
    if g.flag r then
      let (q, v) := expand g (g.vals n r) s.visited
      if q.isEmpty then { s with stack := .props n rs :: rest, visited := v }
      else { s with stack := .insts q :: .props n rs :: rest, visited := v }
    else { s with stack := .props n rs :: rest }
  | .insts [] :: rest => { s with stack := rest }
  | .insts (c :: cs) :: rest =>
    { s with stack := .props c (allRels g) :: .insts cs :: rest, out := s.out ++ [c] }

def loop (g : Graph) : Nat → St → Option St
  | 0, s => if s.stack.isEmpty then some s else none
  | fuel + 1, s => if s.stack.isEmpty then some s else loop g fuel (step g s)

/-- `list(mapper.cascade_iterator(type_, state, halt_on))` as node ids; `none` = fuel exhausted -/
def cascade (g : Graph) (fuel : Nat) (root : Nat) : Option (List Nat) :=
  (loop g fuel { stack := [.props root (allRels g)], visited := [], out := [] }).map (·.out)

/-- one flagged, non-halted edge -/
def Edge (g : Graph) (a b : Nat) : Prop :=
  ∃ r, r < g.nrels ∧ g.flag r = true ∧ b ∈ g.vals a r ∧ g.halt b = false

/-- reachable in at least one step -/
inductive Reach (g : Graph) : Nat → Nat → Prop where
  | one {a b : Nat} : Edge g a b → Reach g a b
  | more {a b c : Nat} : Reach g a b → Edge g b c → Reach g a c

end SaVerif.Cascade
