import SaVerif.Gen.VersionCfg
/-
M-ORM/version: several sessions flushing the same rows of a table mapped with a
`version_id_col`.  Labelled transition system over one shared database.

Transcribed code (lib/sqlalchemy/orm):

Python                                               model
---------------------------------------------------  ----------------------------------------
persistence._organize_states_for_save                `useVer` (committed version of the state or
  update_version_id = _get_committed_state_attr_…     of the row-switched state; an expired
  (PASSIVE_RETURN_NO_VALUE → loads when expired,      version is loaded from the row → `goneSave`
  ObjectDeletedError when the row is gone)            when the row does not exist)
persistence._collect_update_commands                 `netChange` (value in committed_state and
  params only for attributes whose value differs       `is_equal(...) is not True`; NO_VALUE for a
  from committed_state; "no net change, continue"      blind write on an expired attribute),
  params[col._label] = update_version_id               `Act.upd`
  params[col.key] = version_id_generator(old)          `newVer`
persistence._emit_update_statements                  `staleWrite`  (UPDATE … WHERE pk = ? AND
  WHERE pk AND version_id_col = :old ; rows !=         ver = :old matched no row)
  len(records) → StaleDataError
persistence._collect_insert_commands                 `Act.ins`, `newVer none`
  params[ver] = version_id_generator(None)
  (IntegrityError from the backend on duplicate pk)   `dupIns`
row switch (pending object + deleted persistent      `Act.switch` (UPDATE with the version of
  object of the same identity in one flush)            the deleted object)
persistence._organize_states_for_delete /            `Act.del`, `goneDel`, `staleWrite`
  _emit_delete_statements  (rows_matched != expected)
unitofwork: save actions precede delete actions;     order of the five checks in `flushOutcome`
  per table: UPDATEs then INSERTs
persistence._postfetch  dict_[ver] = params[ver],    `afterFlushSlot`
  committed_state.pop ; session._register_persistent
  / _remove_newly_deleted / _commit_all_states
persistence._emit_update_statements                  `batchFix` / `headUpd`: with
  allow_executemany = not return_defaults and          `versionedUpdateExecutemany` (regenerated
  not needs_version_id ; executemany branch:           from the source; false today) the UPDATE
  _postfetch(..., c.context.compiled_parameters[0])    records of a flush form one executemany
  for EVERY record of the group                        group and every object of the group is
                                                       post-fetched from the FIRST record
Session.begin_nested() (SAVEPOINT; flushes first:    `Op.nested` (only on a session with nothing
  modelled only for a session without pending work)    to flush), `St.sp`
SessionTransaction.rollback of the nested            `spRollbackSlot`: pending objects expunged,
  transaction after a failed flush →                   deletions reverted, states expired iff
  _restore_snapshot(dirty_only=True):                  `p.mod` (and `savepointRollbackExpiresModified`,
  `if not dirty_only or s.modified or s in _dirty`     regenerated from the source); nothing was
  then the enclosing transaction goes on (commit)      flushed successfully inside the SAVEPOINT
                                                       before (`_dirty` of the nested txn is empty)
Session.commit (expire_on_commit) / rollback          `expireSlot`, `rollbackSlot`
  (pending expunged, deleted restored, all expired)
loading.get_from_identity / load_on_ident /           `Op.get`
  InstanceState._load_expired (only unmodified
  attributes are refreshed)
ScalarAttributeImpl.set (old = NO_VALUE when the      `Op.set`
  attribute is expired: a blind write)
InstanceState._expire                                 `Op.expire`
mapper.version_id_generator default (x or 0) + 1      `Gen.counter`; a user generator returning
                                                      never-used values is `Gen.fresh`; a server
                                                      side `ver + 1` behaves as `counter`

Ghost state (not in the code): `Row.stamp` identifies the write that produced the
row's current content, `PObj.seen` the stamp the session saw when it last loaded
the version, `St.lost` is raised when a successful write replaced a content the
writer had not seen, `St.reins` when a primary key that had been deleted is
inserted again (the counter then restarts at 1: ABA).

Imports only the regenerated table SaVerif.Gen.VersionCfg (translator in
harness/props/c44.py: the default `version_id_generator` lambda of orm/mapper.py,
the shape of the `was_already_deleted` branch and the `allow_executemany` conjunction of
persistence.py, the expiry condition of `SessionTransaction._restore_snapshot`); total,
executable.
-/
namespace SaVerif.Version
open SaVerif.Gen.VersionCfg

inductive Gen | counter | fresh
deriving DecidableEq, Repr

structure Cfg where
  gen : Gen
  eoc : Bool      -- expire_on_commit
  npk : Nat       -- primary keys 0 .. npk-1
deriving Repr

structure Row where
  val : Int
  ver : Nat
  stamp : Nat
deriving DecidableEq, Repr

/-- a persistent object in a session's identity map -/
structure PObj where
  ver : Option Nat     -- none: expired
  cval : Option Int    -- committed value; none: not loaded (expired / NO_VALUE)
  val : Option Int     -- current value; none: expired
  mod : Bool           -- state.modified
  del : Bool           -- in session.deleted
  seen : Nat           -- ghost
deriving DecidableEq, Repr

structure Slot where
  pers : Option PObj
  pend : Option Int    -- pending (session.new) object with this pk: its value
deriving DecidableEq, Repr

def Slot.empty : Slot := ⟨none, none⟩

abbrev DB := Nat → Option Row
abbrev Sess := Nat → Slot

structure St where
  db : DB
  clock : Nat
  sess : Nat → Sess
  txn : Nat → Bool       -- session._transaction is not None
  sp : Nat → Bool        -- a SAVEPOINT (begin_nested) is open in the session
  everDel : Nat → Bool   -- ghost
  lost : Bool            -- ghost
  reins : Bool           -- ghost

def St.init : St :=
  { db := fun _ => none, clock := 1, sess := fun _ _ => Slot.empty,
    txn := fun _ => false, sp := fun _ => false, everDel := fun _ => false, lost := false, reins := false }

inductive Op
  | get (s k : Nat)
  | set (s k : Nat) (v : Int)
  | del (s k : Nat)
  | add (s k : Nat) (v : Int)
  | expire (s k : Nat)
  | commit (s : Nat)
  | tryflush (s : Nat)     -- flush() then rollback()
  | rollback (s : Nat)
  | nested (s : Nat)       -- begin_nested() on a session with nothing to flush
deriving Repr

inductive Outcome | ok | stale | integrity | gone
deriving DecidableEq, Repr

inductive Out
  | skip
  | none
  | obj (val : Option Int) (ver : Option Nat)
  | done
  | flush (o : Outcome)
deriving DecidableEq, Repr

/-! ### flush planning, per primary key -/

inductive Act
  | nothing
  | clean                                  -- in the flush, no statement
  | upd (v : Int) (old : Option Nat)      -- old = none: version must be loaded
  | ins (v : Int)
  | del (old : Option Nat)
  | switch (v : Int) (old : Option Nat)
  | insDel (v : Int)      -- INSERT of the pending object, then DELETE of that very row
deriving DecidableEq, Repr

/-- `is_equal(value, committed_state[key]) is not True` -/
def netChange (p : PObj) : Bool :=
  p.mod && (match p.cval, p.val with
            | some c, some v => c != v
            | _, _ => true)

/-- What the flush does for one primary key.  Row switch: `_organize_states_for_save`
    finds a persistent object of the same identity that is marked deleted.  When
    that object is expired and its row is gone, `UOWTransaction.was_already_deleted`
    removes it from the session and the pending object is INSERTed — but the expired
    object stays registered for deletion, and `_organize_states_for_delete` then
    loads *the new row's* version into it and DELETEs the row just inserted
    (`Act.insDel`; see `commit_applies_pending_counterexample` in Props/C44). -/
def actOf (sl : Slot) (row : Option Row) : Act :=
  match sl.pend, sl.pers with
  | some v, none => .ins v
  | some v, some p =>
    if p.del then
      (if p.ver.isNone && row.isNone then
         (if rowSwitchVanishedKeepsDelete then .insDel v else .ins v)
       else .switch v p.ver)
    else .ins v
  | none, some p =>
    if p.del then .del p.ver
    else if p.mod then
      (if netChange p then .upd (p.val.getD 0) p.ver else .clean)
    else .nothing
  | none, none => .nothing

/-- the version used in the WHERE clause: the committed one, or, when expired,
    the one loaded from the row at flush time -/
def useVer (old : Option Nat) (row : Option Row) : Option Nat :=
  match old with
  | some v => some v
  | none => row.map (·.ver)

/-- ObjectDeletedError while organising states for save -/
def goneSave (a : Act) (row : Option Row) : Bool :=
  match a with
  | .upd _ none => row.isNone
  | _ => false

def goneDel (a : Act) (row : Option Row) : Bool :=
  match a with
  | .del none => row.isNone
  | _ => false

/-- WHERE pk = ? AND ver = ? matches no row -/
def noMatch (old : Option Nat) (row : Option Row) : Bool :=
  match row with
  | none => true
  | some r => useVer old row != some r.ver

def staleUpd (a : Act) (row : Option Row) : Bool :=
  match a with
  | .upd _ old | .switch _ old => noMatch old row
  | _ => false

def staleDel (a : Act) (row : Option Row) : Bool :=
  match a with
  | .del old => noMatch old row
  | _ => false

def dupIns (a : Act) (row : Option Row) : Bool :=
  match a with
  | .ins _ => row.isSome
  | _ => false

def anyPk (n : Nat) (f : Nat → Bool) : Bool := (List.range n).any f

def flushOutcome (n : Nat) (se : Sess) (db : DB) : Outcome :=
  if anyPk n (fun k => goneSave (actOf (se k) (db k)) (db k)) then .gone
  else if anyPk n (fun k => staleUpd (actOf (se k) (db k)) (db k)) then .stale
  else if anyPk n (fun k => dupIns (actOf (se k) (db k)) (db k)) then .integrity
  else if anyPk n (fun k => goneDel (actOf (se k) (db k)) (db k)) then .gone
  else if anyPk n (fun k => staleDel (actOf (se k) (db k)) (db k)) then .stale
  else .ok

/-- `version_id_generator(old)`; the fresh generator's value is supplied by the
    clock (distinct per primary key inside one flush) -/
def newVer (g : Gen) (old : Option Nat) (freshv : Nat) : Nat :=
  match g with
  | .counter => old.getD counterStart + counterStep
  | .fresh => freshv

/-- the stamp / fresh version handed to pk `k` in a flush starting at `clock` -/
def tick (clock k : Nat) : Nat := clock + k

/-- database row after a successful flush -/
def applyRow (g : Gen) (clock k : Nat) (a : Act) (row : Option Row) : Option Row :=
  match a with
  | .nothing | .clean => row
  | .upd v old | .switch v old =>
    some ⟨v, newVer g (useVer old row) (tick clock k), tick clock k⟩
  | .ins v => some ⟨v, newVer g none (tick clock k), tick clock k⟩
  | .del _ | .insDel _ => none

/-- session slot after a successful flush -/
def afterFlushSlot (g : Gen) (clock k : Nat) (sl : Slot) (row : Option Row) : Slot :=
  match actOf sl row with
  | .nothing => sl
  | .clean =>
    match sl.pers with
    | some p => ⟨some { p with mod := false, cval := p.val }, none⟩
    | none => sl
  | .upd v old | .switch v old =>
    ⟨some ⟨some (newVer g (useVer old row) (tick clock k)), some v, some v, false, false,
           tick clock k⟩, none⟩
  | .ins v | .insDel v =>
    ⟨some ⟨some (newVer g none (tick clock k)), some v, some v, false, false, tick clock k⟩, none⟩
  | .del _ => Slot.empty

def expiredObj (p : PObj) : PObj :=
  { p with ver := none, cval := none, val := none, mod := false, del := false }

def expireSlot (sl : Slot) : Slot := { sl with pers := sl.pers.map expiredObj }

def rollbackSlot (sl : Slot) : Slot := ⟨sl.pers.map expiredObj, none⟩

/-- the stamp the writer had seen (after a flush-time load of an expired version) -/
def seenAtFlush (p : PObj) (row : Option Row) : Option Nat :=
  match p.ver with
  | some _ => some p.seen
  | none => row.map (·.stamp)

/-- a successful write at `k` replaces a content the session had not seen -/
def lostAt (sl : Slot) (row : Option Row) : Bool :=
  match actOf sl row, sl.pers, row with
  | .upd _ _, some p, some r | .switch _ _, some p, some r | .del _, some p, some r =>
    seenAtFlush p row != some r.stamp
  | _, _, _ => false

def reinsAt (everDel : Bool) (a : Act) : Bool :=
  match a with
  | .ins _ => everDel
  | _ => false

def isDelAct (a : Act) : Bool :=
  match a with
  | .del _ | .insDel _ => true
  | _ => false

/-- the object is in session.new / session.deleted / session.dirty -/
def slotHasWork (sl : Slot) : Bool :=
  sl.pend.isSome || (match sl.pers with
                     | some p => p.mod || p.del
                     | none => false)

def updSess (f : Nat → Sess) (s : Nat) (g : Sess) : Nat → Sess :=
  fun t => if t = s then g else f t

def updSlot (f : Sess) (k : Nat) (sl : Slot) : Sess :=
  fun j => if j = k then sl else f j

/-- load of a row into an (expired or absent) slot: `load_on_ident` with
    `refresh_state`; attributes in committed_state are not overwritten -/
def loadObj (old : Option PObj) (r : Row) : PObj :=
  match old with
  | some p =>
    if p.mod then { p with ver := some r.ver, seen := r.stamp }
    else { p with ver := some r.ver, val := some r.val, cval := some r.val, seen := r.stamp }
  | none => ⟨some r.ver, some r.val, some r.val, false, false, r.stamp⟩

/-! ### per-record vs per-batch postfetch -/

def isUpdAct (a : Act) : Bool :=
  match a with
  | .upd _ _ | .switch _ _ => true
  | _ => false

/-- the first UPDATE record of the flush (records are sorted by primary key) -/
def headUpd (n : Nat) (se : Sess) (db : DB) : Option Nat :=
  (List.range n).find? (fun k => isUpdAct (actOf (se k) (db k)))

/-- the version `version_id_generator` put into the parameter set of record `k` -/
def paramVer (g : Gen) (clock k : Nat) (a : Act) (row : Option Row) : Option Nat :=
  match a with
  | .upd _ old | .switch _ old => some (newVer g (useVer old row) (tick clock k))
  | _ => none

/-- `_postfetch(..., c.context.compiled_parameters[0])`: one statement per record — the
    record's own parameters; one executemany statement for the group — the parameters of the
    group's first record, for every object of the group -/
def batchFix (g : Gen) (clock n : Nat) (se : Sess) (db : DB) (k : Nat) (sl : Slot) : Slot :=
  if versionedUpdateExecutemany && isUpdAct (actOf (se k) (db k)) then
    match headUpd n se db with
    | some h =>
      match paramVer g clock h (actOf (se h) (db h)) (db h), sl.pers with
      | some v, some p => { sl with pers := some { p with ver := some v } }
      | _, _ => sl
    | none => sl
  else sl

/-! ### SAVEPOINT rollback after a failed flush -/

/-- `_restore_snapshot(dirty_only=True)`: `_update_impl(s, revert_deletion=True)` for the
    deleted-marked states, `_expire` for the modified ones -/
def spRollbackObj (p : PObj) : PObj :=
  if p.mod && savepointRollbackExpiresModified then expiredObj p else { p with del := false }

/-- pending objects are expunged (`_expunge_states(set(self._new) ∪ session._new)`) -/
def spRollbackSlot (sl : Slot) : Slot := ⟨sl.pers.map spRollbackObj, none⟩

/-- a session slot after a flush that failed.  `insp`: the flush ran inside a SAVEPOINT and
    the application rolls back the SAVEPOINT only and commits the enclosing transaction
    (which then has nothing to write; expire_on_commit applies); otherwise `rollback()`. -/
def failSlot (insp eoc : Bool) (sl : Slot) : Slot :=
  if insp then (if eoc then expireSlot (spRollbackSlot sl) else spRollbackSlot sl)
  else rollbackSlot sl

def off (f : Nat → Bool) (s : Nat) : Nat → Bool := fun t => if t = s then false else f t

def flushOk (c : Cfg) (st : St) (s : Nat) (commit : Bool) : St :=
  let se := st.sess s
  let n := c.npk
  let db' : DB := fun k => if k < n then applyRow c.gen st.clock k (actOf (se k) (st.db k)) (st.db k) else st.db k
  let se' : Sess := fun k =>
    if commit then
      let sl := if k < n then batchFix c.gen st.clock n se st.db k (afterFlushSlot c.gen st.clock k (se k) (st.db k)) else se k
      if c.eoc then expireSlot sl else sl
    else rollbackSlot (se k)
  { st with
    db := if commit then db' else st.db
    clock := st.clock + n
    sess := updSess st.sess s se'
    txn := fun t => if t = s then false else st.txn t
    sp := off st.sp s
    everDel := if commit then (fun k => st.everDel k || (k < n && isDelAct (actOf (se k) (st.db k)))) else st.everDel
    lost := if commit then st.lost || anyPk n (fun k => lostAt (se k) (st.db k)) else st.lost
    reins := if commit then st.reins || anyPk n (fun k => reinsAt (st.everDel k) (actOf (se k) (st.db k))) else st.reins }

/-- `Session.rollback()`: a pass-through when no transaction is in progress -/
def doRollback (st : St) (s : Nat) : St :=
  if st.txn s then
    { st with sess := updSess st.sess s (fun k => rollbackSlot (st.sess s k)),
              txn := fun t => if t = s then false else st.txn t,
              sp := off st.sp s }
  else st

/-- `commit = true`: Session.commit() (autobegins, flushes, commits; on an error
    the harness calls rollback()).  With an open SAVEPOINT: flush() inside the
    SAVEPOINT, release it and commit; on an error the harness rolls back the SAVEPOINT
    only and commits the enclosing transaction.  `commit = false`: flush() then
    rollback(); without a transaction there is nothing to flush and rollback() passes. -/
def doFlush (c : Cfg) (st : St) (s : Nat) (commit : Bool) : St × Out :=
  if !commit && !st.txn s then (st, .flush .ok) else
  match flushOutcome c.npk (st.sess s) st.db with
  | .ok => (flushOk c st s commit, .flush .ok)
  | o =>
    ({ st with clock := st.clock + c.npk,
               sess := updSess st.sess s (fun k => failSlot (commit && st.sp s) c.eoc (st.sess s k)),
               txn := fun t => if t = s then false else st.txn t,
               sp := off st.sp s }, .flush o)

/-- change one slot; every caller is an operation that autobegins -/
def setSlot (st : St) (s k : Nat) (sl : Slot) : St :=
  { st with sess := updSess st.sess s (updSlot (st.sess s) k sl),
            txn := fun t => if t = s then true else st.txn t }

def begin (st : St) (s : Nat) : St :=
  { st with txn := fun t => if t = s then true else st.txn t }

def step (c : Cfg) (st : St) : Op → St × Out
  | .get s k =>
    let sl := st.sess s k
    match sl.pend, sl.pers with
    | some _, _ => (st, .skip)
    | none, some p =>
      if p.del then (st, .skip)
      else match p.ver with
        | some _ => (st, .obj p.val p.ver)
        | none =>
          match st.db k with
          | some r =>
            let p' := loadObj (some p) r
            (setSlot st s k ⟨some p', none⟩, .obj p'.val p'.ver)
          | none => (setSlot st s k Slot.empty, .none)
    | none, none =>
      match st.db k with
      | some r =>
        let p' := loadObj none r
        (setSlot st s k ⟨some p', none⟩, .obj p'.val p'.ver)
      | none => (begin st s, .none)
  | .set s k v =>
    let sl := st.sess s k
    match sl.pend, sl.pers with
    | some _, _ => (setSlot st s k { sl with pend := some v }, .done)
    | none, some p =>
      if p.del then (st, .skip)
      else (setSlot st s k ⟨some { p with val := some v, mod := true }, none⟩, .done)
    | none, none => (st, .skip)
  | .del s k =>
    let sl := st.sess s k
    match sl.pend, sl.pers with
    | none, some p =>
      if p.del then (st, .skip)
      else (setSlot st s k ⟨some { p with del := true }, none⟩, .done)
    | _, _ => (st, .skip)
  | .add s k v =>
    let sl := st.sess s k
    match sl.pend, sl.pers with
    | none, none => (setSlot st s k ⟨none, some v⟩, .done)
    | none, some p =>
      if p.del then (setSlot st s k ⟨some p, some v⟩, .done) else (st, .skip)
    | some _, _ => (st, .skip)
  | .expire s k =>
    let sl := st.sess s k
    match sl.pend, sl.pers with
    | none, some p =>
      if p.del then (st, .skip)
      else ({ st with sess := updSess st.sess s (updSlot (st.sess s) k (expireSlot sl)) }, .done)
    | _, _ => (st, .skip)
  | .commit s => doFlush c st s true
  | .tryflush s => doFlush c st s false
  | .rollback s => (doRollback st s, .done)
  | .nested s =>
    if st.sp s || anyPk c.npk (fun k => slotHasWork (st.sess s k)) then (st, .skip)
    else ({ st with txn := fun t => if t = s then true else st.txn t,
                    sp := fun t => if t = s then true else st.sp t }, .done)

def run (c : Cfg) (st : St) : List Op → St
  | [] => st
  | o :: os => run c (step c st o).1 os

/-- the same with the outputs collected (driver) -/
def runOut (c : Cfg) (st : St) : List Op → List (Out × St)
  | [] => []
  | o :: os =>
    let r := step c st o
    (r.2, r.1) :: runOut c r.1 os

def opOk (c : Cfg) (nsess : Nat) : Op → Bool
  | .get s k | .del s k | .expire s k | .set s k _ | .add s k _ => s < nsess && k < c.npk
  | .commit s | .tryflush s | .rollback s | .nested s => s < nsess

end SaVerif.Version
