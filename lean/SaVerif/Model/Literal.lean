import SaVerif.Model.Ident
/-!
# M-STR / literals — transcription of literal rendering (sql/sqltypes.py, sql/compiler.py,
dialects/{mysql,postgresql,mssql}/base.py)

Strings are `List Nat` (code points), shared with `Model/Ident.lean` (`pyReplace`,
`applyOps`, `unPercent`).

| Python                                                                   | model            |
|---------------------------------------------------------------------------|------------------|
| `String.literal_processor(dialect).process` (`.replace("'", "''")`, `%`→`%%` when `_double_percents`, `"'%s'" % value`) and MSSQL `_UnicodeLiteral` (`"N'%s'"`) | `Cfg.strOps`, `Cfg.pre`, `Cfg.post`, `renderString` |
| `MySQLCompiler/PGCompiler.render_literal_value` (`value.replace("\\", "\\\\")` when `dialect._backslash_escapes`, applied to the whole rendered text) | `Cfg.outerOps` |
| `Integer.literal_processor`: `str(int(value))`                             | `renderInt`      |
| `Boolean.literal_processor`: `visit_true` / `visit_false` text             | `Cfg.trueText/falseText` |
| `render_literal_value(None, …)` → `visit_null`                             | `Cfg.nullText`   |
| `_literal_processor_portion`: `'…isoformat()…'`                           | `renderDate`, `renderTime`, `renderDateTime` |
| `SQLCompiler._pyformat_pattern.sub` in `_process_positional` (`%\(([^)]+?)\)s`) | `subPyformat` |

The second half models the *servers'* string/number tokenizers (`lexString`,
`lexInt`, `startsLineComment`); trusted for everything but SQLite.
-/
namespace SaVerif.Literal
open SaVerif.Ident

/-! ## rendering (SQLAlchemy side) -/

structure Cfg where
  /-- `.replace` chain inside the string literal processor -/
  strOps : List (Str × Str)
  /-- text before / after the `%s` of the processor's template (`'` / `N'`, `'`) -/
  pre : Str
  post : Str
  /-- `.replace` chain of the compiler's `render_literal_value` override -/
  outerOps : List (Str × Str)
  trueText : Str
  falseText : Str
  nullText : Str
deriving Repr

def renderString (c : Cfg) (s : Str) : Str :=
  applyOps c.outerOps (c.pre ++ applyOps c.strOps s ++ c.post)

/-- decimal digits of `n`, most significant first (`fuel` > number of digits) -/
def natDigitsAux : Nat → Nat → Str → Str
  | 0, _, acc => acc
  | f + 1, n, acc =>
    if n < 10 then (48 + n) :: acc else natDigitsAux f (n / 10) ((48 + n % 10) :: acc)

def natStr (n : Nat) : Str := natDigitsAux (n + 1) n []

/-- Python `str(int)` -/
def renderInt (i : Int) : Str :=
  match i with
  | Int.ofNat n => natStr n
  | Int.negSucc n => 45 :: natStr (n + 1)

def renderBool (c : Cfg) (b : Bool) : Str := applyOps c.outerOps (if b then c.trueText else c.falseText)
def renderNone (c : Cfg) : Str := c.nullText

/-- zero-padded decimal of width `w` (Python `%0wd`; wider numbers are not cut) -/
def pad (w n : Nat) : Str :=
  let d := natStr n
  List.replicate (w - d.length) 48 ++ d

/-- `date.isoformat()` -/
def isoDate (y m d : Nat) : Str := pad 4 y ++ 45 :: pad 2 m ++ 45 :: pad 2 d

/-- `time.isoformat()` for naive times: microseconds only when non-zero -/
def isoTime (h mi s us : Nat) : Str :=
  pad 2 h ++ 58 :: pad 2 mi ++ 58 :: pad 2 s ++ (if us == 0 then [] else 46 :: pad 6 us)

def renderDate (c : Cfg) (y m d : Nat) : Str := applyOps c.outerOps (39 :: isoDate y m d ++ [39])
def renderTime (c : Cfg) (h mi s us : Nat) : Str := applyOps c.outerOps (39 :: isoTime h mi s us ++ [39])
/-- `isoformat().replace("T", " ")` -/
def renderDateTime (c : Cfg) (y m d h mi s us : Nat) : Str :=
  applyOps c.outerOps (39 :: isoDate y m d ++ 32 :: isoTime h mi s us ++ [39])

/-! ## regex passes that run over the finished statement -/

/-- one attempt of `%\(([^)]+?)\)s` at the start of `t`: rest after the match.
    `[^)]` cannot cross a `)`, so the lazy run is forced up to the first `)`. -/
def matchPyformat (t : Str) : Option Str :=
  match t with
  | 37 :: 40 :: u =>
    let run := u.takeWhile (· != 41)
    if run.isEmpty then none else
    match u.dropWhile (· != 41) with
    | 41 :: 115 :: rest => some rest
    | _ => none
  | _ => none

/-- `_pyformat_pattern.sub(lambda m: repl, text)`: leftmost non-overlapping matches -/
def subPyformat (repl : Str) : Nat → Str → Str
  | 0, t => t
  | _, [] => []
  | fuel + 1, c :: t =>
    match matchPyformat (c :: t) with
    | some rest => repl ++ subPyformat repl fuel rest
    | none => c :: subPyformat repl fuel t

/-- does `%(` occur in the text -/
def hasPctParen : Str → Bool
  | 37 :: 40 :: _ => true
  | _ :: t => hasPctParen t
  | [] => false

/-! ## backend tokenizers (models of the servers) -/

/-- backslash escape tables: 1 = MySQL (`\0 \b \n \r \t \Z`, `\% \_` keep the backslash),
    2 = PostgreSQL with standard_conforming_strings=off (`\b \f \n \r \t`; octal/hex/unicode
    escapes are not modelled), anything else stands for itself -/
def decodeEsc (mode : Nat) (x : Nat) : Str :=
  if mode == 1 then
    if x == 48 then [0] else if x == 98 then [8] else if x == 110 then [10]
    else if x == 114 then [13] else if x == 116 then [9] else if x == 90 then [26]
    else if x == 37 || x == 95 then [92, x] else [x]
  else
    if x == 98 then [8] else if x == 102 then [12] else if x == 110 then [10]
    else if x == 114 then [13] else if x == 116 then [9] else [x]

/-- body of a string literal after the opening `'`.  state 0 normal, 1 = previous
    char was an unpaired `'`, 2 = previous char was a backslash (only if `mode ≠ 0`). -/
def lexStrAux (mode : Nat) : Str → Nat → Option (Str × Str)
  | [], 0 => none
  | [], 1 => some ([], [])
  | [], _ => none
  | c :: t, 0 =>
    if c == 39 then lexStrAux mode t 1
    else if mode != 0 && c == 92 then lexStrAux mode t 2
    else (lexStrAux mode t 0).map (fun gr => (c :: gr.1, gr.2))
  | c :: t, 1 =>
    if c == 39 then (lexStrAux mode t 0).map (fun gr => (39 :: gr.1, gr.2))
    else some ([], c :: t)
  | c :: t, _ => (lexStrAux mode t 0).map (fun gr => (decodeEsc mode c ++ gr.1, gr.2))

/-- one string-literal token at the start of `t` (`npre`: an `N` prefix is required) -/
def lexString (mode : Nat) (npre : Bool) (t : Str) : Option (Str × Str) :=
  match npre, t with
  | true, 78 :: 39 :: u => lexStrAux mode u 0
  | false, 39 :: u => lexStrAux mode u 0
  | _, _ => none

def isDigit (c : Nat) : Bool := 48 ≤ c && c ≤ 57

def digitsVal (l : Str) : Nat := l.foldl (fun a c => a * 10 + (c - 48)) 0

/-- an optionally signed integer token: (value, rest) -/
def lexInt (t : Str) : Option (Int × Str) :=
  match t with
  | 45 :: u =>
    let ds := u.takeWhile isDigit
    if ds.isEmpty then none else some (-(digitsVal ds : Int), u.dropWhile isDigit)
  | u =>
    let ds := u.takeWhile isDigit
    if ds.isEmpty then none else some ((digitsVal ds : Int), u.dropWhile isDigit)

/-- `--` starts a comment that runs to the end of the line on every backend -/
def startsLineComment : Str → Bool
  | 45 :: 45 :: _ => true
  | _ => false

end SaVerif.Literal
