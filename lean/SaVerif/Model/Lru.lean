/-
M-COLL (4/4): transcription of `LRUCache` from lib/sqlalchemy/util/_collections.py.
Import-free, total, executable.

`_data : Dict[key, (key, value, [counter])]` is a list of entries in dict insertion order.
`threshold` is a non-negative rational `thrNum / thrDen` (the harness uses dyadic floats, for
which `capacity + capacity * threshold` is exact in binary floating point).

Python                                              model
--------------------------------------------------  ----------------------------
self._counter += 1; return self._counter            Lru.tick
self._data.get(key) / self._data[key]               Lru.find
item[2][0] = self._inc_counter()                    Lru.touch
get(key, default)                                   Lru.get      (none = default returned)
__getitem__                                         Lru.getitem  (KeyError)
__setitem__ ; _manage_size()                        Lru.setitem
__delitem__                                         Lru.delitem  (KeyError)
len(self) > capacity + capacity * threshold         Lru.over
sorted(values, key=itemgetter(2), reverse=True)     byCounter (stable insertion sort, descending)
for item in by_counter[capacity:]: del data[key]    evict (missing keys skipped: `except KeyError`)
while …: (loop)                                     manageLoop (fuel = len + 1, shown sufficient)
size_alert(self) once per _manage_size call         alerts counter
Mapping.__contains__  (try self[key])               Lru.contains (bumps the counter!)
MutableMapping.setdefault / pop / popitem / clear   composed from the primitives as in
                                                    _collections_abc (trusted, stdlib)
__iter__ / __len__ / values()                       keys / length / values (no counter change)
`_mutex.acquire(False)` always succeeds single-threaded (re-entrancy is not modelled)
-/
namespace SaVerif.Coll

structure LEntry where
  key : Nat
  val : Nat
  ctr : Nat
deriving Repr, DecidableEq

structure Lru where
  capacity : Nat
  thrNum : Nat
  thrDen : Nat
  hasAlert : Bool
  counter : Nat
  data : List LEntry
  alerts : Nat
deriving Repr, DecidableEq

inductive LRet where
  | none                 -- returned None / the default
  | val (v : Nat)
  | bool (b : Bool)
  | pair (k v : Nat)
  | keyError
deriving Repr, DecidableEq

namespace Lru

def new (capacity thrNum thrDen : Nat) (hasAlert : Bool) : Lru :=
  ⟨capacity, thrNum, thrDen, hasAlert, 0, [], 0⟩

def find (c : Lru) (k : Nat) : Option LEntry := c.data.find? (fun e => e.key == k)

/-- `item[2][0] = self._inc_counter()` on the entry stored under `k` -/
def touch (c : Lru) (k : Nat) : Lru :=
  { c with counter := c.counter + 1,
           data := c.data.map (fun e => if e.key == k then { e with ctr := c.counter + 1 } else e) }

def get (c : Lru) (k : Nat) : Lru × LRet :=
  match c.find k with
  | some e => (c.touch k, .val e.val)
  | none => (c, .none)

def getitem (c : Lru) (k : Nat) : Lru × LRet :=
  match c.find k with
  | some e => (c.touch k, .val e.val)
  | none => (c, .keyError)

/-- `self._data[key] = (key, value, [counter])`: an existing key keeps its dict position -/
def store (data : List LEntry) (e : LEntry) : List LEntry :=
  if data.any (fun x => x.key == e.key) then data.map (fun x => if x.key == e.key then e else x)
  else data ++ [e]

/-- `len(self) > self.capacity + self.capacity * self.threshold` with threshold = num/den -/
def over (c : Lru) (n : Nat) : Bool := decide (n * c.thrDen > c.capacity * c.thrDen + c.capacity * c.thrNum)

/-- stable insertion into a counter-descending list: `x` goes before the first entry whose
    counter is not larger (so earlier-inserted equal entries stay first) -/
def insertDesc (x : LEntry) : List LEntry → List LEntry
  | [] => [x]
  | y :: ys => if x.ctr ≥ y.ctr then x :: y :: ys else y :: insertDesc x ys

/-- `sorted(values, key=itemgetter(2), reverse=True)`: stable, descending by counter -/
def byCounter : List LEntry → List LEntry
  | [] => []
  | x :: xs => insertDesc x (byCounter xs)

/-- `try: del self._data[item[0]] except KeyError: continue` -/
def delKey (data : List LEntry) (k : Nat) : List LEntry := data.filter (fun e => e.key != k)

def evict (capacity : Nat) (data : List LEntry) : List LEntry :=
  ((byCounter data).drop capacity).foldl (fun d item => delKey d item.key) data

def manageLoop (c : Lru) : Nat → List LEntry → List LEntry
  | 0, data => data
  | fuel + 1, data => if c.over data.length then manageLoop c fuel (evict c.capacity data) else data

def manageSize (c : Lru) : Lru :=
  let alerted := c.hasAlert && c.over c.data.length
  { c with data := manageLoop c (c.data.length + 1) c.data,
           alerts := if alerted then c.alerts + 1 else c.alerts }

def setitem (c : Lru) (k v : Nat) : Lru :=
  let c1 := { c with counter := c.counter + 1, data := store c.data ⟨k, v, c.counter + 1⟩ }
  c1.manageSize

def delitem (c : Lru) (k : Nat) : Lru × LRet :=
  match c.find k with
  | some _ => ({ c with data := delKey c.data k }, .none)
  | none => (c, .keyError)

/-- `key in cache` is `Mapping.__contains__`: `try: self[key] … except KeyError: False` -/
def contains (c : Lru) (k : Nat) : Lru × LRet :=
  match c.getitem k with
  | (c', .keyError) => (c', .bool false)
  | (c', _) => (c', .bool true)

/-- `MutableMapping.setdefault` -/
def setdefault (c : Lru) (k v : Nat) : Lru × LRet :=
  match c.getitem k with
  | (_, .keyError) => (c.setitem k v, .val v)
  | r => r

/-- `MutableMapping.pop(key)` / `pop(key, default)` -/
def pop (c : Lru) (k : Nat) (hasDefault : Bool) : Lru × LRet :=
  match c.getitem k with
  | (c', .keyError) => (c', if hasDefault then .none else .keyError)
  | (c', r) => ((c'.delitem k).1, r)

/-- `MutableMapping.popitem`: first key of `iter(self)` -/
def popitem (c : Lru) : Lru × LRet :=
  match c.data with
  | [] => (c, .keyError)
  | e :: _ =>
    match c.getitem e.key with
    | (c', r) => ((c'.delitem e.key).1, match r with | .val v => .pair e.key v | r => r)

def clearLoop : Nat → Lru → Lru
  | 0, c => c
  | fuel + 1, c => match c.popitem with
    | (c', .keyError) => c'
    | (c', _) => clearLoop fuel c'

/-- `MutableMapping.clear`: `popitem()` until KeyError -/
def clear (c : Lru) : Lru := clearLoop (c.data.length + 1) c

def keys (c : Lru) : List Nat := c.data.map (·.key)
def values (c : Lru) : List Nat := c.data.map (·.val)

end Lru

inductive LOp where
  | get (k : Nat)
  | getitem (k : Nat)
  | setitem (k v : Nat)
  | delitem (k : Nat)
  | contains (k : Nat)
  | setdefault (k v : Nat)
  | pop (k : Nat) (hasDefault : Bool)
  | popitem
  | clear
  | len
deriving Repr, DecidableEq

def lstep (c : Lru) : LOp → Lru × LRet
  | .get k => c.get k
  | .getitem k => c.getitem k
  | .setitem k v => (c.setitem k v, .none)
  | .delitem k => c.delitem k
  | .contains k => c.contains k
  | .setdefault k v => c.setdefault k v
  | .pop k d => c.pop k d
  | .popitem => c.popitem
  | .clear => (c.clear, .none)
  | .len => (c, .val c.data.length)

def lrun (c : Lru) : List LOp → List (LRet × Lru)
  | [] => []
  | op :: ops => let (c', r) := lstep c op; (r, c') :: lrun c' ops

def lfinal (c : Lru) (ops : List LOp) : Lru := ops.foldl (fun c op => (lstep c op).1) c

end SaVerif.Coll
