/-
M-BIND (part 1): bound parameters from the compile-time string to the DBAPI call.
Transcription of

  lib/sqlalchemy/sql/compiler.py
    SQLCompiler._post_compile_pattern / _pyformat_pattern / _positional_pattern
    SQLCompiler._process_positional
    SQLCompiler._process_numeric
    SQLCompiler._process_parameters_for_postcompile   (+ process_expanding)
    SQLCompiler._literal_execute_expanding_parameter  (scalar elements)
    SQLCompiler.bindparam_string (templates)          BIND_TEMPLATES
  lib/sqlalchemy/engine/default.py
    DefaultExecutionContext._init_compiled            (parameter assembly)

Import-free, total, executable.

Python                                        model
--------------------------------------------  ---------------------------------------
str                                           `Str = List Char`
re `%\(([^)]+?)\)s`                           `matchA` / `lazyA`   (lazy `[^)]+?` then `)s`)
re `__\[POSTCOMPILE_(\S+?)(~~.+?~~)?\]`       `matchB` / `lazyName` / `tryGroup` / `lazyDot`
                                              (backtracking order: for each length of `\S+?`
                                               first the optional group, then `]`)
re `A|B` (`_positional_pattern`)              `matchAt .both` : A first, then B
re.sub(pat, callback, s)                      `tokens mode s` (leftmost, non-overlapping) then
                                              a map over the tokens; the callback's side effect
                                              `positions.append` is `hitNames`
dict (insertion ordered)                      association list, `alookup` / `aset`
`{v: k for k, v in d.items()}`                `reverseEscape` (later entry wins)
assert len(a) == len(b)                       `Err.assertion`
d[k] on a missing key                         `Err.keyError`
callback returns None to re.sub               `Err.typeError`
tok[3] on a short list                        `Err.indexError`
visit_empty_set_op_expr(...)                  `BindInfo.emptyExpr` (input: dialect text, trusted)
render_literal_value(v, type)                 the value token itself (values travel as their
                                              literal rendering; C05 owns literal rendering)
bind processors                               identity (not modelled)

`while`/regex loops are structural recursion on the character list; `tokens` uses
fuel = length + 1 (`Props/C04.lean: tokensAux_fuel` shows the result is fuel independent).
-/
namespace SaVerif.Bind

abbrev Str := List Char

deriving instance DecidableEq for Except

/-! ## character classes -/

/-- `str.isspace()` — what `\S` of a `str` pattern excludes -/
def isSpace (c : Char) : Bool :=
  let n := c.toNat
  (9 ≤ n && n ≤ 13) || (28 ≤ n && n ≤ 32) || n == 0x85 || n == 0xa0 || n == 0x1680 ||
  (0x2000 ≤ n && n ≤ 0x200a) || n == 0x2028 || n == 0x2029 || n == 0x202f ||
  n == 0x205f || n == 0x3000

/-! ## pattern A: `%\(([^)]+?)\)s` -/

/-- after `%(` and one consumed character: extend lazily up to the first `)`,
    which must be followed by `s` (a `)` cannot be consumed by `[^)]`). -/
def lazyA (acc : Str) : Str → Option (Str × Str)
  | [] => none
  | c :: cs =>
    if c = ')' then
      match cs with
      | d :: rest => if d = 's' then some (acc, rest) else none
      | [] => none
    else lazyA (acc ++ [c]) cs

/-- match of pattern A at the head of the string: `(name, rest)` -/
def matchA : Str → Option (Str × Str)
  | a :: b :: c :: cs =>
    if a = '%' ∧ b = '(' ∧ c ≠ ')' then lazyA [c] cs else none
  | _ => none

/-! ## pattern B: `__\[POSTCOMPILE_(\S+?)(~~.+?~~)?\]` -/

def pcPrefix : Str :=
  ['_', '_', '[', 'P', 'O', 'S', 'T', 'C', 'O', 'M', 'P', 'I', 'L', 'E', '_']

def stripPrefix : Str → Str → Option Str
  | [], s => some s
  | _ :: _, [] => none
  | p :: ps, c :: cs => if p = c then stripPrefix ps cs else none

/-- inside the optional group after `~~` and one consumed character of `.+?`:
    the first place where `~~]` follows closes the group; `.` does not match `\n`.
    Result: (content of `.+?`, rest after the `]`). -/
def lazyDot (acc : Str) : Str → Option (Str × Str)
  | [] => none
  | c :: cs =>
    match stripPrefix ['~', '~', ']'] (c :: cs) with
    | some rest => some (acc, rest)
    | none => if c = '\n' then none else lazyDot (acc ++ [c]) cs

/-- `(~~.+?~~)\]` at the head of the string -/
def tryGroup : Str → Option (Str × Str)
  | a :: b :: c :: cs =>
    if a = '~' ∧ b = '~' ∧ c ≠ '\n' then lazyDot [c] cs else none
  | _ => none

/-- `(\S+?)(~~.+?~~)?\]` with `acc` already consumed by `\S+?` -/
def lazyName (acc : Str) : Str → Option (Str × Option Str × Str)
  | [] => none
  | c :: cs =>
    if isSpace c then none
    else
      match tryGroup cs with
      | some (g, rest) => some (acc ++ [c], some g, rest)
      | none =>
        match cs with
        | d :: rest =>
          if d = ']' then some (acc ++ [c], none, rest) else lazyName (acc ++ [c]) cs
        | [] => none

def matchB (s : Str) : Option (Str × Option Str × Str) :=
  match stripPrefix pcPrefix s with
  | none => none
  | some r => lazyName [] r

/-! ## `re.sub` as a tokenizer -/

inductive Hit
  /-- pattern A, `m.group(1)` -/
  | a (name : Str)
  /-- pattern B: name and the text between the outer `~~` … `~~` of the optional group -/
  | b (name : Str) (grp : Option Str)
  deriving DecidableEq, Repr

def Hit.name : Hit → Str
  | .a n => n
  | .b n _ => n

/-- `m.group(0)` -/
def Hit.raw : Hit → Str
  | .a n => ['%', '('] ++ n ++ [')', 's']
  | .b n none => pcPrefix ++ n ++ [']']
  | .b n (some g) => pcPrefix ++ n ++ ['~', '~'] ++ g ++ ['~', '~', ']']

inductive Mode
  | both   -- `_positional_pattern`
  | onlyA  -- `_pyformat_pattern`
  | onlyB  -- `_post_compile_pattern`
  deriving DecidableEq, Repr

def matchAt (m : Mode) (s : Str) : Option (Hit × Str) :=
  let ra := if m = .onlyB then none else (matchA s).map (fun (n, r) => (Hit.a n, r))
  match ra with
  | some x => some x
  | none =>
    if m = .onlyA then none
    else (matchB s).map (fun (n, g, r) => (Hit.b n g, r))

inductive Tok
  | lit (c : Char)
  | hit (h : Hit)
  deriving DecidableEq, Repr

def tokensAux (m : Mode) : Nat → Str → List Tok
  | 0, _ => []
  | _ + 1, [] => []
  | fuel + 1, c :: cs =>
    match matchAt m (c :: cs) with
    | some (h, rest) => Tok.hit h :: tokensAux m fuel rest
    | none => Tok.lit c :: tokensAux m fuel cs

/-- the string cut into literal characters and (leftmost, non-overlapping) matches -/
def tokens (m : Mode) (s : Str) : List Tok := tokensAux m (s.length + 1) s

/-- the callback's `positions.append(...)` -/
def hitNames (ts : List Tok) : List Str :=
  ts.filterMap (fun | .hit h => some h.name | .lit _ => none)

/-! ## small dictionary helpers (insertion-ordered dict as association list) -/

def alookup {β : Type} (k : Str) : List (Str × β) → Option β
  | [] => none
  | (k', v) :: r => if k' = k then some v else alookup k r

/-- `d[k] = v` : replaces in place when present (keeps position), else appends -/
def aset {β : Type} (k : Str) (v : β) : List (Str × β) → List (Str × β)
  | [] => [(k, v)]
  | (k', v') :: r => if k' = k then (k', v) :: r else (k', v') :: aset k v r

def aremove {β : Type} (k : Str) : List (Str × β) → List (Str × β)
  | [] => []
  | (k', v') :: r => if k' = k then r else (k', v') :: aremove k r

def akeys {β : Type} (d : List (Str × β)) : List Str := d.map (·.1)

/-- `dict(items)` : later items overwrite, position of first insertion kept -/
def adict {β : Type} (items : List (Str × β)) : List (Str × β) :=
  items.foldl (fun d kv => aset kv.1 kv.2 d) []

def joinWith (sep : Str) : List Str → Str
  | [] => []
  | [x] => x
  | x :: y :: r => x ++ sep ++ joinWith sep (y :: r)

/-- `s.split(sep)` for a non-empty separator (Python semantics, left to right) -/
def splitOnAux (sep : Str) : Nat → Str → Str → List Str
  | 0, acc, _ => [acc]
  | _ + 1, acc, [] => [acc]
  | fuel + 1, acc, c :: cs =>
    match stripPrefix sep (c :: cs) with
    | some rest => acc :: splitOnAux sep fuel [] rest
    | none => splitOnAux sep fuel (acc ++ [c]) cs

def splitOn (sep s : Str) : List Str :=
  if sep.isEmpty then [s] else splitOnAux sep (s.length + 1) [] s

def natStr (n : Nat) : Str := (toString n).toList

/-! ## the compiled object as far as binds are concerned -/

inductive Style
  | qmark | format | numeric | numericDollar | named | pyformat
  deriving DecidableEq, Repr

def Style.positional : Style → Bool
  | .named | .pyformat => false
  | _ => true

def Style.isNumeric : Style → Bool
  | .numeric | .numericDollar => true
  | _ => false

/-- `_numeric_binds_identifier_char` -/
def Style.idChar : Style → Char
  | .numericDollar => '$'
  | _ => ':'

/-- `BIND_TEMPLATES[paramstyle] % {"name": name}` (for the numeric styles the
    compiler never uses `bindtemplate`; `compilation_bindtemplate` = pyformat) -/
def Style.template (st : Style) (name : Str) : Str :=
  match st with
  | .pyformat => ['%', '('] ++ name ++ [')', 's']
  | .qmark => ['?']
  | .format => ['%', 's']
  | .named => ':' :: name
  | .numeric => ":[_POSITION]".toList
  | .numericDollar => "$[_POSITION]".toList

def pyformatTemplate (name : Str) : Str := ['%', '('] ++ name ++ [')', 's']

inductive Kind
  | plain          -- ordinary bound value
  | expanding      -- in post_compile_params (expanding IN)
  | litExec        -- in literal_execute_params, scalar
  | litExecExp     -- in literal_execute_params and expanding
  deriving DecidableEq, Repr

structure BindInfo where
  name : Str            -- unescaped compiled name (`bind_names` value)
  kind : Kind
  emptyExpr : Str       -- dialect's empty-set expression for this bind (used when expanding to [])
  deriving DecidableEq, Repr

/-- a parameter value: scalar token or a list of tokens (expanding) -/
inductive PVal
  | one (v : Str)
  | many (vs : List Str)
  deriving DecidableEq, Repr

structure Compiled where
  pre : Str                          -- self.string before _process_positional/_numeric
  binds : List BindInfo              -- self.bind_names, in insertion order
  escaped : List (Str × Str)         -- self.escaped_bind_names.items()
  valuesBind : Option (List Str)     -- self._values_bindparam when _insertmanyvalues is set
  deriving Repr

inductive Err
  | assertion | keyError | typeError | indexError
  deriving DecidableEq, Repr

def Compiled.bindNames (c : Compiled) : List Str := c.binds.map (·.name)

/-- `self.binds[name]` (later bind of the same name wins) -/
def Compiled.kindOf (c : Compiled) (name : Str) : Option BindInfo :=
  (c.binds.reverse.find? (fun b => b.name = name))

def isPostCompile (k : Kind) : Bool := k ≠ .plain

/-- `self.escaped_bind_names.get(name, name)` -/
def escapeName (esc : List (Str × Str)) (name : Str) : Str :=
  (alookup name esc).getD name

/-- `{v: k for k, v in escaped_bind_names.items()}` then `.get(name, name)` -/
def reverseEscape (esc : List (Str × Str)) (name : Str) : Str :=
  (alookup name (adict (esc.map (fun kv => (kv.2, kv.1))))).getD name

def distinctCount (l : List Str) : Nat := l.eraseDups.length

/-! ## `_process_positional` -/

structure Stage1 where
  string : Str
  positiontup : Option (List Str)
  nextNumericPos : Nat
  deriving DecidableEq, Repr

def subPositional (placeholder : Str) (ts : List Tok) : Str :=
  ts.flatMap (fun
    | .lit c => [c]
    | .hit (.a _) => placeholder
    | .hit h => h.raw)

def processPositional (c : Compiled) (st : Style) : Except Err Stage1 :=
  let placeholder : Str := if st = .format then ['%', 's'] else ['?']
  let ts := tokens .both c.pre
  let positions := hitNames ts
  if c.escaped.isEmpty then
    .ok { string := subPositional placeholder ts, positiontup := some positions, nextNumericPos := 0 }
  else if distinctCount (c.escaped.map (·.2)) ≠ c.escaped.length then
    .error .assertion
  else
    .ok { string := subPositional placeholder ts,
          positiontup := some (positions.map (reverseEscape c.escaped)),
          nextNumericPos := 0 }

/-! ## `_process_numeric` -/

/-- the `for bind_name in order` loop: (num, param_pos) -/
def numberBinds (c : Compiled) (idc : Char) :
    List Str → Nat → List (Str × Option Str) → Nat × List (Str × Option Str)
  | [], num, pp => (num, pp)
  | n :: rest, num, pp =>
    if (alookup n pp).isSome then numberBinds c idc rest num pp
    else
      match c.kindOf n with
      | some b =>
        if isPostCompile b.kind then numberBinds c idc rest num (pp ++ [(n, none)])
        else numberBinds c idc rest (num + 1) (pp ++ [(n, some (idc :: natStr num))])
      | none => numberBinds c idc rest num pp   -- unreachable: order ⊆ bind_names

/-- `pattern.sub(lambda m: param_pos[m.group(1)], s)` -/
def subLookup (pp : List (Str × Option Str)) : List Tok → Except Err Str
  | [] => .ok []
  | .lit ch :: r => (subLookup pp r).map (ch :: ·)
  | .hit h :: r =>
    match alookup h.name pp with
    | none => .error .keyError
    | some none => .error .typeError
    | some (some ph) => (subLookup pp r).map (ph ++ ·)

/-- `order`: with insertmanyvalues the binds outside the VALUES row come first -/
def numericOrder (c : Compiled) : List Str :=
  match c.valuesBind with
  | some vb => c.bindNames.filter (fun n => !vb.contains n) ++ c.bindNames
  | none => c.bindNames

def processNumeric (c : Compiled) (st : Style) : Except Err Stage1 :=
  let (num, pp) := numberBinds c st.idChar (numericOrder c) 1 []
  let positiontup := akeys pp
  let pp' := adict (pp.map (fun kv => (escapeName c.escaped kv.1, kv.2)))
  if !c.escaped.isEmpty && pp'.length ≠ pp.length then .error .assertion
  else
    match subLookup pp' (tokens .onlyA c.pre) with
    | .error e => .error e
    | .ok s => .ok { string := s, positiontup := some positiontup, nextNumericPos := num }

/-- the part of `SQLCompiler.__init__` after the string has been produced -/
def stage1 (c : Compiled) (st : Style) : Except Err Stage1 :=
  if st.positional then
    if st.isNumeric then processNumeric c st else processPositional c st
  else .ok { string := c.pre, positiontup := none, nextNumericPos := 0 }

/-! ## `_process_parameters_for_postcompile` -/

/-- `_literal_execute_expanding_parameter(name, parameter, values)` for scalar elements:
    (to_update, replacement_expression); `name` is the escaped name -/
def leep (st : Style) (b : BindInfo) (ename : Str) (values : List Str) :
    List (Str × Str) × Str :=
  if b.kind = .litExecExp then
    ([], if values.isEmpty then b.emptyExpr else joinWith [',', ' '] values)
  else if values.isEmpty then ([], b.emptyExpr)
  else
    let tmpl := if st.isNumeric then pyformatTemplate else st.template
    let toUpdate := (List.range values.length).zip values |>.map
      (fun iv => (ename ++ ['_'] ++ natStr (iv.1 + 1), iv.2))
    (toUpdate, joinWith [',', ' '] (toUpdate.map (fun kv => tmpl kv.1)))

structure PCState where
  params : List (Str × PVal)
  repl : List (Str × Str)                      -- replacement_expressions
  toUpd : List (Str × List (Str × Str))        -- to_update_sets
  newPos : List Str                            -- new_positiontup
  numPos : List Str                            -- numeric_positiontup
  deriving Repr

/-- one iteration of `for name in names` -/
def pcStep (c : Compiled) (st : Style) (s : PCState) (name : Str) : Except Err PCState :=
  let ename := if c.escaped.isEmpty then name else escapeName c.escaped name
  match c.kindOf name with
  | none => .error .keyError
  | some b =>
    if b.kind = .litExec ∨ b.kind = .litExecExp then
      if (alookup ename s.repl).isSome then .ok s
      else
        match alookup name s.params with     -- parameters.pop(name)   (fix 35f86e1: unescaped name)
        | none => .error .keyError
        | some v =>
          let r : Str := match b.kind, v with
            | .litExecExp, .many vs => (leep st b ename vs).2
            | .litExecExp, .one x => x      -- not produced by the harness
            | _, .one x => x
            | _, .many vs => joinWith [',', ' '] vs
          .ok { s with params := aremove name s.params, repl := aset ename r s.repl }
    else if b.kind = .expanding then
      let found := alookup ename s.repl
      let step : Except Err (PCState × List (Str × Str)) :=
        match found with
        | some _ => .ok (s, (alookup ename s.toUpd).getD [])
        | none =>
          match alookup name s.params with     -- parameters.pop(name)
          | none => .error .keyError
          | some v =>
            let vs := match v with | .many vs => vs | .one x => [x]
            let (tu, r) := leep st b ename vs
            .ok ({ s with params := aremove name s.params,
                          toUpd := aset ename tu s.toUpd,
                          repl := aset ename r s.repl }, tu)
      match step with
      | .error e => .error e
      | .ok (s', tu) =>
        let params' := tu.foldl (fun d kv => aset kv.1 (PVal.one kv.2) d) s'.params
        if st.positional then
          if st.isNumeric then .ok { s' with params := params', numPos := s'.numPos ++ tu.map (·.1) }
          else .ok { s' with params := params', newPos := s'.newPos ++ tu.map (·.1) }
        else .ok { s' with params := params' }
    else
      if st.positional then .ok { s with newPos := s.newPos ++ [name] } else .ok s

def pcLoop (c : Compiled) (st : Style) : List Str → PCState → Except Err PCState
  | [], s => .ok s
  | n :: r, s =>
    match pcStep c st s n with
    | .error e => .error e
    | .ok s' => pcLoop c st r s'

/-- `process_expanding` applied by `re.sub(_post_compile_pattern, …)` -/
def subExpanding (repl : List (Str × Str)) : List Tok → Except Err Str
  | [] => .ok []
  | .lit ch :: r => (subExpanding repl r).map (ch :: ·)
  | .hit h :: r =>
    match alookup h.name repl with
    | none => .error .keyError
    | some expr =>
      let e : Except Err Str :=
        match h with
        | .b _ (some g) =>
          -- tok = m.group(2).split("~~"); be_left, be_right = tok[1], tok[3]
          let tok := splitOn ['~', '~'] (['~', '~'] ++ g ++ ['~', '~'])
          match tok[1]?, tok[3]? with
          | some l, some rgt =>
            .ok (joinWith [',', ' '] ((splitOn [',', ' '] expr).map (fun x => l ++ x ++ rgt)))
          | _, _ => .error .indexError
        | _ => .ok expr
      match e with
      | .error er => .error er
      | .ok e' => (subExpanding repl r).map (e' ++ ·)

structure Expanded where
  statement : Str
  params : List (Str × PVal)
  positiontup : Option (List Str)
  deriving Repr

def enumFrom {α : Type} : Nat → List α → List (Nat × α)
  | _, [] => []
  | n, x :: r => (n, x) :: enumFrom (n + 1) r

def postcompile (c : Compiled) (st : Style) (s1 : Stage1) (params : List (Str × PVal)) :
    Except Err Expanded :=
  let names := match s1.positiontup with
    | some pt => if st.positional then pt else c.bindNames
    | none => c.bindNames
  match pcLoop c st names { params := params, repl := [], toUpd := [], newPos := [], numPos := [] } with
  | .error e => .error e
  | .ok s =>
    match subExpanding s.repl (tokens .onlyB s1.string) with
    | .error e => .error e
    | .ok stmt =>
      if st.positional && st.isNumeric then
        let pp : List (Str × Option Str) :=
          adict ((enumFrom s1.nextNumericPos s.numPos).map
            (fun nk => (nk.2, some (st.idChar :: natStr nk.1))))
        match subLookup pp (tokens .onlyA stmt) with
        | .error e => .error e
        | .ok stmt' =>
          .ok { statement := stmt', params := s.params, positiontup := some (s.newPos ++ s.numPos) }
      else
        .ok { statement := stmt, params := s.params,
              positiontup := if st.positional then some s.newPos else none }

/-! ## `_init_compiled`: what reaches `cursor.execute` -/

inductive DbParams
  | tuple (vs : List PVal)
  | dict (kv : List (Str × PVal))
  deriving DecidableEq, Repr

def hasPostCompile (c : Compiled) : Bool := c.binds.any (fun b => isPostCompile b.kind)

def collectPos (params : List (Str × PVal)) : List Str → Except Err (List PVal)
  | [] => .ok []
  | k :: r =>
    match alookup k params with
    | none => .error .keyError
    | some v => (collectPos params r).map (v :: ·)

/-- `compiled_parameters[0]` is `params` (construct_params(escape_names=False)) -/
def initCompiled (c : Compiled) (st : Style) (params : List (Str × PVal)) :
    Except Err (Str × DbParams) :=
  match stage1 c st with
  | .error e => .error e
  | .ok s1 =>
    let fin : Except Err Expanded :=
      if hasPostCompile c then postcompile c st s1 params
      else .ok { statement := s1.string, params := params, positiontup := s1.positiontup }
    match fin with
    | .error e => .error e
    | .ok ex =>
      if st.positional then
        match ex.positiontup with
        | none => .error .assertion
        | some pt =>
          match collectPos ex.params pt with
          | .error e => .error e
          | .ok vs => .ok (ex.statement, .tuple vs)
      else
        let d := if c.escaped.isEmpty then adict ex.params
                 else adict (ex.params.map (fun kv => (escapeName c.escaped kv.1, kv.2)))
        .ok (ex.statement, .dict d)

end SaVerif.Bind
