import SaVerif.Model.Ident
/-!
# Backend identifier grammars (trusted; from the servers' documentation)

These are models of the *database servers*, not of SQLAlchemy.  SQLite's keyword
list is not here: it is probed from the linked sqlite3 library on every run
(`SaVerif.Gen.IdentTables.sqliteRejected`).  PostgreSQL's list (Appendix C of the PostgreSQL 16 manual, categories "reserved" and
"reserved (can be function or type)" — the words that cannot be table or column
names) is kept readable in `harness/lib_ident.py` and emitted into
`SaVerif.Gen.IdentTables.pgKeywords` as code points.  For MySQL/MariaDB,
MSSQL and Oracle the keyword list is a parameter of the theorems.
-/
namespace SaVerif.Ident.Backends
open SaVerif.Ident

def lettersLower : List Nat := (List.range 26).map (· + 97)
def lettersUpper : List Nat := (List.range 26).map (· + 65)
def letters : List Nat := lettersLower ++ lettersUpper
def digits : List Nat := (List.range 10).map (· + 48)
/-- `_` `$` `@` `#` `"` `` ` `` `[` `]` -/
def cUnder : Nat := 95
def cDollar : Nat := 36
def cAt : Nat := 64
def cHash : Nat := 35
def cDquote : Nat := 34
def cBacktick : Nat := 96
def cLbracket : Nat := 91
def cRbracket : Nat := 93

/-- SQLite: `"…"` delimited; regular identifiers `[A-Za-z_\x80-][A-Za-z0-9_$\x80-]*`, case preserved -/
def sqlite (kw : List Str) : Backend :=
  { iq := cDquote, fq := cDquote, startAscii := cUnder :: letters, contAscii := cUnder :: cDollar :: (letters ++ digits),
    keywords := kw, fold := 0, emptyOk := true }

/-- PostgreSQL: `"…"` delimited; regular identifiers folded to lower case -/
def postgresql (kw : List Str) : Backend :=
  { iq := cDquote, fq := cDquote, startAscii := cUnder :: letters, contAscii := cUnder :: cDollar :: (letters ++ digits),
    keywords := kw, fold := 1 }

/-- MySQL / MariaDB: backtick delimited; `[0-9A-Za-z$_\x80-]`, case preserved -/
def mysql (kw : List Str) : Backend :=
  { iq := cBacktick, fq := cBacktick, startAscii := cUnder :: letters, contAscii := cUnder :: cDollar :: (letters ++ digits),
    keywords := kw, fold := 0 }

/-- MySQL with sql_mode ANSI_QUOTES -/
def mysqlAnsi (kw : List Str) : Backend := { mysql kw with iq := cDquote, fq := cDquote }

/-- SQL Server: `[…]` delimited with `]]`; regular identifiers may contain `@ # $ _` -/
def mssql (kw : List Str) : Backend :=
  { iq := cLbracket, fq := cRbracket, startAscii := cUnder :: cAt :: cHash :: letters,
    contAscii := cUnder :: cAt :: cHash :: cDollar :: (letters ++ digits), keywords := kw, fold := 0 }

/-- Oracle: `"…"` delimited; regular identifiers start with a letter and fold to upper case -/
def oracle (kw : List Str) : Backend :=
  { iq := cDquote, fq := cDquote, startAscii := letters, contAscii := cUnder :: cDollar :: cHash :: (letters ++ digits),
    keywords := kw, fold := 2 }

end SaVerif.Ident.Backends
