/-
M-MUT: change tracking of `sqlalchemy.ext.mutable` values on a scalar column attribute.

Transcribes (for ONE mutable column attribute `data` per parent object):

Python (lib/sqlalchemy/…)                               model
------------------------------------------------------  ---------------------------------------
ext/mutable.py  MutableBase._parents (WeakKeyDict,      `Val.parents : List Nat` (insertion order,
                state -> key)                            one entry per parent state)
ext/mutable.py  Mutable.changed(): for parent,key in    `changed` (stops with InvalidRequestError at
                _parents.items(): flag_modified(...)     the first parent whose key is not in dict)
orm/attributes.py flag_modified -> state._modified_     `flag`: committed_state[key] = NO_VALUE
                event(dict_, impl, NO_VALUE,             unconditionally (`or is_userland`), raises
                is_userland=True)                        when key not in state.dict
ext/mutable.py  MutableX.<method>: builtin op, then     `mutVal`: content := result of the builtin
                self.changed()                           op; `changed` iff table says the method
                                                         calls changed() and the builtin did not raise
ext/mutable.py  _listen_on_attribute.set_               `setAttr` (is-same shortcut, coerce = fresh
                                                         value object, link new, unlink old)
orm/attributes.py _ScalarAttributeImpl.set              `setAttr`: old = dict.get(key, NO_VALUE);
                                                         _modified_event(old) records old only if key
                                                         not yet in committed_state; dict[key] = value
ext/mutable.py  load / load_attrs (load, refresh        `load`: fresh value object holding the row
                events)                                  value, parents = [p]; NULL -> None, no link
orm/state.py    _load_expired + Session autoflush       `access`: (autoflush) then `load`
orm/persistence.py _collect_update_commands             `flushPar`: key in committed_state and
                is_equal(value, committed_state[key])    `is_equal(current, committed) is not True`
                is not True -> UPDATE                    -> db := current; committed_state cleared
orm/session.py  _register_persistent (end of flush)     `flushLoads`: every state that took part in the
                -> mapper._identity_key_from_state       flush (state.modified) has its primary key
                -> expired pk -> _load_expired           read; an expired pk loads ALL expired,
                                                         unmodified attributes, `data` among them
orm/state.py    _expire / _expire_attributes            `expireObj` / `expireAttr`: dict.pop(key);
                                                         committed_state.pop; whole-object expire also
                                                         clears `modified` and expires the pk
orm/session.py  refresh: _expire_state; _autoflush;     `refresh`
                load_on_ident
orm/session.py  commit (expire_on_commit) / rollback    `commit`, `rollback` (dbc = committed rows)
orm/state.py    __getstate__/__setstate__ + mutable     `pickleP`: identity-preserving copy of the
                pickle/unpickle events, expunge + add    values reachable from the state; only the
                                                         current value is re-linked; the old state is
                                                         dead so it disappears from every `_parents`
Session.expunge + Session.get                           `reget` (load event)

`committed_state[key]` holds a *reference* to the previous value object, not a
copy; `is_equal` compares the referenced object's content at flush time.  The
heap of value objects (`vals`) makes that aliasing explicit.

Contents are opaque `List Int` (the harness canonicalises list/dict/set values);
the result content of every builtin operation is an *input* of the step, so the
theorems hold for any semantics of the builtin types.
Import-free, total, executable.
-/
namespace SaVerif.Mutable

abbrev Content := List Int

/-- `state.dict.get(key)` : missing (expired / unloaded), `None`, or a Mutable object -/
inductive Cur where
  | absent
  | none
  | ref (v : Nat)
deriving Repr, DecidableEq, Inhabited

/-- `state.committed_state.get(key)` : missing, `NO_VALUE`, `None`, or a Mutable object -/
inductive Orig where
  | absent
  | noValue
  | none
  | ref (v : Nat)
deriving Repr, DecidableEq, Inhabited

/-- a Mutable value object -/
structure Val where
  content : Content
  parents : List Nat
deriving Repr, DecidableEq, Inhabited

/-- one mapped parent object (always attached to the session at step boundaries) -/
structure Par where
  cur  : Cur
  orig : Orig
  /-- column value of the row as seen inside the session's transaction (`none` = NULL) -/
  db   : Option Content
  /-- column value of the row as last committed -/
  dbc  : Option Content
  /-- `state.modified` (state is in `identity_map._modified`, i.e. takes part in a flush) -/
  modified : Bool
  /-- the primary-key attribute is expired -/
  pkx  : Bool
deriving Repr, DecidableEq, Inhabited

structure St where
  vals    : Nat → Val
  /-- allocation counter: value objects `≥ nv` do not exist yet -/
  nv      : Nat
  pars    : Nat → Par
  /-- Python references kept by the user (`h = obj.data`) -/
  handles : List Nat
  /-- `Session.autoflush` -/
  af      : Bool
  /-- number of parent objects that exist -/
  np      : Nat

inductive Op where
  | access (p : Nat)
  | mutp (p : Nat) (m : String) (c : Content) (raised : Bool)
  | hold (p : Nat)
  | mutv (h : Nat) (m : String) (c : Content) (raised : Bool)
  | setPlain (p : Nat) (c : Content)
  | setNone (p : Nat)
  | setVal (p : Nat) (h : Nat)
  | flush
  | commit
  | rollback
  | expire (p : Nat)
  | expireAttr (p : Nat)
  | refresh (p : Nat)
  | refreshAttr (p : Nat)
  | refreshOther (p : Nat)
  | pickle (p : Nat)
  | reget (p : Nat)
deriving Repr, DecidableEq

/-- what the user sees from one step -/
inductive Outcome where
  | ok
  /-- attribute is `None`: no method to call (AttributeError) -/
  | errNone
  /-- `flag_modified` raised InvalidRequestError inside `changed()` -/
  | errInvalidRequest
  /-- handle index out of range (malformed request) -/
  | errBadHandle
deriving Repr, DecidableEq

def setPar (st : St) (p : Nat) (x : Par) : St :=
  { st with pars := fun q => if q = p then x else st.pars q }

def putVal (st : St) (v : Nat) (x : Val) : St :=
  { st with vals := fun w => if w = v then x else st.vals w }

/-- allocate a fresh value object; its id is `st.nv` -/
def alloc (st : St) (c : Content) (ps : List Nat) : St :=
  { st with vals := fun w => if w = st.nv then ⟨c, ps⟩ else st.vals w, nv := st.nv + 1 }

/-- `_parents[state] = key` : dict insertion keeps the position of an existing key -/
def link (ps : List Nat) (p : Nat) : List Nat :=
  if ps.contains p then ps else ps ++ [p]

/-- `_parents.pop(state, None)` -/
def unlink (ps : List Nat) (p : Nat) : List Nat :=
  ps.filter (· != p)

def contentOfCur (st : St) : Cur → Option (Option Content)
  | .absent => none
  | .none => some none
  | .ref v => some (some (st.vals v).content)

/-- the in-memory value of the attribute, if loaded -/
def memOf (st : St) (p : Nat) : Option (Option Content) :=
  contentOfCur st (st.pars p).cur

/-- `impl.is_equal(value, committed_state[key]) is True`
    (`x == y` of the column type; `NO_VALUE` equals nothing) -/
def isEqual (st : St) (cur : Cur) (orig : Orig) : Bool :=
  match cur, orig with
  | .none, .none => true
  | .ref v, .ref w => (st.vals v).content == (st.vals w).content
  | _, _ => false

/-- the UPDATE decision for one parent: key in committed_state, key in dict and
    `is_equal(current, committed) is not True`; yields the new row value -/
def flushDb (st : St) (x : Par) : Option Content :=
  match x.orig with
  | .absent => x.db
  | _ =>
    match contentOfCur st x.cur with
    | none => x.db
    | some c => if isEqual st x.cur x.orig then x.db else c

/-- at the end of a flush `_register_persistent` reads the primary key of every state
    that took part; an expired pk loads all expired unmodified attributes -/
def flushLoads (st : St) (p : Nat) : Bool :=
  decide (p < st.np) && (st.pars p).modified && (st.pars p).pkx &&
    decide ((st.pars p).cur = .absent) && decide ((st.pars p).orig = .absent)

/-- flush of one parent (only states with `modified` take part): UPDATE, possible
    load of expired attributes (fresh value object `st.nv + p`), `_commit_all` -/
def flushPar (st : St) (p : Nat) : Par :=
  let x := st.pars p
  if x.modified then
    { x with
      cur := if flushLoads st p then
               (match x.db with
                | none => .none
                | some _ => .ref (st.nv + p))
             else x.cur,
      orig := .absent, db := flushDb st x, modified := false, pkx := false }
  else x

/-- `Session.flush()`.  Value objects created by the pk-triggered loads get the ids
    `st.nv + p`; the allocation counter advances by `np`. -/
def flush (st : St) : St :=
  { st with
    pars := fun p => flushPar st p,
    vals := fun w =>
      if st.nv ≤ w ∧ w < st.nv + st.np ∧ flushLoads st (w - st.nv) = true then
        match (st.pars (w - st.nv)).db with
        | some c => ⟨c, [w - st.nv]⟩
        | none => st.vals w
      else st.vals w,
    nv := st.nv + st.np }

def autoflush (st : St) : St := if st.af then flush st else st

/-- `state._expire_attributes(dict_, ["data"])` -/
def expireAttr (x : Par) : Par := { x with cur := .absent, orig := .absent }

/-- `state._expire(dict_, modified_set)` : whole object -/
def expireObj (x : Par) : Par :=
  { x with cur := .absent, orig := .absent, modified := false, pkx := true }

def expireAll (st : St) : St :=
  { st with pars := fun p => expireObj (st.pars p) }

def commit (st : St) : St :=
  let st1 := flush st
  expireAll { st1 with pars := fun p => { st1.pars p with dbc := (st1.pars p).db } }

def rollback (st : St) : St :=
  expireAll { st with pars := fun p => { st.pars p with db := (st.pars p).dbc } }

/-- the `load` / `refresh` event handler of ext.mutable after the row value has been
    put into state.dict: NULL stays `None`; otherwise the value is coerced and linked -/
def load (st : St) (p : Nat) : St :=
  let x := st.pars p
  match x.db with
  | none => setPar st p { x with cur := .none }
  | some c => setPar (alloc st c [p]) p { x with cur := .ref st.nv }

/-- `_load_expired`: all expired unmodified attributes are loaded, the pk among them -/
def loadExpired (st : St) (p : Nat) : St :=
  let st1 := load st p
  setPar st1 p { st1.pars p with pkx := false }

/-- attribute access `obj.data`: an expired, unmodified attribute is loaded (after
    autoflush) -/
def access (st : St) (p : Nat) : St :=
  match (st.pars p).cur, (st.pars p).orig with
  | .absent, .absent => loadExpired (autoflush st) p
  | _, _ => st

/-- `flag_modified(parent, key)` -/
def flag (st : St) (p : Nat) : St :=
  setPar st p { st.pars p with orig := .noValue, modified := true }

/-- `Mutable.changed()`; `false` = InvalidRequestError from `flag_modified` -/
def changed (st : St) : List Nat → St × Bool
  | [] => (st, true)
  | p :: ps =>
    if (st.pars p).cur = .absent then (st, false)
    else changed (flag st p) ps

/-- a method `m` of the Mutable value `v` is called; the builtin implementation
    leaves content `c` (and raised iff `raised`); `tracked m` = the override calls
    `self.changed()` after the builtin call returns -/
def mutVal (tracked : String → Bool) (st : St) (v : Nat) (m : String) (c : Content)
    (raised : Bool) : St × Outcome :=
  let st1 := putVal st v { st.vals v with content := c }
  if tracked m && !raised then
    match changed st1 (st1.vals v).parents with
    | (st2, true) => (st2, .ok)
    | (st2, false) => (st2, .errInvalidRequest)
  else (st1, .ok)

/-- `_modified_event(dict_, impl, old)` of a plain attribute set: records the old
    value only when the key is not yet in committed_state -/
def recordOld (x : Par) : Orig :=
  match x.orig with
  | .absent =>
    match x.cur with
    | .absent => .noValue
    | .none => .none
    | .ref v => .ref v
  | o => o

/-- `obj.data = value` where the `set_` listener has already produced `new`
    (`new` is the coerced value object, `None`, or the given Mutable object) -/
def setAttrRef (st : St) (p : Nat) (new : Cur) : St :=
  let x := st.pars p
  if new = x.cur then
    -- `if value is oldvalue: return value` (also covers None is None)
    setPar st p { x with orig := recordOld x, modified := true }
  else
    -- value._parents[target] = key
    let st1 := match new with
      | .ref w => putVal st w { st.vals w with parents := link (st.vals w).parents p }
      | _ => st
    -- oldvalue._parents.pop(target, None)
    let st2 := match x.cur with
      | .ref v => putVal st1 v { st1.vals v with parents := unlink (st1.vals v).parents p }
      | _ => st1
    setPar st2 p { x with orig := recordOld x, cur := new, modified := true }

/-- `obj.data = <plain builtin value>` : coerce builds a new Mutable object -/
def setPlain (st : St) (p : Nat) (c : Content) : St :=
  setAttrRef (alloc st c []) p (.ref st.nv)

/-- `Session.refresh(obj)`: `_expire`; autoflush; load everything -/
def refresh (st : St) (p : Nat) : St :=
  let st1 := setPar st p (expireObj (st.pars p))
  loadExpired (autoflush st1) p

/-- `Session.refresh(obj, ["data"])`: `_expire_attributes`; autoflush; load `data` -/
def refreshAttr (st : St) (p : Nat) : St :=
  let st1 := setPar st p (expireAttr (st.pars p))
  load (autoflush st1) p

/-- the old InstanceState of `p` is garbage: it vanishes from every `_parents` -/
def dropParent (st : St) (p : Nat) : St :=
  { st with vals := fun v => { st.vals v with parents := unlink (st.vals v).parents p } }

/-- expunge; pickle round trip; add.  Identity structure between the current and
    the committed value is preserved by pickle's memo; only the current value is
    re-linked by the `unpickle` event. -/
def pickleP (st : St) (p : Nat) : St :=
  let st0 := dropParent st p
  let x := st0.pars p
  match x.cur with
  | .ref v =>
    let st1 := alloc st0 (st0.vals v).content [p]
    match x.orig with
    | .ref w =>
      if w = v then setPar st1 p { x with cur := .ref st0.nv, orig := .ref st0.nv }
      else
        setPar (alloc st1 (st0.vals w).content []) p
          { x with cur := .ref st0.nv, orig := .ref (st0.nv + 1) }
    | _ => setPar st1 p { x with cur := .ref st0.nv }
  | _ =>
    match x.orig with
    | .ref w => setPar (alloc st0 (st0.vals w).content []) p { x with orig := .ref st0.nv }
    | _ => st0

/-- expunge (pending changes are dropped with the object); `Session.get` autoflushes,
    loads the row and fires the `load` event -/
def reget (st : St) (p : Nat) : St :=
  let st0 := dropParent st p
  let st1 := setPar st0 p (expireObj (st0.pars p))
  loadExpired (autoflush st1) p

def step (tracked : String → Bool) (st : St) : Op → St × Outcome
  | .access p => (access st p, .ok)
  | .mutp p m c r =>
    let st1 := access st p
    match (st1.pars p).cur with
    | .ref v => mutVal tracked st1 v m c r
    | _ => (st1, .errNone)
  | .hold p =>
    let st1 := access st p
    match (st1.pars p).cur with
    | .ref v => ({ st1 with handles := st1.handles ++ [v] }, .ok)
    | _ => (st1, .errNone)
  | .mutv h m c r =>
    match st.handles[h]? with
    | some v => mutVal tracked st v m c r
    | none => (st, .errBadHandle)
  | .setPlain p c => (setPlain st p c, .ok)
  | .setNone p => (setAttrRef st p .none, .ok)
  | .setVal p h =>
    match st.handles[h]? with
    | some v => (setAttrRef st p (.ref v), .ok)
    | none => (st, .errBadHandle)
  | .flush => (flush st, .ok)
  | .commit => (commit st, .ok)
  | .rollback => (rollback st, .ok)
  | .expire p => (setPar st p (expireObj (st.pars p)), .ok)
  | .expireAttr p => (setPar st p (expireAttr (st.pars p)), .ok)
  | .refresh p => (refresh st p, .ok)
  | .refreshAttr p => (refreshAttr st p, .ok)
  | .refreshOther _ => (autoflush st, .ok)
  | .pickle p => (pickleP st p, .ok)
  | .reget p => (reget st p, .ok)

def run (tracked : String → Bool) (st : St) : List Op → St
  | [] => st
  | op :: ops => run tracked (step tracked st op).1 ops

/-- initial state: every parent persistent and expired (fresh after the set-up
    commit), row values given by `rows` (parents beyond the list hold NULL) -/
def init (rows : List (Option Content)) (af : Bool) : St :=
  { vals := fun _ => ⟨[], []⟩, nv := 0,
    pars := fun p => ⟨.absent, .absent, (rows[p]?).join, (rows[p]?).join, false, true⟩,
    handles := [], af := af, np := rows.length }

end SaVerif.Mutable
