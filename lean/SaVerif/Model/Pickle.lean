/-
M-TYPES (pickling): what `__getstate__` / `__setstate__` pairs preserve.

Python                                         model
---------------------------------------------  --------------------------------------------
the dict returned by `__getstate__`            `getstate saved st`: the listed fields that are set
`__setstate__(state)` reading keys             `setstate restored d`
pickle.dumps / loads of that dict              identity (trusted: `pickle`)
the tables of keys written / read              Gen/PickleTables.lean, extracted by `ast` from
                                               orm/state.py, engine/_row_cy.py, engine/result.py,
                                               engine/cursor.py, sql/schema.py, orm/collections.py
values                                         `Nat` ids; `none` = attribute not set
-/
namespace SaVerif.Pickle

abbrev State := String → Option Nat

def getstate (saved : List String) (st : State) : List (String × Nat) :=
  saved.filterMap (fun f => (st f).map (fun v => (f, v)))

def setstate (restored : List String) (d : List (String × Nat)) : State :=
  fun f => if restored.contains f then d.lookup f else none

def roundtrip (saved restored : List String) (st : State) : State :=
  setstate restored (getstate saved st)

/-- per class: the field survives a pickle round trip -/
def survives (saved restored : List String) (f : String) : Bool :=
  saved.contains f && restored.contains f

/-- `sub ⊆ sup` as a decidable check over the regenerated tables -/
def subset (sub sup : List String) : Bool := sub.all (fun f => sup.contains f)

end SaVerif.Pickle
