import SaVerif.Gen.ExpireCfg
/-
M-ORM/expire: one Session, its identity map and attribute states, against a
database that another connection also writes.

Transcribed code (lib/sqlalchemy/orm):

Python                                                 model
-----------------------------------------------------  ------------------------------------
InstanceState.dict / committed_state                   `Obj.dict` (none = not loaded),
                                                       `Obj.mod`, `Obj.cval`
ScalarAttributeImpl.set → _modified_event              `Op.set` (old value remembered once;
                                                       NO_VALUE when the attribute is expired)
InstanceState._expire (dict cleared, committed_state   `expireObj`
  cleared, modified := False)
InstanceState._expire_attributes (dict.pop,            `expireAttrs`
  committed_state.pop for the named keys only)
InstanceState._load_expired: toload =                  `loadExpired` (every attribute that is not
  expired_attributes ∩ unmodified;                      loaded and not modified is filled from the
  loading._load_scalar_attributes → ObjectDeletedError  row; `Out.gone` when the row vanished)
Session.refresh: _expire_state, _autoflush,            `Op.refresh`
  load_on_ident(refresh_state, only_load_props) →
  _populate_full + _commit / _commit_all;
  InvalidRequestError "Could not refresh instance"
loading._instance_processor:                           `Op.query pop filt cols`
  populate_existing → _populate_full + _commit_all      (pop = true: everything overwritten,
  existing instance → _populate_partial(state.unloaded)  pending changes dropped; pop = false:
  new identity → new instance                            only unloaded, unmodified attributes)
the result row need not carry every column of the      `cols` (none = all columns; the primary key
  entity (select(T).from_statement(select(T.id, …)),     is always there), `covers`
  from_statement(text(…)), a joined-inheritance
  subclass instance met by a query of the base):
  loading._instance_processor / strategies.
  _ColumnLoader.create_row_processor:
  result._getter(col, False) is None →
  populators["expire"].append((key, True)),
  else populators["quick"]
loading._populate_full (isnew)                         `populateCols` (existing identity,
  quick: dict_[key] = getter(row)                        populate_existing), `newObjCols` (new
  populate_existing: for key, set_callable in            identity: nothing to pop)
    populators["expire"]: dict_.pop(key, None);         `Gen.ExpireCfg.populateExistingPopsAbsent`
    expired_attributes.add(key)                          (regenerated from the source: is the pop
  then state._commit_all: committed_state.clear(),       unconditional?)
  modified := False
loading._populate_partial (isnew): to_load =           `loadExpiredCols`
  state.unloaded; quick ∩ to_load filled, expire ∩
  to_load stay out of dict_ and expired;
  state._commit(dict_, to_load)
Session._autoflush before query / refresh / unexpire   `autoflush`
persistence._collect_update_commands (attributes in    `flushObj` / `needsUpdate`
  committed_state whose value differs), rowcount 0 →
  StaleDataError, then SessionTransaction rollback
Session.commit (flush, COMMIT, expire_on_commit →      `Op.commit`
  _expire for every state)
Session.rollback (pass-through without transaction;    `Op.rollback`
  else ROLLBACK and every state expired)
loading._load_scalar_attributes for an inheriting       `loadScalarAttributes` (decision only; the
  mapper: _optimized_get_statement → FromStatement →      transition system is the single-table
  `result = _load_on_ident(...)`; `if state.key and       mapper), `Gen.ExpireCfg.optimizedGetResultChecked`
  result is None: raise ObjectDeletedError` (eeca727)     (regenerated; true since the fix)
another connection: UPDATE / DELETE / INSERT + COMMIT   `Op.extSet`, `Op.extDel`, `Op.extIns`
  (SQLite: impossible while the session holds           (skipped while `St.saved` is some)
  uncommitted DML; the harness skips in that case)

`St.rows` is the database *as the session's transaction sees it* (committed state
plus its own flushed changes); `St.saved` keeps the committed snapshot while
uncommitted DML exists.  pysqlite opens no read transaction, so a SELECT of the
session always sees the other connection's latest commit.

Import-free (except the regenerated `SaVerif.Gen.ExpireCfg`), total, executable.
-/
namespace SaVerif.Expire

abbrev Attr := Nat
abbrev Vals := Attr → Int
abbrev DB := Nat → Option Vals

structure Cfg where
  npk : Nat      -- primary keys 0 .. npk-1
  nattr : Nat    -- attributes 0 .. nattr-1
  af : Bool      -- Session(autoflush=…)
  eoc : Bool     -- expire_on_commit
deriving Repr

structure Obj where
  dict : Attr → Option Int    -- current value; none: not loaded (expired)
  mod : Attr → Bool           -- key ∈ committed_state
  cval : Attr → Option Int    -- committed_state[key]; none: NO_VALUE
  pk : Bool                   -- primary-key attribute loaded (false after a full expire)
  dirty : Bool                -- state.modified (object is in session.dirty)

structure St where
  rows : DB
  saved : Option DB
  objs : Nat → Option Obj
  txn : Bool
  det : Nat → Option Obj      -- detached (expunged) instances the application still holds

def St.init : St :=
  { rows := fun _ => none, saved := none, objs := fun _ => none, txn := false, det := fun _ => none }

inductive Op
  | read (k : Nat) (a : Attr)
  | set (k : Nat) (a : Attr) (v : Int)
  | expire (k : Nat) (attrs : Option (List Attr))      -- none: whole object
  | expireAll
  | refresh (k : Nat) (attrs : Option (List Attr))
  | query (pop : Bool) (filt : Option (Attr × Int)) (cols : Option (List Attr))
      -- pop: populate_existing; cols: the attributes whose columns the rows carry (none: all)
  | flush
  | commit
  | rollback
  | extSet (k : Nat) (a : Attr) (v : Int)
  | extDel (k : Nat)
  | extIns (k : Nat) (v : Int)                          -- all attributes := v
  | detach (k : Nat)                                    -- session.expunge(obj) of a clean instance
  | attach (k : Nat) (viaMerge : Bool)                  -- session.add(obj) / session.merge(obj, load=False)
deriving Repr

inductive Out
  | skip
  | done
  | val (v : Int)
  | gone          -- ObjectDeletedError
  | norow         -- InvalidRequestError: Could not refresh instance
  | stale         -- StaleDataError out of an (auto)flush
deriving DecidableEq, Repr

/-! ### object-level transitions -/

def newObj (r : Vals) : Obj := ⟨fun a => some (r a), fun _ => false, fun _ => none, true, false⟩

def expireObj (_o : Obj) : Obj := ⟨fun _ => none, fun _ => false, fun _ => none, false, false⟩

def expireAttrs (o : Obj) (attrs : List Attr) : Obj :=
  ⟨fun a => if attrs.contains a then none else o.dict a,
   fun a => if attrs.contains a then false else o.mod a,
   fun a => if attrs.contains a then none else o.cval a, o.pk, o.dirty⟩

def expireSel (o : Obj) : Option (List Attr) → Obj
  | none => expireObj o
  | some l => expireAttrs o l

/-- `_load_expired` / `_populate_partial`: fill what is neither loaded nor modified -/
def loadExpired (o : Obj) (r : Vals) : Obj :=
  { o with dict := fun a => if (o.dict a).isNone && !o.mod a then some (r a) else o.dict a,
           pk := true }

/-- `_populate_full` + `_commit_all` -/
def populateFull (_o : Obj) (r : Vals) : Obj := newObj r

/-- the result row carries the column of attribute `a` (`none`: every column) -/
def covers : Option (List Attr) → Attr → Bool
  | none, _ => true
  | some l, a => l.contains a

/-- a new identity met in a row that carries `cols`: `_populate_full` without
    populate_existing — quick populators fill the dict, the attributes of the absent columns
    go to `expired_attributes` (not loaded; the first read loads them) -/
def newObjCols (r : Vals) (cols : Option (List Attr)) : Obj :=
  ⟨fun a => if covers cols a then some (r a) else none, fun _ => false, fun _ => none, true, false⟩

/-- `_populate_partial` with `to_load = state.unloaded` for an identity that is already in
    the Session and a row that carries `cols`: what is neither loaded nor modified is filled
    if the row has it and stays expired otherwise -/
def loadExpiredCols (o : Obj) (r : Vals) (cols : Option (List Attr)) : Obj :=
  { o with dict := fun a => if (o.dict a).isNone && !o.mod a && covers cols a then some (r a) else o.dict a,
           pk := true }

/-- `_populate_full` with populate_existing + `_commit_all` for an identity that is already
    in the Session and a row that carries `cols`: carried attributes are overwritten; the
    others are popped from the dict (when the source does so — regenerated flag) and expired;
    all pending state is dropped. -/
def populateCols (o : Obj) (r : Vals) (cols : Option (List Attr)) : Obj :=
  ⟨fun a => if covers cols a then some (r a)
            else if SaVerif.Gen.ExpireCfg.populateExistingPopsAbsent then none else o.dict a,
   fun _ => false, fun _ => none, true, false⟩

/-- refresh with `only_load_props` -/
def populateAttrs (o : Obj) (attrs : List Attr) (r : Vals) : Obj :=
  ⟨fun a => if attrs.contains a then some (r a) else o.dict a,
   fun a => if attrs.contains a then false else o.mod a,
   fun a => if attrs.contains a then none else o.cval a, o.pk, o.dirty⟩

def setAttr (o : Obj) (a : Attr) (v : Int) : Obj :=
  ⟨fun b => if b = a then some v else o.dict b,
   fun b => if b = a then true else o.mod b,
   fun b => if b = a then (if o.mod a then o.cval a else o.dict a) else o.cval b, o.pk, true⟩

/-! ### flush -/

/-- attribute goes into the UPDATE: in committed_state and not equal to it -/
def attrChanged (o : Obj) (a : Attr) : Bool :=
  o.mod a && (match o.cval a, o.dict a with
              | some c, some v => c != v
              | _, _ => true)

def anyBelow (n : Nat) (f : Nat → Bool) : Bool := (List.range n).any f

def needsUpdate (c : Cfg) (o : Obj) : Bool := anyBelow c.nattr (attrChanged o)


/-- the flush fails at object `k`: its UPDATE matches no row (StaleDataError), or its
    expired primary key cannot be loaded (ObjectDeletedError, raised by
    `_collect_update_commands` or by `Session._register_persistent`) -/
def staleAt (c : Cfg) (st : St) (k : Nat) : Bool :=
  match st.objs k with
  | some o => (needsUpdate c o || (o.dirty && !o.pk)) && (st.rows k).isNone
  | none => false

def dmlAt (c : Cfg) (st : St) (k : Nat) : Bool :=
  match st.objs k with
  | some o => needsUpdate c o
  | none => false

def flushRow (c : Cfg) (o : Option Obj) (row : Option Vals) : Option Vals :=
  match o, row with
  | some o, some r =>
    if needsUpdate c o then
      some (fun a => if a < c.nattr && attrChanged o a then (o.dict a).getD 0 else r a)
    else some r
  | _, row => row

/-- `_commit_all_states` for the states that took part in the flush.  The flush reads
    the primary key (PASSIVE_OFF in `_collect_update_commands`, or
    `_identity_key_from_state` in `_register_persistent`): when it is expired, every
    expired unmodified attribute is loaded on the way. -/
def flushObj (o : Obj) (row : Option Vals) : Obj :=
  if o.dirty then
    let o1 := match o.pk, row with
              | false, some r => loadExpired o r
              | _, _ => o
    ⟨o1.dict, fun _ => false, fun _ => none, o1.pk, false⟩
  else o

def expireAllObjs (objs : Nat → Option Obj) : Nat → Option Obj :=
  fun k => (objs k).map expireObj

/-- failed flush or Session.rollback() inside a transaction -/
def rolledBack (st : St) : St :=
  { rows := st.saved.getD st.rows, saved := none, objs := expireAllObjs st.objs, txn := false, det := st.det }

/-- `Session.flush()`: `none` = StaleDataError, or ObjectDeletedError while loading an
    expired primary key (the session is rolled back either way) -/
def doFlush (c : Cfg) (st : St) : Option St :=
  if anyBelow c.npk (staleAt c st) then none
  else
    let dml := anyBelow c.npk (dmlAt c st)
    let work := anyBelow c.npk (fun k => match st.objs k with
                                          | some o => o.dirty
                                          | none => false)
    some { rows := fun k => if k < c.npk then flushRow c (st.objs k) (st.rows k) else st.rows k,
           saved := if dml then (match st.saved with
                                 | some s => some s
                                 | none => some st.rows) else st.saved,
           objs := fun k => if k < c.npk then (st.objs k).map (fun o => flushObj o (st.rows k)) else st.objs k,
           txn := st.txn || work,
           det := st.det }

/-- `Session._autoflush()` -/
def autoflush (c : Cfg) (st : St) : Option St :=
  if c.af then doFlush c st else some st

def rowMatches (filt : Option (Attr × Int)) (r : Vals) : Bool :=
  match filt with
  | none => true
  | some (a, v) => r a == v

def setObj (st : St) (k : Nat) (o : Option Obj) : St :=
  { st with objs := fun j => if j = k then o else st.objs j }

def attrsOk (c : Cfg) : Option (List Attr) → Bool
  | none => true
  | some l => !l.isEmpty && l.all (· < c.nattr)

/-- column subset of a query: may be empty (primary key only) -/
def colsOk (c : Cfg) : Option (List Attr) → Bool
  | none => true
  | some l => l.all (· < c.nattr)

def filtOk (c : Cfg) : Option (Attr × Int) → Bool
  | none => true
  | some (a, _) => a < c.nattr

/-- what an instance looks like to the Session it is (re-)attached to: its loaded values, no
    history (only clean instances are detached; `merge(load=False)` commits all anyway) -/
def cleanCopy (o : Obj) : Obj := ⟨o.dict, fun _ => false, fun _ => none, o.pk, false⟩

def step (c : Cfg) (st : St) : Op → St × Out
  | .read k a =>
    match st.objs k with
    | none => (st, .skip)
    | some o =>
      match o.dict a with
      | some v => (st, .val v)
      | none =>
        match autoflush c st with
        | none => (rolledBack st, .stale)
        | some st1 =>
          -- the flush may have committed (cleared `mod` of) this very object
          match st1.objs k, st1.rows k with
          | some o1, some r =>
            (setObj { st1 with txn := true } k (some (loadExpired o1 r)), .val (r a))
          | _, _ => ({ st1 with txn := true }, .gone)
  | .set k a v =>
    match st.objs k with
    | none => (st, .skip)
    | some o => (setObj { st with txn := true } k (some (setAttr o a v)), .done)
  | .expire k attrs =>
    match st.objs k with
    | none => (st, .skip)
    | some o => (setObj st k (some (expireSel o attrs)), .done)
  | .expireAll => ({ st with objs := expireAllObjs st.objs }, .done)
  | .refresh k attrs =>
    match st.objs k with
    | none => (st, .skip)
    | some o =>
      let st0 := setObj st k (some (expireSel o attrs))
      match autoflush c st0 with
      | none => (rolledBack st0, .stale)
      | some st1 =>
        match st1.objs k, st1.rows k with
        | some o1, some r =>
          let o2 := match attrs with
                    | none => populateFull o1 r
                    | some l => populateAttrs o1 l r
          (setObj { st1 with txn := true } k (some o2), .done)
        | _, _ => ({ st1 with txn := true }, .norow)
  | .query pop filt cols =>
    match autoflush c st with
    | none => (rolledBack st, .stale)
    | some st1 =>
      ({ st1 with
         txn := true
         objs := fun k =>
           if k < c.npk then
             match st1.rows k with
             | some r =>
               if rowMatches filt r then
                 match st1.objs k with
                 | some o => some (if pop then populateCols o r cols else loadExpiredCols o r cols)
                 | none => some (newObjCols r cols)
               else st1.objs k
             | none => st1.objs k
           else st1.objs k }, .done)
  | .flush =>
    match doFlush c st with
    | none => (rolledBack st, .stale)
    | some st1 => (st1, .done)
  | .commit =>
    match doFlush c st with
    | none => (rolledBack st, .stale)
    | some st1 =>
      ({ rows := st1.rows, saved := none,
         objs := if c.eoc then expireAllObjs st1.objs else st1.objs, txn := false, det := st1.det }, .done)
  | .rollback => if st.txn then (rolledBack st, .done) else (st, .done)
  | .extSet k a v =>
    match st.saved, st.rows k with
    | none, some r => ({ st with rows := fun j => if j = k then some (fun b => if b = a then v else r b) else st.rows j }, .done)
    | _, _ => (st, .skip)
  | .extDel k =>
    match st.saved, st.rows k with
    | none, some _ => ({ st with rows := fun j => if j = k then none else st.rows j }, .done)
    | _, _ => (st, .skip)
  | .extIns k v =>
    match st.saved, st.rows k with
    | none, none => ({ st with rows := fun j => if j = k then some (fun _ => v) else st.rows j }, .done)
    | _, _ => (st, .skip)
  | .detach k =>
    match st.objs k, st.det k with
    | some o, none =>
      if o.dirty then (st, .skip)
      else ({ st with objs := fun j => if j = k then none else st.objs j,
                      det := fun j => if j = k then some (cleanCopy o) else st.det j }, .done)
    | _, _ => (st, .skip)
  | .attach k _ =>
    -- add(): Session._save_or_update_state / merge(load=False): new instance carrying the
    -- source's loaded attributes, _commit_all.  Either way the Session now holds a LOADED
    -- instance in a transaction that has not touched the database (autobegin only).
    match st.objs k, st.det k with
    | none, some o =>
      ({ st with objs := fun j => if j = k then some (cleanCopy o) else st.objs j,
                 det := fun j => if j = k then none else st.det j, txn := true }, .done)
    | _, _ => (st, .skip)

/-! ### `loading._load_scalar_attributes`: which SELECT unexpires, and what "no row" becomes

The transition system above is the single-table mapper (`mapper.inherits` is None): `read` of an
unloaded attribute whose row vanished gives `Out.gone` (the `has_key and result is None →
ObjectDeletedError` test at the end of `_load_scalar_attributes`).  A mapper that inherits
(joined-table) first tries `mapper._optimized_get_statement`; that branch is transcribed here. -/

/-- outcome of unexpiring attributes of a persistent instance -/
inductive Unexpired
  | loaded          -- the row was found, the attributes are populated
  | objectDeleted   -- ObjectDeletedError
  | nothing         -- no row and no error: the attributes stay out of the dict, `_load_expired`
                    -- clears `expired_attributes`; `AttributeImpl.get` raises
                    -- KeyError("Deferred loader for attribute … failed to populate correctly")
                    -- and every later read returns None without touching the database
deriving DecidableEq, Repr

/-- `inherits`: `mapper.inherits and not mapper.concrete`;
    `optimized`: `mapper._optimized_get_statement(state, attribute_names) is not None` (every
    attribute to load lives in a subclass table and the key values are loaded);
    `row`: the SELECT found the row;
    `checked`: the branch examines the result of `_load_on_ident` (else: `return _load_on_ident(…)`) -/
def loadScalarAttributesWith (checked inherits optimized row : Bool) : Unexpired :=
  if inherits && optimized then
    if row then .loaded else (if checked then .objectDeleted else .nothing)
  else
    -- `select(mapper)` by identity key; `if has_key and result is None: raise ObjectDeletedError`
    if row then .loaded else .objectDeleted

/-- the working tree's `_load_scalar_attributes` -/
def loadScalarAttributes : Bool → Bool → Bool → Unexpired :=
  loadScalarAttributesWith SaVerif.Gen.ExpireCfg.optimizedGetResultChecked

def run (c : Cfg) (st : St) : List Op → St
  | [] => st
  | o :: os => run c (step c st o).1 os

def runOut (c : Cfg) (st : St) : List Op → List Out
  | [] => []
  | o :: os => (step c st o).2 :: runOut c (step c st o).1 os

def opOk (c : Cfg) : Op → Bool
  | .read k a | .set k a _ | .extSet k a _ => k < c.npk && a < c.nattr
  | .expire k attrs | .refresh k attrs => k < c.npk && attrsOk c attrs
  | .query _ filt cols => filtOk c filt && colsOk c cols
  | .extDel k | .extIns k _ | .detach k | .attach k _ => k < c.npk
  | .expireAll | .flush | .commit | .rollback => true

end SaVerif.Expire
