/-
M-HIST: attribute history of lib/sqlalchemy/orm/attributes.py + the committed_state capture of
lib/sqlalchemy/orm/state.py, for one attribute of one object.

Python                                                   model
-------------------------------------------------------  --------------------------------------
state.dict.get(key, NO_VALUE)                            `Slot α` (absent | val)
state.committed_state.get(key, _NO_HISTORY)              `CS α`  (noHistory | noValue | noResult | val)
History.from_scalar_attribute                            `fromScalar`   (literal)
History.from_object_attribute                            `fromObject`   (literal; equality is identity,
                                                          `None` originals are not reported as deleted)
History.from_collection                                  `fromCollection` (literal: membership through the
                                                          dict of states = membership in the list)
InstanceState._modified_event(dict_, attr, previous)     `capture` : only the FIRST modification since the
                                                          last commit records `previous`
 … collection=True: previous NEVER_SET -> dict_[key],    `captureColl` : copy of the collection as it is
   then attr.copy(previous)                               before the mutation
_ScalarAttributeImpl.set / .delete                        `Scalar.set`, `Scalar.del`
_ScalarObjectAttributeImpl.set / .delete (simple m2o:     `Scalar.setObj`, `Scalar.delObj` (an unloaded old value
   active_history = _deferred_history = False)            is recorded as PASSIVE_NO_RESULT)
_ScalarAttributeImpl.get_history / object get_history     `Scalar.history` (dict, else committed_state, else load)
collection append / remove / pop / bulk set / delete      `Coll.append`, `Coll.remove`, `Coll.replace`, `Coll.delete`
   events (collections.py decorators fire the event
   BEFORE the builtin mutation)
_CollectionAttributeImpl.get_history                      `Coll.history`
flush: UPDATE iff history has changes; _commit_all        `flush` : row := current value, committed_state cleared
expire / load                                             `expire`, `load`
Import-free, total, executable.
-/
namespace SaVerif.History

inductive Slot (α : Type) where
  | absent
  | val (a : α)
deriving Repr, DecidableEq

inductive CS (α : Type) where
  | noHistory
  | noValue
  | noResult
  | val (a : α)
deriving Repr, DecidableEq

structure Hist (β : Type) where
  added : List β
  unchanged : List β
  deleted : List β
deriving Repr, DecidableEq

def Hist.blank {β : Type} : Hist β := ⟨[], [], []⟩

/-- `_modified_event`: `if attr.key not in self.committed_state: committed_state[key] = previous` -/
def capture {α : Type} (cs : CS α) (previous : CS α) : CS α :=
  match cs with
  | .noHistory => previous
  | c => c

/-- scalar values: `none` = Python None -/
abbrev SVal := Option Nat

/-- `History.from_scalar_attribute(attribute, state, current)`; `is_equal` is `==` -/
def fromScalar (cs : CS SVal) (cur : Slot SVal) : Hist SVal :=
  match cs with
  | .noHistory =>
    match cur with
    | .absent => .blank
    | .val c => ⟨[], [c], []⟩
  | orig =>
    let equal := match cur, orig with
      | .val c, .val o => c == o
      | _, _ => false
    if equal then
      match cur with
      | .val c => ⟨[], [c], []⟩
      | .absent => .blank
    else
      match orig with
      | .val o =>
        match cur with
        | .absent => ⟨[], [], [o]⟩
        | .val c => ⟨[c], [], [o]⟩
      | _ =>
        -- original is NO_VALUE / PASSIVE_NO_RESULT: deleted = (); a NO_VALUE current becomes None
        match cur with
        | .absent => ⟨[none], [], []⟩
        | .val c => ⟨[c], [], []⟩

/-- `History.from_object_attribute(attribute, state, current)` (original from committed_state) -/
def fromObject (cs : CS SVal) (cur : Slot SVal) : Hist SVal :=
  match cs with
  | .noHistory =>
    match cur with
    | .absent => .blank
    | .val c => ⟨[], [c], []⟩
  | orig =>
    let same := match cur, orig with
      | .val c, .val o => c == o
      | _, _ => false
    if same then
      match cur with
      | .val c => ⟨[], [c], []⟩
      | .absent => .blank
    else
      match orig with
      | .val (some o) =>
        match cur with
        | .absent => ⟨[], [], [some o]⟩
        | .val c => ⟨[c], [], [some o]⟩
      | _ =>
        match cur with
        | .absent => ⟨[none], [], []⟩
        | .val c => ⟨[c], [], []⟩

/-- `History.from_collection(attribute, state, current)` -/
def fromCollection (cs : CS (List Nat)) (cur : Slot (List Nat)) : Hist Nat :=
  match cur with
  | .absent => .blank
  | .val c =>
    match cs with
    | .noValue => ⟨c, [], []⟩
    | .noResult => ⟨c, [], []⟩
    | .noHistory => ⟨[], c, []⟩
    | .val o =>
      ⟨c.filter (fun x => !o.contains x), c.filter (fun x => o.contains x),
       o.filter (fun x => !c.contains x)⟩

/-! ## scalar column attribute / simple many-to-one reference -/
namespace Scalar

structure St where
  cur : Slot SVal
  cs  : CS SVal
  /-- the committed row value; `none` = the object has no row yet -/
  db  : Option SVal
  /-- the attribute is expired (will be loaded from the row on access) -/
  expired : Bool
  /-- object-reference attribute (identity comparison, PASSIVE_NO_RESULT for an unloaded old value) -/
  isObj : Bool
  /-- object reference: the foreign-key column attribute is present in `dict`, so the lazy
      loader can resolve the committed reference through the identity map without SQL -/
  fk : Bool
  /-- `state.modified` (the state takes part in the next flush) -/
  modified : Bool
  /-- the primary-key attribute is expired (whole-object expiry: commit / rollback) -/
  pkx : Bool
deriving Repr, DecidableEq

/-- `old` of `set` / `delete` as recorded in committed_state.  Scalar: `dict_.get(key, NO_VALUE)`.
    Object: `self.get(PASSIVE_NO_FETCH ^ INIT_OK | LOAD_AGAINST_COMMITTED | NO_RAISE)`: an expired
    reference is resolved through the identity map without SQL (the referenced object is assumed
    to be in the session, as in the harness) -/
def oldOf (s : St) : CS SVal :=
  match s.cur with
  | .val c => .val c
  | .absent =>
    if s.isObj && s.fk then
      match s.db with
      | some v => .val v
      | none => .noValue
    else .noValue

/-- `obj.attr = v` (does not touch `state.expired_attributes`) -/
def set (s : St) (v : SVal) : St :=
  { s with cs := capture s.cs (oldOf s), cur := .val v, modified := true }

/-- `del obj.attr`; `false` = AttributeError (after `_modified_event` has run) -/
def del (s : St) : St × Bool :=
  let s1 := { s with cs := capture s.cs (oldOf s), cur := Slot.absent, modified := true }
  match s.cur with
  | .val _ => (s1, true)
  | .absent =>
    if s.isObj then
      -- raises iff existing is NO_VALUE and old is not PASSIVE_NO_RESULT and state.key is None
      if s.db.isNone then (s1, false) else (s1, true)
    else
      -- raises iff existing and old are NO_VALUE and the attribute is not expired
      if s.expired then (s1, true) else (s1, false)

def expire (s : St) : St :=
  match s.db with
  | none => s
  | some _ => { s with cur := .absent, cs := .noHistory, expired := true }

/-- expiry of the whole object (`Session.commit` with expire_on_commit): `state._expire` also
    clears `modified` and expires the primary key -/
def expireAll (s : St) : St :=
  match s.db with
  | none => s
  | some _ =>
    { s with cur := .absent, cs := .noHistory, expired := true, modified := false, pkx := true }

/-- attribute access `obj.attr` (`_AttributeImpl.get`): a value in dict is returned as is.
    Scalar: an expired attribute is (re)loaded from the row — `_load_expired` with nothing
    unmodified to load refreshes the whole object and discards the pending change; otherwise
    `None` is returned and nothing changes.
    Object: loader callables run only when committed_state has no real value for the key
    (`key not in committed_state or committed_state[key] is NO_VALUE`); the lazy loader then
    installs the row's value with `set_committed_value` (which commits the key). -/
def load (s : St) : St :=
  match s.cur, s.db with
  | .absent, some v =>
    if s.isObj then
      match s.cs with
      | .val _ => s
      | _ => { s with cur := .val v, cs := .noHistory, expired := false }
    else if s.expired then { s with cur := .val v, cs := .noHistory, expired := false, pkx := false }
    else s
  | _, _ => s

/-- access to ANOTHER expired column attribute of the same object: `_load_expired` loads
    `expired_attributes ∩ unmodified` — this attribute too when it is expired and has no
    committed_state entry, never when it was modified (set / deleted) while expired — and then
    clears `expired_attributes` altogether -/
def loadOther (s : St) : St :=
  if s.isObj then s
  else
    match s.cur, s.cs, s.db with
    | .absent, .noHistory, some v =>
      if s.expired then { s with cur := .val v, expired := false, pkx := false }
      else { s with pkx := false }
    | _, _, _ => { s with expired := false, pkx := false }

/-- `inspect(obj).attrs.key.history` = `impl.get_history(state, dict_, PASSIVE_NO_INITIALIZE)`:
    nothing is loaded; an attribute absent from dict and from committed_state has a blank
    history -/
def history (s : St) : Hist SVal :=
  match s.cur with
  | .val c => if s.isObj then fromObject s.cs (.val c) else fromScalar s.cs (.val c)
  | .absent =>
    match s.cs with
    | .noHistory => .blank
    | .val o => if s.isObj then fromObject (.val o) .absent else fromScalar (.val o) .absent
    | c =>
      -- object: `get` with PASSIVE_NO_INITIALIZE returns PASSIVE_NO_RESULT -> HISTORY_BLANK
      if s.isObj then .blank else fromScalar c .absent

/-- the UPDATE / INSERT part of a flush: the current value is written, history committed.
    A missing value is written as NULL. -/
def flushWrite (s : St) : St :=
  match s.cs with
  | .noHistory => match s.db with
    | some _ => s
    | none => { s with db := some (match s.cur with | .val c => c | .absent => none) }
  | _ =>
    { s with db := some (match s.cur with | .val c => c | .absent => none), cs := .noHistory,
             -- `_commit_all_states`: `state.expired_attributes.difference_update(dict_)` — only
             -- keys present in `dict` stop being expired
             expired := (match s.cur with | .val _ => false | .absent => s.expired),
             -- the dependency sync writes the foreign-key attribute when the history has an added
             -- or a deleted reference: a present current value, or a recorded original
             fk := s.fk || (match s.cur with | .val _ => true | .absent => false) ||
                   (match s.cs with | .val _ => true | _ => false) }

/-- `Session.flush()`: a state with `modified` takes part; at the end `_register_persistent` reads
    its primary key — an expired pk loads every expired unmodified column attribute -/
def flush (s : St) : St :=
  let s1 := flushWrite s
  if s.modified then
    if s.pkx && !s.isObj then
      -- unmodified = no committed_state entry BEFORE the write (`_commit_all` runs afterwards)
      match s.cur, s.cs, s1.db with
      | .absent, .noHistory, some v =>
        if s1.expired then { s1 with cur := .val v, expired := false, modified := false, pkx := false }
        else { s1 with modified := false, pkx := false }
      | _, _, _ => { s1 with modified := false, pkx := false, expired := false }
    else { s1 with modified := false, pkx := false }
  else s1

inductive Op where
  | set (v : SVal)
  | del
  | expire
  | load
  | loadOther
  | expireAll
  | flush
deriving Repr, DecidableEq

def step (s : St) : Op → St
  | .set v => set s v
  | .del => (del s).1
  | .expire => expire s
  | .load => load s
  | .loadOther => loadOther s
  | .expireAll => expireAll s
  | .flush => flush s

def run (s : St) : List Op → St
  | [] => s
  | op :: ops => run (step s op) ops

/-- a loaded persistent attribute holding `v` / a brand-new object -/
def loaded (v : SVal) (isObj : Bool) : St := ⟨.val v, .noHistory, some v, false, isObj, true, false, false⟩
def fresh (isObj : Bool) : St := ⟨.absent, .noHistory, none, false, isObj, false, true, false⟩

end Scalar

/-! ## collection attribute (list; a set is the same up to order) -/
namespace Coll

structure St where
  cur : Slot (List Nat)
  cs  : CS (List Nat)
  /-- committed membership (rows); `none` = the owner has no row yet -/
  db  : Option (List Nat)
deriving Repr, DecidableEq

/-- `_modified_event(dict_, attr, NO_VALUE, collection=True)` before the builtin mutation:
    previous := copy of dict_[key] when present -/
def captureNow (s : St) : CS (List Nat) :=
  capture s.cs (match s.cur with
    | .val c => .val c
    | .absent => .noValue)

def insertSorted (x : Nat) : List Nat → List Nat
  | [] => [x]
  | y :: ys => if x ≤ y then x :: y :: ys else y :: insertSorted x ys

/-- rows come back `ORDER BY id` -/
def sortNat (l : List Nat) : List Nat := l.foldr insertSorted []

/-- attribute access: an unloaded collection of a persistent object is loaded from the rows;
    the empty collection of a new object is not placed in `dict` until it is mutated -/
def touch (s : St) : St :=
  match s.cur, s.db with
  | .absent, some l => { s with cur := .val (sortNat l) }
  | _, _ => s

/-- `CollectionAdapter._reset_empty`: the mutation of a new object's empty collection puts it
    into `dict` first -/
def materialize (s : St) : St :=
  match (touch s).cur with
  | .val _ => touch s
  | .absent => { s with cur := .val [] }

def append (s : St) (x : Nat) : St :=
  let s0 := materialize s
  match s0.cur with
  | .val c => { s0 with cs := captureNow s0, cur := .val (c ++ [x]) }
  | .absent => s0

/-- `remove(x)`: the decorator fires the remove event only `if value in self`, then `list.remove`
    (ValueError for an absent value, nothing recorded) -/
def remove (s : St) (x : Nat) : St :=
  let s0 := touch s
  match s0.cur with
  | .val c =>
    if c.contains x then { s0 with cs := captureNow s0, cur := .val (c.erase x) } else s0
  | .absent => s0

/-- `obj.items = new` (bulk replace): `_modified_event(dict_, self, old, True)` -/
def replace (s : St) (new : List Nat) : St :=
  let s0 := materialize s
  { s0 with cs := captureNow s0, cur := .val new }

/-- `del obj.items` -/
def delete (s : St) : St :=
  match s.cur with
  | .absent => s
  | .val _ => { s with cs := captureNow s, cur := .absent }

/-- `.history` (PASSIVE_NO_INITIALIZE): an absent collection is not loaded -/
def history (s : St) : Hist Nat :=
  fromCollection s.cs s.cur

def flush (s : St) : St :=
  match s.cs, s.db with
  | .noHistory, some _ => s
  | _, _ =>
    { s with db := some (match (touch s).cur with | .val c => sortNat c | .absent => []),
             cs := .noHistory }

def expire (s : St) : St :=
  match s.db with
  | none => s
  | some _ => { s with cur := .absent, cs := .noHistory }

inductive Op where
  | append (x : Nat)
  | remove (x : Nat)
  | replace (l : List Nat)
  | delete
  | touch
  | expire
  | flush
deriving Repr, DecidableEq

def step (s : St) : Op → St
  | .append x => append s x
  | .remove x => remove s x
  | .replace l => replace s l
  | .delete => delete s
  | .touch => touch s
  | .expire => expire s
  | .flush => flush s

def run (s : St) : List Op → St
  | [] => s
  | op :: ops => run (step s op) ops

def loaded (l : List Nat) : St := ⟨.val l, .noHistory, some l⟩
def fresh : St := ⟨.absent, .noHistory, none⟩

end Coll

end SaVerif.History
