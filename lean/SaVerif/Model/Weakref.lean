/-
M-ORM/weakref: the weak-referencing identity map, the strong references the Session
keeps for objects with pending work, and the application dropping its references.

Transcribed code (lib/sqlalchemy/orm):

Python                                                   model
-------------------------------------------------------  ---------------------------------
identity.WeakInstanceDict: state.obj is a weakref; the   `collect` (an object nobody holds
  entry disappears with the object (_cleanup)              leaves the identity map)
InstanceState._modified_event: `self._strong_obj = inst`  `Obj.mod` keeps the object alive
  when attached; WeakInstanceDict._modified
InstanceState._commit_all / _expire: `_strong_obj = None`  flush / expire clear `mod`
Session._new[state] = obj, Session._deleted[state] = obj  `St.new`, `Obj.del` keep alive
  (plain dicts: strong)
Session._register_persistent / _remove_newly_deleted      `doFlush`
Session.commit (expire_on_commit) / rollback              `Op.commit`, `Op.rollback`
Session.get: identity-map hit (expired: refresh, row      `Op.get`
  gone → None and the state is discarded) or SELECT
Session.begin_nested: SessionTransaction._take_snapshot    `Op.beginNested`: `doFlush`, then
  flushes UNCONDITIONALLY (whatever `autoflush` says),      `sp := some db`
  then SAVEPOINT; its `_new` / `_dirty` are weak           `spFresh`, `spDirty`
nested.rollback(): ROLLBACK TO SAVEPOINT,                 `rolledBackNested`
  _restore_snapshot(dirty_only=True): expunge what the
  savepoint inserted or holds pending, revert deletions,
  expire the states that are modified or in `_dirty`
nested.commit(): flush, RELEASE SAVEPOINT                 `Op.releaseNested`
a flush failing inside the savepoint rolls back the        `.integrity` with `rolledBackNested`
  savepoint only (the harness then closes the nested
  transaction with nested.rollback())
Session.commit / rollback with a savepoint open go to      `sp := none`
  the root

CPython frees an object as soon as its last reference goes away (reference cycles:
at the next gc.collect(), which the harness calls after every operation), so the
model with garbage collection applies `collect` after every step (`stepGc`); the
reference semantics without any collection is `step`.  Props/C48 proves that the
two are observationally equal (database and values read), for every history.

`app` is the application's reference: `get`/`add` acquire it, `drop` releases it,
`set`/`del` need it.  autoflush is off in this model (C47; the harness switches it off by
Session(autoflush=False) or by a no_autoflush block); `rollback` always rolls a
transaction back (the harness makes sure one is open).  Savepoints nest one deep
(`begin_nested` inside a savepoint is skipped).  An object deleted by a flush is forgotten by
the model at that flush (the application forgot it at `delete`); that a rolled back savepoint
puts a still living one back into the identity map is not modelled.

Import-free, total, executable.
-/
namespace SaVerif.Weakref

structure Obj where
  val : Option Int     -- none: expired
  mod : Bool
  del : Bool
  app : Bool           -- the application holds a reference
  touched : Bool       -- state.modified: in WeakInstanceDict._modified, `_strong_obj` set.  Stays up
                       -- when the history is taken away again (partial expire) or never came to be
                       -- (change refused outside a transaction with autobegin=False)
deriving DecidableEq, Repr

abbrev DB := Nat → Option Int

structure Cfg where
  n : Nat
  eoc : Bool
  autobegin : Bool     -- Session(autobegin=…)
deriving Repr

structure St where
  db : DB
  saved : Option DB
  objs : Nat → Option Obj            -- identity map
  new : Nat → Option (Int × Bool)    -- session.new: value, application reference
  txn : Bool                         -- a transaction is open (only consulted with autobegin=False)
  fresh : Nat → Bool                 -- SessionTransaction._new (a WeakKeyDictionary): the instance
                                     -- at k was inserted by this transaction and is still alive
  sp : Option DB := none             -- the open SAVEPOINT: the database when it was taken
  spFresh : Nat → Bool := fun _ => false   -- nested `_new`: inserted inside the savepoint, alive
  spDirty : Nat → Bool := fun _ => false   -- nested `_dirty`: flushed inside the savepoint, alive

def St.init : St := ⟨fun _ => none, none, fun _ => none, fun _ => none, false, fun _ => false,
  none, fun _ => false, fun _ => false⟩

inductive Op
  | get (k : Nat)
  | set (k : Nat) (v : Int)
  | del (k : Nat)
  | add (k : Nat) (v : Int)
  | drop (k : Nat)
  | expire (k : Nat)
  | expireVal (k : Nat)      -- session.expire(obj, ["val"]): exactly the modified attribute
  | expireId (k : Nat)       -- session.expire(obj, ["id"]): an attribute without history
  | begin                    -- session.begin()
  | beginNested              -- session.begin_nested()
  | rollbackNested           -- session.get_nested_transaction().rollback()
  | releaseNested            -- session.get_nested_transaction().commit()
  | flush
  | commit
  | rollback
  | len
deriving Repr

inductive Out
  | skip
  | done
  | raised                   -- InvalidRequestError: change outside a transaction, autobegin=False
  | val (v : Option Int)     -- get: value | None
  | num (n : Nat)
  | integrity        -- a flush failed: IntegrityError / StaleDataError / ObjectDeletedError
deriving DecidableEq, Repr

/-- an object the Session itself keeps alive -/
def strong (o : Obj) : Bool := o.mod || o.touched || o.del

/-- garbage collection: objects neither the application nor the Session holds go away -/
def collect (st : St) : St :=
  { st with objs := fun k => match st.objs k with
                             | some o => if o.app || strong o then some o else none
                             | none => none,
            -- the transaction only remembers "inserted here" for instances that are alive
            fresh := fun k => st.fresh k && (match st.objs k with
                                             | some o => o.app || strong o
                                             | none => false),
            spFresh := fun k => st.spFresh k && (match st.objs k with
                                                 | some o => o.app || strong o
                                                 | none => false),
            spDirty := fun k => st.spDirty k && (match st.objs k with
                                                 | some o => o.app || strong o
                                                 | none => false) }

def anyBelow (n : Nat) (f : Nat → Bool) : Bool := (List.range n).any f

def touchedOpt : Option Obj → Bool
  | some o => o.touched
  | none => false

def strongOpt : Option Obj → Bool
  | some o => strong o
  | none => false

def hasWork (c : Cfg) (st : St) : Bool :=
  anyBelow c.n (fun k => (st.new k).isSome || strongOpt (st.objs k))

def dupAt (st : St) (k : Nat) : Bool := (st.new k).isSome && (st.db k).isSome

def expiredObj (o : Obj) : Obj := { o with val := none, mod := false, del := false, touched := false }

/-- ROLLBACK: pending objects are expunged, and so are the instances this transaction
    inserted — those it still knows (`fresh`).  Every other instance is expired and stays:
    an instance that was *re-loaded* after the inserted one had been garbage collected is
    not known to the transaction and survives as a phantom whose row is gone. -/
def rolledBack (st : St) : St :=
  { db := st.saved.getD st.db, saved := none,
    objs := fun k => match st.objs k with
                     | some o => if st.fresh k then none else some (expiredObj o)
                     | none => none,
    new := fun _ => none, txn := false, fresh := fun _ => false,
    sp := none, spFresh := fun _ => false, spDirty := fun _ => false }

/-- ROLLBACK TO SAVEPOINT + `_restore_snapshot(dirty_only=True)`: `d` = the database at the
    savepoint.  What the savepoint inserted (and still knows) and what is pending is expunged,
    pending deletions are reverted, the states that are modified or that a flush inside the
    savepoint wrote (and that are still known) are expired; everything else stays as it is. -/
def rolledBackNested (st : St) (d : DB) : St :=
  { db := d, saved := st.saved,
    objs := fun k => match st.objs k with
                     | some o =>
                       if st.spFresh k then none
                       else if o.mod || o.touched || st.spDirty k then some (expiredObj o)
                       else some { o with del := false }
                     | none => none,
    new := fun _ => none, txn := st.txn,
    fresh := fun k => st.fresh k && !st.spFresh k,
    sp := none, spFresh := fun _ => false, spDirty := fun _ => false }

def flushRow (nw : Option (Int × Bool)) (o : Option Obj) (row : Option Int) : Option Int :=
  match nw, o with
  | some (v, _), _ => some v
  | none, some o => if o.del then none else if o.mod then (match row with
                                                             | some _ => o.val
                                                             | none => none) else row
  | none, none => row

def flushObj (nw : Option (Int × Bool)) (o : Option Obj) : Option Obj :=
  match nw, o with
  | some (v, a), _ => some ⟨some v, false, false, a, false⟩
  | none, some o => if o.del then none else some { o with mod := false, touched := false }
  | none, none => none

/-- UPDATE / DELETE of an instance whose row does not exist (a phantom): StaleDataError or
    ObjectDeletedError -/
def goneAt (st : St) (k : Nat) : Bool :=
  (st.new k).isNone && strongOpt (st.objs k) && (st.db k).isNone

/-- `none`: the flush failed (duplicate primary key, or a phantom) -/
def doFlush (c : Cfg) (st : St) : Option St :=
  if !hasWork c st then some st
  else if anyBelow c.n (dupAt st) || anyBelow c.n (goneAt st) then none
  else some { db := fun k => if k < c.n then flushRow (st.new k) (st.objs k) (st.db k) else st.db k,
              saved := match st.saved with
                       | some s => some s
                       | none => some st.db,
              objs := fun k => if k < c.n then flushObj (st.new k) (st.objs k) else st.objs k,
              new := fun k => if k < c.n then none else st.new k,
              txn := st.txn,
              fresh := fun k => st.fresh k || (decide (k < c.n) && (st.new k).isSome),
              sp := st.sp,
              spFresh := fun k => st.spFresh k || (st.sp.isSome && decide (k < c.n) && (st.new k).isSome),
              spDirty := fun k => st.spDirty k ||
                (st.sp.isSome && decide (k < c.n) && (st.new k).isNone && strongOpt (st.objs k)) }

/-- a failing flush rolls back to the nearest boundary: the savepoint when one is open -/
def flushFailed (st : St) : St :=
  match st.sp with
  | some d => rolledBackNested st d
  | none => rolledBack st

/-! ### operations on one primary key: (pending entry, identity-map entry, row) ↦ new
entries and the output -/

abbrev Slot := Option (Int × Bool) × Option Obj

def getSlot (nw : Option (Int × Bool)) (o : Option Obj) (row : Option Int) : Slot × Out :=
  match nw with
  | some _ => ((nw, o), .skip)
  | none =>
    match o with
    | some ob =>
      if ob.del then ((nw, o), .skip)
      else match ob.val with
        | some v => ((nw, some { ob with app := true }), .val (some v))
        | none =>
          match row with
          | some v => ((nw, some { ob with val := some v, app := true }), .val (some v))
          | none => ((nw, none), .val none)
    | none =>
      match row with
      | some v => ((nw, some ⟨some v, false, false, true, false⟩), .val (some v))
      | none => ((nw, none), .val none)

def setSlot (v : Int) (nw : Option (Int × Bool)) (o : Option Obj) : Slot × Out :=
  match nw with
  | some (_, a) => if a then ((some (v, true), o), .done) else ((nw, o), .skip)
  | none =>
    match o with
    | some ob =>
      if ob.app && !ob.del then ((nw, some { ob with val := some v, mod := true, touched := true }), .done)
      else ((nw, o), .skip)
    | none => ((nw, o), .skip)

/-- `Session.delete`; the application forgets the object it deleted -/
def delSlot (nw : Option (Int × Bool)) (o : Option Obj) : Slot × Out :=
  match nw, o with
  | none, some ob =>
    if ob.app && !ob.del then ((nw, some { ob with del := true, app := false }), .done) else ((nw, o), .skip)
  | _, _ => ((nw, o), .skip)

/-- the application creates an object for `k` only when it holds none and the Session
    keeps none alive for it (an unreferenced clean object may or may not still be in the
    identity map: that is exactly what garbage collection decides) -/
def addSlot (v : Int) (nw : Option (Int × Bool)) (o : Option Obj) : Slot × Out :=
  let free := match o with
              | none => true
              | some ob => !ob.app && !strong ob
  if nw.isNone && free then ((some (v, true), o), .done) else ((nw, o), .skip)

def dropSlot (nw : Option (Int × Bool)) (o : Option Obj) : Slot × Out :=
  match nw with
  | some (v, _) => ((some (v, false), o), .done)
  | none => ((nw, o.map (fun ob => { ob with app := false })), .done)

def expSlot (nw : Option (Int × Bool)) (o : Option Obj) : Slot × Out :=
  match nw, o with
  | none, some ob =>
    if ob.app && !ob.del then ((nw, some { ob with val := none, mod := false, touched := false }), .done) else ((nw, o), .skip)
  | _, _ => ((nw, o), .skip)

/-- `InstanceState._expire_attributes` for the one attribute that carries history: value and
    history go, `state.modified` and the strong reference stay -/
def expValSlot (nw : Option (Int × Bool)) (o : Option Obj) : Slot × Out :=
  match nw, o with
  | none, some ob =>
    if ob.app && !ob.del then ((nw, some { ob with val := none, mod := false }), .done) else ((nw, o), .skip)
  | _, _ => ((nw, o), .skip)

/-- partial expire of an attribute without history: nothing the model tracks changes -/
def expIdSlot (nw : Option (Int × Bool)) (o : Option Obj) : Slot × Out :=
  match nw, o with
  | none, some ob => if ob.app && !ob.del then ((nw, o), .done) else ((nw, o), .skip)
  | _, _ => ((nw, o), .skip)

/-- attribute set outside a transaction with autobegin=False: `_modified_event` has put the
    state into `_modified` and taken the strong reference when the inlined autobegin raises;
    the value is not assigned -/
def setDeadSlot (nw : Option (Int × Bool)) (o : Option Obj) : Slot × Out :=
  match nw, o with
  | none, some ob =>
    if ob.app && !ob.del then ((nw, some { ob with touched := true }), .raised) else ((nw, o), .skip)
  | _, _ => ((nw, o), .skip)

def putSlot (st : St) (k : Nat) (r : Slot × Out) : St × Out :=
  ({ st with new := fun j => if j = k then r.1.1 else st.new j,
             objs := fun j => if j = k then r.1.2 else st.objs j }, r.2)

/-- autobegin=False and no transaction: the application can still touch its objects -/
def stepDead (c : Cfg) (st : St) : Op → St × Out
  | .set k v =>
    -- `_modified_event` runs the inlined autobegin check only `if not has_modified`, i.e.
    -- when the identity map's `_modified` set was empty: once one (refused) change has left
    -- a state in there, further changes are accepted without any transaction
    if anyBelow c.n (fun j => touchedOpt (st.objs j))
    then putSlot st k (setSlot v (st.new k) (st.objs k))
    else putSlot st k (setDeadSlot (st.new k) (st.objs k))
  | .drop k => putSlot st k (dropSlot (st.new k) (st.objs k))
  | .len => (st, .num ((List.range c.n).filter (fun k => (st.objs k).isSome)).length)
  | .begin => ({ st with txn := true }, .done)
  | _ => (st, .skip)

/-- inside a transaction (or with autobegin, which opens one on demand) -/
def stepLive (c : Cfg) (st : St) : Op → St × Out
  | .get k => putSlot st k (getSlot (st.new k) (st.objs k) (st.db k))
  | .set k v => putSlot st k (setSlot v (st.new k) (st.objs k))
  | .del k => putSlot st k (delSlot (st.new k) (st.objs k))
  | .add k v => putSlot st k (addSlot v (st.new k) (st.objs k))
  | .drop k => putSlot st k (dropSlot (st.new k) (st.objs k))
  | .expire k => putSlot st k (expSlot (st.new k) (st.objs k))
  | .expireVal k => putSlot st k (expValSlot (st.new k) (st.objs k))
  | .expireId k => putSlot st k (expIdSlot (st.new k) (st.objs k))
  | .begin => (st, .skip)
  | .beginNested =>
    if st.sp.isSome then (st, .skip)
    else match doFlush c st with
      | none => (rolledBack st, .integrity)
      | some st1 => ({ st1 with sp := some st1.db, spFresh := fun _ => false, spDirty := fun _ => false }, .done)
  | .rollbackNested =>
    match st.sp with
    | none => (st, .skip)
    | some d => (rolledBackNested st d, .done)
  | .releaseNested =>
    match st.sp with
    | none => (st, .skip)
    | some _ =>
      match doFlush c st with
      | none => (flushFailed st, .integrity)
      | some st1 => ({ st1 with sp := none, spFresh := fun _ => false, spDirty := fun _ => false }, .done)
  | .flush =>
    match doFlush c st with
    | none => (flushFailed st, .integrity)
    | some st1 => (st1, .done)
  | .commit =>
    match doFlush c st with
    | none => (flushFailed st, .integrity)
    | some st1 =>
      ({ st1 with saved := none, txn := false, fresh := fun _ => false,
                  sp := none, spFresh := fun _ => false, spDirty := fun _ => false,
                  objs := if c.eoc then (fun k => (st1.objs k).map (fun o => { o with val := none, mod := false })) else st1.objs }, .done)
  | .rollback => (rolledBack st, .done)
  | .len => (st, .num ((List.range c.n).filter (fun k => (st.objs k).isSome)).length)

/-- operations need a transaction; with autobegin (the default) there always is one -/
def live (c : Cfg) (st : St) : Bool := c.autobegin || st.txn

/-- the reference semantics: nothing is ever collected -/
def step (c : Cfg) (st : St) (op : Op) : St × Out :=
  if live c st then stepLive c st op else stepDead c st op

/-- CPython: collection after every operation -/
def stepGc (c : Cfg) (st : St) (op : Op) : St × Out :=
  let r := step c st op
  (collect r.1, r.2)

def run (c : Cfg) (st : St) : List Op → St
  | [] => st
  | o :: os => run c (step c st o).1 os

def runGc (c : Cfg) (st : St) : List Op → St
  | [] => st
  | o :: os => runGc c (stepGc c st o).1 os

def outs (c : Cfg) (st : St) : List Op → List Out
  | [] => []
  | o :: os => (step c st o).2 :: outs c (step c st o).1 os

def outsGc (c : Cfg) (st : St) : List Op → List Out
  | [] => []
  | o :: os => (stepGc c st o).2 :: outsGc c (stepGc c st o).1 os

def opOk (c : Cfg) : Op → Bool
  | .get k | .set k _ | .del k | .add k _ | .drop k | .expire k | .expireVal k | .expireId k => k < c.n
  | .flush | .commit | .rollback | .len | .begin | .beginNested | .rollbackNested | .releaseNested => true

end SaVerif.Weakref
