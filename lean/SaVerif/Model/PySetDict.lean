import SaVerif.Model.PySeq
/-
M-PYSEQ (2/3, 3/3): Python `set` / `dict` semantics (trusted, validated against CPython) and the
instrumented set / dict decorators of lib/sqlalchemy/orm/collections.py (`_set_decorators`,
`_dict_decorators`) plus `KeyFuncDict.set/remove` (orm/mapped_collection.py), with the
append/remove event log.  Core Lean only, total, executable.

A set is a duplicate-free list (order carries no meaning; the driver prints it sorted).
A dict is an association list with unique keys in insertion order.

Python                                              model
--------------------------------------------------  -----------------------------
add: `if value not in self: __set(...)`; fn         SetI.add
discard / remove: `if value in self: __del`; fn     SetI.discard / SetI.remove (KeyError)
pop: fn(); __del(item)                              SetI.pop (the popped member is an input:
                                                    which member a set pops is unspecified)
clear: `for item in list(self): self.remove(item)`  SetI.clear
update(value): `for item in value: self.add(item)`  SetI.update
difference_update: `for item in list(value)`: discard SetI.diffUpdate
intersection_update / symmetric_difference_update:  SetI.interUpdate / SetI.symDiffUpdate
  want/have; remove = have-want; add = want-have
__ior__/__isub__/__iand__/__ixor__:                 strict = false ⇒ NotImplemented ⇒ TypeError
  `_set_binops_check_strict`
dict __setitem__: `if key in self: __del(self[key])`; __set; fn      DictI.setitem
dict __delitem__ / clear / pop / popitem / setdefault / update       DictI.*
dict |= other   (`self.update(other); return self`)                  DictI.ior
KeyFuncDict.set(value) / remove(value), key = keyfunc(value)         DictI.kset / DictI.kremove
-/
namespace SaVerif.PySeq

/-! ### plain set -/

def sAdd (s : List Item) (x : Item) : List Item := if s.contains x then s else s ++ [x]
def sUnion (s v : List Item) : List Item := v.foldl sAdd s
def sDiff (s v : List Item) : List Item := s.filter (fun x => !v.contains x)
def sInter (s v : List Item) : List Item := s.filter (fun x => v.contains x)
def sSymDiff (s v : List Item) : List Item := sDiff s v ++ sDiff (sUnion [] v) s

namespace SetI

def add (s : List Item) (x : Item) : Res :=
  if s.contains x then ⟨s, [], .none⟩ else ⟨s ++ [x], [.app x], .none⟩

def discard (s : List Item) (x : Item) : Res :=
  if s.contains x then ⟨s.erase x, [.rem x], .none⟩ else ⟨s, [], .none⟩

def remove (s : List Item) (x : Item) : Res :=
  if s.contains x then ⟨s.erase x, [.rem x], .none⟩ else ⟨s, [], .err .keyError⟩

/-- `popped` = the member CPython's `set.pop` chose (observed by the harness) -/
def pop (s : List Item) (popped : Option Item) : Res :=
  if s.isEmpty then ⟨s, [], .err .keyError⟩ else
  match popped with
  | some x => if s.contains x then ⟨s.erase x, [.rem x], .val x⟩ else ⟨s, [], .err .invalidRequest⟩
  | none => ⟨s, [], .err .invalidRequest⟩

/-- run `f` over the items, threading contents and accumulating events; stop at an error -/
def each (f : List Item → Item → Res) : List Item → List Item → List Event → Res
  | [], s, ev => ⟨s, ev, .none⟩
  | x :: xs, s, ev =>
    let r := f s x
    match r.ret with
    | .err e => ⟨r.items, ev ++ r.events, .err e⟩
    | _ => each f xs r.items (ev ++ r.events)

def clear (s : List Item) : Res := each remove s s []

def update (s : List Item) (v : Val) : Res :=
  match v.kind with
  | .nonIter => ⟨s, [], .err .typeError⟩
  | .self => each add s s []
  | _ => each add v.elems s []

def diffUpdate (s : List Item) (v : Val) : Res :=
  match v.kind with
  | .nonIter => ⟨s, [], .err .typeError⟩
  | .self => each discard s s []      -- `for item in list(value)`: a snapshot (G7 fix)
  | _ => each discard v.elems s []

/-- `want, have = self.<op>(other), set(self)`; removes `have - want`, adds `want - have` -/
def wantHave (s want : List Item) : Res :=
  let r := each remove (sDiff s want) s []
  match r.ret with
  | .err e => ⟨r.items, r.events, .err e⟩
  | _ => each add (sDiff want s) r.items r.events

def interUpdate (s : List Item) (v : Val) : Res :=
  match v.kind with
  | .nonIter => ⟨s, [], .err .typeError⟩
  | .self => wantHave s s
  | _ => wantHave s (sInter s v.elems)

def symDiffUpdate (s : List Item) (v : Val) : Res :=
  match v.kind with
  | .nonIter => ⟨s, [], .err .typeError⟩
  | .self => wantHave s []
  | _ => wantHave s (sSymDiff s v.elems)

end SetI

inductive SOp where
  | add (x : Item)
  | discard (x : Item)
  | remove (x : Item)
  | pop (popped : Option Item)
  | clear
  | update (v : Val)
  | diffUpdate (v : Val)
  | interUpdate (v : Val)
  | symDiffUpdate (v : Val)
  | ior (strict : Bool) (v : Val)
  | isub (strict : Bool) (v : Val)
  | iand (strict : Bool) (v : Val)
  | ixor (strict : Bool) (v : Val)
deriving Repr, DecidableEq

def sStep (s : List Item) : SOp → Res
  | .add x => SetI.add s x
  | .discard x => SetI.discard s x
  | .remove x => SetI.remove s x
  | .pop p => SetI.pop s p
  | .clear => SetI.clear s
  | .update v => SetI.update s v
  | .diffUpdate v => SetI.diffUpdate s v
  | .interUpdate v => SetI.interUpdate s v
  | .symDiffUpdate v => SetI.symDiffUpdate s v
  | .ior strict v => if strict then SetI.update s v else ⟨s, [], .err .typeError⟩
  | .isub strict v => if strict then SetI.diffUpdate s v else ⟨s, [], .err .typeError⟩
  | .iand strict v => if strict then SetI.interUpdate s v else ⟨s, [], .err .typeError⟩
  | .ixor strict v => if strict then SetI.symDiffUpdate s v else ⟨s, [], .err .typeError⟩

/-- the mathematical result on a plain set (`none` = the operation raises) -/
def sPlain (s : List Item) : SOp → Option (List Item)
  | .add x => some (sAdd s x)
  | .discard x => some (s.erase x)
  | .remove x => if s.contains x then some (s.erase x) else none
  | .pop p => match p with
    | some x => if s.contains x then some (s.erase x) else none
    | none => none
  | .clear => some []
  | .update v | .ior true v =>
    match v.kind with | .nonIter => none | .self => some s | _ => some (sUnion s v.elems)
  | .diffUpdate v | .isub true v =>
    match v.kind with | .nonIter => none | .self => some [] | _ => some (sDiff s v.elems)
  | .interUpdate v | .iand true v =>
    match v.kind with | .nonIter => none | .self => some s | _ => some (sInter s v.elems)
  | .symDiffUpdate v | .ixor true v =>
    match v.kind with | .nonIter => none | .self => some [] | _ => some (sSymDiff s v.elems)
  | .ior false _ | .isub false _ | .iand false _ | .ixor false _ => none

def sRun (s : List Item) : List SOp → List Res
  | [] => []
  | op :: ops => let r := sStep s op; r :: sRun r.items ops

/-! ### dict -/

abbrev Key := Nat
abbrev Dict := List (Key × Item)

def dGet (d : Dict) (k : Key) : Option Item := (d.find? (fun e => e.1 == k)).map (·.2)
def dHas (d : Dict) (k : Key) : Bool := d.any (fun e => e.1 == k)
def dSet (d : Dict) (k : Key) (v : Item) : Dict :=
  if dHas d k then d.map (fun e => if e.1 == k then (k, v) else e) else d ++ [(k, v)]
def dDel (d : Dict) (k : Key) : Dict := d.filter (fun e => e.1 != k)
def dUpdate (d : Dict) (o : Dict) : Dict := o.foldl (fun d e => dSet d e.1 e.2) d

structure DRes where
  items : Dict
  events : List Event
  ret : Ret
deriving Repr, DecidableEq

namespace DictI

def setitem (d : Dict) (k : Key) (v : Item) : DRes :=
  match dGet d k with
  | some old => ⟨dSet d k v, [.rem old, .app v], .none⟩
  | none => ⟨dSet d k v, [.app v], .none⟩

def delitem (d : Dict) (k : Key) : DRes :=
  match dGet d k with
  | some old => ⟨dDel d k, [.rem old], .none⟩
  | none => ⟨d, [], .err .keyError⟩

def clear (d : Dict) : DRes := ⟨[], d.map (fun e => .rem e.2), .none⟩

/-- `pop(key)` / `pop(key, default)`: `_to_del = key in self` is probed BEFORE the builtin pop, so
    the remove event depends on the key being present, never on what the call returns — in
    particular not on the default being the very object stored (`dflt = some x`: an item passed
    as default, `none` with `hasDefault`: the default `None`) -/
def pop (d : Dict) (k : Key) (hasDefault : Bool) (dflt : Option Item) : DRes :=
  match dGet d k with
  | some old => ⟨dDel d k, [.rem old], .val old⟩
  | none =>
    if hasDefault then ⟨d, [], match dflt with | some x => .val x | none => .none⟩
    else ⟨d, [], .err .keyError⟩

/-- the seeded variant C38-D: "nothing was removed" inferred from `item is default` -/
def popInfersFromDefault (d : Dict) (k : Key) (dflt : Item) : DRes :=
  match dGet d k with
  | some old => ⟨dDel d k, if old == dflt then [] else [.rem old], .val old⟩
  | none => ⟨d, [], .val dflt⟩

def popitem (d : Dict) : DRes :=
  match d.getLast? with
  | some (k, v) => ⟨dDel d k, [.rem v], .val v⟩
  | none => ⟨d, [], .err .keyError⟩

/-- `setdefault(key, default)` with an item as default -/
def setdefault (d : Dict) (k : Key) (v : Item) : DRes :=
  match dGet d k with
  | none => let r := setitem d k v; ⟨r.items, r.events, .val v⟩
  | some old => ⟨d, [], .val old⟩

/-- `if key not in self or self[key] is not value: self[key] = value` for each pair -/
def update (d : Dict) (o : Dict) : DRes :=
  o.foldl (fun (r : DRes) e =>
    if dGet r.items e.1 == some e.2 then r
    else let r' := setitem r.items e.1 e.2; ⟨r'.items, r.events ++ r'.events, .none⟩) ⟨d, [], .none⟩

/-- `d |= other`: `self.update(other); return self` (wrapped since the G8 fix) -/
def ior (d : Dict) (o : Dict) : DRes := update d o

/-- the code before the G8 fix: plain `dict.__ior__`, no events (kept for the counterexample) -/
def iorUnwrapped (d : Dict) (o : Dict) : DRes := ⟨dUpdate d o, [], .none⟩

/-- `KeyFuncDict.set(value)`: `self.__setitem__(keyfunc(value), value)`; keyfunc = identity on
    the item number -/
def kset (d : Dict) (v : Item) : DRes := setitem d v v

/-- `KeyFuncDict.remove(value)`: `self[key]` (KeyError), `!= value` ⇒ InvalidRequestError -/
def kremove (d : Dict) (v : Item) : DRes :=
  match dGet d v with
  | none => ⟨d, [], .err .keyError⟩
  | some cur => if cur != v then ⟨d, [], .err .invalidRequest⟩ else delitem d v

end DictI

inductive DOp where
  | setitem (k : Key) (v : Item)
  | delitem (k : Key)
  | clear
  | pop (k : Key) (hasDefault : Bool) (dflt : Option Item)
  | popitem
  | setdefault (k : Key) (v : Item)
  | update (o : Dict)
  | ior (o : Dict)
  | kset (v : Item)
  | kremove (v : Item)
deriving Repr, DecidableEq

def dStep (d : Dict) : DOp → DRes
  | .setitem k v => DictI.setitem d k v
  | .delitem k => DictI.delitem d k
  | .clear => DictI.clear d
  | .pop k h df => DictI.pop d k h df
  | .popitem => DictI.popitem d
  | .setdefault k v => DictI.setdefault d k v
  | .update o => DictI.update d o
  | .ior o => DictI.ior d o
  | .kset v => DictI.kset d v
  | .kremove v => DictI.kremove d v

/-- the same operation on a plain dict (`none` = raises) -/
def dPlain (d : Dict) : DOp → Option Dict
  | .setitem k v => some (dSet d k v)
  | .delitem k => if dHas d k then some (dDel d k) else none
  | .clear => some []
  | .pop k h _ => if dHas d k then some (dDel d k) else if h then some d else none
  | .popitem => match d.getLast? with | some (k, _) => some (dDel d k) | none => none
  | .setdefault k v => if dHas d k then some d else some (dSet d k v)
  | .update o => some (dUpdate d o)
  | .ior o => some (dUpdate d o)
  | .kset v => some (dSet d v v)
  | .kremove v => match dGet d v with
    | some cur => if cur == v then some (dDel d v) else none
    | none => none

def dRun (d : Dict) : List DOp → List DRes
  | [] => []
  | op :: ops => let r := dStep d op; r :: dRun r.items ops

end SaVerif.PySeq
