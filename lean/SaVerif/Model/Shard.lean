/-
M-ORM/shard: `sqlalchemy.ext.horizontal_shard.ShardedSession` over several databases.

Transcribed code (lib/sqlalchemy/ext/horizontal_shard.py, orm/session.py, identity.py):

Python                                                     model
---------------------------------------------------------  ------------------------------
ShardedSession._choose_shard_and_assign: persistent →       `flushNew` (token := chooser row),
  state.key[2]; else shard_chooser(mapper, instance) and      `flushObjs` (row of shard `token`)
  `state.identity_token = shard_id`
connection_callable / get_bind → self.__shards[shard_id]    `St.shards s`
identity key = (class, pk, identity_token)                  `St.objs (pk, token)`
execute_and_instances: explicit shard id (option /          `Op.query q (some [s])`;
  bind_arguments / identity_token) → one shard; else         `Op.query q none` = every shard the
  `for shard_id in execute_chooser(ctx)` … partial[0]        execute chooser returns; results
  .merge(*partial[1:])                                       concatenated in that order
ShardedSession._identity_lookup: identity_token given →     `Op.get pk (some s)`;
  that key; else `for shard_id in identity_chooser(...)`     `Op.get pk none`: identity map in
  first hit; miss → load_on_pk_identity → execute chooser,   chooser order, then the databases
  Result.one() → MultipleResultsFound for two rows           (`Out.multiple`)
Session.flush: INSERTs of pending objects in insertion      `flushNew` (IntegrityError on a
  order, UPDATE / DELETE by the persistent object's token     duplicate pk inside one shard)

Chooser functions are parameters of the model (`Cfg`): the shard chooser is a function of
the row (its `region`), the identity chooser a fixed search order, the execute chooser the
shard list carried by the query (default: all shards in order).  autoflush is off.

Import-free, total, executable.
-/
namespace SaVerif.Shard

structure Row where
  region : Nat
  val : Int
deriving DecidableEq, Repr

structure Obj where
  row : Row
  dirty : Bool
  del : Bool
deriving DecidableEq, Repr

abbrev DB := Nat → Option Row           -- one shard: pk ↦ row

structure Cfg where
  n : Nat                       -- primary keys 0 .. n-1
  nshards : Nat
  chooser : Nat → Nat           -- region ↦ shard (shard_chooser)
  idOrder : List Nat            -- identity_chooser: shards to search, in order

structure St where
  shards : Nat → DB
  objs : Nat → Nat → Option Obj          -- pk → token → persistent object
  new : List (Nat × Row)                 -- pending: pk, row

def St.init : St := ⟨fun _ _ => none, fun _ _ => none, []⟩

inductive Filt
  | all
  | region (r : Nat)
  | val (v : Int)
deriving Repr

inductive Op
  | add (pk : Nat) (r : Row)
  | set (pk s : Nat) (v : Int)
  | setR (pk s : Nat) (r : Nat)     -- change the attribute the shard chooser looks at
  | mergeDet (pk s : Nat) (v : Int) -- expunge the instance (pk, s), modify it, session.merge() it back
  | del (pk s : Nat)
  | flush
  | query (f : Filt) (sh : Option (List Nat))
  | get (pk : Nat) (tok : Option Nat)
deriving Repr

inductive Out
  | skip
  | done
  | rows (l : List (Nat × Nat × Int))     -- pk, shard token, value as the session's object shows it
  | found (pk s : Nat) (v : Int)
  | none
  | multiple
  | integrity
deriving DecidableEq, Repr

def allShards (c : Cfg) : List Nat := List.range c.nshards

def Filt.ok (f : Filt) (r : Row) : Bool :=
  match f with
  | .all => true
  | .region x => r.region == x
  | .val v => r.val == v

/-- SELECT on one shard, ORDER BY pk -/
def selectShard (c : Cfg) (db : DB) (f : Filt) : List Nat :=
  (List.range c.n).filter (fun k => match db k with
                                    | some r => f.ok r
                                    | none => false)

/-! ### flush -/

/-- INSERT of the pending objects, in insertion order, each into the shard its chooser
    names; `none` = IntegrityError.  A pending object whose identity (pk, chosen shard) is
    held by a persistent object marked deleted is a row switch: UPDATE of that row instead
    (persistence._organize_states_for_save). -/
def isSwitch (objs : Nat → Nat → Option Obj) (pk s : Nat) : Bool :=
  match objs pk s with
  | some o => o.del
  | none => false

def flushNew (c : Cfg) (objs : Nat → Nat → Option Obj) : List (Nat × Row) → (Nat → DB) → Option (Nat → DB)
  | [], sh => some sh
  | (pk, r) :: rest, sh =>
    let s := c.chooser r.region
    if !isSwitch objs pk s && (sh s pk).isSome then none
    else flushNew c objs rest (fun t => if t = s then (fun k => if k = pk then some r else sh s k) else sh t)

/-- UPDATE / DELETE of persistent objects go to the shard of their identity token -/
def applyObj (o : Option Obj) (row : Option Row) : Option Row :=
  match o with
  | some o => if o.del then none else if o.dirty then (match row with
                                                          | some _ => some o.row
                                                          | none => none) else row
  | none => row

def objAfter (o : Option Obj) : Option Obj :=
  match o with
  | some o => if o.del then none else some { o with dirty := false }
  | none => none

/-- token the pending entry for `pk` gets (first entry, as `find?`) -/
def newAt (c : Cfg) (new : List (Nat × Row)) (pk s : Nat) : Option Row :=
  (new.find? (fun e => e.1 == pk && c.chooser e.2.region == s)).map (·.2)

def doFlush (c : Cfg) (st : St) : Option St :=
  match flushNew c st.objs st.new st.shards with
  | none => none
  | some sh1 =>
    some { shards := fun s k => match newAt c st.new k s with
                               | some _ => sh1 s k
                               | none => applyObj (st.objs k s) (sh1 s k),
           objs := fun k s => match newAt c st.new k s with
                              | some r => some ⟨r, false, false⟩
                              | none => objAfter (st.objs k s),
           new := [] }

/-! ### loading -/

def valOf (st : St) (k s : Nat) : Int :=
  match st.objs k s, st.shards s k with
  | some o, _ => o.row.val
  | none, some r => r.val
  | none, none => 0

def loadInto (st : St) (s : Nat) (ids : List Nat) : St :=
  { st with objs := fun k t =>
      if t = s ∧ ids.contains k then
        (match st.objs k t, st.shards t k with
         | some o, _ => some o
         | none, some r => some ⟨r, false, false⟩
         | none, none => none)
      else st.objs k t }

/-- run the SELECT on each shard in turn, loading identities as we go -/
def queryShards (c : Cfg) (f : Filt) : List Nat → St → St × List (Nat × Nat × Int)
  | [], st => (st, [])
  | s :: rest, st =>
    let ids := selectShard c (st.shards s) f
    let st1 := loadInto st s ids
    let here := ids.map (fun k => (k, s, valOf st1 k s))
    let r := queryShards c f rest st1
    (r.1, here ++ r.2)

def pendingPk (st : St) (pk : Nat) : Bool := st.new.any (fun e => e.1 == pk)

def step (c : Cfg) (st : St) : Op → St × Out
  | .add pk r =>
    if pendingPk st pk then (st, .skip) else ({ st with new := st.new ++ [(pk, r)] }, .done)
  | .set pk s v =>
    match st.objs pk s with
    | some o =>
      if o.del then (st, .skip)
      else ({ st with objs := fun k t => if k = pk ∧ t = s then some { o with row := { o.row with val := v }, dirty := true }
                                         else st.objs k t }, .done)
    | none => (st, .skip)
  | .setR pk s r =>
    -- the object keeps its identity token: it stays in (and is updated in) its shard
    match st.objs pk s with
    | some o =>
      if o.del then (st, .skip)
      else ({ st with objs := fun k t => if k = pk ∧ t = s then some { o with row := { o.row with region := r }, dirty := true }
                                         else st.objs k t }, .done)
    | none => (st, .skip)
  | .mergeDet pk s v =>
    -- Session._merge: the detached object's key is (class, pk, token s); nothing under that
    -- key in the identity map → Session.get(cls, pk, identity_token = s) → the row of shard s
    -- is loaded (never another shard's instance of the same primary key), the detached
    -- object's attributes are copied onto it
    match st.objs pk s, st.shards s pk with
    | some o, some _ =>
      if o.del then (st, .skip)
      else ({ st with objs := fun k t => if k = pk ∧ t = s then some { o with row := { o.row with val := v }, dirty := true }
                                         else st.objs k t }, .done)
    | _, _ => (st, .skip)
  | .del pk s =>
    match st.objs pk s with
    | some o =>
      if o.del then (st, .skip)
      else ({ st with objs := fun k t => if k = pk ∧ t = s then some { o with del := true } else st.objs k t }, .done)
    | none => (st, .skip)
  | .flush =>
    match doFlush c st with
    | none => (st, .integrity)
    | some st1 => (st1, .done)
  | .query f sh =>
    let r := queryShards c f (sh.getD (allShards c)) st
    (r.1, .rows r.2)
  | .get pk tok =>
    match tok with
    | some s =>
      match st.objs pk s with
      | some o => (st, .found pk s o.row.val)
      | none =>
        match st.shards s pk with
        | some r => (loadInto st s [pk], .found pk s r.val)
        | none => (st, .none)
    | none =>
      -- identity map, in identity_chooser order
      match c.idOrder.find? (fun s => (st.objs pk s).isSome) with
      | some s => (st, .found pk s (valOf st pk s))
      | none =>
        -- the databases, through the execute chooser (all shards)
        match (allShards c).filter (fun s => (st.shards s pk).isSome) with
        | [] => (st, .none)
        | [s] => (loadInto st s [pk], .found pk s (valOf st pk s))
        | _ => (st, .multiple)

def run (c : Cfg) (st : St) : List Op → St
  | [] => st
  | o :: os => run c (step c st o).1 os

/-- outputs; a history ends at the first IntegrityError (the session is rolled back) -/
def outs (c : Cfg) (st : St) : List Op → List Out
  | [] => []
  | o :: os =>
    match (step c st o).2 with
    | .integrity => [.integrity]
    | out => out :: outs c (step c st o).1 os

def opOk (c : Cfg) : Op → Bool
  | .add pk _ => pk < c.n
  | .set pk s _ | .del pk s | .setR pk s _ | .mergeDet pk s _ => pk < c.n && s < c.nshards
  | .flush => true
  | .query _ sh => (match sh with
                    | some l => l.all (· < c.nshards)
                    | none => true)
  | .get pk tok => pk < c.n && (match tok with
                                 | some s => s < c.nshards
                                 | none => true)

end SaVerif.Shard
