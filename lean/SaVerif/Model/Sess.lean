/-
M-ORM / session machine: transcription of the object-lifecycle part of
  lib/sqlalchemy/orm/session.py   (Session, SessionTransaction)
  lib/sqlalchemy/orm/state.py     (InstanceState flags, _detach_states, _expire, _commit_all_states)
  lib/sqlalchemy/orm/identity.py  (_WeakInstanceDict)
  lib/sqlalchemy/orm/unitofwork.py / persistence.py (flush of ONE mapper, table item(id PK))
  lib/sqlalchemy/orm/loading.py   (get_from_identity, load of one row by primary key)
Import-free, total, executable.

One Session, one mapped class `Item` whose only column is the integer primary key
`id` (autoincrement off).  Every mapped instance the harness ever holds has an
index (`Oid`) into `Sess.objs`; the harness keeps a strong reference to each, so
weak references never die (GC is out of scope of C35; see C48).

Python                                         model
---------------------------------------------  -------------------------------------------
state.key (None | (Item,(k,),None))            Obj.key : Option Nat
state.session_id == session.hash_key           Obj.att   (one session; `_attached` = att)
state._deleted                                 Obj.del
'id' in state.dict / its value                 Obj.pk : Option Nat  (none = absent)
state.committed_state.get('id')                Obj.cpk : Option Old (Old.noValue = NO_VALUE)
'id' in state.expired_attributes               Obj.expA
state.expired / state.modified                 Obj.expired / Obj.modified
state.insert_order                             Obj.ins
session._new (dict, insertion ordered)         Sess.new : List Oid
session.identity_map._dict                     Sess.imap : List (key × Oid), insertion ordered
identity_map._modified                         derived: members of imap with `modified`
session._deleted                               Sess.deleted
session._transaction chain (innermost first)   Sess.txns (between operations only root /
                                               SAVEPOINT transactions exist; the flush
                                               subtransaction shares the snapshot dicts of
                                               its nearest boundary, `_take_snapshot`)
SessionTransaction._new/_deleted/_dirty/       Txn.tnew / tdel / tdirty / tks
   _key_switches
database (one connection)                      Sess.db (rows visible to the connection),
                                               Sess.committed (durable rows),
                                               Txn.snap (rows at SAVEPOINT)
session.dispatch.<lifecycle event>(s, state)   Sess.log (appended in call order)
raise X                                        (σ, some Err.x): the state reached so far is kept
set iteration order matters                    Sess.nondet := true (harness stops comparing)
-/
namespace SaVerif.Sess

abbrev Oid := Nat

/-- the ten SessionEvents lifecycle hooks (T transient, P pending, S persistent,
    D deleted, X detached, L loaded) -/
inductive Ev where
  | t2p | p2t | s2t | p2s | x2s | l2s | s2d | d2s | d2x | s2x
  deriving DecidableEq, Repr

/-- exception classes, as far as the harness distinguishes them -/
inductive Err where
  | invalid          -- sqlalchemy.exc.InvalidRequestError
  | pendingRollback  -- sqlalchemy.exc.PendingRollbackError
  | integrity        -- sqlalchemy.exc.IntegrityError
  | stale            -- orm.exc.StaleDataError
  | flushErr         -- orm.exc.FlushError
  | objectDeleted    -- orm.exc.ObjectDeletedError
  | detachedInst     -- orm.exc.DetachedInstanceError
  | assertion        -- AssertionError
  | noNested         -- harness-level: no nested transaction to act on
  deriving DecidableEq, Repr

/-- a `committed_state` entry -/
inductive Old where
  | noValue
  | val (v : Option Nat)
  deriving DecidableEq, Repr

structure Obj where
  key : Option Nat := none
  att : Bool := false
  del : Bool := false
  pk : Option Nat := none
  cpk : Option Old := none
  expA : Bool := false
  expired : Bool := false
  modified : Bool := false
  ins : Nat := 0
  deriving DecidableEq, Repr

structure Txn where
  nested : Bool := false
  active : Bool := true          -- ACTIVE (true) / DEACTIVE (false)
  rbexc : Bool := false          -- _rollback_exception is set
  tnew : List Oid := []
  tdel : List Oid := []
  tdirty : List Oid := []
  tks : List (Oid × Nat × Nat) := []   -- state ↦ (oldkey, newkey)
  snap : List Nat := []
  deriving DecidableEq, Repr

structure Sess where
  objs : List Obj := []
  new : List Oid := []
  imap : List (Nat × Oid) := []
  deleted : List Oid := []
  txns : List Txn := []
  db : List Nat := []
  committed : List Nat := []
  log : List (Ev × Oid) := []
  sql : Nat := 0                 -- statements sent to the connection (SELECT/DML)
  eoc : Bool := true             -- Session(expire_on_commit=...)
  nondet : Bool := false
  deriving Repr

abbrev R := Sess × Option Err

def ok (σ : Sess) : R := (σ, none)
def fail (σ : Sess) (e : Err) : R := (σ, some e)

/-- sequencing that stops at the first raised exception -/
def R.bind (r : R) (f : Sess → R) : R :=
  match r.2 with
  | some _ => r
  | none => f r.1

/-- the model abstains from here on when `c` holds (set-iteration order decides) -/
def markNondetIf (c : Bool) (σ : Sess) : Sess := if c then { σ with nondet := true } else σ

/-- an exception in the middle of a loop over a *set* of `n > 1` states leaves an
    order-dependent part of the work done -/
def failNondet (c : Bool) (r : R) : R :=
  match r with
  | (σ, some e) => fail (markNondetIf c σ) e
  | r => r

/-! ### objects -/

def getO (σ : Sess) (o : Oid) : Obj := σ.objs.getD o {}

def setO (σ : Sess) (o : Oid) (f : Obj → Obj) : Sess :=
  { σ with objs := σ.objs.modify o f }

def emit (σ : Sess) (e : Ev) (o : Oid) : Sess := { σ with log := σ.log ++ [(e, o)] }

/-! ### identity.py -/

def imLookup (σ : Sess) (k : Nat) : Option Oid := σ.imap.lookup k

/-- `identity_map.contains_state(state)` -/
def imContainsState (σ : Sess) (o : Oid) : Bool :=
  match (getO σ o).key with
  | none => false
  | some k => imLookup σ k == some o

/-- `safe_discard(state)` -/
def imSafeDiscard (σ : Sess) (o : Oid) : Sess :=
  match (getO σ o).key with
  | none => σ
  | some k => if imLookup σ k == some o then { σ with imap := σ.imap.filter (fun e => e.1 != k) } else σ

/-- `replace(state)`; an existing different state under the key is evicted -/
def imReplace (σ : Sess) (o : Oid) : Sess :=
  match (getO σ o).key with
  | none => σ   -- `assert state.key is not None`
  | some k =>
    if imLookup σ k == some o then σ
    else { σ with imap := σ.imap.filter (fun e => e.1 != k) ++ [(k, o)] }

/-- `add(state)`: raises when another live state holds the key -/
def imAdd (σ : Sess) (o : Oid) : R :=
  match (getO σ o).key with
  | none => fail σ .assertion
  | some k =>
    match imLookup σ k with
    | some o' => if o' == o then ok σ else fail σ .invalid
    | none => ok { σ with imap := σ.imap ++ [(k, o)] }

/-- every identity-map entry points at a state that carries that key and is attached.
    SQLAlchemy can break this (see Props/C34 `imap_entries_attached_counterexample`); once it
    is broken the model abstains (the driver stops the case) -/
def imapOk (σ : Sess) : Bool :=
  σ.imap.all (fun e => let ob := σ.objs.getD e.2 {}; ob.key == some e.1 && ob.att)

/-- `identity_map._modified` -/
def modifiedStates (σ : Sess) : List Oid :=
  (σ.imap.map (·.2)).filter (fun o => (getO σ o).modified)

/-- `Session._is_clean()` -/
def isClean (σ : Sess) : Bool :=
  (modifiedStates σ).isEmpty && σ.deleted.isEmpty && σ.new.isEmpty

/-! ### state.py -/

/-- `InstanceState._expire(dict_, modified_set)` for the one-column mapping -/
def expireObj (ob : Obj) : Obj :=
  { ob with expired := true, cpk := if ob.modified then none else ob.cpk,
            modified := false, expA := true, pk := none }

/-- `_commit_all_states` for one state -/
def commitAllObj (ob : Obj) : Obj :=
  { ob with cpk := none, expA := ob.expA && ob.pk.isNone, modified := false, expired := false }

/-- successful unexpire / refresh of a state from its row: `_populate_full` +
    `_commit` / `_commit_all` -/
def loadedObj (ob : Obj) (k : Nat) : Obj :=
  { ob with pk := some k, cpk := none, expA := false, expired := false, modified := false }

/-- one iteration of `InstanceState._detach_states` -/
def detachOne (toTransient : Bool) (σ : Sess) (o : Oid) : Sess :=
  let ob := getO σ o
  let deleted := ob.del
  let pending := ob.key.isNone
  let persistent := !pending && !deleted
  let σ := setO σ o (fun ob => { ob with att := false,
                                          key := if toTransient then none else ob.key })
  if persistent then
    if toTransient then emit σ .s2t o else emit σ .s2x o
  else if deleted then emit σ .d2x o
  else if pending then emit σ .p2t o
  else σ

def detachStates (σ : Sess) (os : List Oid) (toTransient : Bool) : Sess :=
  os.foldl (detachOne toTransient) σ

/-! ### session.py: attach / save / update / delete -/

/-- `Session._autobegin_t()` -/
def autobegin (σ : Sess) : Sess :=
  if σ.txns.isEmpty then { σ with txns := [{ nested := false }] } else σ

/-- `_before_attach`: (σ', to_attach) -/
def beforeAttach (σ : Sess) (o : Oid) : Sess × Bool :=
  let σ := autobegin σ
  if (getO σ o).att then (σ, false) else (σ, true)

/-- `_after_attach` -/
def afterAttach (σ : Sess) (o : Oid) : Sess :=
  let σ := setO σ o (fun ob => { ob with att := true })
  if (getO σ o).key.isSome then emit σ .x2s o else emit σ .t2p o

/-- `if state not in self._new: self._new[state] = obj; state.insert_order = len(self._new)` -/
def registerNew (σ : Sess) (o : Oid) : Sess :=
  if σ.new.contains o then σ
  else setO { σ with new := σ.new ++ [o] } o (fun ob => { ob with ins := σ.new.length + 1 })

/-- `_save_impl` -/
def saveImpl (σ : Sess) (o : Oid) : R :=
  if (getO σ o).key.isSome then fail σ .invalid else
  let (σ, toAttach) := beforeAttach σ o
  let σ := registerNew σ o
  ok (if toAttach then afterAttach σ o else σ)

/-- `_update_impl(state, revert_deletion)` -/
def updateImpl (σ : Sess) (o : Oid) (revert : Bool) : R :=
  let ob := getO σ o
  if ob.key.isNone then fail σ .invalid else
  if ob.del && !revert then fail σ .invalid else
  if ob.del && revert && !ob.att then ok σ else
  let σ := if ob.del then setO σ o (fun ob => { ob with del := false }) else σ
  let (σ, toAttach) := beforeAttach σ o
  let σ := { σ with deleted := σ.deleted.erase o }
  (if revert then ok (imReplace σ o) else imAdd σ o).bind fun σ =>
  if toAttach then ok (afterAttach σ o)
  else if revert then ok (emit σ .d2s o)
  else ok σ

/-- `_save_or_update_state` (no cascades in the one-class mapping) -/
def add (σ : Sess) (o : Oid) : R :=
  if (getO σ o).key.isNone then saveImpl σ o else updateImpl σ o false

/-- `Session.delete(instance)` → `_delete_impl(state, obj, head=True)` -/
def delete (σ : Sess) (o : Oid) : R :=
  if (getO σ o).key.isNone then fail σ .invalid else
  let (σ, toAttach) := beforeAttach σ o
  if σ.deleted.contains o then ok σ else
  (imAdd σ o).bind fun σ =>
  let σ := if toAttach then afterAttach σ o else σ
  ok { σ with deleted := σ.deleted ++ [o] }

/-! ### expunge -/

/-- innermost transaction's `_deleted.pop(state, None)` -/
def popTxnDeleted (σ : Sess) (o : Oid) : Sess :=
  match σ.txns with
  | [] => σ
  | t :: ts => { σ with txns := { t with tdel := t.tdel.erase o } :: ts }

/-- loop body of `_expunge_states` -/
def expungeOne (σ : Sess) (o : Oid) : Sess :=
  if σ.new.contains o then { σ with new := σ.new.filter (· != o) }   -- dict pop
  else if imContainsState σ o then
    let σ := imSafeDiscard σ o
    { σ with deleted := σ.deleted.erase o }
  else popTxnDeleted σ o

/-- `Session._expunge_states(states, to_transient)` -/
def expungeStates (σ : Sess) (os : List Oid) (toTransient : Bool) : Sess :=
  detachStates (os.foldl expungeOne σ) os toTransient

/-- `Session.expunge(instance)` -/
def expunge (σ : Sess) (o : Oid) : R :=
  if !(getO σ o).att then fail σ .invalid else ok (expungeStates σ [o] false)

/-- `Session.expunge_all()` -/
def expungeAll (σ : Sess) : Sess :=
  let all := σ.imap.map (·.2) ++ σ.new
  detachStates { σ with imap := [], new := [], deleted := [] } all false

/-! ### flush bookkeeping (session.py) -/

/-- write `f` into the snapshot dicts the current `session._transaction` sees -/
def updTxn (σ : Sess) (f : Txn → Txn) : Sess :=
  match σ.txns with
  | [] => σ
  | t :: ts => { σ with txns := f t :: ts }

/-- `_remove_newly_deleted` for one state -/
def removeNewlyDeletedOne (σ : Sess) (o : Oid) : Sess :=
  let σ := updTxn σ (fun t => { t with tdel := if t.tdel.contains o then t.tdel else t.tdel ++ [o] })
  let σ := imSafeDiscard σ o
  let σ := { σ with deleted := σ.deleted.erase o }
  let σ := setO σ o (fun ob => { ob with del := true })
  emit σ .s2d o

def removeNewlyDeleted (σ : Sess) (os : List Oid) : Sess := os.foldl removeNewlyDeletedOne σ

/-- value of the `id` attribute as `_identity_key_from_state` obtains it during
    `_register_persistent` (a state that reaches this point has `id` in its dict, or it is
    expired and the row addressed by `state.key` was just written by this flush) -/
def identFromState (ob : Obj) : Option Nat :=
  match ob.pk with
  | some p => some p
  | none => if ob.expA then ob.key else none

/-- first loop of `_register_persistent` for one state: key assignment / key switch /
    identity_map.replace -/
def registerKeyOne (σ : Sess) (o : Oid) : R :=
  let ob := getO σ o
  match identFromState ob with
  | none => fail σ .flushErr
  | some ik =>
    let σ :=
      match ob.key with
      | none => setO σ o (fun ob => { ob with key := some ik })
      | some k =>
        if k == ik then σ else
        let σ := imSafeDiscard σ o
        let σ := updTxn σ (fun t =>
          let orig := match t.tks.find? (fun e => e.1 == o) with
                      | some e => e.2.1
                      | none => k
          { t with tks := t.tks.filter (fun e => e.1 != o) ++ [(o, orig, ik)] })
        setO σ o (fun ob => { ob with key := some ik })
    -- old = identity_map.replace(state); `mapper._identity_key_from_state(old)` is
    -- evaluated for the warning and unexpires the evicted state (SELECT by its key)
    let old := match imLookup σ ik with
               | some o' => if o' == o then none else some o'
               | none => none
    let σ := imReplace σ o
    match old with
    | none => ok σ
    | some o' =>
      let ob' := getO σ o'
      if ob'.pk.isNone && ob'.expA then
        if !ob'.att then fail σ .detachedInst else
        let σ := { σ with sql := σ.sql + 1 }
        if σ.db.contains ik then ok (setO σ o' (fun ob => loadedObj ob ik))
        else fail σ .objectDeleted
      else ok σ

def registerKeys : Sess → List Oid → R
  | σ, [] => ok σ
  | σ, o :: os => (registerKeyOne σ o).bind fun σ => registerKeys σ os

/-- `_register_altered` for one state -/
def registerAlteredOne (σ : Sess) (o : Oid) : Sess :=
  if σ.new.contains o then
    updTxn σ (fun t => { t with tnew := if t.tnew.contains o then t.tnew else t.tnew ++ [o] })
  else
    updTxn σ (fun t => { t with tdirty := if t.tdirty.contains o then t.tdirty else t.tdirty ++ [o] })

/-- two states of one flush end up with the same identity key: the survivor in the
    identity map depends on set iteration order -/
def dupIdent (σ : Sess) (os : List Oid) : Bool :=
  let ks := os.filterMap (fun o => identFromState (getO σ o))
  ks.eraseDups.length != ks.length

/-- `_register_persistent` after the key loop: `_commit_all_states`, `_register_altered`, the
    pending_to_persistent events, removal from `_new` -/
def registerFinish (σ : Sess) (os : List Oid) : Sess :=
  let σ := os.foldl (fun σ o => setO σ o commitAllObj) σ
  let σ := os.foldl registerAlteredOne σ
  let inNew := os.filter (fun o => σ.new.contains o)
  let σ := inNew.foldl (fun σ o => emit σ .p2s o) σ
  { σ with new := σ.new.filter (fun o => !inNew.contains o) }

/-- `Session._register_persistent(states)` -/
def registerPersistent (σ : Sess) (os : List Oid) : R :=
  let σ := markNondetIf (dupIdent σ os) σ
  -- an exception in the middle of the loop leaves a set-order dependent part registered
  (failNondet (decide (os.length > 1)) (registerKeys σ os)).bind fun σ =>
  ok (registerFinish σ os)

/-! ### transaction snapshots (SessionTransaction) -/

/-- key-switch restoration loop body of `_restore_snapshot` -/
def restoreKeySwitch (toExpunge : List Oid) (σ : Sess) (e : Oid × Nat × Nat) : Sess :=
  let σ := imSafeDiscard σ e.1
  let σ := setO σ e.1 (fun ob => { ob with key := some e.2.1 })
  if toExpunge.contains e.1 then σ else imReplace σ e.1

def revertDeletions : Sess → List Oid → R
  | σ, [] => ok σ
  | σ, o :: os => (updateImpl σ o true).bind fun σ => revertDeletions σ os

/-- two states whose deletion is reverted share an identity key -/
def dupKeys (σ : Sess) (os : List Oid) : Bool :=
  let ks := (os.filter (fun o => let ob := getO σ o; ob.key.isSome && (ob.att || !ob.del))).filterMap
              (fun o => (getO σ o).key)
  ks.eraseDups.length != ks.length

/-- `SessionTransaction._restore_snapshot(dirty_only)` of the boundary transaction that
    is `session._transaction` (or the parent of the flush subtransaction sharing its
    dicts): always the head of `txns`.  The dicts are read live, as in Python. -/
def restoreSnapshot (σ : Sess) (dirtyOnly : Bool) : R :=
  match σ.txns with
  | [] => ok σ
  | t :: _ =>
    let toExpunge := (t.tnew ++ σ.new).eraseDups
    let σ := expungeStates σ toExpunge true
    let σ := t.tks.foldl (restoreKeySwitch toExpunge) σ
    -- `_expunge_states` may have popped members of the live `_deleted` dict
    let tdelNow := match σ.txns with
                   | [] => []
                   | t' :: _ => t'.tdel
    let dels := (tdelNow ++ σ.deleted).eraseDups
    let σ := markNondetIf (dupKeys σ dels) σ
    -- an exception in the middle of this loop leaves a set-order dependent part reverted
    (failNondet (decide (dels.length > 1)) (revertDeletions σ dels)).bind fun σ =>
    let tdirty := t.tdirty
    let σ := (σ.imap.map (·.2)).foldl (fun σ o =>
        if !dirtyOnly || (getO σ o).modified || tdirty.contains o then setO σ o expireObj else σ) σ
    ok σ

/-! ### loading.py: one row by primary key -/

/-- `mapper._identity_key_from_state(state)` for a state without identity key: the `id`
    attribute is read with PASSIVE_RETURN_NO_VALUE; when it is expired the loader runs
    `_load_scalar_attributes`, which refuses (no key) -/
def identOfKeyless (ob : Obj) : Except Err Nat :=
  match ob.pk with
  | some p => .ok p
  | none =>
    if ob.expA then (if ob.att then .error .invalid else .error .detachedInst)
    else .error .flushErr   -- NO_VALUE identity: not reachable from the harness operations

/-- the connection-level check every SQL statement goes through
    (`SessionTransaction._connection_for_bind` is declared ACTIVE-only) -/
def requireActive (σ : Sess) : R :=
  let σ := autobegin σ
  match σ.txns with
  | [] => ok σ
  | t :: _ => if t.active then ok σ
              else fail σ (if t.rbexc then .pendingRollback else .invalid)

/-! ### flush (session.py `_flush`, unitofwork.py, persistence.py) -/

/-- the UPDATE `_collect_update_commands` produces for a state of the one-column
    mapping: `some (where, set)` or `none`; `Except` for the NULL-pk FlushError -/
def updateCmd (ob : Obj) : Except Err (Option (Nat × Nat)) :=
  match ob.cpk, ob.pk with
  | none, _ => .ok none                      -- 'id' not in committed_state
  | some _, none => .ok none                 -- (not reachable: set puts the value in dict)
  | some Old.noValue, some _ => .ok none     -- history.added, no deleted: pk "cascaded", params popped
  | some (Old.val none), some _ => .ok none  -- deleted = [None]: treated like no previous value below
  | some (Old.val (some old)), some cur =>
    if old == cur then .ok none else .ok (some (old, cur))

/-- sequential UPDATE item SET id=new WHERE id=old; (rows, matched) or IntegrityError -/
def runUpdates : List Nat → List (Nat × Nat) → Nat → Except Err (List Nat × Nat)
  | db, [], m => .ok (db, m)
  | db, (old, new) :: us, m =>
    if db.contains old then
      if db.contains new then .error .integrity
      else runUpdates (db.map (fun r => if r == old then new else r)) us (m + 1)
    else runUpdates db us m

def runInserts : List Nat → List Nat → Except Err (List Nat)
  | db, [] => .ok db
  | db, k :: ks => if db.contains k then .error .integrity else runInserts (db ++ [k]) ks

/-- insertion sort of oids by a Nat key (stable) -/
def sortBy (f : Oid → Nat) (l : List Oid) : List Oid :=
  l.foldl (fun acc x => acc.takeWhile (fun y => f y ≤ f x) ++ [x] ++ acc.dropWhile (fun y => f y ≤ f x)) []

structure OrgState where
  σ : Sess
  isdel : List Oid            -- uow.states[s] = (True, _)
  listonly : List Oid         -- row-switched existing states: (True, True)
  upd : List Oid
  ins : List Oid
  rowSwitched : Bool := false

/-- `UOWTransaction.was_already_deleted(existing)` -/
def wasAlreadyDeleted (σ : Sess) (ex : Oid) : Sess × Bool :=
  let ob := getO σ ex
  if ob.expired then
    let σ := { σ with sql := σ.sql + 1 }
    match ob.key with
    | none => (σ, false)
    | some k =>
      if σ.db.contains k then (setO σ ex (fun ob => loadedObj ob k), false)
      else (removeNewlyDeleted σ [ex], true)
  else (σ, false)

/-- loop body of `_organize_states_for_save` -/
def organizeOne (st : OrgState) (o : Oid) : Except Err OrgState :=
  let ob := getO st.σ o
  let hasIdentity := ob.key.isSome
  if hasIdentity then .ok { st with upd := st.upd ++ [o] } else
  match identOfKeyless ob with
  | .error e => .error e
  | .ok k =>
  match imLookup st.σ k with
  | none => .ok { st with ins := st.ins ++ [o] }
  | some ex =>
    let (σ, gone) := wasAlreadyDeleted st.σ ex
    let st := { st with σ := σ }
    if gone then .ok { st with ins := st.ins ++ [o] }
    else if st.isdel.contains ex then
      .ok { st with listonly := if st.listonly.contains ex then st.listonly else st.listonly ++ [ex],
                    upd := st.upd ++ [o], rowSwitched := true }
    else .ok { st with ins := st.ins ++ [o] }   -- warning "conflicts with persistent instance"

/-- `_organize_states_for_save`; on an exception the session state reached so far is kept -/
def organize : OrgState → List Oid → OrgState × Option Err
  | st, [] => (st, none)
  | st, o :: os =>
    match organizeOne st o with
    | .error e => (st, some e)
    | .ok st => organize st os

/-- pk value used in `DELETE ... WHERE id = ?`: `_get_committed_state_attr_by_column`;
    may SELECT to unexpire -/
def deleteParam (σ : Sess) (o : Oid) : Sess × Except Err Nat :=
  let ob := getO σ o
  match ob.cpk with
  | some Old.noValue => (σ, .error .flushErr)
  | some (Old.val none) => (σ, .error .flushErr)
  | some (Old.val (some v)) => (σ, .ok v)
  | none =>
    match ob.pk with
    | some p => (σ, .ok p)
    | none =>
      if ob.expA then
        let σ := { σ with sql := σ.sql + 1 }
        match ob.key with
        | none => (σ, .error .flushErr)
        | some k =>
          if σ.db.contains k then (setO σ o (fun ob => loadedObj ob k), .ok k)
          else (σ, .error .objectDeleted)
      else (σ, .error .flushErr)

def deleteParams : Sess → List Oid → List Nat → Sess × Except Err (List Nat)
  | σ, [], acc => (σ, .ok acc)
  | σ, o :: os, acc =>
    match deleteParam σ o with
    | (σ, .error e) => (σ, .error e)
    | (σ, .ok v) => deleteParams σ os (acc ++ [v])

/-- `_save_obj` after organising: the UPDATE batch, then the INSERT batch (only the
    database and the statement counter change) -/
def flushDml (σ : Sess) (upd ins : List Oid) : R :=
  let cmds := upd.map (fun o => updateCmd (getO σ o))
  match cmds.mapM id with
  | .error e => fail σ e
  | .ok cs =>
    let us := cs.filterMap id
    let σ := if us.isEmpty then σ else { σ with sql := σ.sql + 1 }
    match runUpdates σ.db us 0 with
    | .error e => fail σ e
    | .ok (db, matched) =>
      if matched != us.length then fail { σ with db := db } .stale else
      let σ := { σ with db := db }
      let ks := ins.filterMap (fun o => (getO σ o).pk)
      let σ := if ks.isEmpty then σ else { σ with sql := σ.sql + 1 }
      match runInserts σ.db ks with
      | .error e => fail σ e
      | .ok db => ok { σ with db := db }

/-- `_delete_obj`: parameters (may SELECT to unexpire), then the DELETE batch -/
def flushDeletes (σ : Sess) (ds : List Oid) : R :=
  match deleteParams σ ds [] with
  | (σ, .error e) => fail σ e
  | (σ, .ok vs) =>
    ok (if vs.isEmpty then σ else { σ with sql := σ.sql + 1, db := σ.db.filter (fun r => !vs.contains r) })

/-- `UOWTransaction.execute()` + `finalize_flush_changes()` for the one mapper;
    `proc` = new ∪ dirty − deleted, `dels` = session._deleted -/
def flushExecute (σ : Sess) (proc dels : List Oid) : R :=
  -- _sort_states: pending by insert_order, then persistent by primary key
  let pend := sortBy (fun o => (getO σ o).ins) (proc.filter (fun o => (getO σ o).key.isNone))
  let pers := sortBy (fun o => (getO σ o).key.getD 0) (proc.filter (fun o => (getO σ o).key.isSome))
  let tie := (pend.map (fun o => (getO σ o).ins)).eraseDups.length != pend.length
  match organize { σ := σ, isdel := dels, listonly := [], upd := [], ins := [] } (pend ++ pers) with
  | (st, some e) => fail st.σ e
  | (st, none) =>
    -- UPDATEs first, then INSERTs
    (flushDml (markNondetIf (tie && st.rowSwitched) st.σ) st.upd st.ins).bind fun σ =>
    -- DELETEs: isdelete ∧ ¬listonly, persistent sort
    (flushDeletes σ (sortBy (fun o => (getO σ o).key.getD 0)
                       (dels.filter (fun o => !st.listonly.contains o)))).bind fun σ =>
    -- finalize_flush_changes
    registerPersistent (removeNewlyDeleted σ dels) proc

/-- failure path of `_flush`: `transaction.rollback(_capture_exception=True)` on the flush
    subtransaction; the nearest boundary (head of `txns`) is rolled back and left DEACTIVE -/
def flushFailed (σ : Sess) : Sess :=
  match σ.txns with
  | [] => σ
  | t :: ts =>
    let db := if t.nested then t.snap else σ.committed
    let σ := { σ with db := db, txns := { t with active := false } :: ts }
    -- an exception raised by `_restore_snapshot` here leaves the flush subtransaction on
    -- the stack; the model abstains from that point (`nondet`)
    match restoreSnapshot σ t.nested with
    | (σ, some _) => markNondetIf true σ
    | (σ, none) =>
      match (if isClean σ then ok σ else restoreSnapshot σ t.nested) with
      | (σ, some _) => markNondetIf true σ
      | (σ, none) => updTxn σ (fun t => { t with rbexc := true })

/-- the `try: flush_context.execute() ... except: transaction.rollback(_capture_exception=True)`
    of `_flush` -/
def flushCore (σ : Sess) (proc dels : List Oid) : R :=
  match flushExecute σ proc dels with
  | (σ, none) => ok σ
  | (σ, some e) => fail (flushFailed σ) e

/-- `Session.flush()` -/
def flush (σ : Sess) : R :=
  if isClean σ then ok σ else
  let dirty := modifiedStates σ
  let dels := σ.deleted
  let proc := (σ.new ++ dirty.filter (fun o => !dels.contains o)).filter (fun o => !dels.contains o)
  -- register_object: deleted states must still be in the session
  if (proc ++ dels).any (fun o => !(σ.new.contains o || imContainsState σ o)) then fail σ .assertion else
  if proc.isEmpty && dels.isEmpty then ok σ else
  -- `self._autobegin_t()._begin()`: declared ACTIVE-only
  (requireActive σ).bind fun σ => flushCore σ proc dels

/-- `Session._autoflush()` (autoflush=True) -/
def autoflush (σ : Sess) : R := flush σ

/-! ### SessionTransaction commit / rollback / close -/

/-- `_remove_snapshot` of the head transaction -/
def removeSnapshot (σ : Sess) : Sess :=
  match σ.txns with
  | [] => σ
  | t :: ts =>
    if !t.nested && σ.eoc then
      let σ := (σ.imap.map (·.2)).foldl (fun σ o => setO σ o expireObj) σ
      let σ := detachStates σ t.tdel false
      { σ with txns := { t with tdel := [] } :: ts }
    else if t.nested then
      match ts with
      | [] => σ
      | p :: ps =>
        let mergeL (a b : List Oid) := (a ++ b).eraseDups
        let p := { p with tnew := mergeL p.tnew t.tnew, tdirty := mergeL p.tdirty t.tdirty,
                          tdel := mergeL p.tdel t.tdel,
                          tks := p.tks.filter (fun e => !(t.tks.map (·.1)).contains e.1) ++ t.tks }
        { σ with txns := t :: p :: ps }
    else σ

/-- the flush loop of `_prepare_impl` (`for _flush_guard in range(100)`) -/
def flushUntilClean : Nat → Sess → R
  | 0, σ => if isClean σ then ok σ else fail σ .flushErr
  | n + 1, σ => if isClean σ then ok σ else (flush σ).bind (flushUntilClean n)

/-- `SessionTransaction.commit(_to_root)` of the head transaction, then of its parents.
    Fuel = depth of the transaction stack. -/
def txnCommit : Nat → Sess → Bool → R
  | 0, σ, _ => ok σ
  | n + 1, σ, toRoot =>
    match σ.txns with
    | [] => ok σ
    | t :: _ =>
      if !t.active then fail σ (if t.rbexc then .pendingRollback else .invalid) else
      (flushUntilClean 100 σ).bind fun σ =>
      -- COMMIT / RELEASE SAVEPOINT
      let σ := match σ.txns with
               | t :: _ => if t.nested then σ else { σ with committed := σ.db }
               | [] => σ
      let σ := removeSnapshot σ
      let σ := { σ with txns := σ.txns.tail }     -- close()
      if toRoot then txnCommit n σ true else ok σ

/-- `SessionTransaction.rollback(_to_root)` of the head transaction, then of its parents -/
def txnRollback : Nat → Sess → Bool → R
  | 0, σ, _ => ok σ
  | n + 1, σ, toRoot =>
    match σ.txns with
    | [] => ok σ
    | t :: ts =>
      let r : R :=
        if t.active then
          let db := if t.nested then t.snap else σ.committed
          restoreSnapshot { σ with db := db, txns := { t with active := false } :: ts } t.nested
        else ok σ
      r.bind fun σ =>
      (if isClean σ then ok σ else restoreSnapshot σ t.nested).bind fun σ =>
      let σ := { σ with txns := σ.txns.tail }     -- close()
      if toRoot then txnRollback n σ true else ok σ

/-- `Session.commit()` -/
def commit (σ : Sess) : R :=
  let σ := autobegin σ
  txnCommit σ.txns.length σ true

/-- `Session.rollback()` -/
def rollback (σ : Sess) : R := txnRollback σ.txns.length σ true

/-- `Session.begin_nested()` -/
def beginNested (σ : Sess) : R :=
  let σ := autobegin σ
  match σ.txns with
  | [] => ok σ
  | t :: _ =>
    if !t.active then fail σ (if t.rbexc then .pendingRollback else .invalid) else
    -- SessionTransaction.__init__ → _take_snapshot → session.flush()
    (flush σ).bind fun σ =>
    ok { σ with txns := { nested := true, snap := σ.db } :: σ.txns }

def hasNested (σ : Sess) : Bool := σ.txns.any (·.nested)

/-- `session.get_nested_transaction().commit()` -/
def nestedCommit (σ : Sess) : R :=
  if !hasNested σ then fail σ .noNested else txnCommit 1 σ false

/-- `session.get_nested_transaction().rollback()` -/
def nestedRollback (σ : Sess) : R :=
  if !hasNested σ then fail σ .noNested else txnRollback 1 σ false

/-- `Session.close()`: expunge_all, then close every transaction (the connection is
    released, uncommitted work is rolled back by the pool's reset) -/
def close (σ : Sess) : Sess :=
  let σ := expungeAll σ
  if σ.txns.isEmpty then σ else { σ with txns := [], db := σ.committed }

/-! ### attribute set, expire, get, merge, make_transient* -/

/-- `Session.expire(instance)` -/
def expire (σ : Sess) (o : Oid) : R :=
  if !imContainsState σ o then fail σ .invalid else ok (setO σ o expireObj)

/-- append a freshly loaded persistent instance (`_instance` "create a new instance") -/
def loadNew (σ : Sess) (k : Nat) : Sess × Oid :=
  let o := σ.objs.length
  let σ := { σ with objs := σ.objs ++ [{ key := some k, att := true, pk := some k }],
                    imap := σ.imap ++ [(k, o)] }
  (emit σ .l2s o, o)

/-- what precedes every ORM SELECT: the transaction must be ACTIVE
    (`_connection_for_bind`), autoflush if enabled, one statement -/
def sqlPrelude (σ : Sess) (af : Bool) : R :=
  (requireActive σ).bind fun σ =>
  (if af then autoflush σ else ok σ).bind fun σ =>
  ok { σ with sql := σ.sql + 1 }

/-- `loading._instance` for the row with primary key `k`, if the SELECT returned one -/
def loadRow (σ : Sess) (k : Nat) : Sess × Option Oid :=
  if σ.db.contains k then
    match imLookup σ k with
    | some o =>
      -- existing identity: partial population of unloaded attributes
      let ob := getO σ o
      (if ob.pk.isNone && ob.cpk.isNone then setO σ o (fun ob => loadedObj ob k) else σ, some o)
    | none => let (σ, o) := loadNew σ k; (σ, some o)
  else (σ, none)

/-- SELECT by primary key `k` into the session (`_load_on_pk_identity` without
    refresh_state): result oid or none -/
def loadByPk (σ : Sess) (k : Nat) (doAutoflush : Bool) : R × Option Oid :=
  match sqlPrelude σ doAutoflush with
  | (σ, some e) => (fail σ e, none)
  | (σ, none) => let (σ, r) := loadRow σ k; (ok σ, r)

/-- `InstanceState._load_expired` for a persistent state found in the identity map
    (`get_from_identity`): returns false when the row is gone (ObjectDeletedError) -/
def loadExpired (σ : Sess) (o : Oid) : R × Bool :=
  let k0 := (getO σ o).key
  -- `_load_scalar_attributes`: `state.session` is None → DetachedInstanceError
  if !(getO σ o).att then (fail σ .detachedInst, true) else
  match sqlPrelude σ true with
  | (σ, some e) => (fail σ e, true)
  | (σ, none) =>
    match k0 with
    | none => (ok σ, true)
    | some k =>
      if σ.db.contains k then (ok (setO σ o (fun ob => loadedObj ob k)), true)
      else (ok σ, false)

/-- `AttributeImpl.get`: the loader callables run when the key is not in committed_state or
    its committed value is NO_VALUE -/
def firesLoader (ob : Obj) : Bool :=
  match ob.cpk with
  | none => true
  | some .noValue => true
  | some (.val _) => false

/-- `old = self.get(state, dict_, PASSIVE_RETURN_NO_VALUE)` of ScalarAttributeImpl.set with
    active history (primary key columns always load the old value) -/
def loadOld (σ : Sess) (o : Oid) (af : Bool) : R × Old :=
  let ob := getO σ o
  match ob.pk with
  | some p => (ok σ, .val (some p))
  | none =>
    if firesLoader ob && ob.expA then
      -- state._load_expired → load_scalar_attributes
      if !ob.att then (fail σ .detachedInst, .noValue) else
      if ob.key.isNone then (fail σ .invalid, .noValue) else
      match sqlPrelude σ af with
      | (σ, some e) => (fail σ e, .noValue)
      | (σ, none) =>
        match ob.key with
        | none => (ok σ, .noValue)
        | some k =>
          if σ.db.contains k then (ok (setO σ o (fun ob => loadedObj ob k)), .val (some k))
          else (fail σ .objectDeleted, .noValue)
    else (ok σ, .noValue)

/-- `state._modified_event(dict_, attr, old)` and `dict_['id'] = v` -/
def applySet (σ : Sess) (o : Oid) (v : Nat) (old : Old) : Sess :=
  let ob := getO σ o
  let hasMod := imContainsState σ o && !(modifiedStates σ).isEmpty
  let σ := setO σ o (fun ob => { ob with cpk := if ob.cpk.isNone then some old else ob.cpk })
  let σ :=
    if !ob.modified then
      let σ := setO σ o (fun ob => { ob with modified := true })
      if ob.att && !hasMod then autobegin σ else σ
    else σ
  setO σ o (fun ob => { ob with pk := some v })

/-- `obj.id = v`.  `af` = session.autoflush at the time (False inside merge's
    `no_autoflush` block). -/
def setPk (σ : Sess) (o : Oid) (v : Nat) (af : Bool) : R :=
  match loadOld σ o af with
  | ((σ, some e), _) => fail σ e
  | ((σ, none), old) => ok (applySet σ o v old)

/-- `Session.get(Item, k)` -/
def get (σ : Sess) (k : Nat) : R × Option Oid :=
  match imLookup σ k with
  | some o =>
    if (getO σ o).expired then
      match loadExpired σ o with
      | ((σ, some .objectDeleted), _) =>
        -- `except orm_exc.ObjectDeletedError` also catches the one raised by the autoflush
        loadByPk (removeNewlyDeleted σ [o]) k true
      | ((σ, some e), _) => (fail σ e, none)
      | ((σ, none), true) => (ok σ, some o)
      | ((σ, none), false) => loadByPk (removeNewlyDeleted σ [o]) k true
    else (ok σ, some o)
  | none => loadByPk σ k true

/-- `_merge`: locate the instance to merge onto: identity map, else `Session.get` (no
    autoflush inside merge) -/
def mergeFind (σ : Sess) (k : Nat) : R × Option Oid :=
  match imLookup σ k with
  | some m => (ok σ, some m)
  | none => loadByPk σ k false

/-- `_merge`: `merged = mapper.class_manager.new_instance(); _save_or_update_state(merged_state)`
    when nothing was found -/
def mergeTarget (σ : Sess) (mo : Option Oid) : R × Oid :=
  match mo with
  | some m => (ok σ, m)
  | none =>
    let m := σ.objs.length
    (saveImpl { σ with objs := σ.objs ++ [{}] } m, m)

/-- `ColumnProperty.merge` for `id`, then the harness fix-up (a pending copy without `id`
    gets the source key) -/
def mergeCopy (σ : Sess) (src m k : Nat) : R :=
  let sob := getO σ src
  let r : R := match sob.pk with
           | some v => setPk σ m v false
           | none =>
             let mob := getO σ m
             if mob.key.isSome && mob.pk.isNone then ok (setO σ m (fun ob => { ob with expA := true }))
             else ok σ
  r.bind fun σ =>
  let mob := getO σ m
  if mob.key.isNone && mob.pk.isNone then setPk σ m k true else ok σ

/-- `Session.merge(instance)` (load=True) -/
def merge (σ : Sess) (src : Oid) : R × Option Oid :=
  match autoflush σ with
  | (σ, some e) => (fail σ e, none)
  | (σ, none) =>
    let sob := getO σ src
    let key : Except Err Nat := match sob.key with
                                | some k => .ok k
                                | none => identOfKeyless sob
    match key with
    | .error e => (fail σ e, none)
    | .ok k =>
      match mergeFind σ k with
      | ((σ, some e), _) => (fail σ e, none)
      | ((σ, none), mo) =>
        match mergeTarget σ mo with
        | ((σ, some e), _) => (fail σ e, none)
        | ((σ, none), m) =>
          if m == src then (ok σ, some m) else
          match mergeCopy σ src m k with
          | (σ, some e) => (fail σ e, none)
          | (σ, none) => (ok σ, some m)

/-- `make_transient(instance)` followed by `instance.id = k` (documented usage) -/
def makeTransient (σ : Sess) (o : Oid) (k : Nat) : Sess :=
  let σ := if (getO σ o).att then expungeStates σ [o] false else σ
  let σ := setO σ o (fun ob => { ob with expA := false, key := none, del := false })
  (setPk σ o k true).1

/-- `make_transient_to_detached(instance)` -/
def makeTransientToDetached (σ : Sess) (o : Oid) : R :=
  let ob := getO σ o
  if ob.att || ob.key.isSome then fail σ .invalid else
  match identOfKeyless ob with
  | .error e => fail σ e
  | .ok k => ok (setO σ o (fun ob => commitAllObj { ob with key := some k, del := false }))

/-- `Item(id=k)` -/
def newObj (σ : Sess) (k : Nat) : Sess :=
  { σ with objs := σ.objs ++ [{ pk := some k, cpk := some .noValue, modified := true }] }

/-- one row of an ORM SELECT over `Item` (`loading._instance`): the identity-map instance
    for the row's key, or a new one; `pe` = populate_existing -/
def instanceForRow (pe : Bool) (acc : Sess × List Oid) (k : Nat) : Sess × List Oid :=
  let (σ, out) := acc
  match imLookup σ k with
  | some o =>
    let ob := getO σ o
    let σ := if pe then setO σ o (fun ob => loadedObj ob k)
             else if ob.pk.isNone && ob.cpk.isNone then setO σ o (fun ob => loadedObj ob k)
             else σ
    (σ, out ++ [o])
  | none => let (σ, o) := loadNew σ k; (σ, out ++ [o])

/-- `session.execute(select(Item).order_by(Item.id)).scalars().all()` -/
def queryAll (σ : Sess) (pe : Bool) : R × List Oid :=
  match sqlPrelude σ true with
  | (σ, some e) => (fail σ e, [])
  | (σ, none) =>
    let rows := σ.db.foldl (fun acc x => acc.takeWhile (· ≤ x) ++ [x] ++ acc.dropWhile (· ≤ x)) []
    let (σ, out) := rows.foldl (instanceForRow pe) (σ, [])
    (ok σ, out)

/-- `Session.refresh(instance)` -/
def refresh (σ : Sess) (o : Oid) : R :=
  if !imContainsState σ o then fail σ .invalid else
  let σ := setO σ o expireObj
  (autoflush σ).bind fun σ =>
  (requireActive σ).bind fun σ =>
  let σ := { σ with sql := σ.sql + 1 }
  match (getO σ o).key with
  | none => fail σ .invalid
  | some k =>
    if σ.db.contains k then ok (setO σ o (fun ob => loadedObj ob k))
    else fail σ .invalid

/-! ### operations -/

inductive Op where
  | new (k : Nat) | add (o : Oid) | delete (o : Oid) | expunge (o : Oid) | expire (o : Oid)
  | mt (o : Oid) (k : Nat) | mtd (o : Oid) | setpk (o : Oid) (k : Nat)
  | merge (o : Oid) | get (k : Nat)
  | flush | commit | rollback | nbegin | ncommit | nrollback | close | expungeAll
  | query (pe : Bool) | refresh (o : Oid)
  deriving Repr, DecidableEq

/-- one harness operation; the second component is the returned instance list of
    get / merge (`some [o]`, `some []` = None) and query -/
def step (σ : Sess) : Op → R × Option (List Oid)
  | .new k => (ok (newObj σ k), none)
  | .add o => (add σ o, none)
  | .delete o => (delete σ o, none)
  | .expunge o => (expunge σ o, none)
  | .expire o => (expire σ o, none)
  | .mt o k => (ok (makeTransient σ o k), none)
  | .mtd o => (makeTransientToDetached σ o, none)
  | .setpk o k => (setPk σ o k true, none)
  | .merge o => let (r, x) := merge σ o; (r, some x.toList)
  | .get k => let (r, x) := get σ k; (r, some x.toList)
  | .flush => (flush σ, none)
  | .commit => (commit σ, none)
  | .rollback => (rollback σ, none)
  | .nbegin => (beginNested σ, none)
  | .ncommit => (nestedCommit σ, none)
  | .nrollback => (nestedRollback σ, none)
  | .close => (ok (close σ), none)
  | .expungeAll => (ok (expungeAll σ), none)
  | .query pe => let (r, l) := queryAll σ pe; (r, some l)
  | .refresh o => (refresh σ o, none)

/-- an operation naming an object that does not exist is not executed at all -/
def opValid (σ : Sess) : Op → Bool
  | .add o | .delete o | .expunge o | .expire o | .mt o _ | .mtd o | .setpk o _ | .merge o | .refresh o =>
    o < σ.objs.length
  | _ => true

/-- run a history from the empty session: an operation that raises leaves the state it
    reached (as in Python); an operation naming a non-existent instance is skipped -/
def run (eoc : Bool) (ops : List Op) : Sess :=
  ops.foldl (fun σ op => if opValid σ op then (step σ op).1.1 else σ) { eoc := eoc }

end SaVerif.Sess
