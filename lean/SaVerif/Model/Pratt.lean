/-!
# M-EXPR — backend side: token trees, printer, operator-precedence parser

What a SQL backend receives is a flat token sequence; how it groups that sequence is
decided by the backend's own grammar.  This file models that side, independently of
SQLAlchemy:

* `Sym`    the operator symbols a backend lexer distinguishes
* `Tok`    tokens: atoms (identifiers, literals, placeholders, closed sub-queries, type
           names), prefix and infix operator tokens (with their concrete text), bracket
           open/close tokens (`(`..`)`, `CASE`..`END`, `CAST(`..`)`, `f(`..`)`)
* `G`      trees over those tokens (what a parse produces)
* `print`  tree → tokens (inserts nothing: parentheses are explicit `br .paren` nodes)
* `Grammar`, `parse`  operator-precedence ("precedence climbing") parser parameterised by
           a table of binding powers: per infix symbol `(lbp, rbp)`, per prefix symbol the
           binding power of its operand, and per ternary head (`BETWEEN … AND …`,
           `LIKE … ESCAPE …`) the middle symbol and the binding power of the third operand
* `wb`     the decidable "well bracketed for grammar g" predicate: every operator that is
           printed without parentheses binds tighter than its context requires

`Props/C01.lean` proves `wb g t = true → parse g (print t) = some t` for every tree.
-/
namespace SaVerif.Pratt

inductive Sym
  | plus | minus | star | slash | percent | concat
  | eq | ne | lt | le | gt | ge | nseq
  | is_ | isNot | isDistinct | isNotDistinct
  | like | notLike | ilike | notIlike | escape
  | between | notBetween
  | in_ | notIn
  | and_ | or_ | not_ | neg
  | comma | as_ | when_ | then_ | else_
  | collate | values
  deriving DecidableEq, Repr, Inhabited

/-- separators inside brackets (`f(a, b)`, `CAST(x AS t)`, `CASE … WHEN … THEN … ELSE … END`) -/
def Sym.isSep : Sym → Bool
  | .comma | .as_ | .when_ | .then_ | .else_ => true
  | _ => false

/-- what an atom denotes (used by the evaluator only) -/
inductive AtomKind
  | col (name : String)
  | int (i : Int)
  | str (s : String)
  | num (s : String)
  | null | true_ | false_
  | emptySet
  | other
  deriving DecidableEq, Repr, Inhabited

structure Atom where
  text : String
  kind : AtomKind
  deriving DecidableEq, Repr, Inhabited

inductive Bracket
  | paren | caseSearched | caseSimple | cast
  | fn (name : String)
  deriving DecidableEq, Repr, Inhabited

def Bracket.openText : Bracket → String
  | .paren => "("
  | .caseSearched => "CASE WHEN "
  | .caseSimple => "CASE "
  | .cast => "CAST("
  | .fn n => n ++ "("

def Bracket.closeText : Bracket → String
  | .paren => ")"
  | .caseSearched => " END"
  | .caseSimple => " END"
  | .cast => ")"
  | .fn _ => ")"

inductive Tok
  | atom (a : Atom)
  | pre (s : Sym) (text : String)
  | inf (s : Sym) (text : String)
  | open_ (k : Bracket)
  | close (k : Bracket)
  deriving DecidableEq, Repr, Inhabited

def Tok.text : Tok → String
  | .atom a => a.text
  | .pre _ t => t
  | .inf _ t => t
  | .open_ k => k.openText
  | .close k => k.closeText

def flatten (ts : List Tok) : String :=
  ts.foldl (fun acc t => acc ++ t.text) ""

inductive G
  | atom (a : Atom)
  | pre (s : Sym) (text : String) (c : G)
  | inf (s : Sym) (text : String) (l r : G)
  | tern (s : Sym) (text : String) (m : Sym) (mtext : String) (a b c : G)
  | br (k : Bracket) (c : G)
  deriving DecidableEq, Repr, Inhabited

namespace G

def print : G → List Tok
  | atom a => [Tok.atom a]
  | pre s t c => Tok.pre s t :: print c
  | inf s t l r => print l ++ Tok.inf s t :: print r
  | tern s t m mt a b c => print a ++ Tok.inf s t :: (print b ++ Tok.inf m mt :: print c)
  | br k c => Tok.open_ k :: (print c ++ [Tok.close k])

def text (t : G) : String := flatten (print t)

def size : G → Nat
  | atom _ => 1
  | pre _ _ c => 1 + size c
  | inf _ _ l r => 1 + size l + size r
  | tern _ _ _ _ a b c => 1 + size a + size b + size c
  | br _ c => 1 + size c

/-- every node in explicit parentheses (atoms and brackets excepted): the reference
    reading of a tree, independent of any precedence table -/
def fullParen : G → G
  | atom a => atom a
  | pre s t c => br .paren (pre s t (fullParen c))
  | inf s t l r =>
    if s.isSep then inf s t (fullParen l) (fullParen r)
    else br .paren (inf s t (fullParen l) (fullParen r))
  | tern s t m mt a b c => br .paren (tern s t m mt (fullParen a) (fullParen b) (fullParen c))
  | br k c => br k (fullParen c)

/-- remove the `paren` brackets (only those): the shape the parse is compared on -/
def strip : G → G
  | atom a => atom a
  | pre s t c => pre s t (strip c)
  | inf s t l r => inf s t (strip l) (strip r)
  | tern s t m mt a b c => tern s t m mt (strip a) (strip b) (strip c)
  | br .paren c => strip c
  | br k c => br k (strip c)

/-- operator skeleton of a tree: symbols only, parentheses dropped, no strings (so that
    shapes can be compared by kernel computation) -/
inductive Skel
  | leaf
  | pre (s : Sym) (c : Skel)
  | inf (s : Sym) (l r : Skel)
  | tern (s m : Sym) (a b c : Skel)
  | br (c : Skel)
  deriving DecidableEq, Repr, Inhabited

def skel : G → Skel
  | atom _ => .leaf
  | pre s _ c => .pre s (skel c)
  | inf s _ l r => .inf s (skel l) (skel r)
  | tern s _ m _ a b c => .tern s m (skel a) (skel b) (skel c)
  | br .paren c => skel c
  | br _ c => .br (skel c)

/-- backend operators that are associative (re-association does not change a value) -/
def assocSym : Sym → Bool
  | .plus | .star | .concat | .and_ | .or_ => true
  | _ => false

/-- head operand and the following `(operator text, operand)` pairs of the left-nested chain
    of `s` nodes at the root of a tree -/
def lspine (s : Sym) : G → G × List (String × G)
  | inf s' t' l r =>
    if s' = s then ((lspine s l).1, (lspine s l).2 ++ [(t', r)]) else (inf s' t' l r, [])
  | x => (x, [])

/-- rotate every right-nested chain of one associative operator to the left:
    `a + (b + c)` ↦ `(a + b) + c`.  The printed tokens do not change (`print_norm`), and
    neither does the value under any interpretation in which the operator is associative
    (`evalG_norm`). -/
def norm : G → G
  | atom a => atom a
  | pre s t c => pre s t (norm c)
  | inf s t l r =>
    if assocSym s then
      (lspine s (norm r)).2.foldl (fun acc x => inf s x.1 acc x.2)
        (inf s t (norm l) (lspine s (norm r)).1)
    else inf s t (norm l) (norm r)
  | tern s t m mt a b c => tern s t m mt (norm a) (norm b) (norm c)
  | br k c => br k (norm c)

end G

/-- an interpretation of the symbols over a value domain `V` -/
structure Interp (V : Type) where
  atom : Atom → V
  pre : Sym → V → V
  inf : Sym → V → V → V
  tern : Sym → Sym → V → V → V → V
  br : Bracket → V → V

/-- value of a token tree under an interpretation -/
def evalG {V : Type} (I : Interp V) : G → V
  | G.atom a => I.atom a
  | G.pre s _ c => I.pre s (evalG I c)
  | G.inf s _ l r => I.inf s (evalG I l) (evalG I r)
  | G.tern s _ m _ a b c => I.tern s m (evalG I a) (evalG I b) (evalG I c)
  | G.br k c => I.br k (evalG I c)

/-- a backend grammar as binding-power tables -/
structure Grammar where
  /-- infix symbol ↦ (left binding power, binding power of the right operand) -/
  infixBp : Sym → Option (Nat × Nat)
  /-- prefix symbol ↦ binding power of its operand -/
  prefixBp : Sym → Option Nat
  /-- ternary head ↦ (middle symbol, binding power of the third operand, middle mandatory?) -/
  ternBp : Sym → Option (Sym × Nat × Bool)

/-- does the loop running at level `m` stop in front of a following infix symbol? -/
def stops (g : Grammar) (m : Nat) : Option Sym → Bool
  | none => true
  | some s =>
    match g.infixBp s with
    | none => true
    | some (lbp, _) => decide (lbp < m)

/-- symbol of the token that follows, if it is an infix token -/
def follower : List Tok → Option Sym
  | Tok.inf s _ :: _ => some s
  | _ => none

mutual
/-- `parseExpr g fuel m ts`: parse one expression whose operators all bind at least `m` -/
def parseExpr (g : Grammar) : Nat → Nat → List Tok → Option (G × List Tok)
  | 0, _, _ => none
  | f + 1, m, ts =>
    match parseNud g f ts with
    | some (lhs, ts') => parseLoop g f m lhs ts'
    | none => none

/-- atom, prefix operator with operand, or bracketed expression -/
def parseNud (g : Grammar) : Nat → List Tok → Option (G × List Tok)
  | 0, _ => none
  | _ + 1, Tok.atom a :: ts => some (G.atom a, ts)
  | f + 1, Tok.pre s t :: ts =>
    match g.prefixBp s with
    | none => none
    | some bp =>
      match parseExpr g f bp ts with
      | some (c, ts') => some (G.pre s t c, ts')
      | none => none
  | f + 1, Tok.open_ k :: ts =>
    match parseExpr g f 0 ts with
    | some (c, Tok.close k' :: ts') => if k = k' then some (G.br k c, ts') else none
    | _ => none
  | _ + 1, _ => none

/-- extend `lhs` with infix / ternary operators binding at least `m` -/
def parseLoop (g : Grammar) : Nat → Nat → G → List Tok → Option (G × List Tok)
  | 0, _, _, _ => none
  | f + 1, m, lhs, Tok.inf s t :: ts =>
    match g.infixBp s with
    | none => some (lhs, Tok.inf s t :: ts)
    | some (lbp, rbp) =>
      if lbp < m then some (lhs, Tok.inf s t :: ts)
      else
        match parseExpr g f rbp ts with
        | none => none
        | some (rhs, ts') =>
          match g.ternBp s with
          | none => parseLoop g f m (G.inf s t lhs rhs) ts'
          | some (mid, bp3, mandatory) =>
            match ts' with
            | Tok.inf s2 t2 :: ts'' =>
              if s2 = mid then
                match parseExpr g f bp3 ts'' with
                | some (c, ts3) => parseLoop g f m (G.tern s t mid t2 lhs rhs c) ts3
                | none => none
              else if mandatory then none
              else parseLoop g f m (G.inf s t lhs rhs) ts'
            | _ =>
              if mandatory then none
              else parseLoop g f m (G.inf s t lhs rhs) ts'
  | _ + 1, _, lhs, ts => some (lhs, ts)
end

/-- fuel that always suffices for a token list (three calls per token, see Props/C01) -/
def fuelFor (ts : List Tok) : Nat := 3 * ts.length + 3

/-- parse a complete token list -/
def parse (g : Grammar) (ts : List Tok) : Option G :=
  match parseExpr g (fuelFor ts) 0 ts with
  | some (t, []) => some t
  | _ => none

/-! ## well-bracketedness -/

/-- nothing on the right spine of `t` captures a following infix symbol `f` -/
def rightOK (g : Grammar) (f : Option Sym) : G → Bool
  | G.atom _ => true
  | G.br _ _ => true
  | G.pre s _ c =>
    match g.prefixBp s with
    | none => false
    | some bp => stops g bp f && rightOK g f c
  | G.inf s _ _ r =>
    match g.infixBp s with
    | none => false
    | some (_, rbp) =>
      stops g rbp f && rightOK g f r &&
        (match g.ternBp s with
         | none => true
         | some (mid, _, _) => decide (f ≠ some mid))
  | G.tern s _ _ _ _ _ c =>
    match g.ternBp s with
    | none => false
    | some (_, bp3, _) => stops g bp3 f && rightOK g f c

/-- every operator on the left spine of `t` binds at least `m` -/
def leftOK (g : Grammar) (m : Nat) : G → Bool
  | G.atom _ => true
  | G.br _ _ => true
  | G.pre _ _ _ => true
  | G.inf s _ l _ =>
    match g.infixBp s with
    | none => false
    | some (lbp, _) => decide (m ≤ lbp) && leftOK g m l
  | G.tern s _ _ _ a _ _ =>
    match g.infixBp s with
    | none => false
    | some (lbp, _) => decide (m ≤ lbp) && leftOK g m a

/-- the tree prints to a token sequence that grammar `g` groups back into the same tree -/
def wb (g : Grammar) : G → Bool
  | G.atom _ => true
  | G.br _ c => wb g c
  | G.pre s _ c =>
    match g.prefixBp s with
    | none => false
    | some bp => wb g c && leftOK g bp c
  | G.inf s _ l r =>
    match g.infixBp s with
    | none => false
    | some (_, rbp) =>
      (match g.ternBp s with
       | some (_, _, true) => false
       | _ => true) &&
      wb g l && wb g r && rightOK g (some s) l && leftOK g rbp r
  | G.tern s _ m _ a b c =>
    match g.infixBp s, g.ternBp s with
    | some (_, rbp), some (mid, bp3, _) =>
      decide (m = mid) && wb g a && wb g b && wb g c &&
        rightOK g (some s) a && leftOK g rbp b && rightOK g (some m) b &&
        stops g rbp (some m) && leftOK g bp3 c
    | _, _ => false

end SaVerif.Pratt
