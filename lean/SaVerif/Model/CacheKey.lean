/-
M-BIND (part 2, C02/C17): cache key, extracted parameters, re-binding.  Transcription of

  lib/sqlalchemy/sql/cache_key.py   HasCacheKey._gen_cache_key / _generate_cache_key
                                    (anon_map identity: an object met twice yields a
                                    back reference and is not extracted twice)
  lib/sqlalchemy/sql/elements.py    BindParameter._gen_cache_key
                                    -> (id_, cls, type key, name, literal_execute); appended
                                       to `bindparams` on first visit only
  lib/sqlalchemy/sql/compiler.py    SQLCompiler.__init__ (_cache_key_bind_match),
                                    visit_bindparam (ckbm[cb].append(bindparam)),
                                    construct_params(extracted_parameters=…)

Python                                         model
---------------------------------------------  ------------------------------------
ClauseElement tree, `_traverse_internals`      S-expression `T` (atoms = class / in-place
                                               values, pairs = attribute order)
anon_map.get_anon(obj)                         `seen : List Nat` of object ids, index = id_
bindparams.append(self)                        second component of `keyAux`
zip(orig_extracted, extracted_parameters)      `resolve`
resolved_extracted.get(bindparam, bindparam)   `constructParams`
compiled.bind_names (compile visit order)      any list `co` of object ids

Import-free, total, executable.
-/
namespace SaVerif.CacheKey

structure Bind where
  oid : Nat       -- object identity
  ty : Nat        -- type._static_cache_key
  name : Nat      -- key (anonymous names already mapped through anon_map)
  le : Bool       -- literal_execute
  val : Int       -- value (not part of the key)
  deriving DecidableEq, Repr

inductive T
  | atom (tag : Nat)
  | bind (b : Bind)
  | pair (l r : T)
  deriving DecidableEq, Repr

inductive KTok
  | a (tag : Nat)
  | b (id : Nat) (ty name : Nat) (le : Bool)
  | ref (id : Nat)
  | op
  | cl
  deriving DecidableEq, Repr

/-- `_gen_cache_key(anon_map, bindparams)`: (key, extracted binds, anon_map') -/
def keyAux (seen : List Nat) : T → List KTok × List Bind × List Nat
  | .atom t => ([.a t], [], seen)
  | .bind b =>
    if seen.contains b.oid then ([.ref (seen.idxOf b.oid)], [], seen)
    else ([.b seen.length b.ty b.name b.le], [b], seen ++ [b.oid])
  | .pair l r =>
    let r1 := keyAux seen l
    let r2 := keyAux r1.2.2 r
    ([KTok.op] ++ r1.1 ++ r2.1 ++ [KTok.cl], r1.2.1 ++ r2.2.1, r2.2.2)

def keyOf (t : T) : List KTok := (keyAux [] t).1
def extract (t : T) : List Bind := (keyAux [] t).2.1

/-- the compiled form as far as the cache contract is concerned: tokens with
    numbered placeholders, and per distinct bind its (type, name, literal_execute) -/
inductive STok
  | a (tag : Nat)
  | ph (id : Nat)
  | op
  | cl
  deriving DecidableEq, Repr

def sqlAux (seen : List Nat) : T → List STok × List (Nat × Nat × Bool) × List Nat
  | .atom t => ([.a t], [], seen)
  | .bind b =>
    if seen.contains b.oid then ([.ph (seen.idxOf b.oid)], [], seen)
    else ([.ph seen.length], [(b.ty, b.name, b.le)], seen ++ [b.oid])
  | .pair l r =>
    let r1 := sqlAux seen l
    let r2 := sqlAux r1.2.2 r
    ([STok.op] ++ r1.1 ++ r2.1 ++ [STok.cl], r1.2.1 ++ r2.2.1, r2.2.2)

def sqlOf (t : T) : List STok × List (Nat × Nat × Bool) := ((sqlAux [] t).1, (sqlAux [] t).2.1)

/-- `{bind: extracted for b, extracted in zip(orig_extracted, extracted_parameters) …}` -/
def resolve (orig extracted : List Bind) : List (Nat × Bind) :=
  (orig.map (·.oid)).zip extracted

def rlookup (o : Nat) : List (Nat × Bind) → Option Bind
  | [] => none
  | (k, b) :: r => if k = o then some b else rlookup o r

/-- `construct_params(extracted_parameters=…)` for the compiled binds `co` (object ids
    in compile order; `own` gives the compiled bind's own value) -/
def constructParams (co : List Nat) (own : Nat → Int) (orig extracted : List Bind) : List Int :=
  co.map (fun o => match rlookup o (resolve orig extracted) with
    | some b => b.val
    | none => own o)

end SaVerif.CacheKey
