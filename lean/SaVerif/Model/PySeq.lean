/-
M-PYSEQ (1/3): Python `list` semantics (trusted, validated against CPython on every run)
and the instrumented list decorators of lib/sqlalchemy/orm/collections.py
(`_list_decorators`) transcribed on top of them with an append/remove event log.
Import-free, total, executable.

Python / CPython                                  model
------------------------------------------------  -------------------------------
slice.indices(len) / PySlice_AdjustIndices        sliceIndices (none = ValueError, step 0)
range(start, stop, step)                          rangeLen / rangeList
l[i] with negative index, IndexError              normIndex / pGet
list.insert index clamping                        insertPos / pInsert
l[i] = x, del l[i], l.pop(i), l.remove(x)         pSetItem, pDelItem, pPop, pRemove
l[a:b:c] (get / set / del)  list_ass_subscript    pGetSlice, pSetSlice, pDelSlice
l *= n                                            pImul
__set / __del  (fire_append_event / remove)       Event.app / Event.rem
_list_decorators.append/remove/insert/...         iAppend, iRemove, iInsert, iSetItem, iDelItem,
                                                  iPop, iClear, iExtend (= __iadd__)
__setitem__(slice): `value is self` snapshot,     iSetSlice: delLoop / insLoop / extLoop
  `del self[start]` loop, `self.insert` loop,
  `self.__setitem__(i, item)` loop
__delitem__(slice)                                iDelSlice
__imul__, reverse (not wrapped)                   iImul, iReverse: plain op, no events

The value assigned to a slice is its element list plus what the code branches on:
a sized iterable, an iterator (no `len`), the collection itself, or a non-iterable.
-/
namespace SaVerif.PySeq

abbrev Item := Nat

inductive Err where
  | indexError | valueError | typeError | keyError | runtimeError | invalidRequest
deriving Repr, DecidableEq

inductive Event where
  | app (x : Item)
  | rem (x : Item)
deriving Repr, DecidableEq

structure Slice where
  start : Option Int
  stop : Option Int
  step : Option Int
deriving Repr, DecidableEq

/-! ### slice.indices and range -/

/-- clamp of one bound in `PySlice_AdjustIndices` -/
def adjust (len : Nat) (lower upper v : Int) : Int :=
  if v < 0 then (if v + len < lower then lower else v + len)
  else (if v > upper then upper else v)

/-- `slice(start, stop, step).indices(len)`; `none` = ValueError("slice step cannot be zero") -/
def sliceIndices (len : Nat) (s : Slice) : Option (Int × Int × Int) :=
  let step := s.step.getD 1
  if step == 0 then none else
  let lower : Int := if step < 0 then -1 else 0
  let upper : Int := if step < 0 then (len : Int) - 1 else len
  let start := match s.start with
    | none => if step < 0 then upper else lower
    | some v => adjust len lower upper v
  let stop := match s.stop with
    | none => if step < 0 then lower else upper
    | some v => adjust len lower upper v
  some (start, stop, step)

/-- `len(range(start, stop, step))` -/
def rangeLen (start stop step : Int) : Nat :=
  if step > 0 then (if start < stop then ((stop - start - 1) / step + 1).toNat else 0)
  else if step < 0 then (if stop < start then ((start - stop - 1) / (-step) + 1).toNat else 0)
  else 0

def rangeList (start stop step : Int) : List Int :=
  (List.range (rangeLen start stop step)).map (fun (k : Nat) => start + (k : Int) * step)

/-! ### plain list -/

def normIndex (len : Nat) (i : Int) : Option Nat :=
  let j := if i < 0 then i + len else i
  if j < 0 then none else if j.toNat < len then some j.toNat else none

def pGet (l : List Item) (i : Int) : Except Err Item :=
  match normIndex l.length i with
  | some k => match l[k]? with
    | some x => .ok x
    | none => .error .indexError
  | none => .error .indexError

def pSetItem (l : List Item) (i : Int) (x : Item) : Except Err (List Item) :=
  match normIndex l.length i with
  | some k => .ok (l.set k x)
  | none => .error .indexError

def pDelItem (l : List Item) (i : Int) : Except Err (List Item) :=
  match normIndex l.length i with
  | some k => .ok (l.eraseIdx k)
  | none => .error .indexError

def insertPos (n : Nat) (pos : Int) : Nat :=
  if pos < 0 then (if pos + n < 0 then 0 else (pos + n).toNat)
  else (if pos > n then n else pos.toNat)

def pInsert (l : List Item) (pos : Int) (x : Item) : List Item :=
  let k := insertPos l.length pos
  l.take k ++ x :: l.drop k

/-- `l.pop(i)`: IndexError on empty list / bad index -/
def pPop (l : List Item) (i : Int) : Except Err (List Item × Item) :=
  match normIndex l.length i with
  | some k => match l[k]? with
    | some x => .ok (l.eraseIdx k, x)
    | none => .error .indexError
  | none => .error .indexError

def pRemove (l : List Item) (x : Item) : Except Err (List Item) :=
  if l.contains x then .ok (l.erase x) else .error .valueError

def getAt (l : List Item) (i : Int) : Option Item :=
  if i < 0 then none else l[i.toNat]?

def pGetSlice (l : List Item) (s : Slice) : Except Err (List Item) :=
  match sliceIndices l.length s with
  | none => .error .valueError
  | some (start, stop, step) => .ok ((rangeList start stop step).filterMap (getAt l))

inductive ValKind where
  | sized    -- list / tuple: iterable with __len__
  | iter     -- generator / iterator: iterable without __len__
  | self     -- the collection itself (`value is self`)
  | nonIter  -- not iterable
deriving Repr, DecidableEq

structure Val where
  kind : ValKind
  elems : List Item
deriving Repr, DecidableEq

/-- assign `xs[k]` to position `idx[k]` for each k -/
def assignAll (l : List Item) : List Int → List Item → List Item
  | i :: is, x :: xs => assignAll (if i < 0 then l else l.set i.toNat x) is xs
  | _, _ => l

/-- `l[s] = v` on a plain list (`list_ass_subscript`).  `self` is copied first. -/
def pSetSlice (l : List Item) (s : Slice) (v : Val) : Except Err (List Item) :=
  match sliceIndices l.length s with
  | none => .error .valueError
  | some (start, stop, step) =>
    if v.kind == .nonIter then .error .typeError else
    let xs := if v.kind == .self then l else v.elems
    if step == 1 then
      let stop' := if stop < start then start else stop
      .ok (l.take start.toNat ++ xs ++ l.drop stop'.toNat)
    else
      let idx := rangeList start stop step
      if xs.length != idx.length then .error .valueError
      else .ok (assignAll l idx xs)

/-- delete the positions listed (any order) -/
def deletePositions (l : List Item) (idx : List Int) : List Item :=
  (l.zipIdx.filter (fun p => !idx.contains (p.2 : Int))).map (·.1)

def pDelSlice (l : List Item) (s : Slice) : Except Err (List Item) :=
  match sliceIndices l.length s with
  | none => .error .valueError
  | some (start, stop, step) => .ok (deletePositions l (rangeList start stop step))

def pImul (l : List Item) (n : Int) : List Item :=
  (List.replicate n.toNat l).flatten

/-! ### instrumented list: result = (contents, events fired, return / exception) -/

inductive Ret where
  | none
  | val (x : Item)
  | err (e : Err)
deriving Repr, DecidableEq

structure Res where
  items : List Item
  events : List Event
  ret : Ret
deriving Repr, DecidableEq

def iAppend (l : List Item) (x : Item) : Res := ⟨l ++ [x], [.app x], .none⟩

/-- `__del(self, value)` THEN `fn(self, value)`: the event precedes the ValueError -/
def iRemove (l : List Item) (x : Item) : Res :=
  match pRemove l x with
  | .ok l' => ⟨l', [.rem x], .none⟩
  | .error e => ⟨l, [.rem x], .err e⟩

def iInsert (l : List Item) (pos : Int) (x : Item) : Res := ⟨pInsert l pos x, [.app x], .none⟩

/-- `existing = self[index]` (IndexError before any event); remove event, append event, store -/
def iSetItem (l : List Item) (i : Int) (x : Item) : Res :=
  match pGet l i with
  | .error e => ⟨l, [], .err e⟩
  | .ok old => match pSetItem l i x with
    | .ok l' => ⟨l', [.rem old, .app x], .none⟩
    | .error e => ⟨l, [.rem old, .app x], .err e⟩

def iDelItem (l : List Item) (i : Int) : Res :=
  match pGet l i with
  | .error e => ⟨l, [], .err e⟩
  | .ok old => match pDelItem l i with
    | .ok l' => ⟨l', [.rem old], .none⟩
    | .error e => ⟨l, [.rem old], .err e⟩

/-- `__before_pop; item = fn(self, index); __del(item)` -/
def iPop (l : List Item) (i : Int) : Res :=
  match pPop l i with
  | .ok (l', x) => ⟨l', [.rem x], .val x⟩
  | .error e => ⟨l, [], .err e⟩

def iClear (l : List Item) : Res := ⟨[], l.map .rem, .none⟩

/-- `for value in list(iterable): self.append(value)` (also `__iadd__`) -/
def iExtend (l : List Item) (v : Val) : Res :=
  match v.kind with
  | .nonIter => ⟨l, [], .err .typeError⟩
  | .self => ⟨l ++ l, l.map .app, .none⟩
  | _ => ⟨l ++ v.elems, v.elems.map .app, .none⟩

/-- `for i in range(start, stop, 1): if len(self) > start: del self[start]` -/
def delLoop : Nat → Nat → List Item → List Event → List Item × List Event
  | 0, _, l, ev => (l, ev)
  | n + 1, start, l, ev =>
    if l.length > start then
      match l[start]? with
      | some x => delLoop n start (l.eraseIdx start) (ev ++ [.rem x])
      | none => delLoop n start l ev
    else delLoop n start l ev

/-- `for i, item in enumerate(value): self.insert(i + start, item)` -/
def insLoop : Nat → Int → List Item → List Item → List Event → List Item × List Event
  | _, _, [], l, ev => (l, ev)
  | i, start, x :: xs, l, ev => insLoop (i + 1) start xs (pInsert l (start + i) x) (ev ++ [.app x])

/-- `for i, item in zip(rng, value): self.__setitem__(i, item)` -/
def extLoop : List Int → List Item → List Item → List Event → Res
  | i :: is, x :: xs, l, ev =>
    let r := iSetItem l i x
    match r.ret with
    | .err e => ⟨r.items, ev ++ r.events, .err e⟩
    | _ => extLoop is xs r.items (ev ++ r.events)
  | _, _, l, ev => ⟨l, ev, .none⟩

def iSetSlice (l : List Item) (s : Slice) (v : Val) : Res :=
  match sliceIndices l.length s with
  | none => ⟨l, [], .err .valueError⟩
  | some (start, stop, step) =>
    if step == 1 then
      -- `if value is self: if start == 0 and stop >= len(self): return; value = list(value)`
      if v.kind == .self && start == 0 && stop ≥ (l.length : Int) then ⟨l, [], .none⟩
      else
        let xs := if v.kind == .self then l else v.elems
        let (l1, ev1) := delLoop (rangeLen start stop 1) start.toNat l []
        if v.kind == .nonIter then ⟨l1, ev1, .err .typeError⟩
        else
          let (l2, ev2) := insLoop 0 start xs l1 ev1
          ⟨l2, ev2, .none⟩
    else
      let rng := rangeList start stop step
      match v.kind with
      | .nonIter => ⟨l, [], .err .typeError⟩
      | .iter => ⟨l, [], .err .typeError⟩          -- len(generator)
      | .self =>                                    -- `value = list(value)`: a snapshot
        if l.length != rng.length then ⟨l, [], .err .valueError⟩
        else extLoop rng l l []
      | .sized =>
        if v.elems.length != rng.length then ⟨l, [], .err .valueError⟩
        else extLoop rng v.elems l []

/-- `for item in self[index]: __del(item)` then `fn(self, index)` -/
def iDelSlice (l : List Item) (s : Slice) : Res :=
  match pGetSlice l s, pDelSlice l s with
  | .ok items, .ok l' => ⟨l', items.map .rem, .none⟩
  | .error e, _ => ⟨l, [], .err e⟩
  | .ok items, .error e => ⟨l, items.map .rem, .err e⟩

def iImul (l : List Item) (n : Int) : Res := ⟨pImul l n, [], .none⟩
def iReverse (l : List Item) : Res := ⟨l.reverse, [], .none⟩

/-! ### operations -/

inductive LOp where
  | append (x : Item)
  | remove (x : Item)
  | insert (pos : Int) (x : Item)
  | setitem (i : Int) (x : Item)
  | delitem (i : Int)
  | pop (i : Int)
  | clear
  | extend (v : Val)
  | setslice (s : Slice) (v : Val)
  | delslice (s : Slice)
  | imul (n : Int)
  | reverse
deriving Repr, DecidableEq

def iStep (l : List Item) : LOp → Res
  | .append x => iAppend l x
  | .remove x => iRemove l x
  | .insert p x => iInsert l p x
  | .setitem i x => iSetItem l i x
  | .delitem i => iDelItem l i
  | .pop i => iPop l i
  | .clear => iClear l
  | .extend v => iExtend l v
  | .setslice s v => iSetSlice l s v
  | .delslice s => iDelSlice l s
  | .imul n => iImul l n
  | .reverse => iReverse l

/-- the same operation on a plain list: (contents, return / exception) -/
def pStep (l : List Item) : LOp → List Item × Ret
  | .append x => (l ++ [x], .none)
  | .remove x => match pRemove l x with | .ok l' => (l', .none) | .error e => (l, .err e)
  | .insert p x => (pInsert l p x, .none)
  | .setitem i x => match pSetItem l i x with | .ok l' => (l', .none) | .error e => (l, .err e)
  | .delitem i => match pDelItem l i with | .ok l' => (l', .none) | .error e => (l, .err e)
  | .pop i => match pPop l i with | .ok (l', x) => (l', .val x) | .error e => (l, .err e)
  | .clear => ([], .none)
  | .extend v => match v.kind with
    | .nonIter => (l, .err .typeError)
    | .self => (l ++ l, .none)
    | _ => (l ++ v.elems, .none)
  | .setslice s v => match pSetSlice l s v with | .ok l' => (l', .none) | .error e => (l, .err e)
  | .delslice s => match pDelSlice l s with | .ok l' => (l', .none) | .error e => (l, .err e)
  | .imul n => (pImul l n, .none)
  | .reverse => (l.reverse, .none)

def iRun (l : List Item) : List LOp → List Res
  | [] => []
  | op :: ops => let r := iStep l op; r :: iRun r.items ops

def pRun (l : List Item) : List LOp → List (List Item × Ret)
  | [] => []
  | op :: ops => let r := pStep l op; r :: pRun r.1 ops

end SaVerif.PySeq
