/-
M-POOL (part 1): QueuePool as a labelled transition system with per-thread
program counters.  Transcription of lib/sqlalchemy/pool/impl.py
(QueuePool._do_get / _do_return_conn / _inc_overflow / _dec_overflow) over
lib/sqlalchemy/util/queue.py (Queue.get / Queue.put).  Import-free, total, executable.

Python                                            model
------------------------------------------------  ------------------------------------------
self._pool (util.queue.Queue, deque)              `queue : List Rec` (left = oldest)
self._overflow  (starts at -pool_size)            `overflow : Int`
self._max_overflow (-1 if pool_size == 0)         `Cfg.maxOv`  (driver rejects < -1)
self._overflow_lock (threading.Lock)              `lock : Option tid`, steps `la` / `lr`
_ConnectionRecord objects                         `Rec = Nat`, numbered in creation order
records held by a _ConnectionFairy / caller       `out : List Rec`
a thread inside a pool method                     `pcs : List Pc` (index = thread id)

_do_get:
  use_overflow = self._max_overflow > -1          Cfg.useOv
  wait = use_overflow and                         g0 --rv v--> g1 v          (short-circuit:
         self._overflow >= self._max_overflow     g0 --qg false--> gq false   when ¬useOv)
  return self._pool.get(wait, self._timeout)      g1 v --qg b--> gq b, b = (v ≥ maxOv)
                                                  gq w --pop r--> idle   (FIFO: head, LIFO: last)
  except Empty: pass                              gq w --qe--> ge w      only if queue = []
                                                  (block=True: the Empty is the *timeout* of the
                                                   wait loop, which re-tests `_empty()` under the
                                                   mutex before giving up)
                                                  gq w --cancel--> idle  (AsyncAdaptedQueuePool:
                                                   CancelledError out of `await queue.get()`)
  if use_overflow and self._overflow >= max:      ge w --rv v--> ge1 w v ;  ¬useOv: ge w --ci--> i0
      if not wait: return self._do_get()          ge1 w v --cg--> g0     v ≥ max ∧ ¬w
      else: raise TimeoutError                    ge1 w v --to--> idle   v ≥ max ∧ w
  if self._inc_overflow():                        ge1 w v --ci--> i0     v < max
      try: return self._create_connection()       c0 --cr r--> idle (r fresh)
      except: self._dec_overflow(); raise         c0 --cf--> cfail --cd--> d0 ...
                                                  c0 --ccancel--> cfail   (CancelledError inside the
                                                   creation: bare except, so the slot is given back)
  else: return self._do_get()                     gr --cg--> g0
_inc_overflow:
  if max == -1: self._overflow += 1; return True  i0 --rmw v (v+1)--> c0
  with self._overflow_lock:                       i0 --la--> i1
      if self._overflow < max:                    i1 --rv v--> i2 v
          self._overflow += 1; return True        i2 v --rmw v' (v'+1)--> i3 --lr--> c0   (v < max)
      else: return False                          i2 v --lr--> gr                         (v ≥ max)
_dec_overflow:                                    d0 --rmw v (v-1)--> idle  (max = -1)
                                                  d0 --la--> d1 --rmw--> d2 --lr--> idle
_do_return_conn(record):                          idle --cp r--> p0 r     (r ∈ out)
  try: self._pool.put(record, False)              p0 r --put r--> idle    (¬ full)
  except Full:                                    p0 r --qf--> p1 r       (full)
      try: record.close()                         p1 r --cl--> p2
      finally: self._dec_overflow()               p2 --cd--> d0

Queue.get / Queue.put hold the queue mutex for their whole body, so each is one
atomic step here (pop / qe / put / qf).  `self._overflow += 1` is one step (`rmw`):
one simple statement, no call inside.  Both atomicity assumptions are validated by
the trace-inclusion check (labels are emitted at the real linearisation points).
-/
namespace SaVerif.Pool

abbrev Rec := Nat

structure Cfg where
  size  : Nat
  maxOv : Int
  lifo  : Bool
deriving Repr, DecidableEq

/-- `use_overflow = self._max_overflow > -1` -/
def Cfg.useOv (c : Cfg) : Bool := decide (-1 < c.maxOv)

inductive Pc
  | idle
  | g0 | g1 (v : Int) | gq (w : Bool) | ge (w : Bool) | ge1 (w : Bool) (v : Int) | gr
  | i0 | i1 | i2 (v : Int) | i3
  | c0 | cfail
  | d0 | d1 | d2
  | p0 (r : Rec) | p1 (r : Rec) | p2
deriving Repr, DecidableEq

inductive Label
  | cg | rv (v : Int) | rmw (v w : Int) | wv (w : Int) | qg (b : Bool) | pop (r : Rec)
  | qe | to | ci | cd | la | lr | cr (r : Rec) | cf | cp (r : Rec) | put (r : Rec)
  | qf | cl | qset | cancel | ccancel
deriving Repr, DecidableEq

/-- the state shared by all threads -/
structure Shared where
  queue    : List Rec
  overflow : Int
  lock     : Option Nat
  out      : List Rec
  nextId   : Nat
deriving Repr, DecidableEq

structure State extends Shared where
  pcs      : List Pc
deriving Repr, DecidableEq

def init (c : Cfg) (nthreads : Nat) : State :=
  { queue := [], overflow := - (c.size : Int), lock := none, out := [], nextId := 0,
    pcs := List.replicate nthreads Pc.idle }

/-- `Queue._full()`: `self.maxsize > 0 and len(self.queue) == self.maxsize` -/
def full (c : Cfg) (q : List Rec) : Bool := decide (0 < c.size) && (q.length == c.size)

/-- `Queue._get()`: popleft (FIFO) or pop (LIFO) -/
def takeOne (lifo : Bool) (q : List Rec) : Option (Rec × List Rec) :=
  if lifo then
    match q.getLast? with
    | some r => some (r, q.dropLast)
    | none => none
  else
    match q with
    | r :: rest => some (r, rest)
    | [] => none

/-- `Queue._get()` observed to deliver `r`: the remaining queue -/
def popRest (lifo : Bool) (q : List Rec) (r : Rec) : Option (List Rec) :=
  match takeOne lifo q with
  | some (r', rest) => if r = r' then some rest else none
  | none => none

/-- one transition of thread `t`, currently at `pc`, with label `l`, on the shared
    state: new pc and new shared state; `none` = not a transition of the LTS -/
def trans (c : Cfg) (s : Shared) (t : Nat) : Pc → Label → Option (Pc × Shared)
  -- _do_get
  | .idle, .cg => some (.g0, s)
  | .gr, .cg => some (.g0, s)
  | .g0, .rv v => if c.useOv ∧ v = s.overflow then some (.g1 v, s) else none
  | .g0, .qg b => if ¬ c.useOv ∧ b = false then some (.gq false, s) else none
  | .g1 v, .qg b => if b = decide (c.maxOv ≤ v) then some (.gq b, s) else none
  | .gq _, .pop r =>
    match popRest c.lifo s.queue r with
    | some rest => some (.idle, { s with queue := rest, out := r :: s.out })
    | none => none
  | .gq w, .qe => if s.queue = [] then some (.ge w, s) else none
  -- asyncio only: the task is cancelled while it awaits the queue; CancelledError is not
  -- `Empty`, so it leaves _do_get without touching anything
  | .gq _, .cancel => some (.idle, s)
  | .ge w, .rv v => if c.useOv ∧ v = s.overflow then some (.ge1 w v, s) else none
  | .ge _, .ci => if ¬ c.useOv then some (.i0, s) else none
  | .ge1 w v, .cg => if c.maxOv ≤ v ∧ w = false then some (.g0, s) else none
  | .ge1 w v, .to => if c.maxOv ≤ v ∧ w = true then some (.idle, s) else none
  | .ge1 _ v, .ci => if v < c.maxOv then some (.i0, s) else none
  -- _inc_overflow
  | .i0, .rmw v w =>
    if c.maxOv = -1 ∧ v = s.overflow ∧ w = v + 1 then some (.c0, { s with overflow := w })
    else none
  | .i0, .la =>
    if c.maxOv ≠ -1 ∧ s.lock = none then some (.i1, { s with lock := some t }) else none
  | .i1, .rv v => if v = s.overflow then some (.i2 v, s) else none
  | .i2 v, .rmw v' w =>
    if v < c.maxOv ∧ v' = s.overflow ∧ w = v' + 1 then some (.i3, { s with overflow := w })
    else none
  | .i2 v, .lr => if c.maxOv ≤ v then some (.gr, { s with lock := none }) else none
  | .i3, .lr => some (.c0, { s with lock := none })
  -- _create_connection
  | .c0, .cr r =>
    if r = s.nextId then some (.idle, { s with out := r :: s.out, nextId := s.nextId + 1 })
    else none
  | .c0, .cf => some (.cfail, s)
  -- asyncio: CancelledError (a BaseException) lands at an await inside the creation of the
  -- physical connection; the bare `except:` of _do_get must still run _dec_overflow()
  | .c0, .ccancel => some (.cfail, s)
  | .cfail, .cd => some (.d0, s)
  -- _dec_overflow
  | .d0, .rmw v w =>
    if c.maxOv = -1 ∧ v = s.overflow ∧ w = v - 1 then some (.idle, { s with overflow := w })
    else none
  | .d0, .la =>
    if c.maxOv ≠ -1 ∧ s.lock = none then some (.d1, { s with lock := some t }) else none
  | .d1, .rmw v w =>
    if v = s.overflow ∧ w = v - 1 then some (.d2, { s with overflow := w }) else none
  | .d2, .lr => some (.idle, { s with lock := none })
  -- _do_return_conn
  | .idle, .cp r => if r ∈ s.out then some (.p0 r, { s with out := s.out.erase r }) else none
  | .p0 r, .put r' =>
    if r' = r ∧ full c s.queue = false then some (.idle, { s with queue := s.queue ++ [r] })
    else none
  | .p0 r, .qf => if full c s.queue = true then some (.p1 r, s) else none
  | .p1 _, .cl => some (.p2, s)
  | .p2, .cd => some (.d0, s)
  | _, _ => none

/-- one step of thread `t` with label `l` -/
def step (c : Cfg) (s : State) (t : Nat) (l : Label) : Option State :=
  match s.pcs[t]? with
  | some pc =>
    match trans c s.toShared t pc l with
    | some (pc', sh) => some { toShared := sh, pcs := s.pcs.set t pc' }
    | none => none
  | none => none

/-- run a whole trace; `Except (index of the first rejected label)` -/
def run (c : Cfg) : State → List (Nat × Label) → Nat → Except Nat State
  | s, [], _ => .ok s
  | s, (t, l) :: rest, i =>
    match step c s t l with
    | some s' => run c s' rest (i + 1)
    | none => .error i

/-- reachability in the LTS from the initial state with `n` threads -/
inductive Reach (c : Cfg) (n : Nat) : State → Prop
  | init : Reach c n (init c n)
  | step {s s' : State} {t : Nat} {l : Label} : Reach c n s → step c s t l = some s' → Reach c n s'

/-! ### quantities the invariants speak about -/

/-- connection "slots" a thread accounts for while it is between the counter update
    and the matching queue / holder update -/
def slots : Pc → Nat
  | .i3 | .c0 | .cfail | .d0 | .d1 | .p0 _ | .p1 _ | .p2 => 1
  | _ => 0

/-- records in transit inside `_do_return_conn` -/
def transit : Pc → List Rec
  | .p0 r | .p1 r => [r]
  | _ => []

/-- pcs at which the thread owns `_overflow_lock` -/
def holds : Pc → Bool
  | .i1 | .i2 _ | .i3 | .d1 | .d2 => true
  | _ => false

def sumMap (f : Pc → Nat) (pcs : List Pc) : Nat := (pcs.map f).sum

def slotSum (s : State) : Nat := sumMap slots s.pcs

/-- number of places record `r` occupies: idle in the queue, held, or in transit -/
def occ (r : Rec) (s : State) : Nat :=
  s.queue.count r + s.out.count r + sumMap (fun pc => (transit pc).count r) s.pcs

/-- `QueuePool.checkedout()`: `maxsize - qsize + overflow` -/
def checkedout (c : Cfg) (s : State) : Int := (c.size : Int) - s.queue.length + s.overflow

def quiescent (s : State) : Prop := ∀ pc ∈ s.pcs, pc = Pc.idle

end SaVerif.Pool
