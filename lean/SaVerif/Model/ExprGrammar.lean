import SaVerif.Model.Pratt
/-!
# M-EXPR — backend grammars as binding-power tables

Hand-written from the backends' grammars:

* `sqlite`      from `parse.y` (`%left OR / %left AND / %right NOT / %left IS MATCH LIKE_KW
                BETWEEN IN ISNULL NOTNULL NE EQ / %left GT LE LT GE / %right ESCAPE /
                %left BITAND BITOR LSHIFT RSHIFT / %left PLUS MINUS / %left STAR SLASH REM /
                %left CONCAT PTR / %left COLLATE / %right BITNOT`; unary minus has the
                precedence of BITNOT).  **Validated** on every run against the real library
                (`harness/props/c01.py`, correspondence `corr/c01:sqlite-grammar`).
* `postgresql`  from the operator-precedence table of the documentation (chapter 4.1.6)
                and `gram.y`; *not validated* (no server in the sandbox).
* `mysql`       from `sql_yacc.yy` (`expr` / `bool_pri` / `predicate` / `bit_expr` layers) and
                the documentation table; *not validated*.

A left-associative level `L` is `(lbp, rbp) = (L, L+1)`.  The separators inside brackets
(`,`, `AS`, `WHEN`, `THEN`, `ELSE`) are given the lowest level so that each bracket body is
one left-nested chain.
-/
namespace SaVerif.Pratt

def sepBp : Option (Nat × Nat) := some (1, 2)

def sqliteInfix : Sym → Option (Nat × Nat)
  | .or_ => some (10, 11)
  | .and_ => some (20, 21)
  | .eq | .ne | .is_ | .isNot | .isDistinct | .isNotDistinct => some (40, 41)
  | .like | .notLike | .in_ | .notIn => some (40, 41)
  -- (SQLite has no ILIKE keyword and its dialect never emits one — it renders
  --  `lower(x) LIKE lower(y)`; the entries only keep the LIKE family uniform)
  | .ilike | .notIlike => some (40, 41)
  -- `x BETWEEN lo AND hi`: the LALR parser keeps shifting inside `lo` (there is nothing to
  -- reduce before the AND), so `lo` extends over everything that binds tighter than AND
  | .between | .notBetween => some (40, 21)
  | .lt | .le | .gt | .ge => some (50, 51)
  | .plus | .minus => some (80, 81)
  | .star | .slash | .percent => some (90, 91)
  | .concat => some (100, 101)
  | .collate => some (110, 111)
  | .comma | .as_ | .when_ | .then_ | .else_ => sepBp
  | _ => none

def sqlite : Grammar where
  infixBp := sqliteInfix
  prefixBp
    | .not_ => some 30
    | .neg => some 120
    | .values => some 1      -- `VALUES (..), (..)` inside the parentheses of a row-value IN
    | _ => none
  ternBp
    | .between | .notBetween => some (.and_, 41, true)
    -- `expr likeop expr ESCAPE expr [LIKE_KW]`: the rule has the precedence of LIKE, so the
    -- escape operand extends over everything binding tighter than LIKE
    | .like | .notLike | .ilike | .notIlike => some (.escape, 41, false)
    | _ => none

def postgresqlInfix : Sym → Option (Nat × Nat)
  | .or_ => some (10, 11)
  | .and_ => some (20, 21)
  | .is_ | .isNot | .isDistinct | .isNotDistinct => some (40, 41)
  | .eq | .ne | .lt | .le | .gt | .ge => some (50, 51)
  | .like | .notLike | .ilike | .notIlike | .in_ | .notIn => some (60, 61)
  -- `a_expr BETWEEN b_expr AND a_expr`: `b_expr` has the comparison and arithmetic operators
  | .between | .notBetween => some (60, 41)
  | .concat => some (70, 71)
  | .plus | .minus => some (80, 81)
  | .star | .slash | .percent => some (90, 91)
  | .collate => some (110, 111)
  | .comma | .as_ | .when_ | .then_ | .else_ => sepBp
  | _ => none

def postgresql : Grammar where
  infixBp := postgresqlInfix
  prefixBp
    | .not_ => some 30
    | .neg => some 120
    | _ => none
  ternBp
    | .between | .notBetween => some (.and_, 61, true)
    | .like | .notLike | .ilike | .notIlike => some (.escape, 61, false)
    | _ => none

def mysqlInfix : Sym → Option (Nat × Nat)
  | .or_ => some (10, 11)
  | .and_ => some (20, 21)
  | .eq | .ne | .lt | .le | .gt | .ge | .nseq | .is_ | .isNot => some (50, 51)
  | .like | .notLike | .in_ | .notIn => some (55, 56)
  | .ilike | .notIlike => some (55, 56)   -- never emitted by the MySQL dialect (see sqlite)
  -- `bit_expr BETWEEN bit_expr AND predicate`
  | .between | .notBetween => some (55, 60)
  | .plus | .minus => some (90, 91)
  | .star | .slash | .percent => some (100, 101)
  -- `||` as string concatenation (sql_mode PIPES_AS_CONCAT; otherwise `||` is OR): between `^`
  -- and the unary operators.  The MySQL dialect never emits it (it renders `concat(…)`).
  | .concat => some (110, 111)
  | .collate => some (140, 141)
  | .comma | .as_ | .when_ | .then_ | .else_ => sepBp
  | _ => none

def mysql : Grammar where
  infixBp := mysqlInfix
  prefixBp
    | .not_ => some 30
    | .neg => some 120
    | _ => none
  ternBp
    | .between | .notBetween => some (.and_, 55, true)
    | .like | .notLike | .ilike | .notIlike => some (.escape, 125, false)
    | _ => none

end SaVerif.Pratt
