/-
M-TYPES (SQLite storage formats): transcription of
  lib/sqlalchemy/dialects/sqlite/base.py   DATETIME / DATE / TIME bind_processor
                                           (`_storage_format % {...}`) and result_processor
  lib/sqlalchemy/engine/_processors_cy.py  str_to_datetime / str_to_date / str_to_time
                                           (`fromisoformat`), int_to_boolean
  lib/sqlalchemy/engine/processors.py      str_to_datetime_processor_factory (regexp variant)
  lib/sqlalchemy/sql/sqltypes.py           Enum._db_value_for_elem / _object_value_for_elem
                                           lookup tables, Boolean, Interval (epoch-relative)

Import-free, total, executable.

Python                                     model
-----------------------------------------  ------------------------------------------------
"%(year)04d-%(month)02d…" % {...}          a template `List Tok` (regenerated from the source by
                                           the translator, Gen/SqliteFormats.lean) + `render`
"%0wd" % n                                 `padNat w n` (exactly w digits when n < 10^w)
datetime.fromisoformat / date / time       `isoDateTime` / `isoDate` / `isoTime`: the fixed-width
(stdlib; modelled, differential-tested)    ISO layouts SQLAlchemy's own formats produce
regexp `(\d+)sep(\d+)…` + map(int, groups)  `regexParse`: maximal digit runs between literals
dict(zip(reversed(objects), reversed(…)))  association lists, first match wins
-/
namespace SaVerif.Types

inductive Field | year | month | day | hour | minute | second | micro
deriving DecidableEq, Repr

/-- one piece of a storage format: `%(field)0Wd` or a literal character -/
inductive Tok
  | field (f : Field) (w : Nat)
  | lit (c : Char)
deriving DecidableEq, Repr

structure DT where
  year : Nat
  month : Nat
  day : Nat
  hour : Nat
  minute : Nat
  second : Nat
  micro : Nat
deriving DecidableEq, Repr

def DT.get (d : DT) : Field → Nat
  | .year => d.year | .month => d.month | .day => d.day | .hour => d.hour
  | .minute => d.minute | .second => d.second | .micro => d.micro

def DT.set (d : DT) (f : Field) (v : Nat) : DT :=
  match f with
  | .year => { d with year := v } | .month => { d with month := v } | .day => { d with day := v }
  | .hour => { d with hour := v } | .minute => { d with minute := v }
  | .second => { d with second := v } | .micro => { d with micro := v }

def digitChar (d : Nat) : Char := Char.ofNat (48 + d)

def isDigit (c : Char) : Bool := 48 ≤ c.toNat && c.toNat ≤ 57

def charVal (c : Char) : Nat := c.toNat - 48

/-- the last `w` decimal digits of `n`, most significant first -/
def fixedDigits : Nat → Nat → List Nat
  | 0, _ => []
  | w + 1, n => fixedDigits w (n / 10) ++ [n % 10]

/-- all decimal digits of `n` (at least one) -/
def allDigits (n : Nat) : List Nat := fixedDigits (n.log2 + 1) n |>.dropWhile (· == 0) |> fun l => if l.isEmpty then [0] else l

/-- `"%0wd" % n` -/
def padNat (w n : Nat) : List Char :=
  (if n < 10 ^ w then fixedDigits w n else allDigits n).map digitChar

def digitsVal (ds : List Nat) : Nat := ds.foldl (fun a d => a * 10 + d) 0

/-- `storage_format % {...}` -/
def render (tmpl : List Tok) (d : DT) : List Char :=
  tmpl.flatMap (fun t => match t with
    | .field f w => padNat w (d.get f)
    | .lit c => [c])

/-! ### `fromisoformat` for the layouts the default formats produce -/

/-- exactly `w` digits -/
def takeFixed : Nat → List Char → Option (List Nat × List Char)
  | 0, s => some ([], s)
  | w + 1, c :: s =>
    if isDigit c then
      match takeFixed w s with
      | some (ds, rest) => some (charVal c :: ds, rest)
      | none => none
    else none
  | _ + 1, [] => none

def expect (c : Char) : List Char → Option (List Char)
  | x :: s => if x == c then some s else none
  | [] => none

/-- `HH:MM:SS[.ffffff]` (also `.fff`), rest must be empty -/
def isoTimePart (s : List Char) : Option (Nat × Nat × Nat × Nat) := do
  let (h, s) ← takeFixed 2 s
  let s ← expect ':' s
  let (mi, s) ← takeFixed 2 s
  let s ← expect ':' s
  let (se, s) ← takeFixed 2 s
  match s with
  | [] => some (digitsVal h, digitsVal mi, digitsVal se, 0)
  | '.' :: s =>
    match takeFixed 6 s with
    | some (us, []) => some (digitsVal h, digitsVal mi, digitsVal se, digitsVal us)
    | _ =>
      match takeFixed 3 s with
      | some (ms, []) => some (digitsVal h, digitsVal mi, digitsVal se, digitsVal ms * 1000)
      | _ => none
  | _ => none

def isoDatePart (s : List Char) : Option (Nat × Nat × Nat × List Char) := do
  let (y, s) ← takeFixed 4 s
  let s ← expect '-' s
  let (m, s) ← takeFixed 2 s
  let s ← expect '-' s
  let (d, s) ← takeFixed 2 s
  some (digitsVal y, digitsVal m, digitsVal d, s)

def validDate (y m d : Nat) : Bool := 1 ≤ y && y ≤ 9999 && 1 ≤ m && m ≤ 12 && 1 ≤ d && d ≤ 31
def validTime (h mi s us : Nat) : Bool := h < 24 && mi < 60 && s < 60 && us < 1000000

/-- `date.fromisoformat` on `YYYY-MM-DD` -/
def isoDate (s : List Char) : Option DT :=
  match isoDatePart s with
  | some (y, m, d, []) => if validDate y m d then some ⟨y, m, d, 0, 0, 0, 0⟩ else none
  | _ => none

/-- `time.fromisoformat` on `HH:MM:SS[.ffffff]` -/
def isoTime (s : List Char) : Option DT :=
  match isoTimePart s with
  | some (h, mi, se, us) => if validTime h mi se us then some ⟨0, 0, 0, h, mi, se, us⟩ else none
  | none => none

/-- `datetime.fromisoformat` on `YYYY-MM-DD`, `YYYY-MM-DD[ T]HH:MM:SS[.ffffff]` -/
def isoDateTime (s : List Char) : Option DT :=
  match isoDatePart s with
  | some (y, m, d, []) => if validDate y m d then some ⟨y, m, d, 0, 0, 0, 0⟩ else none
  | some (y, m, d, sep :: rest) =>
    if sep == ' ' || sep == 'T' then
      match isoTimePart rest with
      | some (h, mi, se, us) =>
        if validDate y m d && validTime h mi se us then some ⟨y, m, d, h, mi, se, us⟩ else none
      | none => none
    else none
  | none => none

/-! ### the regexp variant: `(\d+)` groups separated by the literals of the format -/

/-- a maximal run of digits (`\d+`, greedy) -/
def takeDigits : List Char → List Nat × List Char
  | c :: s => if isDigit c then
      match takeDigits s with
      | (ds, rest) => (charVal c :: ds, rest)
    else ([], c :: s)
  | [] => ([], [])

/-- match the string against the template read as a regexp with one `(\d+)` per field -/
def regexParse : List Tok → List Char → DT → Option DT
  | [], [], acc => some acc
  | [], _ :: _, _ => none
  | .lit c :: ts, s, acc =>
    match expect c s with
    | some rest => regexParse ts rest acc
    | none => none
  | .field f _ :: ts, s, acc =>
    match takeDigits s with
    | ([], _) => none
    | (ds, rest) => regexParse ts rest (acc.set f (digitsVal ds))

/-! ### Boolean, Enum -/

/-- `int_to_boolean` ∘ bind (`True`→1, `False`→0, `None`→NULL) -/
def boolBind : Option Bool → Option Nat
  | none => none
  | some true => some 1
  | some false => some 0

def intToBoolean : Option Nat → Option Bool
  | none => none
  | some n => some (n != 0)

/-- `Enum._enum_init`: `members` in definition order as (name, object id); aliases share
    the object.  `_valid_lookup = dict(zip(reversed(objects), reversed(values)))`,
    `_object_lookup = dict(zip(values, objects))` -/
def validLookup (members : List (Nat × Nat)) (obj : Nat) : Option Nat :=
  -- later entries of the reversed zip overwrite earlier ones: the *first* member wins
  (members.find? (fun m => m.2 == obj)).map (·.1)

def objectLookup (members : List (Nat × Nat)) (name : Nat) : Option Nat :=
  -- dict(zip(values, objects)): names are dict keys, the *last* duplicate would win
  (members.reverse.find? (fun m => m.1 == name)).map (·.2)

/-! ### how often a TypeDecorator's result processing runs for one result column -/

/-- a column expression as the compiler sees it in the columns clause -/
inductive Nest
  | col (typed : Bool)          -- a table column of the decorated type / of another type
  | label (e : Nest)
  | labelT (typed : Bool) (e : Nest)   -- label(name, e, type_=T): the label's own type wins
  | subq (e : Nest)             -- column of a subquery / alias / CTE exporting `e`
  | union (e₁ e₂ : Nest)        -- column of a UNION: typed by its first SELECT
  | scalarSubq (e : Nest)
  | returning (e : Nest)
deriving Repr

/-- `.type` of the outermost element: the one type handed to `_add_to_result_map` -/
def Nest.typed : Nest → Bool
  | .col t => t
  | .label e => e.typed
  | .labelT t _ => t
  | .subq e => e.typed
  | .union e _ => e.typed
  | .scalarSubq e => e.typed
  | .returning e => e.typed

/-- number of result processors applied to a fetched value: one per result-map entry whose
    type has a processor (`context.get_result_processor(type_, …)`) -/
def Nest.procCount (e : Nest) : Nat := if e.typed then 1 else 0

/-! ### bind processors of an expanded IN parameter; the primary key an INSERT reports

  lib/sqlalchemy/sql/compiler.py  SQLCompiler._process_parameters_for_postcompile
                                  SQLCompiler._inserted_primary_key_from_lastrowid_getter -/

/-- `_bind_processors` is keyed by the *unescaped* bind name; an expanding bind `name` whose DBAPI
    name is `esc` becomes `esc_1 … esc_n`, each element getting `single_processors[name]`.
    Result: processors keyed by (escaped name, element number). -/
def expandBind (procs : List (Nat × Nat)) (name esc n : Nat) : List ((Nat × Nat) × Nat) :=
  match procs.lookup name with
  | some p => (List.range n).map (fun j => ((esc, j + 1), p))
  | none => []

/-- an expanding *tuple* bind: element `j` of tuple `i` becomes `esc_i_j` and gets
    `tuple_processors[name][j-1]` (`none` = that column type has no bind processor); keys are
    built from the escaped name, exactly like the element names put into the SQL -/
def expandTupleBind (tprocs : List (Nat × List (Option Nat))) (name esc n : Nat) : List ((Nat × Nat × Nat) × Nat) :=
  match tprocs.lookup name with
  | some ps =>
    (List.range n).flatMap (fun i =>
      (List.range ps.length).filterMap (fun j =>
        match ps.getD j none with
        | some p => some ((esc, i + 1, j + 1), p)
        | none => none))
  | none => []

/-- `get(lastrowid, parameters)`: `cursor.lastrowid` goes through the pk type's result
    processor; a non-None pk passed in the parameters wins and is returned untouched -/
def insertedPk (proc : Int → Int) (explicitParam : Option Int) (lastrowid : Int) : Int :=
  match explicitParam with
  | some v => v
  | none => proc lastrowid

end SaVerif.Types
