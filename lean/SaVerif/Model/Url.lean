import SaVerif.Gen.UrlCfg
/-
M-URL: transcription of lib/sqlalchemy/engine/url.py
  URL.render_as_string(hide_password=False) / _parse_url / URL.create / URL.__eq__
and of the urllib.parse functions it calls (CPython 3.12):
  quote / quote_from_bytes / quote_plus / unquote / _unquote_impl /
  _generate_unquoted_parts / parse_qsl
Core Lean only, total, executable.  Strings are lists of `Char` (Unicode scalar values;
a Python `str` with a lone surrogate makes `quote` raise UnicodeEncodeError and is
outside the model).

Python                                       model
-------------------------------------------  -------------------------------------------
str.encode('utf-8')                          String.utf8EncodeChar (core)
bytes.decode('utf-8', 'replace')             decodeUtf8 (core ByteArray.utf8DecodeChar? +
                                             CPython's "maximal subpart" replacement rule)
_ALWAYS_SAFE                                 alwaysSafe
quote(s, safe)                               quote safe s
quote_plus(s)                                quotePlus s
_unquote_impl                                pctDecode (left-to-right scan = split on '%')
unquote                                      unquote  (ASCII runs decoded, others kept)
parse_qsl(qs, keep_blank_values=K)           parseQsl K qs   (K regenerated: Gen.UrlCfg.keepBlank)
the regex of _parse_url                      scanner `scan` (hand compiled; the translator pins
                                             the regex source, see harness/props/c20.py):
  (?P<name>[\w\+]+)://                       takeWhile wordPlus, then "://"
  (?:(?P<username>[^:/]*)(?::(?P<password>[^@]*))?@)?      scanUserinfo (greedy + backtracking
                                             worked out: longest username first)
  (?:(?:\[(?P<ipv6host>[^/\?]+)\]|(?P<ipv4host>[^/:\?]+))?(?::(?P<port>[^/\?]*))?)?
  (?:/(?P<database>[^\?]*))?(?:\?(?P<query>.*))?          (match() is not anchored at the end)
`\w` is modelled for ASCII only (drivernames are ASCII in every dialect registry).
int(port)                                    parsePort (ASCII whitespace, sign, digits, `_`)
dict with insertion order                    association list
-/
namespace SaVerif.Url

abbrev Str := List Char

/-! ## quote -/

def alwaysSafe (c : Char) : Bool :=
  c.isAlphanum || c == '_' || c == '.' || c == '-' || c == '~'

def hexDigit (n : Nat) : Char :=
  if n < 10 then Char.ofNat (48 + n) else Char.ofNat (55 + n)

def pctByte (b : UInt8) : Str := ['%', hexDigit (b.toNat / 16), hexDigit (b.toNat % 16)]

/-- byte is emitted raw: in `_ALWAYS_SAFE` or in the (ASCII part of the) `safe` argument -/
def isSafe (safe : Str) (c : Char) : Bool :=
  c.toNat < 128 && (alwaysSafe c || safe.contains c)

def quoteChar (safe : Str) (c : Char) : Str :=
  if isSafe safe c then [c] else (String.utf8EncodeChar c).flatMap pctByte

def quote (safe : Str) (s : Str) : Str := s.flatMap (quoteChar safe)

def spaceToPlus (c : Char) : Char := if c == ' ' then '+' else c
def plusToSpace (c : Char) : Char := if c == '+' then ' ' else c

/-- `quote_plus(s)` with `safe=''` -/
def quotePlus (s : Str) : Str :=
  if s.contains ' ' then (quote [' '] s).map spaceToPlus else quote [] s

/-! ## unquote -/

def hexVal? (c : Char) : Option Nat :=
  if '0' ≤ c ∧ c ≤ '9' then some (c.toNat - 48)
  else if 'A' ≤ c ∧ c ≤ 'F' then some (c.toNat - 55)
  else if 'a' ≤ c ∧ c ≤ 'f' then some (c.toNat - 87)
  else none

/-- `_unquote_impl` on a str: UTF-8 encode, then `%XX` → byte, a `%` not followed by two
    hex digits stays literal -/
def pctDecode : Str → List UInt8
  | [] => []
  | [c] => String.utf8EncodeChar c
  | [c, d] => String.utf8EncodeChar c ++ String.utf8EncodeChar d
  | c :: a :: b :: rest =>
    if c == '%' then
      match hexVal? a, hexVal? b with
      | some x, some y => UInt8.ofNat (16 * x + y) :: pctDecode rest
      | _, _ => 37 :: pctDecode (a :: b :: rest)
    else String.utf8EncodeChar c ++ pctDecode (a :: b :: rest)

def contByte (b : UInt8) : Bool := 0x80 ≤ b && b ≤ 0xBF

/-- how many bytes CPython's 'replace' handler swallows for the ill-formed sequence at the
    head of `l` (the maximal valid prefix of a code unit sequence, at least 1) -/
def badLen : List UInt8 → Nat
  | [] => 0
  | b0 :: rest =>
    let need : Nat :=
      if 0xC2 ≤ b0 && b0 ≤ 0xDF then 1
      else if 0xE0 ≤ b0 && b0 ≤ 0xEF then 2
      else if 0xF0 ≤ b0 && b0 ≤ 0xF4 then 3 else 0
    let firstOK (b1 : UInt8) : Bool :=
      if b0 == 0xE0 then 0xA0 ≤ b1 && b1 ≤ 0xBF
      else if b0 == 0xED then 0x80 ≤ b1 && b1 ≤ 0x9F
      else if b0 == 0xF0 then 0x90 ≤ b1 && b1 ≤ 0xBF
      else if b0 == 0xF4 then 0x80 ≤ b1 && b1 ≤ 0x8F
      else contByte b1
    match need, rest with
    | 0, _ => 1
    | _, [] => 1
    | n + 1, b1 :: r1 =>
      if !firstOK b1 then 1
      else 2 + ((r1.take n).takeWhile contByte).length

/-- `bytes.decode('utf-8', 'replace')` -/
def decodeUtf8Aux : Nat → List UInt8 → Str
  | 0, _ => []
  | _, [] => []
  | fuel + 1, l@(_ :: _) =>
    match l.toByteArray.utf8DecodeChar? 0 with
    | some c => c :: decodeUtf8Aux fuel (l.drop c.utf8Size)
    | none => Char.ofNat 0xFFFD :: decodeUtf8Aux fuel (l.drop (badLen l))

def decodeUtf8 (l : List UInt8) : Str := decodeUtf8Aux l.length l

def isAscii (c : Char) : Bool := c.toNat < 128

/-- `_generate_unquoted_parts`: maximal ASCII runs are percent-decoded and UTF-8 decoded,
    non-ASCII runs are copied -/
def unquoteRuns : Nat → Str → Str
  | 0, _ => []
  | _, [] => []
  | fuel + 1, s@(c :: _) =>
    if isAscii c then
      decodeUtf8 (pctDecode (s.takeWhile isAscii)) ++ unquoteRuns fuel (s.dropWhile isAscii)
    else
      s.takeWhile (fun x => !isAscii x) ++ unquoteRuns fuel (s.dropWhile (fun x => !isAscii x))

def unquote (s : Str) : Str :=
  if s.contains '%' then unquoteRuns s.length s else s

/-! ## parse_qsl -/

/-- `str.split(sep)` for a one-character separator -/
def splitOnChar (sep : Char) : Str → List Str
  | [] => [[]]
  | c :: rest =>
    if c == sep then [] :: splitOnChar sep rest
    else
      match splitOnChar sep rest with
      | [] => [[c]]
      | x :: xs => (c :: x) :: xs

/-- `name_value.split('=', 1)` -/
def splitFirst (sep : Char) (s : Str) : Str × Option Str :=
  let a := s.takeWhile (· != sep)
  match s.dropWhile (· != sep) with
  | [] => (a, none)
  | _ :: b => (a, some b)

def qsDecode (s : Str) : Str := unquote (s.map plusToSpace)

def parseQsl (keepBlank : Bool) (qs : Str) : List (Str × Str) :=
  if qs.isEmpty then []
  else
    (splitOnChar '&' qs).filterMap (fun nv =>
      if nv.isEmpty then none
      else
        match splitFirst '=' nv with
        | (n, none) => if keepBlank then some (qsDecode n, qsDecode []) else none
        | (n, some v) => if !v.isEmpty || keepBlank then some (qsDecode n, qsDecode v) else none)

/-! ## URL -/

inductive QVal where
  | single (v : Str)
  | multi (vs : List Str)
deriving DecidableEq, Repr

/-- `util.to_list(self.query[k])` -/
def QVal.toList : QVal → List Str
  | .single v => [v]
  | .multi vs => vs

structure URL where
  drivername : Str
  username : Option Str
  password : Option Str
  host : Option Str
  port : Option Int
  database : Option Str
  query : List (Str × QVal)
deriving DecidableEq, Repr

/-- Python `str` ordering: lexicographic by code point -/
def strLe : Str → Str → Bool
  | [], _ => true
  | _ :: _, [] => false
  | a :: as, b :: bs => a.toNat < b.toNat || (a == b && strLe as bs)

/-- `keys.sort()` (keys are distinct, so stability is irrelevant) -/
def sortEntries (q : List (Str × QVal)) : List (Str × QVal) :=
  q.foldl (fun acc e => acc.takeWhile (fun x => strLe x.1 e.1) ++ [e] ++ acc.dropWhile (fun x => strLe x.1 e.1)) []

def intercalate (sep : Str) : List Str → Str
  | [] => []
  | [x] => x
  | x :: xs => x ++ sep ++ intercalate sep xs

def renderPairs (q : List (Str × QVal)) : List Str :=
  (sortEntries q).flatMap (fun e => e.2.toList.map (fun v => quotePlus e.1 ++ ['='] ++ quotePlus v))

/-- `URL.render_as_string(hide_password=False)` -/
def render (u : URL) : Str :=
  u.drivername ++ "://".toList
  ++ (match u.username with
      | none => []
      | some user =>
        quote Gen.UrlCfg.safeUser user
        ++ (match u.password with
            | none => []
            | some pw => ':' :: quote Gen.UrlCfg.safePassword pw)
        ++ ['@'])
  ++ (match u.host with
      | none => []
      | some h => if h.contains ':' then '[' :: h ++ [']'] else h)
  ++ (match u.port with
      | none => []
      | some p => ':' :: (toString p).toList)
  ++ (match u.database with
      | none => []
      | some d => '/' :: quote Gen.UrlCfg.safeDatabase d)
  ++ (if u.query.isEmpty then [] else '?' :: intercalate ['&'] (renderPairs u.query))

/-! ### the regex as a scanner -/

def wordPlus (c : Char) : Bool := c.isAlphanum || c == '_' || c == '+'

/-- prefix up to (not including) the last `@` -/
def beforeLastAt (r : Str) : Str :=
  ((r.reverse.dropWhile (· != '@')).drop 1).reverse

/-- `(?:(?P<username>[^:/]*)(?::(?P<password>[^@]*))?@)?` with Python's backtracking order:
    the longest username (a run of `[^:/]`) that can be completed by `:[^@]*@` or by `@`. -/
def scanUserinfo (s : Str) : Option Str × Option Str × Str :=
  let r := s.takeWhile (fun c => c != ':' && c != '/')
  let viaLastAt : Option Str × Option Str × Str :=
    if r.contains '@' then
      let u := beforeLastAt r
      (some u, none, s.drop (u.length + 1))
    else (none, none, s)
  match s.dropWhile (fun c => c != ':' && c != '/') with
  | ':' :: rest1 =>
    if rest1.contains '@' then
      (some r, some (rest1.takeWhile (· != '@')), (rest1.dropWhile (· != '@')).drop 1)
    else viaLastAt
  | _ => viaLastAt

/-- `(?:\[(?P<ipv6host>[^/\?]+)\]|(?P<ipv4host>[^/:\?]+))?` → (ipv4host, ipv6host, rest) -/
def scanHost (s : Str) : Option Str × Option Str × Str :=
  let v4 : Option Str × Option Str × Str :=
    let h := s.takeWhile (fun c => c != '/' && c != ':' && c != '?')
    if h.isEmpty then (none, none, s) else (some h, none, s.drop h.length)
  match s with
  | '[' :: t =>
    let run := t.takeWhile (fun c => c != '/' && c != '?')
    -- longest non-empty prefix of `run` followed by `]`
    if run.contains ']' then
      let h := ((run.reverse.dropWhile (· != ']')).drop 1).reverse
      if h.isEmpty then v4 else (none, some h, t.drop (h.length + 1))
    else v4
  | _ => v4

structure Scan where
  name : Str
  username : Option Str
  password : Option Str
  ipv4host : Option Str
  ipv6host : Option Str
  port : Option Str
  database : Option Str
  query : Option Str
deriving DecidableEq, Repr

/-- `(?::(?P<port>[^/\?]*))?` -/
def scanPort (r3 : Str) : Option Str × Str :=
  match r3 with
  | ':' :: t => (some (t.takeWhile (fun c => c != '/' && c != '?')),
                 t.dropWhile (fun c => c != '/' && c != '?'))
  | _ => (none, r3)

/-- `(?:/(?P<database>[^\?]*))?` -/
def scanDb (r4 : Str) : Option Str × Str :=
  match r4 with
  | '/' :: t => (some (t.takeWhile (· != '?')), t.dropWhile (· != '?'))
  | _ => (none, r4)

/-- `(?:\?(?P<query>.*))?` -/
def scanQuery (r5 : Str) : Option Str :=
  match r5 with
  | '?' :: t => some t
  | _ => none

/-- `pattern.match(name).groupdict()`; `none` = no match (ArgumentError) -/
def scan (s : Str) : Option Scan :=
  let name := s.takeWhile wordPlus
  match name.isEmpty, s.dropWhile wordPlus with
  | false, ':' :: '/' :: '/' :: r1 =>
    let ui := scanUserinfo r1
    let h := scanHost ui.2.2
    let po := scanPort h.2.2
    let db := scanDb po.2
    some ⟨name, ui.1, ui.2.1, h.1, h.2.1, po.1, db.1, scanQuery db.2⟩
  | _, _ => none

/-! ### _parse_url after the match -/

inductive Err where
  | argument   -- exc.ArgumentError: could not parse
  | value      -- ValueError from int(port)
deriving DecidableEq, Repr

/-- the `for key, value in parse_qsl(...)` loop building the query dict -/
def addPair (q : List (Str × QVal)) (kv : Str × Str) : List (Str × QVal) :=
  if q.any (fun e => e.1 == kv.1) then
    q.map (fun e => if e.1 == kv.1 then (e.1, QVal.multi (e.2.toList ++ [kv.2])) else e)
  else q ++ [(kv.1, QVal.single kv.2)]

def isWs (c : Char) : Bool :=
  c == ' ' || c == '\t' || c == '\n' || c == '\r' || c.toNat == 11 || c.toNat == 12

/-- `int(s)` for ASCII input: surrounding whitespace stripped, optional sign, decimal digits
    with single underscores between them (Lean's `String.toInt?`/`toNat?` accept exactly
    that digit grammar; a leading `+` is handled here) -/
def parsePort (s : Str) : Option Int :=
  let t := ((s.dropWhile isWs).reverse.dropWhile isWs).reverse
  match t with
  | '+' :: r => ((String.ofList r).toNat?).map Int.ofNat
  | _ => (String.ofList t).toInt?

/-- `ipv4host or ipv6host` (a matched group is never empty) -/
def joinHost (v4 v6 : Option Str) : Option Str :=
  match v4 with
  | some h => some h
  | none => v6

/-- `if components["port"]: int(...)`; an empty port string reaches URL.create → int('') -/
def portOf (p : Option Str) : Except Err (Option Int) :=
  match p with
  | none => .ok none
  | some p =>
    match parsePort p with
    | some n => .ok (some n)
    | none => .error .value

def queryOf (q : Option Str) : List (Str × QVal) :=
  match q with
  | none => []
  | some qs => (parseQsl Gen.UrlCfg.keepBlank qs).foldl addPair []

def parseUrl (s : Str) : Except Err URL :=
  match scan s with
  | none => .error .argument
  | some m =>
    match portOf m.port with
    | .error e => .error e
    | .ok port =>
      .ok ⟨m.name, m.username.map unquote, m.password.map unquote, joinHost m.ipv4host m.ipv6host,
           port, m.database.map unquote, queryOf m.query⟩

end SaVerif.Url
