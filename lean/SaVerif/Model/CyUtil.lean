/-
M-CYUTIL: small helpers that exist both compiled and in pure Python:
engine/_util_cy.py `tuplegetter` / `_is_contiguous`, sql/_util_cy.py `anon_map`,
`prefix_anon_map`.  Import-free, total, executable.

Python                                             model
-------------------------------------------------  ------------------------------
_is_contiguous(indexes)                            isContiguous
tuplegetter(*indexes)(row)                         tupleGetter  (none = IndexError)
  len == 1 or contiguous → itemgetter(slice(i0, imax + 1)), else itemgetter(*indexes)
anon_map.get_anon(obj) / anon_map[key]             AnonMap.get  (index, already-present)
  `_index` counter = number of keys stored
prefix_anon_map[key], key = "<ident> <name>"       PrefixMap.get
  derived = name; counter = self.get(derived, 1); self[derived] = counter + 1;
  value = f"{derived}_{counter}"; self[key] = value
-/
namespace SaVerif.CyUtil

def isContiguous : List Nat → Bool
  | [] => true
  | [_] => true
  | a :: b :: rest => (a + 1 == b) && isContiguous (b :: rest)

def tupleGetter (idx : List Nat) (row : List Nat) : Option (List Nat) :=
  match idx with
  | [] => none
  | i0 :: _ =>
    if idx.length == 1 || isContiguous idx then
      some ((row.drop i0).take (idx.getLastD 0 + 1 - i0))
    else idx.mapM (fun i => row[i]?)

/-- `anon_map`: the stored keys in insertion order; the value of a key is its position -/
abbrev AnonMap := List Nat

def AnonMap.get (m : AnonMap) (k : Nat) : AnonMap × Nat × Bool :=
  if m.contains k then (m, m.idxOf k, true) else (m ++ [k], m.length, false)

def AnonMap.run (m : AnonMap) : List Nat → List (Nat × Bool)
  | [] => []
  | k :: ks => let (m', i, seen) := m.get k; (i, seen) :: AnonMap.run m' ks

def AnonMap.final (m : AnonMap) (ks : List Nat) : AnonMap := ks.foldl (fun m k => (m.get k).1) m

/-- `prefix_anon_map`: generated values per full key, next counter per derived name -/
structure PrefixMap where
  values : List ((Nat × Nat) × (Nat × Nat))   -- (ident, name) ↦ (name, counter)
  counters : List (Nat × Nat)                 -- name ↦ next counter
deriving Repr, DecidableEq

def PrefixMap.empty : PrefixMap := ⟨[], []⟩

def PrefixMap.counter (m : PrefixMap) (name : Nat) : Nat :=
  ((m.counters.find? (fun e => e.1 == name)).map (·.2)).getD 1

def PrefixMap.get (m : PrefixMap) (key : Nat × Nat) : PrefixMap × (Nat × Nat) :=
  match m.values.find? (fun e => e.1 == key) with
  | some e => (m, e.2)
  | none =>
    let c := m.counter key.2
    let v := (key.2, c)
    (⟨m.values ++ [(key, v)], (m.counters.filter (fun e => e.1 != key.2)) ++ [(key.2, c + 1)]⟩, v)

def PrefixMap.run (m : PrefixMap) : List (Nat × Nat) → List (Nat × Nat)
  | [] => []
  | k :: ks => let (m', v) := m.get k; v :: PrefixMap.run m' ks

end SaVerif.CyUtil
