/-!
# M-EXPR — operator names

`Op` enumerates the functions of `sqlalchemy.sql.operators` that the modelled part of the
expression language uses.  The constructor names are the Python function names, except
`asbool_` (Python `_asbool`).  Everything that is a *table over operators* in the source
(`_PRECEDENCE`, `_associative`, `_natural_self_precedent`, `_comparison`, `_booleans`,
`default_comparator.operator_lookup[..]["negate_op"]`, `compiler.OPERATORS`) is regenerated
into `SaVerif/Gen/ExprTables.lean` by `harness/props/c01.py`.
-/
namespace SaVerif.Expr

inductive Op
  | add | sub | mul | truediv | floordiv | mod | neg
  | concat_op
  | eq | ne | lt | le | gt | ge
  | is_ | is_not | is_distinct_from | is_not_distinct_from
  | like_op | not_like_op | ilike_op | not_ilike_op
  | between_op | not_between_op
  | in_op | not_in_op
  | and_ | or_ | inv | is_true | is_false
  | comma_op | asbool_
  deriving DecidableEq, Repr, Inhabited

namespace Op

def all : List Op :=
  [add, sub, mul, truediv, floordiv, mod, neg, concat_op, eq, ne, lt, le, gt, ge,
   is_, is_not, is_distinct_from, is_not_distinct_from, like_op, not_like_op, ilike_op,
   not_ilike_op, between_op, not_between_op, in_op, not_in_op, and_, or_, inv, is_true,
   is_false, comma_op, asbool_]

/-- Python name in `sqlalchemy.sql.operators` -/
def name : Op → String
  | add => "add" | sub => "sub" | mul => "mul" | truediv => "truediv"
  | floordiv => "floordiv" | mod => "mod" | neg => "neg" | concat_op => "concat_op"
  | eq => "eq" | ne => "ne" | lt => "lt" | le => "le" | gt => "gt" | ge => "ge"
  | is_ => "is_" | is_not => "is_not" | is_distinct_from => "is_distinct_from"
  | is_not_distinct_from => "is_not_distinct_from"
  | like_op => "like_op" | not_like_op => "not_like_op" | ilike_op => "ilike_op"
  | not_ilike_op => "not_ilike_op" | between_op => "between_op"
  | not_between_op => "not_between_op" | in_op => "in_op" | not_in_op => "not_in_op"
  | and_ => "and_" | or_ => "or_" | inv => "inv" | is_true => "is_true"
  | is_false => "is_false" | comma_op => "comma_op" | asbool_ => "_asbool"

theorem mem_all (o : Op) : o ∈ all := by cases o <;> decide

end Op

/-- type affinities distinguished by the modelled code (`type._type_affinity`, `_isnull`) -/
inductive Ty
  | int | num | str | bool | null
  deriving DecidableEq, Repr, Inhabited

def Ty.name : Ty → String
  | .int => "int" | .num => "num" | .str => "str" | .bool => "bool" | .null => "null"

/-- dialects whose compiler overrides are transcribed -/
inductive Dialect
  | sqlite | postgresql | mysql | mariadb | default
  deriving DecidableEq, Repr, Inhabited

def Dialect.name : Dialect → String
  | .sqlite => "sqlite" | .postgresql => "postgresql" | .mysql => "mysql"
  | .mariadb => "mariadb" | .default => "default"

def Dialect.all : List Dialect := [.sqlite, .postgresql, .mysql, .mariadb, .default]

end SaVerif.Expr
