import SaVerif.Model.Ident
import SaVerif.Model.Literal
/-!
# M-STR / generated names — transcription of name truncation and naming conventions

| Python                                                                          | model                |
|----------------------------------------------------------------------------------|----------------------|
| `s[0:k]` for an `int` `k` (negative `k` counts from the end)                     | `pySliceTo`          |
| `hex(n)[2:]`                                                                     | `hexStr`             |
| `IdentifierPreparer._truncate_and_render_maxlen_name` before quoting (`util.md5_hex` is a parameter) | `truncMaxlen` |
| `DefaultDialect.validate_identifier`                                             | `truncMaxlen` (`isTrunc = false` branch) |
| `truncate_and_render_index_name / _constraint_name`: `max_x_name_length or max_identifier_length` | `effMax` |
| `SQLCompiler._truncated_identifier` with `truncated_names` and `_truncated_counters` | `truncIdent`, `runIdents` |
| `naming.ConventionDict.__getitem__` key dispatch for the documented tokens        | `parseKey`, `lookupKey` |
| `SelectsRows._generate_columns_plus_names` (named columns; sql/selectable.py)     | `genStep`, `genNames` |
| `prefix_anon_map.__missing__` (sql/_util_cy.py), `_anonymous_label.apply_map`      | `amGet`, `renderLabs` |
| `BindParameter.__init__` / `_clone` / `_with_value` key handling, `TextClause.bindparams(name=value)` | `mkBind`, `cloneBind`, `deriveText` |
| `convention % ConventionDict(...)` (only `%(key)s` and `%%` directives)           | `expandConv`         |

Strings are `List Nat` (code points).
-/
namespace SaVerif.Naming
open SaVerif.Ident

/-- Python `s[0:k]` -/
def pySliceTo (s : Str) (k : Int) : Str :=
  if k ≥ 0 then s.take k.toNat else s.take (s.length - (-k).toNat)

/-- Python `s[-4:]` -/
def last4 (s : Str) : Str := s.drop (s.length - 4)

def hexDigit (d : Nat) : Nat := if d < 10 then 48 + d else 87 + d

def hexAux : Nat → Nat → Str → Str
  | 0, _, acc => acc
  | f + 1, n, acc =>
    if n < 16 then hexDigit n :: acc else hexAux f (n / 16) (hexDigit (n % 16) :: acc)

/-- `hex(n)[2:]` -/
def hexStr (n : Nat) : Str := hexAux (n + 1) n []

/-- `max_index_name_length or max_identifier_length` (`None`/`0` are falsy) -/
def effMax (specific : Option Nat) (maxIdent : Nat) : Nat :=
  match specific with
  | some m => if m == 0 then maxIdent else m
  | none => maxIdent

/-- `_truncate_and_render_maxlen_name` up to (not including) `self.quote(name)`;
    `none` = `IdentifierError` from `validate_identifier` -/
def truncMaxlen (md5 : Str → Str) (isTrunc : Bool) (name : Str) (max maxIdent : Nat) : Option Str :=
  if isTrunc then
    if name.length > max then
      some (pySliceTo name ((max : Int) - 8) ++ 95 :: last4 (md5 name))
    else some name
  else
    if name.length > maxIdent then none else some name

/-! ## `_truncated_identifier` -/

structure TState where
  /-- `truncated_names`: (ident_class, name) ↦ result; first match wins -/
  names : List ((Nat × Str) × Str)
  /-- `_truncated_counters`: ident_class ↦ next counter (default 1) -/
  counters : List (Nat × Nat)
deriving Repr

def TState.empty : TState := ⟨[], []⟩

def getCounter (st : TState) (cls : Nat) : Nat := (st.counters.lookup cls).getD 1

/-- one call `_truncated_identifier(ident_class, name)`; `name` stands for the label
    after `apply_map(anon_map)` (the anonymous-name map is outside this model) -/
def truncIdent (labelLength : Nat) (st : TState) (cls : Nat) (name : Str) : Str × TState :=
  match st.names.lookup (cls, name) with
  | some r => (r, st)
  | none =>
    if name.length > (labelLength : Int) - 6 then
      let counter := getCounter st cls
      let r := name.take (labelLength - 6) ++ 95 :: hexStr counter
      (r, { names := ((cls, name), r) :: st.names, counters := (cls, counter + 1) :: st.counters })
    else (name, { st with names := ((cls, name), name) :: st.names })

/-- a whole compilation: the results of successive calls -/
def runIdents (labelLength : Nat) : TState → List (Nat × Str) → List Str
  | _, [] => []
  | st, (cls, name) :: rest =>
    let (r, st') := truncIdent labelLength st cls name
    r :: runIdents labelLength st' rest

/-! ## the dialect's limits over an engine's life (engine/default.py `initialize`)

`max_identifier_length` may shrink at first connect (`_check_max_identifier_length`,
e.g. Oracle < 12.2); every formatting call reads the limits the dialect holds *now*. -/

structure DState where
  /-- `dialect.max_identifier_length` -/
  maxIdent : Nat
  /-- `_user_defined_max_identifier_length` is set -/
  userDefined : Bool
  /-- `dialect.label_length` -/
  labelLength : Option Nat
  maxIndex : Option Nat
  maxConstraint : Option Nat
deriving Repr

inductive LOp
  /-- `initialize(connection)`; the argument is what `_check_max_identifier_length` returns -/
  | connect (serverLimit : Option Nat)
  /-- `truncate_and_render_index_name(name)` / `…_constraint_name(name)`; `isTrunc` = conv name -/
  | fmtIndex (isTrunc : Bool) (name : Str)
  | fmtConstraint (isTrunc : Bool) (name : Str)
  /-- a new compiler renders one label: `_truncated_identifier("colident", name)` -/
  | label (name : Str)
deriving Repr

inductive LOut
  | connected | argumentError | identifierError | name (r : Str)
deriving Repr, DecidableEq

/-- `label_length or max_identifier_length` as read by `SQLCompiler.__init__` -/
def effLabel (st : DState) : Nat :=
  match st.labelLength with
  | some l => if l == 0 then st.maxIdent else l
  | none => st.maxIdent

/-- `max_identifier_length` after `_check_max_identifier_length` -/
def newMaxIdent (st : DState) (serverLimit : Option Nat) : Nat :=
  if st.userDefined then st.maxIdent else
  match serverLimit with
  | some l => if l == 0 then st.maxIdent else l
  | none => st.maxIdent

/-- the part of `initialize()` that concerns identifier limits -/
def connectStep (st : DState) (serverLimit : Option Nat) : DState × LOut :=
  let mi := newMaxIdent st serverLimit
  let st' := { st with maxIdent := mi }
  match st.labelLength with
  | some ll => if ll != 0 && ll > mi then (st', .argumentError) else (st', .connected)
  | none => (st', .connected)

def lifeStep (md5 : Str → Str) (st : DState) : LOp → DState × LOut
  | .connect lim => connectStep st lim
  | .fmtIndex t n =>
    (st, match truncMaxlen md5 t n (effMax st.maxIndex st.maxIdent) st.maxIdent with
         | some r => .name r | none => .identifierError)
  | .fmtConstraint t n =>
    (st, match truncMaxlen md5 t n (effMax st.maxConstraint st.maxIdent) st.maxIdent with
         | some r => .name r | none => .identifierError)
  | .label n => (st, .name (truncIdent (effLabel st) TState.empty 0 n).1)

/-- the run, remembering the state in which each output was produced -/
def lifeRun (md5 : Str → Str) : DState → List LOp → List (DState × LOp × LOut)
  | _, [] => []
  | st, op :: rest =>
    let (st', out) := lifeStep md5 st op
    (st', op, out) :: lifeRun md5 st' rest

/-! ## naming conventions -/

/-- what a constraint offers to the convention -/
structure ConstInfo where
  tableName : Str
  /-- `const.name` if explicitly given -/
  constName : Option Str
  isFk : Bool
  /-- per column (or per FK element: the parent column): (name, key) -/
  cols : List (Str × Str)
  /-- FK only: referred table name, referred column names -/
  refTable : Str
  refCols : List Str
deriving Repr

inductive Attr | name | key
deriving Repr, DecidableEq

inductive Tok
  | tableName | constraintName | referredTableName
  | col (i : Nat) (a : Attr)
  | colAll (sep : Bool) (a : Attr)
  | refCol (i : Nat)
  | refColAll (sep : Bool)
deriving Repr

def attrOf (s : Str) : Option Attr :=
  if s == ofS "name" then some .name else if s == ofS "key" then some .key else none

def allDigits (s : Str) : Bool := !s.isEmpty && s.all (fun c => 48 ≤ c && c ≤ 57)
def decVal (s : Str) : Nat := s.foldl (fun a c => a * 10 + (c - 48)) 0

/-- split `<digits><rest>` -/
def spanDigits (s : Str) : Str × Str := (s.takeWhile (fun c => 48 ≤ c && c ≤ 57), s.dropWhile (fun c => 48 ≤ c && c ≤ 57))

/-- the part after `column_`: `<i>_<attr>`, `0N_<attr>`, `0_N_<attr>` -/
def parseColumnTail (t : Str) : Option (Nat ⊕ Bool) × Str :=
  let (ds, r) := spanDigits t
  if ds.isEmpty then (none, []) else
  match r with
  | 78 :: 95 :: a => if ds == [48] then (some (.inr false), a) else (none, [])       -- 0N_
  | 95 :: 78 :: 95 :: a => if ds == [48] then (some (.inr true), a) else (none, [])  -- 0_N_
  | 95 :: a => (some (.inl (decVal ds)), a)
  | _ => (none, [])

/-- key string ↦ token, for the documented keys; `none` = `KeyError` -/
def parseKey (key : Str) : Option Tok :=
  if key == ofS "table_name" then some .tableName
  else if key == ofS "constraint_name" then some .constraintName
  else if key == ofS "referred_table_name" then some .referredTableName
  else if isPrefix (ofS "column_") key then
    match parseColumnTail (key.drop 7) with
    | (some (.inl i), a) => (attrOf a).map (Tok.col i)
    | (some (.inr sep), a) => (attrOf a).map (Tok.colAll sep)
    | _ => none
  else if isPrefix (ofS "referred_column_") key then
    match parseColumnTail (key.drop 16) with
    | (some (.inl i), a) => if a == ofS "name" then some (.refCol i) else none
    | (some (.inr sep), a) => if a == ofS "name" then some (.refColAll sep) else none
    | _ => none
  else none

def pick (a : Attr) (c : Str × Str) : Str := match a with | .name => c.1 | .key => c.2

def joinWith (sep : Bool) : List Str → Str
  | [] => []
  | [a] => a
  | a :: b :: rest => a ++ (if sep then [95] else []) ++ joinWith sep (b :: rest)

inductive ConvErr | keyError | needsName | indexError | badFormat
deriving Repr, DecidableEq

/-- `ConventionDict.__getitem__` for a parsed token -/
def lookupTok (ci : ConstInfo) : Tok → Except ConvErr Str
  | .tableName => .ok ci.tableName
  | .constraintName => match ci.constName with | some n => .ok n | none => .error .needsName
  | .referredTableName => if ci.isFk && !ci.refCols.isEmpty then .ok ci.refTable else .error .indexError
  | .col i a => .ok (match ci.cols[i]? with | some c => pick a c | none => [])
  | .colAll sep a => .ok (joinWith sep (ci.cols.map (pick a)))
  | .refCol i => match ci.refCols[i]? with | some c => .ok c | none => .error .indexError
  | .refColAll sep => .ok (joinWith sep ci.refCols)

/-- `convention % ConventionDict(...)` for templates using only `%(key)s` and `%%` -/
def expandConv (ci : ConstInfo) : Nat → Str → Except ConvErr Str
  | 0, _ => .error .badFormat
  | _, [] => .ok []
  | fuel + 1, c :: t =>
    if c == 37 then
      match t with
      | 37 :: t' => (expandConv ci fuel t').map (37 :: ·)
      | 40 :: t' =>
        let key := t'.takeWhile (· != 41)
        -- CPython looks the key up as soon as the parentheses are parsed, before it
        -- reads the conversion character
        match t'.dropWhile (· != 41) with
        | 41 :: after =>
          match parseKey key with
          | none => .error .keyError
          | some tok =>
            match lookupTok ci tok with
            | .error e => .error e
            | .ok v =>
              match after with
              | 115 :: rest => (expandConv ci fuel rest).map (v ++ ·)
              | _ => .error .badFormat
        | _ => .error .badFormat
      | _ => .error .badFormat
    else (expandConv ci fuel t).map (c :: ·)


/-! ## labels of a SELECT's columns clause (`_generate_columns_plus_names`) -/

/-- a named column; `id` stands for `hash(column)` (identity) -/
structure Col where
  id : Nat
  tbl : Str
  name : Str
deriving DecidableEq, Repr

/-- symbolic label: a plain name, the column's anonymous disambiguating label
    (`_anon_name_label` / `_anon_tq_label`), or a "dedupe" label
    (`_dedupe_anon_label_idx(idx)` / `_dedupe_anon_tq_label_idx(idx)`) -/
inductive Lab
  | plain (s : Str)
  | anon (c : Col) (tq : Bool)
  | dedupe (idx : Nat) (c : Col) (tq : Bool)
deriving DecidableEq, Repr

def tqLabel (c : Col) : Str := c.tbl ++ 95 :: c.name

structure GState where
  /-- the `names` dict: label ↦ column (first match wins = last assignment) -/
  names : List (Lab × Col)
  /-- `dedupe_hash` -/
  dh : Nat
deriving Repr

/-- one iteration of the loop for a named column: (new state, label under which the column is
    rendered: `required_label_name`, or the plain name when that is `None`) -/
def genStep (tq anonForDupe : Bool) (st : GState) (c : Col) : GState × Lab :=
  let eff := Lab.plain (if tq then tqLabel c else c.name)
  match st.names.lookup eff with
  | none => ({ st with names := (eff, c) :: st.names }, eff)
  | some c0 =>
    if c0.id != c.id then
      let req := Lab.anon c tq
      if anonForDupe && (st.names.lookup req).isSome then
        ({ st with dh := st.dh + 1 }, Lab.dedupe st.dh c tq)
      else ({ st with names := (req, c) :: st.names }, req)
    else if anonForDupe then ({ st with dh := st.dh + 1 }, Lab.dedupe st.dh c tq)
    else (st, eff)

def genRun (tq anonForDupe : Bool) : GState → List Col → List Lab
  | _, [] => []
  | st, c :: rest =>
    let (st', l) := genStep tq anonForDupe st c
    l :: genRun tq anonForDupe st' rest

/-- `_generate_columns_plus_names(anon_for_dupe_key)`; `dedupe_hash` starts at 1 -/
def genNames (tq anonForDupe : Bool) (cols : List Col) : List Lab :=
  genRun tq anonForDupe ⟨[], 1⟩ cols

/-! ## `prefix_anon_map`: anonymous keys `"<ident> <derived>"` ↦ `derived_<counter>` -/

structure AMap where
  vals : List ((Nat × Str) × Str)
  idx : List (Str × Nat)
deriving Repr

def AMap.empty : AMap := ⟨[], []⟩

def amGet (m : AMap) (k : Nat × Str) : Str × AMap :=
  match m.vals.lookup k with
  | some v => (v, m)
  | none =>
    let c := (m.idx.lookup k.2).getD 1
    let v := k.2 ++ 95 :: Literal.natStr c
    (v, { vals := (k, v) :: m.vals, idx := (k.2, c + 1) :: m.idx })

/-- anonymous key of a symbolic label: `_anon_label(seed, add_hash)` uses
    `(hash << 16) | add_hash` and appends `_` to the seed for dedupe labels -/
def labKey : Lab → Option (Nat × Str)
  | .plain _ => none
  | .anon c tq => some (c.id, if tq then tqLabel c else c.name)
  | .dedupe i c tq => some (c.id * 65536 + i, (if tq then tqLabel c else c.name) ++ [95])

def renderLabs : AMap → List Lab → List Str
  | _, [] => []
  | m, l :: rest =>
    match l, labKey l with
    | .plain s, _ => s :: renderLabs m rest
    | _, some k => let (v, m') := amGet m k; v :: renderLabs m' rest
    | _, none => [] :: renderLabs m rest

/-! ## keys of bound parameters -/

inductive BKey
  | plain (name : Str)
  /-- `_anonymous_label.safe_construct(id(self), name)` -/
  | anon (id : Nat) (name : Str)
deriving DecidableEq, Repr

structure Bind where
  id : Nat
  origKey : Str
  unique : Bool
  key : BKey
deriving Repr

/-- `BindParameter(key, unique=…)` -/
def mkBind (id : Nat) (key : Str) (unique : Bool) : Bind :=
  { id := id, origKey := key, unique := unique, key := if unique then .anon id key else .plain key }

/-- `_clone(maintain_key)`: a new object; a unique parameter gets a key of its own unless
    `maintain_key` -/
def cloneBind (b : Bind) (maintainKey : Bool) (freshId : Nat) : Bind :=
  { b with id := freshId, key := if !maintainKey && b.unique then .anon freshId b.origKey else b.key }

/-- statements derived from one `text()` template by `.bindparams(name=value)`:
    each copies the template's parameter with `_with_value(value, maintain_key=flag)` -/
def deriveText (tmpl : Bind) (maintainKey : Bool) (freshIds : List Nat) : List Bind :=
  freshIds.map (cloneBind tmpl maintainKey)

end SaVerif.Naming
