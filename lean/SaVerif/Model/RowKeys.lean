/-
M-ROWKEYS: transcription of the key → column-index machinery of
  lib/sqlalchemy/engine/cursor.py   CursorResultMetaData.__init__ (keymap construction,
                                    duplicate detection), _merge_cursor_description and its
                                    four strategies, _index_for_key / _key_not_found

Import-free, total, executable.  Every Python key (string, Column, Label, …) is a `Nat`
id: the harness numbers keys with an ordinary dict, i.e. with the same hash/eq the real
`_keymap` dict uses.

Python                                         model
---------------------------------------------  -----------------------------------------
ResultColumnsEntry(keyname, name, objects, _)  `RC`
_CursorKeyMapRecType (MD_INDEX, MD_OBJECTS,    `Rec`   (processors / untranslated names are
  MD_LOOKUP_KEY, MD_RENDERED_NAME)                      not modelled; `driver_column_names` off)
dict comprehension / dict.update               "the last record wins": `lastIdx`
index_by_key.setdefault(key, idx) != idx       `isDupe`: two records with different index
                                               carry the key
(None, -1, (), key, key, None, None)           `Look.ambiguous`
_key_fallback → NoSuchColumnError              `Look.missing`
-/
namespace SaVerif.RowKeys

abbrev Key := Nat

/-- one entry of `compiled._result_columns` -/
structure RC where
  keyname : Key
  name : Key
  objects : List Key
deriving Repr, DecidableEq

/-- one merged metadata record -/
structure Rec where
  idx : Nat
  name : Key          -- MD_LOOKUP_KEY
  rendered : Key      -- MD_RENDERED_NAME
  objects : List Key  -- MD_OBJECTS (`[]` = None)
  ridx : Option Nat := none   -- MD_RESULT_MAP_INDEX (position in compiled._result_columns)
deriving Repr, DecidableEq

inductive Look
  | found (i : Nat)
  | ambiguous
  | missing
deriving Repr, DecidableEq

/-- the keys the duplicate scan looks at: `(MD_RENDERED_NAME,) + MD_OBJECTS` -/
def carried (r : Rec) : List Key := r.rendered :: r.objects

/-- index of the last record satisfying `p` (later dict entries overwrite earlier ones) -/
def lastIdx (p : Rec → Bool) (raw : List Rec) : Option Nat :=
  (raw.reverse.find? p).map (·.idx)

/-- `dupes`: the key is carried by two records with different MD_INDEX -/
def isDupe (raw : List Rec) (k : Key) : Bool :=
  raw.any (fun r => (carried r).contains k &&
    raw.any (fun r' => (carried r').contains k && r'.idx != r.idx))

/-- by primary string, then by MD_OBJECTS -/
def byNameThenObjects (raw : List Rec) (k : Key) : Look :=
  match lastIdx (fun r => r.name == k) raw with
  | some i => .found i
  | none =>
    match lastIdx (fun r => r.objects.contains k) raw with
    | some i => .found i
    | none => .missing

/-- `len(by_key) != num_ctx_cols` -/
def dupesBranch (raw : List Rec) (numCtx : Nat) : Bool :=
  (raw.map (·.name)).eraseDups.length != numCtx

/-- `_keymap` / `_key_to_index` / `_key_not_found` seen as a function of the key -/
def lookup (raw : List Rec) (numCtx : Nat) (k : Key) : Look :=
  if numCtx = 0 then
    match lastIdx (fun r => r.name == k) raw with
    | some i => .found i
    | none => .missing
  else if dupesBranch raw numCtx then
    if isDupe raw k then .ambiguous else byNameThenObjects raw k
  else byNameThenObjects raw k

/-! ## `_adapt_to_context` (cached Compiled reused for a new, equivalent statement) -/

/-- every key the constructor may have put into `_keymap` -/
def allKeys (raw : List Rec) : List Key :=
  raw.flatMap (fun r => r.name :: r.rendered :: r.objects)

/-- Python dict assignment: an existing key keeps its position, a new key is appended -/
def dictSet {V : Type} (d : List (Key × V)) (k : Key) (v : V) : List (Key × V) :=
  if d.any (fun e => e.1 == k) then d.map (fun e => if e.1 == k then (k, v) else e) else d ++ [(k, v)]

/-- `self._keymap` as the ordered dict the constructor builds (`none` = the ambiguous record,
    whose MD_RESULT_MAP_INDEX is -1): objects first, then `update(by_key)` -/
def orderedKeymap (raw : List Rec) (numCtx : Nat) : List (Key × Option Rec) :=
  let byName : List (Key × Option Rec) := raw.foldl (fun d r => dictSet d r.name (some r)) []
  if numCtx = 0 then byName
  else
    let dup := dupesBranch raw numCtx
    let objs : List (Key × Option Rec) :=
      raw.foldl (fun d r => r.objects.foldl (fun d o => if dup && isDupe raw o then d else dictSet d o (some r)) d) []
    let byKey : List (Key × Option Rec) :=
      if dup then (allKeys raw).foldl (fun d k => if isDupe raw k then dictSet d k none else d) byName else byName
    byKey.foldl (fun d e => dictSet d e.1 e.2) objs

/-- `keymap_by_position = {rec[MD_RESULT_MAP_INDEX]: rec for rec in keymap.values()}`: the last
    value (in dict order) with that result-map index -/
def byPosition (raw : List Rec) (numCtx : Nat) (p : Nat) : Option Rec :=
  ((orderedKeymap raw numCtx).reverse.findSome? (fun e =>
    match e.2 with
    | some r => if r.ridx == some p then some r else none
    | none => none))

/-- `self._keymap | {new: keymap_by_position[idx] for idx, new in
    enumerate(invoked_statement._all_selected_columns) if idx in keymap_by_position}` -/
def lookupAdapted (raw : List Rec) (numCtx : Nat) (newCols : List Key) (k : Key) : Look :=
  let cands := (enumFromAux newCols).filterMap (fun pc =>
    if pc.2 == k then byPosition raw numCtx pc.1 else none)
  match cands.getLast? with
  | some r => .found r.idx
  | none => lookup raw numCtx k
where
  enumFromAux (l : List Key) : List (Nat × Key) := (List.range l.length).zip l

/-! ## `_merge_cursor_description` -/

def enumFrom {α : Type} : Nat → List α → List (Nat × α)
  | _, [] => []
  | n, x :: xs => (n, x) :: enumFrom (n + 1) xs

/-- pure positional 1-1 case -/
def mergePositional (rcs : List RC) : List Rec :=
  (enumFrom 0 rcs).map (fun (i, rc) => { idx := i, name := rc.name, rendered := rc.keyname, objects := rc.objects, ridx := some i })

/-- `_merge_textual_cols_by_position`; `none` = "Duplicate column expression requested" -/
def mergeTextual (rcs : List RC) : List (Nat × Key) → List Key → Option (List Rec)
  | [], _ => some []
  | (i, col) :: rest, seen =>
    match rcs[i]? with
    | some rc =>
      let o0 := rc.objects.headD 0
      if seen.contains o0 then none
      else
        match mergeTextual rcs rest (o0 :: seen) with
        | some l => some ({ idx := i, name := col, rendered := col, objects := rc.objects, ridx := some i } :: l)
        | none => none
    | none =>
      match mergeTextual rcs rest seen with
      | some l => some ({ idx := i, name := col, rendered := col, objects := [] } :: l)
      | none => none

/-- `_create_description_match_map`: key ↦ (objects, ridx); a later entry with the same
    rendered name appends its objects and takes over the index; `loose` adds every object as a
    key (setdefault) -/
def matchMap (loose : Bool) : List (Nat × RC) → List (Key × List Key × Nat) → List (Key × List Key × Nat)
  | [], d => d
  | (ri, rc) :: rest, d =>
    let d1 :=
      if d.any (fun e => e.1 == rc.keyname) then
        d.map (fun e => if e.1 == rc.keyname then (e.1, e.2.1 ++ rc.objects, ri) else e)
      else d ++ [(rc.keyname, rc.objects, ri)]
    let d2 :=
      if loose then
        rc.objects.foldl (fun acc o => if acc.any (fun e => e.1 == o) then acc else acc ++ [(o, rc.objects, ri)]) d1
      else d1
    matchMap loose rest d2

/-- `_merge_cols_by_name` -/
def mergeByName (loose : Bool) (rcs : List RC) (desc : List Key) : List Rec :=
  let mm := matchMap loose (enumFrom 0 rcs) []
  (enumFrom 0 desc).map (fun (i, col) =>
    match mm.find? (fun e => e.1 == col) with
    | some e => { idx := i, name := col, rendered := col, objects := e.2.1, ridx := some e.2.2 }
    | none => { idx := i, name := col, rendered := col, objects := [] })

/-- `_merge_cols_by_none` -/
def mergeByNone (desc : List Key) : List Rec :=
  (enumFrom 0 desc).map (fun (i, col) => { idx := i, name := col, rendered := col, objects := [] })

structure Flags where
  colsOrdered : Bool
  textualOrdered : Bool
  adHocTextual : Bool
  loose : Bool
deriving Repr

/-- the strategy choice of `_merge_cursor_description`: (records, `_keys`) -/
def merge (f : Flags) (rcs : List RC) (desc : List Key) : Option (List Rec × List Key) :=
  let numCtx := rcs.length
  if numCtx != 0 && f.colsOrdered && !f.textualOrdered && numCtx == desc.length then
    some (mergePositional rcs, rcs.map (·.keyname))
  else if f.textualOrdered || (f.adHocTextual && desc.length == numCtx) then
    match mergeTextual rcs (enumFrom 0 desc) [] with
    | some raw => some (raw, desc)
    | none => none
  else if numCtx != 0 then some (mergeByName f.loose rcs desc, desc)
  else some (mergeByNone desc, desc)

end SaVerif.RowKeys
