/-
M-ROWKEYS: transcription of the key → column-index machinery of
  lib/sqlalchemy/engine/cursor.py   CursorResultMetaData.__init__ (keymap construction,
                                    duplicate detection), _merge_cursor_description and its
                                    four strategies, _index_for_key / _key_not_found

Import-free, total, executable.  Every Python key (string, Column, Label, …) is a `Nat`
id: the harness numbers keys with an ordinary dict, i.e. with the same hash/eq the real
`_keymap` dict uses.

Python                                         model
---------------------------------------------  -----------------------------------------
ResultColumnsEntry(keyname, name, objects, _)  `RC`
_CursorKeyMapRecType (MD_INDEX, MD_OBJECTS,    `Rec`   (processors / untranslated names are
  MD_LOOKUP_KEY, MD_RENDERED_NAME)                      not modelled; `driver_column_names` off)
dict comprehension / dict.update               "the last record wins": `lastIdx`
index_by_key.setdefault(key, idx) != idx       `isDupe`: two records with different index
                                               carry the key
(None, -1, (), key, key, None, None)           `Look.ambiguous`
_key_fallback → NoSuchColumnError              `Look.missing`
-/
namespace SaVerif.RowKeys

abbrev Key := Nat

/-- one entry of `compiled._result_columns` -/
structure RC where
  keyname : Key
  name : Key
  objects : List Key
deriving Repr, DecidableEq

/-- one merged metadata record -/
structure Rec where
  idx : Nat
  name : Key          -- MD_LOOKUP_KEY
  rendered : Key      -- MD_RENDERED_NAME
  objects : List Key  -- MD_OBJECTS (`[]` = None)
deriving Repr, DecidableEq

inductive Look
  | found (i : Nat)
  | ambiguous
  | missing
deriving Repr, DecidableEq

/-- the keys the duplicate scan looks at: `(MD_RENDERED_NAME,) + MD_OBJECTS` -/
def carried (r : Rec) : List Key := r.rendered :: r.objects

/-- index of the last record satisfying `p` (later dict entries overwrite earlier ones) -/
def lastIdx (p : Rec → Bool) (raw : List Rec) : Option Nat :=
  (raw.reverse.find? p).map (·.idx)

/-- `dupes`: the key is carried by two records with different MD_INDEX -/
def isDupe (raw : List Rec) (k : Key) : Bool :=
  raw.any (fun r => (carried r).contains k &&
    raw.any (fun r' => (carried r').contains k && r'.idx != r.idx))

/-- by primary string, then by MD_OBJECTS -/
def byNameThenObjects (raw : List Rec) (k : Key) : Look :=
  match lastIdx (fun r => r.name == k) raw with
  | some i => .found i
  | none =>
    match lastIdx (fun r => r.objects.contains k) raw with
    | some i => .found i
    | none => .missing

/-- `len(by_key) != num_ctx_cols` -/
def dupesBranch (raw : List Rec) (numCtx : Nat) : Bool :=
  (raw.map (·.name)).eraseDups.length != numCtx

/-- `_keymap` / `_key_to_index` / `_key_not_found` seen as a function of the key -/
def lookup (raw : List Rec) (numCtx : Nat) (k : Key) : Look :=
  if numCtx = 0 then
    match lastIdx (fun r => r.name == k) raw with
    | some i => .found i
    | none => .missing
  else if dupesBranch raw numCtx then
    if isDupe raw k then .ambiguous else byNameThenObjects raw k
  else byNameThenObjects raw k

/-! ## `_adapt_to_context` (cached Compiled reused for a new, equivalent statement) -/

/-- every key the constructor may have put into `_keymap` -/
def allKeys (raw : List Rec) : List Key :=
  raw.flatMap (fun r => r.name :: r.rendered :: r.objects)

/-- `idx in keymap_by_position`: the record of result-map position `p` is still the value
    of some key of the keymap (it is not when all its keys went to the ambiguous record) -/
def adaptable (raw : List Rec) (numCtx : Nat) (p : Nat) : Bool :=
  (allKeys raw).any (fun k => lookup raw numCtx k == .found p)

/-- `self._keymap | {new: keymap_by_position[idx] for idx, new in
    enumerate(invoked_statement._all_selected_columns) if idx in keymap_by_position}`
    (positional strategies: MD_RESULT_MAP_INDEX = MD_INDEX) -/
def lookupAdapted (raw : List Rec) (numCtx : Nat) (newCols : List Key) (k : Key) : Look :=
  let cands := (enumFromAux newCols).filter (fun pc => pc.2 == k && adaptable raw numCtx pc.1)
  match cands.getLast? with
  | some pc => .found pc.1
  | none => lookup raw numCtx k
where
  enumFromAux (l : List Key) : List (Nat × Key) := (List.range l.length).zip l

/-! ## `_merge_cursor_description` -/

def enumFrom {α : Type} : Nat → List α → List (Nat × α)
  | _, [] => []
  | n, x :: xs => (n, x) :: enumFrom (n + 1) xs

/-- pure positional 1-1 case -/
def mergePositional (rcs : List RC) : List Rec :=
  (enumFrom 0 rcs).map (fun (i, rc) => { idx := i, name := rc.name, rendered := rc.keyname, objects := rc.objects })

/-- `_merge_textual_cols_by_position`; `none` = "Duplicate column expression requested" -/
def mergeTextual (rcs : List RC) : List (Nat × Key) → List Key → Option (List Rec)
  | [], _ => some []
  | (i, col) :: rest, seen =>
    match rcs[i]? with
    | some rc =>
      let o0 := rc.objects.headD 0
      if seen.contains o0 then none
      else
        match mergeTextual rcs rest (o0 :: seen) with
        | some l => some ({ idx := i, name := col, rendered := col, objects := rc.objects } :: l)
        | none => none
    | none =>
      match mergeTextual rcs rest seen with
      | some l => some ({ idx := i, name := col, rendered := col, objects := [] } :: l)
      | none => none

/-- `_create_description_match_map`: key ↦ objects (a later entry with the same rendered
    name appends its objects); `loose` adds every object as a key (setdefault) -/
def matchMap (loose : Bool) : List RC → List (Key × List Key) → List (Key × List Key)
  | [], d => d
  | rc :: rest, d =>
    let d1 :=
      if d.any (fun e => e.1 == rc.keyname) then
        d.map (fun e => if e.1 == rc.keyname then (e.1, e.2 ++ rc.objects) else e)
      else d ++ [(rc.keyname, rc.objects)]
    let d2 :=
      if loose then
        rc.objects.foldl (fun acc o => if acc.any (fun e => e.1 == o) then acc else acc ++ [(o, rc.objects)]) d1
      else d1
    matchMap loose rest d2

/-- `_merge_cols_by_name` -/
def mergeByName (loose : Bool) (rcs : List RC) (desc : List Key) : List Rec :=
  let mm := matchMap loose rcs []
  (enumFrom 0 desc).map (fun (i, col) =>
    match mm.find? (fun e => e.1 == col) with
    | some e => { idx := i, name := col, rendered := col, objects := e.2 }
    | none => { idx := i, name := col, rendered := col, objects := [] })

/-- `_merge_cols_by_none` -/
def mergeByNone (desc : List Key) : List Rec :=
  (enumFrom 0 desc).map (fun (i, col) => { idx := i, name := col, rendered := col, objects := [] })

structure Flags where
  colsOrdered : Bool
  textualOrdered : Bool
  adHocTextual : Bool
  loose : Bool
deriving Repr

/-- the strategy choice of `_merge_cursor_description`: (records, `_keys`) -/
def merge (f : Flags) (rcs : List RC) (desc : List Key) : Option (List Rec × List Key) :=
  let numCtx := rcs.length
  if numCtx != 0 && f.colsOrdered && !f.textualOrdered && numCtx == desc.length then
    some (mergePositional rcs, rcs.map (·.keyname))
  else if f.textualOrdered || (f.adHocTextual && desc.length == numCtx) then
    match mergeTextual rcs (enumFrom 0 desc) [] with
    | some raw => some (raw, desc)
    | none => none
  else if numCtx != 0 then some (mergeByName f.loose rcs desc, desc)
  else some (mergeByNone desc, desc)

end SaVerif.RowKeys
