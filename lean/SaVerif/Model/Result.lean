/-
M-RESULT: transcription of the row-delivery machinery of

  lib/sqlalchemy/engine/cursor.py     CursorFetchStrategy, BufferedRowCursorFetchStrategy,
                                      FullyBufferedCursorFetchStrategy, NoCursorDQLFetchStrategy,
                                      CursorResult._soft_close / yield_per / _fetch*_impl
  lib/sqlalchemy/engine/result.py     IteratorResult, ChunkedIteratorResult, MergedResult,
                                      FrozenResult, Result / ScalarResult / MappingResult facades
  lib/sqlalchemy/engine/_result_cy.py BaseResultInternal: _row_getter, _onerow_getter,
                                      _manyrow_getter, _allrows, _iterator_getter,
                                      _only_one_row, _apply_unique_strategy

Import-free, total, executable.

Python                                        model
--------------------------------------------  ------------------------------------------
DBAPI cursor (pysqlite; trusted)              `List Row` + take/drop (fetchmany() = arraysize 1)
collections.deque _rowbuffer                  `List Row` (popleft = head)
strategy object swapped on the result         constructor of `Strat`
result.closed / result._soft_closed           `hard` / `soft` fields
itertools.chain(chunks(n)) of Chunked…        `pending` (rest of the pulled chunk) + `base`
`while True:` / `while num_required:` loops   structural recursion on fuel = rows left + 1
set `uniques`                                 `List Key` + `contains`
exceptions                                    `Err`
HasMemoized getters                           not modelled: assumption A (see harness) —
                                              a view's `unique()` precedes its first fetch
values                                        `Nat` codes; codes >= 1000 stand for unhashable
                                              Python values (lists)

Every Result-level function is written once, generically over a record `SrcOps σ` of
the five `_fetch*_impl` / `_soft_close` / `yield_per` primitives; `Src` (the real
strategies) and `Plain` (a bare list) are two instances.  Props/C10 proves that the two
instances are indistinguishable for every operation sequence.
-/
namespace SaVerif.Result

abbrev Val := Nat
abbrev Row := List Val

/-- codes ≥ 1000 are unhashable Python objects -/
def hashableVal (v : Val) : Bool := v < 1000

/-- what goes into the `uniques` set: a Row/tuple or a bare scalar (`5 ≠ (5,)`) -/
inductive Key
  | tup (l : List Val)
  | sc (v : Val)
deriving DecidableEq, Repr

def Key.hashable : Key → Bool
  | .tup l => l.all hashableVal
  | .sc v => hashableVal v

/-- what a fetch method hands to the caller -/
inductive Item
  | row (l : List Val)
  | scalar (v : Val)
  | mapping (l : List Val)
deriving DecidableEq, Repr

inductive Err
  | closed | noResult | multiple | stopIter | unhashable | index
deriving DecidableEq, Repr

/-! ## Sources: the `_fetchone_impl` / `_fetchmany_impl` / `_fetchall_impl` /
`_soft_close` / `yield_per` layer -/

structure SrcOps (σ : Type) where
  /-- `_fetchone_impl(hard_close)` -/
  fetchone : Bool → σ → Except Err (Option Row) × σ
  /-- one `next()` on `_fetchiter_impl()` -/
  rawNext : σ → Except Err (Option Row) × σ
  /-- `_fetchmany_impl(size)` -/
  fetchmany : Option Nat → σ → Except Err (List Row) × σ
  /-- `_fetchall_impl()` -/
  fetchall : σ → Except Err (List Row) × σ
  /-- `list(result._raw_row_iterator())` (FrozenResult of a scalar source; no closed check) -/
  drainRaw : σ → List Row × σ
  /-- `_soft_close(hard)` -/
  softClose : Bool → σ → σ
  /-- strategy / iterator side of `yield_per(num)` -/
  yieldPer : Nat → σ → σ
  /-- rows not yet handed out (fuel for the loops) -/
  size : σ → Nat
  /-- `result.closed` -/
  isHard : σ → Bool
  /-- hazard: `_fetchone_impl(hard_close=True)` would *not* hard-close
      (NoCursorFetchStrategy.fetchone ignores `hard_close`) -/
  corner : σ → Bool
  /-- hazard: `yield_per` would drop rows (ChunkedIteratorResult TODO) -/
  ypLossy : σ → Bool
  /-- IteratorResult over a list (what `FrozenResult.__call__` builds) -/
  ofList : List Row → σ

/-! ### the real strategies -/

inductive Strat
  /-- `CursorFetchStrategy` (`_DEFAULT_FETCH`) -/
  | default
  /-- `BufferedRowCursorFetchStrategy(_rowbuffer, _bufsize, _growth_factor, _max_row_buffer)` -/
  | buffered (buf : List Row) (bufsize growth maxbuf : Nat)
  /-- `FullyBufferedCursorFetchStrategy(_rowbuffer)` -/
  | full (buf : List Row)
  /-- `_NO_CURSOR_DQL` -/
  | noCursor
deriving Repr

inductive Src
  /-- CursorResult: strategy, DBAPI cursor rows, `_soft_closed`, `closed` -/
  | cursor (st : Strat) (cur : List Row) (soft hard : Bool)
  /-- IteratorResult / MergedResult before close: `iterator`, `_soft_closed`, `_hard_closed` -/
  | iter (it : List Row) (soft hard : Bool)
  /-- ChunkedIteratorResult: rest of the chunk held by the chain iterator, rows still
      behind `chunks`, the argument `chunks` was last called with, `dynamic_yield_per` -/
  | chunked (pending base : List Row) (csize : Option Nat) (dyn : Bool) (soft hard : Bool)
deriving Repr

namespace Src

/-- `CursorResult._soft_close(hard)`; the strategies' soft_close/hard_close clear
    their buffer and install `_NO_CURSOR_DQL`; the DBAPI cursor is closed. -/
def cursorSoftClose (hardArg : Bool) (st : Strat) (cur : List Row) (soft hard : Bool) : Src :=
  if (!hardArg && soft) || (hardArg && hard) then .cursor st cur soft hard
  else .cursor .noCursor [] true (hard || hardArg)

def softClose (hardArg : Bool) : Src → Src
  | .cursor st cur soft hard => cursorSoftClose hardArg st cur soft hard
  | .iter _ _ hard => .iter [] true (hard || hardArg)
  | .chunked _ _ cs dyn _ hard => .chunked [] [] cs dyn true (hard || hardArg)

/-- `BufferedRowCursorFetchStrategy._buffer_rows`: returns (new buffer, new bufsize, cursor) -/
def bufferRows (bufsize growth maxbuf : Nat) (cur : List Row) : List Row × Nat × List Row :=
  let new := if bufsize < 1 then cur else cur.take bufsize
  let cur' := if bufsize < 1 then [] else cur.drop bufsize
  if new.isEmpty then ([], bufsize, cur')
  else
    let bs := if growth != 0 && bufsize < maxbuf then min maxbuf (bufsize * growth) else bufsize
    (new, bs, cur')

/-- size of the next chunk: `chunks(size)` yields `size` rows, or everything when `size`
    is None / 0 -/
def chunkSize (csize : Option Nat) (b : List Row) : Nat :=
  match csize with
  | some n => if n = 0 then b.length else n
  | none => b.length

/-- the chain iterator of ChunkedIteratorResult: take up to `k` rows, pulling a new
    chunk from `chunks(csize)` whenever the held one is used up -/
def chTake (csize : Option Nat) : Nat → List Row → List Row → List Row × List Row × List Row
  | 0, p, b => ([], p, b)
  | k + 1, r :: p, b =>
    let (o, p', b') := chTake csize k p b
    (r :: o, p', b')
  | k + 1, [], b =>
    match b.take (chunkSize csize b) with
    | [] => ([], [], b)
    | r :: rest =>
      let (o, p', b') := chTake csize k rest (b.drop (chunkSize csize b))
      (r :: o, p', b')

def fetchone (hardArg : Bool) : Src → Except Err (Option Row) × Src
  | .cursor st cur soft hard =>
    match st with
    | .noCursor =>
      if hard then (.error .closed, .cursor st cur soft hard) else (.ok none, .cursor st cur soft hard)
    | .default =>
      match cur with
      | [] => (.ok none, cursorSoftClose hardArg .default [] soft hard)
      | r :: rest => (.ok (some r), .cursor .default rest soft hard)
    | .buffered buf bs g mx =>
      match buf with
      | r :: rest => (.ok (some r), .cursor (.buffered rest bs g mx) cur soft hard)
      | [] =>
        let (nb, bs', cur') := bufferRows bs g mx cur
        match nb with
        | [] => (.ok none, cursorSoftClose hardArg (.buffered [] bs' g mx) cur' soft hard)
        | r :: rest => (.ok (some r), .cursor (.buffered rest bs' g mx) cur' soft hard)
    | .full buf =>
      match buf with
      | r :: rest => (.ok (some r), .cursor (.full rest) cur soft hard)
      | [] => (.ok none, cursorSoftClose hardArg (.full []) cur soft hard)
  | .iter it soft hard =>
    if hard then (.error .closed, .iter it soft hard) else
    match it with
    | [] => (.ok none, .iter [] true (hard || hardArg))
    | r :: rest => (.ok (some r), .iter rest soft hard)
  | .chunked p b cs dyn soft hard =>
    if hard then (.error .closed, .chunked p b cs dyn soft hard) else
    match chTake cs 1 p b with
    | (r :: _, p', b') => (.ok (some r), .chunked p' b' cs dyn soft hard)
    | ([], _, _) => (.ok none, .chunked [] [] cs dyn true (hard || hardArg))

/-- `_fetchiter_impl`: CursorResult loops over `strategy.fetchone(self, cursor)`;
    IteratorResult hands out `self.iterator` itself (no `_soft_close` at the end). -/
def rawNext : Src → Except Err (Option Row) × Src
  | .cursor st cur soft hard => fetchone false (.cursor st cur soft hard)
  | .iter it soft hard =>
    if hard then (.error .closed, .iter it soft hard) else
    match it with
    | [] => (.ok none, .iter [] soft hard)
    | r :: rest => (.ok (some r), .iter rest soft hard)
  | .chunked p b cs dyn soft hard =>
    if hard then (.error .closed, .chunked p b cs dyn soft hard) else
    match chTake cs 1 p b with
    | (r :: _, p', b') => (.ok (some r), .chunked p' b' cs dyn soft hard)
    | ([], p', b') => (.ok none, .chunked p' b' cs dyn soft hard)

def fetchall : Src → Except Err (List Row) × Src
  | .cursor st cur soft hard =>
    match st with
    | .noCursor =>
      if hard then (.error .closed, .cursor st cur soft hard) else (.ok [], .cursor st cur soft hard)
    | .default => (.ok cur, cursorSoftClose false .default [] soft hard)
    | .buffered buf bs g mx => (.ok (buf ++ cur), cursorSoftClose false (.buffered [] bs g mx) [] soft hard)
    | .full buf => (.ok buf, cursorSoftClose false (.full []) cur soft hard)
  | .iter it soft hard =>
    if hard then (.error .closed, .iter it soft hard) else (.ok it, .iter [] true hard)
  | .chunked p b cs dyn soft hard =>
    if hard then (.error .closed, .chunked p b cs dyn soft hard)
    else (.ok (p ++ b), .chunked [] [] cs dyn true hard)

/-- `list(self._raw_row_iterator())`: IteratorResult returns `self.iterator` unchecked;
    CursorResult runs `_fetchiter_impl()` (never reached with a scalar source) -/
def drainRaw : Src → List Row × Src
  | .cursor st cur soft hard =>
    match fetchall (.cursor st cur soft hard) with
    | (.ok l, s') => (l, s')
    | (.error _, s') => ([], s')
  | .iter it soft hard => (it, .iter [] soft hard)
  | .chunked p b cs dyn soft hard => (p ++ b, .chunked [] [] cs dyn soft hard)

def fetchmany (size : Option Nat) : Src → Except Err (List Row) × Src
  | .cursor st cur soft hard =>
    match st with
    | .noCursor =>
      if hard then (.error .closed, .cursor st cur soft hard) else (.ok [], .cursor st cur soft hard)
    | .default =>
      -- dbapi_cursor.fetchmany() uses arraysize = 1; pysqlite fetchmany(0) = all rows
      let n := match size with
        | none => 1
        | some n => if n = 0 then cur.length else n
      let l := cur.take n
      if l.isEmpty then (.ok [], cursorSoftClose false .default (cur.drop n) soft hard)
      else (.ok l, .cursor .default (cur.drop n) soft hard)
    | .buffered buf bs g mx =>
      match size with
      | none => fetchall (.cursor st cur soft hard)
      | some n =>
        let lb := buf.length
        if n > lb then
          let k := n - lb
          let new := cur.take k
          if new.isEmpty then
            (.ok (buf.take n), cursorSoftClose false (.buffered (buf.drop n) bs g mx) (cur.drop k) soft hard)
          else
            let rb := buf ++ new
            (.ok (rb.take n), .cursor (.buffered (rb.drop n) bs g mx) (cur.drop k) soft hard)
        else (.ok (buf.take n), .cursor (.buffered (buf.drop n) bs g mx) cur soft hard)
    | .full buf =>
      match size with
      | none => fetchall (.cursor st cur soft hard)
      | some n =>
        let rows := buf.take n
        if rows.isEmpty then (.ok [], cursorSoftClose false (.full (buf.drop n)) cur soft hard)
        else (.ok rows, .cursor (.full (buf.drop n)) cur soft hard)
  | .iter it soft hard =>
    if hard then (.error .closed, .iter it soft hard) else
    match size with
    | none => (.ok it, .iter [] soft hard)
    | some n => (.ok (it.take n), .iter (it.drop n) soft hard)
  | .chunked p b cs dyn soft hard =>
    -- `if self.dynamic_yield_per: self.iterator = chain(self.chunks(size))` (before the
    -- closed check of super()._fetchmany_impl)
    let p1 := if dyn then [] else p
    let cs1 := if dyn then size else cs
    if hard then (.error .closed, .chunked p1 b cs1 dyn soft hard) else
    match size with
    | none => (.ok (p1 ++ b), .chunked [] [] cs1 dyn soft hard)
    | some n =>
      let (o, p', b') := chTake cs1 n p1 b
      (.ok o, .chunked p' b' cs1 dyn soft hard)

/-- `CursorFetchStrategy.yield_per` installs a BufferedRow strategy with an empty buffer;
    `BufferedRowCursorFetchStrategy.yield_per` pins the buffer size; FullyBuffered and
    NoCursor ignore it; `ChunkedIteratorResult.yield_per` restarts `chunks(num)`. -/
def yieldPer (num : Nat) : Src → Src
  | .cursor st cur soft hard =>
    match st with
    | .default => .cursor (.buffered [] num 0 num) cur soft hard
    | .buffered buf _ _ _ => .cursor (.buffered buf num 0 num) cur soft hard
    | .full buf => .cursor (.full buf) cur soft hard
    | .noCursor => .cursor .noCursor cur soft hard
  | .iter it soft hard => .iter it soft hard
  | .chunked _ b _ dyn soft hard => .chunked [] b (some num) dyn soft hard

def size : Src → Nat
  | .cursor st cur _ _ =>
    match st with
    | .buffered buf _ _ _ => buf.length + cur.length
    | .full buf => buf.length
    | .default => cur.length
    | .noCursor => 0
  | .iter it _ _ => it.length
  | .chunked p b _ _ _ _ => p.length + b.length

def isHard : Src → Bool
  | .cursor _ _ _ hard => hard
  | .iter _ _ hard => hard
  | .chunked _ _ _ _ _ hard => hard

def corner : Src → Bool
  | .cursor _ _ soft hard => soft && !hard
  | _ => false

def ypLossy : Src → Bool
  | .chunked p _ _ _ _ _ => !p.isEmpty
  | _ => false

def ops : SrcOps Src where
  fetchone := fetchone
  rawNext := rawNext
  fetchmany := fetchmany
  fetchall := fetchall
  drainRaw := drainRaw
  softClose := softClose
  yieldPer := yieldPer
  size := size
  isHard := isHard
  corner := corner
  ypLossy := ypLossy
  ofList := fun l => .iter l false false

/-- `BufferedRowCursorFetchStrategy.__init__`: pre-fetches one row -/
def mkBuffered (maxbuf : Nat) (rows : List Row) : Src :=
  .cursor (.buffered (rows.take 1) (min maxbuf 5) 5 maxbuf) (rows.drop 1) false false

/-- `FullyBufferedCursorFetchStrategy.__init__`: `deque(dbapi_cursor.fetchall())` -/
def mkFull (rows : List Row) : Src := .cursor (.full rows) [] false false

def mkDefault (rows : List Row) : Src := .cursor .default rows false false

def mkIter (rows : List Row) : Src := .iter rows false false

/-- `ChunkedIteratorResult.__init__`: `chain.from_iterable(self.chunks(None))`, lazy -/
def mkChunked (dyn : Bool) (rows : List Row) : Src := .chunked [] rows none dyn false false

/-- drain `_raw_row_iterator()` (what MergedResult chains) -/
def rawDrain : Nat → Src → List Row
  | 0, _ => []
  | f + 1, s =>
    match rawNext s with
    | (.ok (some r), s') => r :: rawDrain f s'
    | _ => []

/-- `MergedResult.__init__`: `chain.from_iterable(r._raw_row_iterator() for r in results)` -/
def mkMerged (children : List Src) : Src :=
  .iter (children.flatMap (fun c => rawDrain (c.size + 1) c)) false false

end Src

/-! ### the reference source: a bare list -/

/-- `rem` rows left, `hard` closed flag, `d1`: `fetchmany()` without a size returns one
    row (DBAPI arraysize) rather than everything — true only for the default cursor
    strategy until it is swapped out by a close or `yield_per`. -/
structure Plain where
  rem : List Row
  hard : Bool
  d1 : Bool
deriving Repr, DecidableEq

namespace Plain

def fetchone (hardArg : Bool) (p : Plain) : Except Err (Option Row) × Plain :=
  if p.hard then (.error .closed, p) else
  match p.rem with
  | [] => (.ok none, { rem := [], hard := hardArg, d1 := false })
  | r :: rest => (.ok (some r), { p with rem := rest })

def rawNext (p : Plain) : Except Err (Option Row) × Plain :=
  if p.hard then (.error .closed, p) else
  match p.rem with
  | [] => (.ok none, { p with d1 := false })
  | r :: rest => (.ok (some r), { p with rem := rest })

def fetchmany (size : Option Nat) (p : Plain) : Except Err (List Row) × Plain :=
  if p.hard then (.error .closed, p) else
  let n := match size with
    | none => if p.d1 then 1 else p.rem.length
    | some n => n
  let l := p.rem.take n
  (.ok l, { p with rem := p.rem.drop n, d1 := p.d1 && !l.isEmpty })

def fetchall (p : Plain) : Except Err (List Row) × Plain :=
  if p.hard then (.error .closed, p) else (.ok p.rem, { p with rem := [], d1 := false })

def softClose (hardArg : Bool) (p : Plain) : Plain :=
  { rem := [], hard := p.hard || hardArg, d1 := false }

def ops : SrcOps Plain where
  fetchone := fetchone
  rawNext := rawNext
  fetchmany := fetchmany
  fetchall := fetchall
  drainRaw := fun p => (p.rem, { p with rem := [], d1 := false })
  softClose := softClose
  yieldPer := fun _ p => { p with d1 := false }
  size := fun p => p.rem.length
  isHard := fun p => p.hard
  corner := fun _ => false
  ypLossy := fun _ => false
  ofList := fun l => { rem := l, hard := false, d1 := false }

end Plain

/-! ## Result / ScalarResult / MappingResult on top of a source -/

/-- `unique(strategy)`: no strategy, `lambda x: first value`, `lambda x: sum(codes) % 2` -/
inductive UStrat | ident | first | parity
deriving DecidableEq, Repr

inductive View | rows | scalars | mappings
deriving DecidableEq, Repr

/-- `_unique_filter_state = (set(), strategy)` -/
structure UQ where
  seen : List Key
  strat : UStrat
deriving Repr, DecidableEq

/-- one facade object: a Result (`view = rows`) or a FilterResult -/
structure Handle where
  view : View
  /-- `_metadata._translated_indexes` after `columns()` / `scalars(i)` -/
  cols : Option (List Nat)
  uq : Option UQ
deriving Repr, DecidableEq

structure St (σ : Type) where
  src : σ
  /-- `_source_supports_scalars` (raw rows are bare scalars; modelled as `[v]`) -/
  sss : Bool
  /-- number of columns of a raw row -/
  width : Nat
  /-- `real_result._yield_per` -/
  yp : Option Nat
  r : Handle
  v : Option Handle

def itemVals : Item → List Val
  | .row l => l
  | .scalar v => [v]
  | .mapping l => l

/-- `_row_getter[0]` (`make_row`): scalar sources give `(v,)` or stay raw for a
    ScalarResult; otherwise the tuple filter of `columns()` is applied. -/
def mkItem (sss : Bool) (h : Handle) (raw : Row) : Item :=
  if sss then
    match h.view with
    | .scalars => .scalar (raw.headD 0)
    | _ => .row [raw.headD 0]
  else
    .row (match h.cols with
      | none => raw
      | some c => c.map (fun i => raw.getD i 0))

/-- `_post_creational_filter`: `itemgetter(0)` for ScalarResult, `attrgetter("_mapping")`
    for MappingResult -/
def postItem (sss : Bool) (h : Handle) (it : Item) : Item :=
  match h.view with
  | .rows => it
  | .scalars => if sss then it else .scalar ((itemVals it).headD 0)
  | .mappings => .mapping (itemVals it)

/-- `hashed = strategy(row) if strategy is not None else row` -/
def keyOf (st : UStrat) (it : Item) : Key :=
  match st with
  | .ident =>
    match it with
    | .scalar v => .sc v
    | .row l => .tup l
    | .mapping l => .tup l
  | .first => .sc ((itemVals it).headD 0)
  | .parity => .sc ((itemVals it).sum % 2)

/-- `_apply_unique_strategy(rows, destination, uniques, strategy)`; `none` = TypeError
    (unhashable) — the set keeps what was added before the error -/
def uniqFold (st : UStrat) : List Item → List Key → Option (List Item) × List Key
  | [], seen => (some [], seen)
  | it :: rest, seen =>
    let k := keyOf st it
    if !k.hashable then (none, seen)
    else if seen.contains k then uniqFold st rest seen
    else
      match uniqFold st rest (k :: seen) with
      | (some out, seen') => (some (it :: out), seen')
      | (none, seen') => (none, seen')

inductive Out
  | none
  | item (i : Item)
  | items (l : List Item)
  | parts (l : List (List Item))
  | val (v : Val)
  | bool (b : Bool)
  | unit
  | err (e : Err)
deriving DecidableEq, Repr

section L2
variable {σ : Type} (O : SrcOps σ)

/-- `_allrows` -/
def allrows (sss : Bool) (h : Handle) (s : σ) : Out × Handle × σ :=
  match O.fetchall s with
  | (.error e, s') => (.err e, h, s')
  | (.ok rows, s') =>
    let made := rows.map (mkItem sss h)
    match h.uq with
    | none => (.items (made.map (postItem sss h)), h, s')
    | some u =>
      match uniqFold u.strat made u.seen with
      | (none, seen') => (.err .unhashable, { h with uq := some { u with seen := seen' } }, s')
      | (some out, seen') =>
        (.items (out.map (postItem sss h)), { h with uq := some { u with seen := seen' } }, s')

/-- the `while True:` loop of the uniquing `onerow` (`raw = true`: the `for raw_row in
    self._fetchiter_impl()` loop of `iterrows`, one `next()`) -/
def oneLoop (raw : Bool) (sss : Bool) (h : Handle) (u : UStrat) :
    Nat → List Key → σ → Except Err (Option Item) × List Key × σ
  | 0, seen, s => (.ok none, seen, s)
  | f + 1, seen, s =>
    match (if raw then O.rawNext s else O.fetchone false s) with
    | (.error e, s') => (.error e, seen, s')
    | (.ok none, s') => (.ok none, seen, s')
    | (.ok (some rw), s') =>
      let it := mkItem sss h rw
      let k := keyOf u it
      if !k.hashable then (.error .unhashable, seen, s')
      else if seen.contains k then oneLoop raw sss h u f seen s'
      else (.ok (some it), k :: seen, s')

/-- `_onerow_getter` (`raw = false`) / one step of `_iterator_getter` (`raw = true`);
    the item is returned after the post-creational filter -/
def onerow (raw : Bool) (sss : Bool) (h : Handle) (s : σ) : Except Err (Option Item) × Handle × σ :=
  match h.uq with
  | none =>
    match (if raw then O.rawNext s else O.fetchone false s) with
    | (.error e, s') => (.error e, h, s')
    | (.ok none, s') => (.ok none, h, s')
    | (.ok (some rw), s') => (.ok (some (postItem sss h (mkItem sss h rw))), h, s')
  | some u =>
    match oneLoop O raw sss h u.strat (O.size s + 1) u.seen s with
    | (.error e, seen', s') => (.error e, { h with uq := some { u with seen := seen' } }, s')
    | (.ok none, seen', s') => (.ok none, { h with uq := some { u with seen := seen' } }, s')
    | (.ok (some it), seen', s') =>
      (.ok (some (postItem sss h it)), { h with uq := some { u with seen := seen' } }, s')

/-- `while num_required:` of the uniquing `manyrows` -/
def manyLoop (sss : Bool) (h : Handle) (u : UStrat) (num : Nat) :
    Nat → List Item → List Key → σ → Except Err (List Item) × List Key × σ
  | 0, collect, seen, s => (.ok collect, seen, s)
  | f + 1, collect, seen, s =>
    let req := num - collect.length
    if req = 0 then (.ok collect, seen, s) else
    match O.fetchmany (some req) s with
    | (.error e, s') => (.error e, seen, s')
    | (.ok [], s') => (.ok collect, seen, s')
    | (.ok (r :: rs), s') =>
      match uniqFold u ((r :: rs).map (mkItem sss h)) seen with
      | (none, seen') => (.error .unhashable, seen', s')
      | (some out, seen') => manyLoop sss h u num f (collect ++ out) seen' s'

/-- `if num is None: num = yield_per` -/
def effSize (num yp : Option Nat) : Option Nat :=
  match num with
  | none => yp
  | some n => some n

/-- `yield_per` as a truth value / number (`None` → 0) -/
def ypOr0 (yp : Option Nat) : Nat :=
  match yp with
  | some y => y
  | none => 0

/-- tail of the uniquing `manyrows`: store the seen-set back, apply the post-creational
    filter to the collected rows -/
def manyFin {σ : Type} (sss : Bool) (h : Handle) (u : UQ) (r : Except Err (List Item) × List Key × σ) :
    Except Err (List Item) × Handle × σ :=
  match r with
  | (.error e, seen', s') => (.error e, { h with uq := some { u with seen := seen' } }, s')
  | (.ok l, seen', s') =>
    (.ok (l.map (postItem sss h)), { h with uq := some { u with seen := seen' } }, s')

/-- `_manyrow_getter` -/
def manyrows (sss : Bool) (yp : Option Nat) (h : Handle) (num : Option Nat) (s : σ) :
    Except Err (List Item) × Handle × σ :=
  match h.uq with
  | none =>
    match O.fetchmany (effSize num yp) s with
    | (.error e, s') => (.error e, h, s')
    | (.ok rows, s') => (.ok (rows.map (fun rw => postItem sss h (mkItem sss h rw))), h, s')
  | some u =>
    match num with
    | some n => manyFin sss h u (manyLoop O sss h u.strat n (O.size s + 1) [] u.seen s)
    | none =>
      if ypOr0 yp != 0 then manyFin sss h u (manyLoop O sss h u.strat (ypOr0 yp) (O.size s + 1) [] u.seen s)
      else
        match O.fetchmany none s with
        | (.error e, s') => (.error e, h, s')
        | (.ok rows, s') =>
          match uniqFold u.strat (rows.map (mkItem sss h)) u.seen with
          | (none, seen') => (.error .unhashable, { h with uq := some { u with seen := seen' } }, s')
          | (some out, seen') =>
            manyFin sss h u (manyLoop O sss h u.strat rows.length (O.size s' + 1) out seen' s')

/-- `partitions(size)` pulled at most `k` times: `while True: partition = getter(self, size)` -/
def partLoop (sss : Bool) (yp : Option Nat) (num : Option Nat) :
    Nat → Handle → σ → Except Err (List (List Item)) × Handle × σ
  | 0, h, s => (.ok [], h, s)
  | k + 1, h, s =>
    match manyrows O sss yp h num s with
    | (.error e, h', s') => (.error e, h', s')
    | (.ok [], h', s') => (.ok [], h', s')
    | (.ok (x :: xs), h', s') =>
      match partLoop sss yp num k h' s' with
      | (.error e, h'', s'') => (.error e, h'', s'')
      | (.ok ps, h'', s'') => (.ok ((x :: xs) :: ps), h'', s'')

/-- `for row in result` pulled at most `k` times -/
def iterLoop (sss : Bool) : Nat → Handle → σ → Except Err (List Item) × Handle × σ
  | 0, h, s => (.ok [], h, s)
  | k + 1, h, s =>
    match onerow O true sss h s with
    | (.error e, h', s') => (.error e, h', s')
    | (.ok none, h', s') => (.ok [], h', s')
    | (.ok (some it), h', s') =>
      match iterLoop sss k h' s' with
      | (.error e, h'', s'') => (.error e, h'', s'')
      | (.ok l, h'', s'') => (.ok (it :: l), h'', s'')

/-- the `while True:` loop of `_only_one_row` under a unique filter: skip rows equal to
    the first one; `true` = a different row was found -/
def skipEq (sss : Bool) (h : Handle) (u : UStrat) (k0 : Key) : Nat → σ → Except Err Bool × σ
  | 0, s => (.ok false, s)
  | f + 1, s =>
    match O.fetchone true s with
    | (.error e, s') => (.error e, s')
    | (.ok none, s') => (.ok false, s')
    | (.ok (some rw), s') =>
      if keyOf u (mkItem sss h rw) = k0 then skipEq sss h u k0 f s' else (.ok true, s')

/-- `_only_one_row(raise_for_second_row, raise_for_none, scalar)` -/
def onlyOne (sss : Bool) (h : Handle) (second rnone scalar : Bool) (s : σ) : Out × σ :=
  match O.fetchone true s with
  | (.error e, s') => (.err e, s')
  | (.ok none, s') => (if rnone then .err .noResult else .none, s')
  | (.ok (some rw), s') =>
    -- `if scalar and self._source_supports_scalars: make_row = None`
    let h1 : Handle := if scalar && sss then { h with view := .scalars } else h
    let it := mkItem sss h1 rw
    let fin (s2 : σ) : Out × σ :=
      if scalar then (.val ((itemVals it).headD 0), s2) else (.item (postItem sss h it), s2)
    if second then
      match h.uq with
      | some u =>
        match skipEq O sss h1 u.strat (keyOf u.strat it) (O.size s' + 1) s' with
        | (.error e, s2) => (.err e, s2)
        | (.ok true, s2) => (.err .multiple, O.softClose true s2)
        | (.ok false, s2) => fin s2
      | none =>
        match O.fetchone true s' with
        | (.error e, s2) => (.err e, s2)
        | (.ok (some _), s2) => (.err .multiple, O.softClose true s2)
        | (.ok none, s2) => fin s2
    else fin (O.softClose true s')

inductive Tgt | r | v
deriving DecidableEq, Repr

inductive Op
  | unique (t : Tgt) (s : UStrat)
  | columns (t : Tgt) (idxs : List Nat)
  | yieldPer (t : Tgt) (n : Nat)
  | scalars (i : Nat)
  | mappings
  | fetchone (t : Tgt)
  | next (t : Tgt)
  | fetchmany (t : Tgt) (n : Option Nat)
  | fetchall (t : Tgt)
  | iter (t : Tgt) (k : Nat)
  | partitions (t : Tgt) (n : Option Nat) (k : Nat)
  | first (t : Tgt)
  | one (t : Tgt)
  | oneOrNone (t : Tgt)
  | scalar
  | scalarOne
  | scalarOneOrNone
  | close (t : Tgt)
  | closed (t : Tgt)
  | freeze
deriving DecidableEq, Repr

def getH (st : St σ) : Tgt → Handle
  | .r => st.r
  | .v => match st.v with
    | some h => h
    | none => st.r

def setH (st : St σ) (t : Tgt) (h : Handle) (s : σ) : St σ :=
  match t with
  | .r => { st with r := h, src := s }
  | .v => match st.v with
    | some _ => { st with v := some h, src := s }
    | none => { st with r := h, src := s }

/-- `SimpleResultMetaData._reduce` / `CursorResultMetaData._reduce`: integer keys index
    the current keys (IndexError when out of range) and compose with the
    translated indexes -/
def reduceCols (width : Nat) (cols : Option (List Nat)) (idxs : List Nat) : Option (List Nat) :=
  let cur := match cols with
    | none => List.range width
    | some c => c
  if idxs.all (fun i => i < cur.length) then some (idxs.map (fun i => cur.getD i 0)) else none

def exOut : Except Err (Option Item) → Out
  | .error e => .err e
  | .ok none => .none
  | .ok (some it) => .item it

/-- one call on the facade; the Bool is a *hazard* flag (see `SrcOps.corner`, `ypLossy`) -/
def step (st : St σ) : Op → (Out × Bool) × St σ
  | .unique t u => ((.unit, false), setH st t { getH st t with uq := some { seen := [], strat := u } } st.src)
  | .columns t idxs =>
    let h := getH st t
    if st.sss && idxs.length == 1 then ((.unit, false), st) else
    match reduceCols st.width h.cols idxs with
    | none => ((.err .index, false), st)
    | some c => ((.unit, false), setH st t { h with cols := some c } st.src)
  | .yieldPer _ n =>
    ((.unit, O.ypLossy st.src), { st with yp := some n, src := O.yieldPer n st.src })
  | .scalars i =>
    if st.sss then ((.unit, false), { st with v := some { st.r with view := .scalars } }) else
    match reduceCols st.width st.r.cols [i] with
    | none => ((.err .index, false), st)
    | some c => ((.unit, false), { st with v := some { view := .scalars, cols := some c, uq := st.r.uq } })
  | .mappings => ((.unit, false), { st with v := some { st.r with view := .mappings } })
  | .fetchone t =>
    match onerow O false st.sss (getH st t) st.src with
    | (r, h', s') => ((exOut r, false), setH st t h' s')
  | .next t =>
    match onerow O false st.sss (getH st t) st.src with
    | (.ok none, h', s') => ((.err .stopIter, false), setH st t h' s')
    | (r, h', s') => ((exOut r, false), setH st t h' s')
  | .fetchmany t n =>
    match manyrows O st.sss st.yp (getH st t) n st.src with
    | (.error e, h', s') => ((.err e, false), setH st t h' s')
    | (.ok l, h', s') => ((.items l, false), setH st t h' s')
  | .fetchall t =>
    match allrows O st.sss (getH st t) st.src with
    | (o, h', s') => ((o, false), setH st t h' s')
  | .iter t k =>
    match iterLoop O st.sss k (getH st t) st.src with
    | (.error e, h', s') => ((.err e, false), setH st t h' s')
    | (.ok l, h', s') => ((.items l, false), setH st t h' s')
  | .partitions t n k =>
    match partLoop O st.sss st.yp n k (getH st t) st.src with
    | (.error e, h', s') => ((.err e, false), setH st t h' s')
    | (.ok l, h', s') => ((.parts l, false), setH st t h' s')
  | .first t =>
    match onlyOne O st.sss (getH st t) false false false st.src with
    | (o, s') => ((o, O.corner st.src), { st with src := s' })
  | .one t =>
    match onlyOne O st.sss (getH st t) true true false st.src with
    | (o, s') => ((o, O.corner st.src), { st with src := s' })
  | .oneOrNone t =>
    match onlyOne O st.sss (getH st t) true false false st.src with
    | (o, s') => ((o, O.corner st.src), { st with src := s' })
  | .scalar =>
    match onlyOne O st.sss st.r false false true st.src with
    | (o, s') => ((o, O.corner st.src), { st with src := s' })
  | .scalarOne =>
    match onlyOne O st.sss st.r true true true st.src with
    | (o, s') => ((o, O.corner st.src), { st with src := s' })
  | .scalarOneOrNone =>
    match onlyOne O st.sss st.r true false true st.src with
    | (o, s') => ((o, O.corner st.src), { st with src := s' })
  | .close _ => ((.unit, false), { st with src := O.softClose true st.src })
  | .closed _ => ((.bool (O.isHard st.src), false), st)
  | .freeze =>
    -- FrozenResult(result): `result.fetchall()` (or the raw iterator for scalar sources),
    -- then `frozen()` = IteratorResult over the data with `_for_freeze()` metadata
    if st.sss then
      match O.drainRaw st.src with
      | (rows, _) =>
        ((.unit, false), { st with src := O.ofList rows, yp := none,
                                   r := { view := .rows, cols := none, uq := none }, v := none })
    else
      match allrows O false st.r st.src with
      | (.items l, _, _) =>
        let w := match st.r.cols with
          | none => st.width
          | some c => c.length
        ((.unit, false), { src := O.ofList (l.map itemVals), sss := false, width := w, yp := none,
                           r := { view := .rows, cols := none, uq := none }, v := none })
      | (o, h', s') => ((o, false), { st with r := h', src := s' })

def run (st : St σ) : List Op → List (Out × Bool)
  | [] => []
  | op :: ops =>
    match step O st op with
    | (o, st') => o :: run st' ops

end L2

def Handle.init : Handle := { view := .rows, cols := none, uq := none }

def St.init {σ : Type} (s : σ) (sss : Bool) (width : Nat) : St σ :=
  { src := s, sss := sss, width := width, yp := none, r := Handle.init, v := none }

end SaVerif.Result
