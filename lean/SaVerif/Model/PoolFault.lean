/-
M-POOL (part 2): the record / fairy fault machine.  Sequential transcription of
lib/sqlalchemy/pool/base.py (`_ConnectionRecord`, `_ConnectionFairy._checkout`,
`_finalize_fairy`, `Pool._invalidate`) on top of the sequential reading of
`QueuePool._do_get / _do_return_conn` (pool/impl.py).  Import-free, total, executable.

Python                                           model
-----------------------------------------------  -------------------------------------------
time.time()                                      `tick`: returns the logical clock and
                                                 advances it (strictly increasing per call --
                                                 the assumption stated in get_connection's
                                                 own comment)
DBAPI connection objects                         indices into the ledger `conns : List Bool`
                                                 (true = open, false = close() was called)
fault plan (consumed at every DBAPI call /       `plan : List Nat`, one entry per fault point, in
 checkout event, in program order)               call order: connect n%2, close n%2 (error is
                                                 swallowed by Pool._close_connection), reset
                                                 (rollback/commit) n%2, ping n%3 (0 ok, 1 dis-
                                                 connect → False, 2 other error), checkout event
                                                 n%4 (0 ok, 1 DisconnectionError, 2 Invalidate-
                                                 PoolError, 3 other error); exhausted plan = 0
_ConnectionRecord                                `Rec` {conn, start, softInv, fresh, inUse}
   .dbapi_connection / .starttime /              (inUse = `fairy_ref is not None`)
   ._soft_invalidate_time / .fresh / .fairy_ref
_ConnectionFairy (counter always 1)              `Fairy` {rid, conn}; handles = checkout serials
pool._invalidate_time                            `invTime`
__connect                                        `connect`
__close / close                                  `closeRec`
invalidate(e, soft)                              `invalidate`
get_connection                                   `getConnection`
_do_get (one thread, timeout 0)                  `doGet`
_do_return_conn                                  `doReturn`
checkin / _checkin_failed                        `checkin` / `checkinFailed`
_ConnectionRecord.checkout + _ConnectionFairy.   `checkout` (+ `checkoutLoop`, fuel = attempts)
  _checkout (pre-ping, checkout event, 2 attempts)
_finalize_fairy (explicit close / GC)            `finalize`
fairy.invalidate(soft) / pool._invalidate(fairy) `opInvalidate` / `opSoft` / `opPoolInvalidate`
-/
namespace SaVerif.PoolFault

structure Cfg where
  size     : Nat
  maxOv    : Int      -- already normalised: -1 when size = 0
  lifo     : Bool
  recycle  : Int      -- -1 = off
  prePing  : Bool
  reset    : Nat      -- 0 rollback, 1 commit, 2 none
  hasEvent : Bool     -- a `checkout` listener is registered
deriving Repr, DecidableEq

structure Rec where
  conn    : Option Nat
  start   : Nat
  softInv : Nat
  fresh   : Bool
  inUse   : Bool
deriving Repr, DecidableEq

structure Fairy where
  rid  : Nat
  conn : Option Nat
deriving Repr, DecidableEq

structure St where
  clock    : Nat
  invTime  : Nat
  recs     : List Rec
  queue    : List Nat
  overflow : Int
  conns    : List Bool
  fairies  : List (Option Fairy)
  plan     : List Nat
deriving Repr, DecidableEq

def init (c : Cfg) (plan : List Nat) : St :=
  { clock := 1, invTime := 0, recs := [], queue := [], overflow := -(c.size : Int),
    conns := [], fairies := [], plan := plan }

def blankRec : Rec := { conn := none, start := 0, softInv := 0, fresh := false, inUse := false }

def getRec (st : St) (r : Nat) : Rec := st.recs.getD r blankRec

def setRec (st : St) (r : Nat) (x : Rec) : St := { st with recs := st.recs.set r x }

/-- `time.time()` returns `st.clock` and the clock advances -/
def tickSt (st : St) : St := { st with clock := st.clock + 1 }

/-- current entry of the fault plan (0 = no fault once exhausted) / consume it -/
def curFault (st : St) : Nat := st.plan.headD 0
def dropFault (st : St) : St := { st with plan := st.plan.tail }

/-- `__connect`, first half: `self.dbapi_connection = None; self.starttime = time.time()` -/
def connectPre (st : St) (r : Nat) : St :=
  setRec (tickSt st) r { getRec st r with conn := none, start := st.clock }

/-- `__connect`, creator succeeded: a new ledger entry, `self.fresh = True` -/
def connectOk (st : St) (r : Nat) : St :=
  setRec { st with conns := st.conns ++ [true] } r
    { getRec st r with conn := some st.conns.length, fresh := true }

/-- `_ConnectionRecord.__connect`: true = connected -/
def connect (st : St) (r : Nat) : St × Bool :=
  if curFault (connectPre st r) % 2 == 1 then (dropFault (connectPre st r), false)
  else (connectOk (dropFault (connectPre st r)) r, true)

/-- ledger entry `c` closed, record `r` forgets it -/
def closeConn (st : St) (r c : Nat) : St :=
  setRec { st with conns := st.conns.set c false } r { getRec st r with conn := none }

/-- `__close` / `close()`: the DBAPI close() may raise (one fault point);
    `_close_connection` swallows it -/
def closeRec (st : St) (r : Nat) : St :=
  match (getRec st r).conn with
  | none => st
  | some c => closeConn (dropFault st) r c

/-- `_ConnectionRecord.invalidate(e, soft)` -/
def invalidate (st : St) (r : Nat) (soft : Bool) : St :=
  match (getRec st r).conn with
  | none => st
  | some _ =>
    if soft then setRec (tickSt st) r { getRec st r with softInv := st.clock }
    else closeRec st r

/-- the three staleness tests of `get_connection` on a record created at `x.start` -/
def stale (st : St) (x : Rec) : Bool := decide (x.start < st.invTime) || decide (x.start < x.softInv)

/-- `_ConnectionRecord.get_connection`: true = a connection is available -/
def getConnection (c : Cfg) (st : St) (r : Nat) : St × Bool :=
  match (getRec st r).conn with
  | none => connect st r
  | some _ =>
    if 0 ≤ c.recycle then
      -- `time.time() - self.starttime > self.__pool._recycle` (consumes a tick)
      if c.recycle < (st.clock : Int) - (getRec st r).start ∨ stale st (getRec st r) = true then
        connect (closeRec (tickSt st) r) r
      else (tickSt st, true)
    else if stale st (getRec st r) = true then connect (closeRec st r) r
    else (st, true)

def full (c : Cfg) (q : List Nat) : Bool := decide (0 < c.size) && (q.length == c.size)

/-- `_do_return_conn` -/
def doReturn (c : Cfg) (st : St) (r : Nat) : St :=
  if full c st.queue then { closeRec st r with overflow := st.overflow - 1 }
  else { st with queue := st.queue ++ [r] }

/-- `_ConnectionRecord.checkin(_fairy_was_created)` -/
def checkin (c : Cfg) (st : St) (r : Nat) (fairyWasCreated : Bool) : St :=
  if (getRec st r).inUse = false ∧ fairyWasCreated = true then st   -- "Double checkin attempted"
  else doReturn c (setRec st r { getRec st r with inUse := false }) r

/-- `_checkin_failed` -/
def checkinFailed (c : Cfg) (st : St) (r : Nat) (fairyWasCreated : Bool) : St :=
  checkin c (invalidate st r false) r fairyWasCreated

inductive GetRes
  | ok (r : Nat)
  | timeout
  | connectError
deriving Repr, DecidableEq

def takeOne (lifo : Bool) (q : List Nat) : Option (Nat × List Nat) :=
  if lifo then
    match q.getLast? with
    | some r => some (r, q.dropLast)
    | none => none
  else
    match q with
    | r :: rest => some (r, rest)
    | [] => none

/-- a brand-new record slot (`_ConnectionRecord.__init__` before `__connect`) -/
def newRec (st : St) : St :=
  { st with overflow := st.overflow + 1, recs := st.recs ++ [blankRec] }

/-- `_do_get` read sequentially (pool timeout 0: a blocking get on an empty queue
    raises Empty at once) -/
def doGet (c : Cfg) (st : St) : St × GetRes :=
  match takeOne c.lifo st.queue with
  | some (r, rest) => ({ st with queue := rest }, .ok r)
  | none =>
    if -1 < c.maxOv ∧ c.maxOv ≤ st.overflow then (st, .timeout)
    else if (connect (newRec st) st.recs.length).2 then
      ((connect (newRec st) st.recs.length).1, .ok st.recs.length)
    else
      ({ (connect (newRec st) st.recs.length).1 with
          overflow := (connect (newRec st) st.recs.length).1.overflow - 1 }, .connectError)

inductive CoRes
  | ok (handle r conn : Nat)
  | timeout
  | connectError
  | checkoutError       -- ping / listener raised something else
  | exhausted           -- "This connection is closed" after the attempts
deriving Repr, DecidableEq

/-- `Pool._invalidate(fairy, e, _checkin=False)` part: bump the pool invalidation time -/
def bumpInvTime (st : St) (r : Nat) : St :=
  if st.invTime < (getRec st r).start then { tickSt st with invTime := st.clock }
  else st

inductive LoopRes
  | ok (conn : Option Nat)   -- the listener accepted: deliver the record's connection
  | connectError             -- reconnect after a DisconnectionError failed
  | checkoutError            -- ping / listener raised something else
  | exhausted                -- "This connection is closed" after the attempts
deriving Repr, DecidableEq

/-- pre-ping phase of one attempt: 0 ok / not pinged, 1 disconnect, 2 other error -/
def pingRes (c : Cfg) (st : St) (fresh : Bool) : Nat :=
  if c.prePing ∧ fresh = false then curFault st % 3 else 0
def pingSt (c : Cfg) (st : St) (fresh : Bool) : St :=
  if c.prePing ∧ fresh = false then dropFault st else st

/-- checkout-event phase: 0 ok, 1 DisconnectionError, 2 InvalidatePoolError, 3 other -/
def evRes (c : Cfg) (st : St) (ping : Nat) : Nat :=
  if ping = 1 then 2 else if c.hasEvent then curFault st % 4 else 0
def evSt (c : Cfg) (st : St) (ping : Nat) : St :=
  if ping = 1 then st else if c.hasEvent then dropFault st else st

/-- DisconnectionError handling up to (not including) the reconnect -/
def afterDisconnect (st : St) (r : Nat) (ev : Nat) : St :=
  if ev = 2 then bumpInvTime (invalidate st r false) r else invalidate st r false

/-- the `while attempts > 0` loop of `_ConnectionFairy._checkout`; the record is
    in use by the fairy being built. -/
def checkoutLoop (c : Cfg) (r : Nat) : Nat → St → St × LoopRes
  | 0, st =>
    -- attempts exhausted: fairy.invalidate(); raise InvalidRequestError
    (if (getRec (invalidate st r false) r).inUse then checkin c (invalidate st r false) r true
     else invalidate st r false, .exhausted)
  | attempts + 1, st =>
    let fresh := (getRec st r).fresh
    let st1 := pingSt c (setRec st r { getRec st r with fresh := false }) fresh
    let ping := pingRes c (setRec st r { getRec st r with fresh := false }) fresh
    if ping = 2 then (checkinFailed c st1 r true, .checkoutError)
    else
      let ev := evRes c st1 ping
      let st2 := evSt c st1 ping
      if ev = 0 then (st2, .ok (getRec st2 r).conn)
      else if ev = 3 then (checkinFailed c st2 r true, .checkoutError)
      else if (getConnection c (afterDisconnect st2 r ev) r).2 then
        checkoutLoop c r attempts (getConnection c (afterDisconnect st2 r ev) r).1
      else (checkinFailed c (getConnection c (afterDisconnect st2 r ev) r).1 r true, .connectError)

/-- the fairy exists: `rec.fairy_ref = ref` -/
def markInUse (st : St) (r : Nat) : St := setRec st r { getRec st r with inUse := true }

/-- register the fairy handed to the caller -/
def addFairy (st : St) (r cn : Nat) : St :=
  { st with fairies := st.fairies ++ [some { rid := r, conn := some cn }] }

/-- `_ConnectionFairy._checkout` after the record has a connection -/
def checkoutFairy (c : Cfg) (st : St) (r : Nat) : St × LoopRes :=
  if !(c.hasEvent || c.prePing) then (markInUse st r, .ok (getRec (markInUse st r) r).conn)
  else checkoutLoop c r 2 (markInUse st r)

def finishCheckout (st : St) (r : Nat) : LoopRes → St × CoRes
  | .ok (some cn) => (addFairy st r cn, .ok st.fairies.length r cn)
  | .ok none => (st, .checkoutError)   -- unreachable: the record is connected
  | .connectError => (st, .connectError)
  | .checkoutError => (st, .checkoutError)
  | .exhausted => (st, .exhausted)

/-- `Pool.connect()` = `_ConnectionFairy._checkout(pool)` -/
def checkout (c : Cfg) (st : St) : St × CoRes :=
  match (doGet c st).2 with
  | .timeout => ((doGet c st).1, .timeout)
  | .connectError => ((doGet c st).1, .connectError)
  | .ok r =>
    if (getConnection c (doGet c st).1 r).2 then
      finishCheckout (checkoutFairy c (getConnection c (doGet c st).1 r).1 r).1 r
        (checkoutFairy c (getConnection c (doGet c st).1 r).1 r).2
    else (checkinFailed c (getConnection c (doGet c st).1 r).1 r false, .connectError)

/-- the reset-on-return step of `_finalize_fairy` (`fairy._reset`): one fault point
    unless reset_on_return is None; a failure invalidates the record -/
def resetStep (c : Cfg) (st : St) (r : Nat) (connArg : Option Nat) : St :=
  match connArg with
  | none => st
  | some _ =>
    if c.reset = 2 then st
    else if curFault st % 2 == 1 then invalidate (dropFault st) r false
    else dropFault st

/-- `_finalize_fairy` for a non-asyncio dialect.  `connArg` is the `dbapi_connection`
    argument (explicit close: the fairy's; GC: the record's). -/
def finalize (c : Cfg) (st : St) (r : Nat) (connArg : Option Nat) : St :=
  if (getRec (resetStep c st r connArg) r).inUse then checkin c (resetStep c st r connArg) r true
  else resetStep c st r connArg

inductive Op
  | co                      -- pool.connect()
  | ci (h : Nat)            -- fairy.close()
  | inv (h : Nat)           -- fairy.invalidate()
  | soft (h : Nat)          -- fairy.invalidate(soft=True)
  | pinv (h : Nat)          -- pool._invalidate(fairy)
  | drop (h : Nat)          -- del fairy  (weakref callback)
  | wait (n : Nat)          -- time passes
deriving Repr, DecidableEq

inductive Out
  | co (r : CoRes)
  | done
  | skip                    -- handle not live
deriving Repr, DecidableEq

def liveFairy (st : St) (h : Nat) : Option Fairy := (st.fairies.getD h none)

def release (st : St) (h : Nat) : St := { st with fairies := st.fairies.set h none }

/-- `fairy.invalidate()` (hard) -/
def hardInvalidate (c : Cfg) (st : St) (h : Nat) (f : Fairy) : St :=
  match f.conn with
  | none => st                                  -- "Can't invalidate an already-closed connection."
  | some _ =>
    let st := invalidate st f.rid false
    release (finalize c st f.rid none) h

def exec (c : Cfg) (st : St) : Op → St × Out
  | .co => let (st, r) := checkout c st; (st, .co r)
  | .wait n => ({ st with clock := st.clock + n }, .done)
  | .ci h =>
    match liveFairy st h with
    | none => (st, .skip)
    | some f => (release (finalize c st f.rid f.conn) h, .done)
  | .drop h =>
    match liveFairy st h with
    | none => (st, .skip)
    | some f => (release (finalize c st f.rid (getRec st f.rid).conn) h, .done)
  | .inv h =>
    match liveFairy st h with
    | none => (st, .skip)
    | some f => (hardInvalidate c st h f, .done)
  | .soft h =>
    match liveFairy st h with
    | none => (st, .skip)
    | some f =>
      match f.conn with
      | none => (st, .done)
      | some _ => (invalidate st f.rid true, .done)
  | .pinv h =>
    match liveFairy st h with
    | none => (st, .skip)
    | some f => (hardInvalidate c (bumpInvTime st f.rid) h f, .done)

def run (c : Cfg) : St → List Op → St × List Out
  | st, [] => (st, [])
  | st, op :: ops =>
    let (st1, o) := exec c st op
    let (st2, os) := run c st1 ops
    (st2, o :: os)

/-- `QueuePool.checkedout()` -/
def checkedout (c : Cfg) (st : St) : Int := (c.size : Int) - st.queue.length + st.overflow

end SaVerif.PoolFault
