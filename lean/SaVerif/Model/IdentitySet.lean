/-
M-COLL (2/4): transcription of `IdentitySet` (= `OrderedIdentitySet`) from
lib/sqlalchemy/util/_collections_cy.py.  Import-free, total, executable.

`_members : Dict[int, Any]` maps `id(obj)` to `obj`; the object is determined by its id, so
the model keeps the ordered key list only (dict insertion order is observable through
`__iter__`, and "the code assumes this class is ordered").

Python                                            model
------------------------------------------------  ------------------------------
members[k] = v   (keeps position if present)      dictSet
dict.update(members, other) / for obj in it: ...  dictUpdate
del members[k] (KeyError)                         IdSet.remove
members.popitem() (last item, KeyError)           IdSet.pop
{k: v for k, v in members.items() if k ∉ other}   filter
a.keys() <= b.keys()                              subsetB
a == b (dicts)                                    dictEq
IdentitySet(iterable)                             IdSet.init
add/discard/clear/copy/union/update/…             IdSet.*
__ixor__ → symmetric_difference_update            (same model op as the method; F18 fix)
-/
namespace SaVerif.Coll

abbrev ObjId := Nat

/-- `d[k] = v` on the key list: an existing key keeps its position -/
def dictSet (m : List ObjId) (k : ObjId) : List ObjId := if m.contains k then m else m ++ [k]

def dictUpdate (m : List ObjId) (ks : List ObjId) : List ObjId := ks.foldl dictSet m

def subsetB (a b : List ObjId) : Bool := a.all (fun k => b.contains k)

/-- dict equality: same size and every key of `a` in `b` (values are determined by keys) -/
def dictEq (a b : List ObjId) : Bool := a.length == b.length && subsetB a b

inductive IErr where
  | keyError | typeError
deriving Repr, DecidableEq

abbrev IdSet := List ObjId

namespace IdSet

/-- `__init__`: `if iterable: self.update(iterable)` (an empty iterable changes nothing) -/
def init (it : Option (List ObjId)) : IdSet :=
  match it with
  | none => []
  | some l => dictUpdate [] l

def add (m : IdSet) (x : ObjId) : IdSet := dictSet m x
def has (m : IdSet) (x : ObjId) : Bool := m.contains x

def remove (m : IdSet) (x : ObjId) : IdSet × Option IErr :=
  if m.contains x then (m.erase x, none) else (m, some .keyError)

/-- `try: self.remove(value) except KeyError: pass` -/
def discard (m : IdSet) (x : ObjId) : IdSet := (remove m x).1

def pop (m : IdSet) : IdSet × Except IErr ObjId :=
  match m.getLast? with
  | none => (m, .error .keyError)
  | some v => (m.dropLast, .ok v)

/-- `other = iterable if IdentitySet else self.__class__(iterable)`; keys comparison -/
def issubset (m : IdSet) (it : List ObjId) : Bool := subsetB m (init (some it))
def issuperset (m : IdSet) (it : List ObjId) : Bool := subsetB (init (some it)) m
def lt (m o : IdSet) : Bool := decide (m.length < o.length) && issubset m o
def gt (m o : IdSet) : Bool := decide (m.length > o.length) && issuperset m o

def update (m : IdSet) (it : List ObjId) : IdSet := dictUpdate m it

/-- `result._members.update(self._members); result.update(iterable)` -/
def union (m : IdSet) (it : List ObjId) : IdSet := update (dictUpdate [] m) it

def difference (m : IdSet) (it : List ObjId) : IdSet := m.filter (fun k => !it.contains k)
def intersection (m : IdSet) (it : List ObjId) : IdSet := m.filter (fun k => it.contains k)

/-- `other = {id(obj): obj for obj in iterable}` (or the argument's `_members`) -/
def symDiff (m : IdSet) (it : List ObjId) : IdSet :=
  let other := dictUpdate [] it
  dictUpdate (m.filter (fun k => !other.contains k)) (other.filter (fun k => !m.contains k))

def copy (m : IdSet) : IdSet := m

end IdSet

/-- arguments: any iterable of objects (ids in iteration order, duplicates possible) or a
    live IdentitySet -/
inductive ISrc where
  | lit (ids : List ObjId)
  | reg (r : Nat)
deriving Repr, DecidableEq

inductive IOp where
  | new (dst : Nat) (a : Option ISrc)
  | copy (dst r : Nat)
  | add (r : Nat) (x : ObjId)
  | remove (r : Nat) (x : ObjId)
  | discard (r : Nat) (x : ObjId)
  | pop (r : Nat)
  | clear (r : Nat)
  | contains (r : Nat) (x : ObjId)
  | len (r : Nat)
  | eq (r o : Nat)
  | ne (r o : Nat)
  | issubset (r : Nat) (a : ISrc)
  | issuperset (r : Nat) (a : ISrc)
  | lt (r o : Nat)
  | gt (r o : Nat)
  | update (r : Nat) (a : ISrc)
  | union (dst r : Nat) (a : ISrc)
  | difference (dst r : Nat) (a : ISrc)
  | intersection (dst r : Nat) (a : ISrc)
  | symDiff (dst r : Nat) (a : ISrc)
  | diffUpdate (r : Nat) (a : ISrc)
  | interUpdate (r : Nat) (a : ISrc)
  | symDiffUpdate (r : Nat) (a : ISrc)
deriving Repr

inductive IRet where
  | none
  | val (v : ObjId)
  | bool (b : Bool)
  | err (e : IErr)
deriving Repr, DecidableEq

abbrev IRegs := List IdSet

def IRegs.get (rs : IRegs) (r : Nat) : IdSet := rs.getD r []

def ISrc.ids (rs : IRegs) : ISrc → List ObjId
  | .lit l => l
  | .reg r => rs.get r

def istep (rs : IRegs) : IOp → IRegs × IRet
  | .new dst a => (rs.set dst (IdSet.init (a.map (ISrc.ids rs))), .none)
  | .copy dst r => (rs.set dst (rs.get r).copy, .none)
  | .add r x => (rs.set r ((rs.get r).add x), .none)
  | .remove r x =>
    let (m, e) := (rs.get r).remove x
    (rs.set r m, match e with | none => .none | some e => .err e)
  | .discard r x => (rs.set r ((rs.get r).discard x), .none)
  | .pop r =>
    let (m, v) := (rs.get r).pop
    (rs.set r m, match v with | .ok v => .val v | .error e => .err e)
  | .clear r => (rs.set r [], .none)
  | .contains r x => (rs, .bool ((rs.get r).has x))
  | .len r => (rs, .val (rs.get r).length)
  | .eq r o => (rs, .bool (dictEq (rs.get r) (rs.get o)))
  | .ne r o => (rs, .bool (!dictEq (rs.get r) (rs.get o)))
  | .issubset r a => (rs, .bool ((rs.get r).issubset (a.ids rs)))
  | .issuperset r a => (rs, .bool ((rs.get r).issuperset (a.ids rs)))
  | .lt r o => (rs, .bool ((rs.get r).lt (rs.get o)))
  | .gt r o => (rs, .bool ((rs.get r).gt (rs.get o)))
  | .update r a => (rs.set r ((rs.get r).update (a.ids rs)), .none)
  | .union dst r a => (rs.set dst ((rs.get r).union (a.ids rs)), .none)
  | .difference dst r a => (rs.set dst ((rs.get r).difference (a.ids rs)), .none)
  | .intersection dst r a => (rs.set dst ((rs.get r).intersection (a.ids rs)), .none)
  | .symDiff dst r a => (rs.set dst ((rs.get r).symDiff (a.ids rs)), .none)
  | .diffUpdate r a => (rs.set r ((rs.get r).difference (a.ids rs)), .none)
  | .interUpdate r a => (rs.set r ((rs.get r).intersection (a.ids rs)), .none)
  | .symDiffUpdate r a => (rs.set r ((rs.get r).symDiff (a.ids rs)), .none)

def irun (rs : IRegs) : List IOp → List (IRet × IRegs)
  | [] => []
  | op :: ops => let (rs', ret) := istep rs op; (ret, rs') :: irun rs' ops

def ifinal (rs : IRegs) (ops : List IOp) : IRegs := ops.foldl (fun rs op => (istep rs op).1) rs

end SaVerif.Coll
