/-
M-ORM / write-back: the abstract effect of a flush on a row store.

A table with a (self-)reference: rows `(pk, ref)` where `ref : Option Nat` is a nullable
foreign key into the same key space (several tables = disjoint key ranges).  A flush
plan is a list of row operations; `plan old new` is the difference of two object
graphs: INSERT what is new, UPDATE what changed, DELETE what is gone.
Import-free, total, executable.
-/
namespace SaVerif.WriteBack

abbrev Row := Nat × Option Nat
abbrev DB := List Row

inductive Op where
  | ins (k : Nat) (r : Option Nat)
  | upd (k : Nat) (r : Option Nat)
  | del (k : Nat)
  deriving DecidableEq, Repr

def Op.key : Op → Nat
  | .ins k _ => k | .upd k _ => k | .del k => k

def keys (db : DB) : List Nat := db.map (·.1)

/-- the row stored under `k` (first match) -/
def look (db : DB) (k : Nat) : Option (Option Nat) := db.lookup k

def applyOp (db : DB) : Op → DB
  | .ins k r => (k, r) :: db
  | .upd k r => db.map (fun row => if row.1 == k then (k, r) else row)
  | .del k => db.filter (fun row => row.1 != k)

def applyAll (db : DB) (ops : List Op) : DB := ops.foldl applyOp db

/-- the operation the difference of two graphs asks for at key `k` -/
def opFor (old new : DB) (k : Nat) : Option Op :=
  match look old k, look new k with
  | none, some r => some (.ins k r)
  | some r0, some r => if r0 == r then none else some (.upd k r)
  | some _, none => some (.del k)
  | none, none => none

/-- first occurrences only -/
def dedup : List Nat → List Nat
  | [] => []
  | x :: t => x :: (dedup t).filter (· != x)

/-- the flush plan: one operation per key that differs (keys of either graph, no key twice) -/
def plan (old new : DB) : List Op :=
  (dedup (keys old ++ keys new)).filterMap (opFor old new)

/-- every foreign key points at a stored row -/
def fkClosed (db : DB) : Bool :=
  db.all (fun row => match row.2 with
                     | none => true
                     | some p => (keys db).contains p)

end SaVerif.WriteBack
