/-
M-EVENT: transcription of the listener registry of lib/sqlalchemy/event
(attr.py `_ClsLevelDispatch`, `_EmptyListener`, `_ListenerCollection`;
registry.py `_EventKey.listen/remove`, `_stored_in_collection`; util `only_once`,
`walk_subclasses`) for ONE event name over a single-inheritance class tree whose
classes and instances may be created at any time.  Import-free, total, executable.

Python                                            model
------------------------------------------------  ------------------------------------------
target classes (created dynamically)              `parent : List (Option Cls)`; index = creation
                                                  order, so a parent precedes its subclasses
_ClsLevelDispatch._clslevel (WeakKeyDictionary     `clslevel : List (Option (List Lsn))`
   class -> deque), entry created lazily            none = class not in the dict yet
listener function objects                          `Lsn` ids; ids < nFns are the user functions
                                                  themselves, larger ids are wrappers
                                                  (`once=True` -> util.only_once, `named=True`
                                                  -> _wrap_fn_for_kw), `lsn[l].fn` = user fn
instance.dispatch.<ev> : _EmptyListener /          `Inst.coll : Option (List Lsn)`
   _ListenerCollection.listeners                    (none = still the shared _EmptyListener)
registry._key_to_collection                        `reg : List RegEntry`, key = (target, fn)
   (id(target), identifier, id(fn)) ->              (one owner per key: the class-level
   {collection ref -> listener ref}                 dispatch or the instance's collection)
util.walk_subclasses(target)                       classes k ≥ target that descend from it, in
                                                  creation order (parents before children,
                                                  which is all the code relies on)
update_subclass(cls)                               `updateSubclass`
_do_insert_or_append / remove                      `listenCls` / `removeCls`
_ListenerCollection.append/insert/remove           `listenInst` / `removeInst` (append/insert are
                                                  skipped when the key is already stored:
                                                  "doubles are eliminated")
_EmptyListener.__call__ / _CompoundListener.       `fire`: class-level deque of the instance's
   __call__                                         class, then the instance's own listeners
-/
namespace SaVerif.Event

abbrev Cls := Nat
abbrev Lsn := Nat

inductive Target
  | cls (c : Cls)
  | inst (i : Nat)
deriving Repr, DecidableEq

structure LInfo where
  fn    : Nat
  once  : Bool
  fired : Bool
deriving Repr, DecidableEq

structure Inst where
  cls  : Cls
  coll : Option (List Lsn)
deriving Repr, DecidableEq

structure RegEntry where
  target : Target
  fn     : Nat
  lsn    : Lsn
  ins    : Bool      -- ghost: was the listener registered with insert=True (only the spec reads it)
deriving Repr, DecidableEq

structure St where
  parent   : List (Option Cls)
  clslevel : List (Option (List Lsn))
  insts    : List Inst
  reg      : List RegEntry
  lsn      : List LInfo
deriving Repr, DecidableEq

/-- one root class, `nFns` user functions -/
def init (nFns : Nat) : St :=
  { parent := [none], clslevel := [none], insts := [], reg := [],
    lsn := (List.range nFns).map (fun k => { fn := k, once := false, fired := false }) }

def nClasses (st : St) : Nat := st.parent.length

def parentOf (st : St) (k : Cls) : Option Cls := (st.parent.getD k none)

/-- `k.__mro__[1:]` restricted to event targets: nearest ancestor first -/
def ancestors (st : St) : Nat → Cls → List Cls
  | 0, _ => []
  | fuel + 1, k =>
    match parentOf st k with
    | some p => p :: ancestors st fuel p
    | none => []

/-- a parent is created before its subclasses, so `k + 1` steps always reach the root -/
def ancestorsOf (st : St) (k : Cls) : List Cls := ancestors st (k + 1) k

/-- `k` is `c` or a subclass of `c` -/
def descOrSelf (st : St) (c k : Cls) : Bool := k == c || (ancestorsOf st k).contains c

/-- `util.walk_subclasses(c)` -/
def walkSubclasses (st : St) (c : Cls) : List Cls :=
  (List.range (nClasses st)).filter (fun k => descOrSelf st c k)

def dequeOf (st : St) (k : Cls) : Option (List Lsn) := (st.clslevel.getD k none)

def setDeque (st : St) (k : Cls) (d : List Lsn) : St :=
  { st with clslevel := st.clslevel.set k (some d) }

/-- `update_subclass(k)`: create the deque if needed, then extend it, ancestor by
    ancestor (MRO order), with that ancestor's listeners not already present -/
def updateSubclass (st : St) (k : Cls) : St :=
  let cur := (dequeOf st k).getD []
  let d := (ancestorsOf st k).foldl
    (fun acc a =>
      match dequeOf st a with
      | some l => acc ++ l.filter (fun x => !acc.contains x)
      | none => acc) cur
  setDeque st k d

/-- allocate the listener object for a `listen` call: the function itself, or a fresh
    wrapper (`wrap` 1 = once, 2 = named) -/
def mkListener (st : St) (fn : Nat) (wrap : Nat) : St × Lsn :=
  if wrap = 0 then (st, fn)
  else ({ st with lsn := st.lsn ++ [{ fn := fn, once := wrap == 1, fired := false }] }, st.lsn.length)

def hasKey (st : St) (t : Target) (fn : Nat) : Bool :=
  st.reg.any (fun e => e.target == t && e.fn == fn)

def findKey (st : St) (t : Target) (fn : Nat) : Option RegEntry :=
  st.reg.find? (fun e => e.target == t && e.fn == fn)

/-- `registry._stored_in_collection`: keeps the first listener recorded for the key -/
def storeKey (st : St) (t : Target) (fn : Nat) (l : Lsn) (ins : Bool) : St :=
  if hasKey st t fn then st
  else { st with reg := st.reg ++ [{ target := t, fn := fn, lsn := l, ins := ins }] }

/-- body of the `for cls in walk_subclasses(target)` loop of `_do_insert_or_append` -/
def insertInto (c : Cls) (l : Lsn) (insert : Bool) (st : St) (k : Cls) : St :=
  if k ≠ c ∧ (dequeOf st k).isNone then updateSubclass st k
  else
    let st := if (dequeOf st k).isNone then updateSubclass st k else st
    let d := (dequeOf st k).getD []
    setDeque st k (if insert then l :: d else d ++ [l])

def listenCls (st : St) (c : Cls) (fn : Nat) (insert : Bool) (wrap : Nat) : St :=
  let (st, l) := mkListener st fn wrap
  let st := (walkSubclasses st c).foldl (insertInto c l insert) st
  storeKey st (.cls c) fn l insert

def setColl (st : St) (i : Nat) (d : List Lsn) : St :=
  match st.insts[i]? with
  | some x => { st with insts := st.insts.set i { x with coll := some d } }
  | none => st

def collOf (st : St) (i : Nat) : List Lsn :=
  match st.insts[i]? with
  | some x => x.coll.getD []
  | none => []

def listenInst (st : St) (i : Nat) (fn : Nat) (insert : Bool) (wrap : Nat) : St :=
  let (st, l) := mkListener st fn wrap
  -- for_modify(): the instance gets its own _ListenerCollection
  let st := setColl st i (collOf st i)
  if hasKey st (.inst i) fn then st          -- doubles are eliminated
  else
    let d := collOf st i
    storeKey (setColl st i (if insert then l :: d else d ++ [l])) (.inst i) fn l insert

def dropKey (st : St) (t : Target) (fn : Nat) : St :=
  { st with reg := st.reg.filter (fun e => !(e.target == t && e.fn == fn)) }

/-- `_ClsLevelDispatch.remove`: `deque.remove(fn)` in every subclass that has a deque.
    Bool = some deque did not contain the listener (Python: ValueError) -/
def removeCls (st : St) (c : Cls) (l : Lsn) : St × Bool :=
  (walkSubclasses st c).foldl
    (fun (acc : St × Bool) k =>
      match dequeOf acc.1 k with
      | some d => if d.contains l then (setDeque acc.1 k (d.erase l), acc.2) else (acc.1, true)
      | none => acc) (st, false)

inductive Op
  | listen (t : Target) (fn : Nat) (insert : Bool) (wrap : Nat)
  | remove (t : Target) (fn : Nat)
  | subclass (p : Cls)
  | newinst (c : Cls)
  | fire (i : Nat)
deriving Repr, DecidableEq

inductive Out
  | done
  | calls (fns : List Nat)
  | noSuchListener          -- InvalidRequestError: "No listeners found for event"
  | valueError              -- deque.remove(x): x not in deque
  | badTarget               -- harness never sends these (unknown class / instance)
deriving Repr, DecidableEq

/-- call the listeners in order; a `once` wrapper runs its function only the first time -/
def callAll (st : St) : List Lsn → St × List Nat
  | [] => (st, [])
  | l :: rest =>
    match st.lsn[l]? with
    | none => callAll st rest
    | some info =>
      if info.once then
        if info.fired then callAll st rest
        else
          let st1 := { st with lsn := st.lsn.set l { info with fired := true } }
          let (st2, cs) := callAll st1 rest
          (st2, info.fn :: cs)
      else
        let (st2, cs) := callAll st rest
        (st2, info.fn :: cs)

def exec (st : St) : Op → St × Out
  | .listen (.cls c) fn ins wrap =>
    if c < nClasses st then (listenCls st c fn ins wrap, .done)
    else (st, .badTarget)
  | .listen (.inst i) fn ins wrap =>
    if i < st.insts.length then (listenInst st i fn ins wrap, .done) else (st, .badTarget)
  | .remove t fn =>
    match findKey st t fn with
    | none => (st, .noSuchListener)
    | some e =>
      let st := dropKey st t fn
      match t with
      | .cls c =>
        let (st, bad) := removeCls st c e.lsn
        (st, if bad then .valueError else .done)
      | .inst i =>
        let d := collOf st i
        if d.contains e.lsn then (setColl st i (d.erase e.lsn), .done) else (st, .valueError)
  | .subclass p =>
    if p < nClasses st then
      ({ st with parent := st.parent ++ [some p], clslevel := st.clslevel ++ [none] }, .done)
    else (st, .badTarget)
  | .newinst c =>
    if c < nClasses st then
      -- first access of `obj.dispatch` builds the _EmptyListener: update_subclass if absent
      let st := if (dequeOf st c).isNone then updateSubclass st c else st
      ({ st with insts := st.insts ++ [{ cls := c, coll := none }] }, .done)
    else (st, .badTarget)
  | .fire i =>
    match st.insts[i]? with
    | none => (st, .badTarget)
    | some x =>
      let (st, cs) := callAll st ((dequeOf st x.cls).getD [] ++ x.coll.getD [])
      (st, .calls cs)

def run : St → List Op → St × List Out
  | st, [] => (st, [])
  | st, op :: ops =>
    let (st1, o) := exec st op
    let (st2, os) := run st1 ops
    (st2, o :: os)

end SaVerif.Event
