import SaVerif.Model.Topo
import SaVerif.Gen.DdlCfg
/-
M-DDL: transcription of lib/sqlalchemy/sql/ddl.py
  sort_tables_and_constraints / sort_tables
  SchemaGenerator.visit_metadata / visit_table / visit_foreign_key_constraint
  SchemaDropper.visit_metadata / visit_table / visit_foreign_key_constraint
plus the pieces of sql/compiler.py (DDLCompiler.create_table_constraints,
visit_drop_constraint) and sql/schema.py (Constraint._should_create_for_compiler,
MetaData.sorted_tables) that decide WHICH foreign keys go inline, and a strict
backend (PostgreSQL's rule) on which the emitted DDL is executed.
Core Lean only (uses M-TOPO), total, executable.

Python                                          model
----------------------------------------------  ------------------------------------------
Table (key unique in MetaData.tables)           Tbl.id
table.foreign_key_constraints (a set)           Tbl.fkcs (list; order never observed)
fkc.referred_table / use_alter / name is None   Fkc.ref / useAlter / named
table._extra_dependencies                       Tbl.extra        (add_is_dependent_on)
table.indexes                                   Tbl.indexes
filter_fn (None | callable -> True/False/None)  Filter = Option (Fkc → Option Bool)
fixed_dependencies / mutable_dependencies       lists of (parent, child); only membership is used
remaining_fkcs (set of constraints)             list of (owner table id, Fkc), deduplicated at the end
topological.sort(deps, tables)                  Topo.sort deps ids            (none = CircularDependencyError)
err.cycles = find_cycles(tuples, allitems)      cyc tuples   (parameter; `Topo.findCycles` in `sortTC`)
err.edges = _gen_edges(edges) (= set(tuples))   the tuple list itself
for edge in err.edges: ...                      foldl breakEdge  (set iteration order: the step is
                                                idempotent per table, result is order independent —
                                                validated by the correspondence run)
[(t, fkcs(t) - remaining)...] + [(None, rem)]   Sorted.order / inlineOf / Sorted.remaining
AddConstraint(c, isolate_from_table=True)       the constraint's `_create_rule` is replaced: the object is
                                                skipped by every later CREATE TABLE  → `disabled` list
dialect.supports_alter                          sa : Bool
checkfirst + dialect.has_table                  `present` list, `checkfirst : Bool`
-/
namespace SaVerif.Ddl
open SaVerif.Topo

structure Fkc where
  id : Nat
  ref : Nat
  useAlter : Bool
  named : Bool
deriving DecidableEq, Repr

structure Tbl where
  id : Nat
  fkcs : List Fkc
  extra : List Nat
  indexes : List Nat
deriving Repr

/-- a constraint is identified by its owning table and its record -/
abbrev FkRef := Nat × Fkc

/-- `filter_fn` of sort_tables_and_constraints -/
abbrev Filter := Option (Fkc → Option Bool)

/-- SchemaGenerator: `sort_tables_and_constraints(tables)` -/
def fltCreate : Filter := none
/-- SchemaDropper: `False if not supports_alter or constraint.name is None else None` -/
def fltDrop (sa : Bool) : Filter :=
  some (fun f => if !sa || !f.named then some false else none)

/-- `filter_fn and filter_fn(fkc) is True` -/
def filteredTrue (flt : Filter) (f : Fkc) : Bool :=
  match flt with
  | none => false
  | some g => g f == some true

/-- `filter_fn is None or filter_fn(fkc) is not False` -/
def removable (flt : Filter) (f : Fkc) : Bool :=
  match flt with
  | none => true
  | some g => g f != some false

/-- goes to `remaining_fkcs` in the first loop (`continue` branches) -/
def deferred (flt : Filter) (f : Fkc) : Bool := f.useAlter || filteredTrue flt f

def ids (tables : List Tbl) : List Nat := tables.map (·.id)

def lookup (tables : List Tbl) (i : Nat) : Option Tbl := tables.find? (fun t => t.id == i)

/-- first loop: `remaining_fkcs` -/
def remaining0 (flt : Filter) (tables : List Tbl) : List FkRef :=
  tables.flatMap (fun t => (t.fkcs.filter (deferred flt)).map (fun f => (t.id, f)))

/-- first loop: `mutable_dependencies` -/
def mutable0 (flt : Filter) (tables : List Tbl) : List Edge :=
  tables.flatMap (fun t =>
    (t.fkcs.filter (fun f => !deferred flt f && f.ref != t.id)).map (fun f => (f.ref, t.id)))

/-- `fixed_dependencies`: the `extra_dependencies` argument and `table._extra_dependencies` -/
def fixedDeps (extraArg : List Edge) (tables : List Tbl) : List Edge :=
  extraArg ++ tables.flatMap (fun t => t.extra.map (fun p => (p, t.id)))

/-- body of `for edge in err.edges` -/
def breakEdge (flt : Filter) (tables : List Tbl) (cycles : List Nat)
    (st : List FkRef × List Edge) (e : Edge) : List FkRef × List Edge :=
  if st.2.contains e then
    if cycles.contains e.2 then
      match lookup tables e.2 with
      | none => st
      | some t =>
        let can := t.fkcs.filter (removable flt)
        (st.1 ++ can.map (fun f => (e.2, f)),
         st.2.filter (fun d => !(can.any (fun f => f.ref != e.2 && d == (f.ref, e.2)))))
    else st
  else st

/-- set semantics of `remaining_fkcs` -/
def dedup {α} [BEq α] : List α → List α
  | [] => []
  | x :: xs => if xs.contains x then dedup xs else x :: dedup xs

structure Sorted where
  order : List Nat
  remaining : List FkRef
deriving Repr

/-- sort_tables_and_constraints with `find_cycles` abstracted as `cyc` -/
def sortTCWith (cyc : List Edge → List Nat) (flt : Filter) (extraArg : List Edge)
    (tables : List Tbl) : Option Sorted :=
  let fixed := fixedDeps extraArg tables
  let rem0 := remaining0 flt tables
  let mut0 := mutable0 flt tables
  match sort (fixed ++ mut0) (ids tables) with
  | some cand => some ⟨cand, dedup rem0⟩
  | none =>
    let st := (fixed ++ mut0).foldl (breakEdge flt tables (cyc (fixed ++ mut0))) (rem0, mut0)
    match sort (fixed ++ st.2) (ids tables) with
    | some cand => some ⟨cand, dedup st.1⟩
    | none => none

def sortTC := sortTCWith findCycles

/-- `table.foreign_key_constraints.difference(remaining_fkcs)` -/
def inlineOf (s : Sorted) (t : Tbl) : List Fkc :=
  t.fkcs.filter (fun f => !s.remaining.contains (t.id, f))

/-- `sort_tables(tables)` without skip_fn (MetaData.sorted_tables passes the tables
    sorted by key) -/
def sortTables (tables : List Tbl) : Option (List Nat) :=
  (sortTC fltCreate [] tables).map (·.order)

/-! ## emission -/

inductive Op where
  | createTable (t : Nat) (inline : List Fkc)
  | createIndex (t : Nat) (ix : Nat)
  | addConstraint (t : Nat) (f : Fkc)
  | dropConstraint (t : Nat) (f : Fkc)
  | dropTable (t : Nat)
deriving DecidableEq, Repr

/-- the FOREIGN KEY clauses CREATE TABLE renders: `visit_table` passes
    `include_foreign_key_constraints` (reset to None when not supports_alter);
    `create_table_constraints` omits the others, the `use_alter` ones when the dialect
    supports ALTER, and those whose `_create_rule` was disabled by an earlier
    `AddConstraint(..., isolate_from_table=True)`. -/
def createInline (sa : Bool) (disabled : List FkRef) (s : Sorted) (t : Tbl) : List Fkc :=
  t.fkcs.filter (fun f =>
    (if sa then !s.remaining.contains (t.id, f) && !f.useAlter else true)
      && !disabled.contains (t.id, f))

/-- `SchemaGenerator.visit_table` (tables, then their indexes) -/
def createTableOps (sa : Bool) (disabled : List FkRef) (s : Sorted) (t : Tbl) : List Op :=
  Op.createTable t.id (createInline sa disabled s t) :: t.indexes.map (Op.createIndex t.id)

def tblsOf (tables : List Tbl) (order : List Nat) : List Tbl :=
  order.filterMap (lookup tables)

/-- `SchemaGenerator.visit_metadata` after sorting -/
def emitCreate (sa : Bool) (disabled : List FkRef) (tables : List Tbl) (s : Sorted) : List Op :=
  (tblsOf tables s.order).flatMap (createTableOps sa disabled s)
    ++ (if sa then s.remaining.map (fun r => Op.addConstraint r.1 r.2) else [])

/-- `SchemaDropper.visit_metadata` after sorting: `reversed(collection)` puts the
    `(None, remaining)` entry first -/
def emitDrop (sa : Bool) (s : Sorted) : List Op :=
  (if sa then s.remaining.map (fun r => Op.dropConstraint r.1 r.2) else [])
    ++ s.order.reverse.map Op.dropTable

/-- `[t for t in tables if self._can_create_table(t)]` -/
def toCreate (checkfirst : Bool) (present : List Nat) (tables : List Tbl) : List Tbl :=
  if checkfirst then tables.filter (fun t => !present.contains t.id) else tables

/-- `[t for t in tables if self._can_drop_table(t)]` -/
def toDrop (checkfirst : Bool) (present : List Nat) (tables : List Tbl) : List Tbl :=
  if checkfirst then tables.filter (fun t => present.contains t.id) else tables

/-- MetaData.create_all.  Returns the DDL and the new `disabled` list.
    `isolates` = the value `SchemaGenerator.visit_foreign_key_constraint` passes as
    `AddConstraint(..., isolate_from_table=...)` (regenerated from the source into
    `Gen/DdlCfg.lean`): when true every ALTERed constraint is disabled for later
    inline rendering. -/
def createAllWith (isolates : Bool) (sa checkfirst : Bool) (present : List Nat)
    (disabled : List FkRef) (tables : List Tbl) : Option (List Op × List FkRef) :=
  let cand := toCreate checkfirst present tables
  match sortTC fltCreate [] cand with
  | none => none
  | some s =>
    some (emitCreate sa disabled cand s, if sa && isolates then disabled ++ s.remaining else disabled)

def createAll := createAllWith SaVerif.Gen.DdlCfg.generatorIsolates

/-- MetaData.drop_all.  On CircularDependencyError a dialect without ALTER warns and
    drops in the given order; otherwise the error propagates (`none`). -/
def dropAll (sa checkfirst : Bool) (present : List Nat) (tables : List Tbl) : Option (List Op) :=
  let cand := toDrop checkfirst present tables
  match sortTC (fltDrop sa) [] cand with
  | some s => some (emitDrop sa s)
  | none => if sa then none else some (cand.map (fun t => Op.dropTable t.id))

/-! ## strict backend (referenced-table existence enforced, as PostgreSQL does) -/

structure DB where
  tables : List Nat
  fks : List FkRef
  idx : List (Nat × Nat)
deriving DecidableEq, Repr

def DB.empty : DB := ⟨[], [], []⟩

/-- `none` = the backend (or the DDL compiler, for an unnamed DROP CONSTRAINT) raises;
    adding a constraint that already exists is rejected -/
def exec (db : DB) : Op → Option DB
  | .createTable t inline =>
    if db.tables.contains t then none
    else if inline.all (fun f => f.ref == t || db.tables.contains f.ref) then
      some { db with tables := db.tables ++ [t], fks := db.fks ++ inline.map (fun f => (t, f)) }
    else none
  | .createIndex t ix =>
    if db.tables.contains t then some { db with idx := db.idx ++ [(t, ix)] } else none
  | .addConstraint t f =>
    if db.tables.contains t && db.tables.contains f.ref && !db.fks.contains (t, f) then
      some { db with fks := db.fks ++ [(t, f)] }
    else none
  | .dropConstraint t f =>
    if f.named && db.fks.contains (t, f) then
      some { db with fks := db.fks.filter (fun r => r != (t, f)) }
    else none
  | .dropTable t =>
    if db.tables.contains t && db.fks.all (fun r => r.2.ref != t || r.1 == t) then
      some { tables := db.tables.filter (· != t),
             fks := db.fks.filter (fun r => r.1 != t),
             idx := db.idx.filter (fun r => r.1 != t) }
    else none

def run (db : DB) (ops : List Op) : Option DB := ops.foldlM exec db

/-- SQLite's rule: no referenced-table check at DDL time (empty tables, so the implicit
    DELETE of DROP TABLE never trips a constraint); only name clashes are rejected.
    Used by the correspondence run on the real SQLite engine. -/
def execLenient (db : DB) : Op → Option DB
  | .createTable t inline =>
    if db.tables.contains t then none
    else some { db with tables := db.tables ++ [t], fks := db.fks ++ inline.map (fun f => (t, f)) }
  | .dropTable t =>
    if db.tables.contains t then
      some { tables := db.tables.filter (· != t),
             fks := db.fks.filter (fun r => r.1 != t),
             idx := db.idx.filter (fun r => r.1 != t) }
    else none
  | op => exec db op

end SaVerif.Ddl
