/-
M-IMV: "insertmanyvalues" — transcription of
  lib/sqlalchemy/sql/compiler.py   SQLCompiler._deliver_insertmanyvalues_batches
  lib/sqlalchemy/engine/default.py DefaultDialect._deliver_insertmanyvalues_batches
Import-free, total, executable.

Python                                              model
--------------------------------------------------  ---------------------------------------
if imv.is_default_expr and not supports_default_... chooseMode (same if/elif chain, same order)
use_row_at_a_time / downgraded                      Mode.rowAtATime downgraded | Mode.batched
batch_size = min(batch_size, (max - outside)//per)  effBatchSize (Python floor division; `none`
                                                    = ZeroDivisionError)
total_batches = len//bs + (1 if len % bs else 0)    totalBatches
while batches: batch = batches[0:bs]; del ...       chunkAux (fuel = len(parameters))
current_batch_size = bs if batches else len(batch)  Batch.current
batchnum += 1                                       Batch.num
extra_params_left/right, batch_iterator             replacedPositional
f"{key}__{i}": param[key]                           replacedNamed
range(start, end) numeric positions                 numericPositions
fetchall_for_returning(cursor)                      the adversary: any list of rows
sorted(rows, key=itemgetter(-1))                    sortImplicit (stable merge sort on the key)
{row[-1]: row for row in rows}                      dictOf (last duplicate wins, first position)
len(rows_by_sentinel) != len(imv_batch.batch)       Err.rowcount
[rows_by_sentinel[k] for k in sentinel_values]      lookup, KeyError -> Err.nomatch
result.extend(...)                                  runBatches (concatenation, stops at first error)
the DBAPI cursor / database                          `answer : Batch → List row`, arbitrary
-/
namespace SaVerif.Imv

/-! ## the row-at-a-time / batched decision -/

/-- the values read by the `if/elif` chain at the top of
    `SQLCompiler._deliver_insertmanyvalues_batches` -/
structure Flags where
  isDefaultExpr : Bool              -- imv.is_default_expr
  supportsDefaultMetavalue : Bool   -- dialect.supports_default_metavalue
  supportsMultivaluesInsert : Bool  -- dialect.supports_multivalues_insert
  sortByParameterOrder : Bool       -- argument (False when not RETURNING)
  hasResultColumns : Bool           -- bool(self._result_columns)
  hasSentinelColumns : Bool         -- imv.sentinel_columns is not None
  includesUpsert : Bool             -- imv.includes_upsert_behaviors
  embedValuesCounter : Bool         -- imv.embed_values_counter
  hasUpsertBound : Bool             -- imv.has_upsert_bound_parameters
deriving Repr, DecidableEq

inductive Mode where
  | rowAtATime (downgraded : Bool)
  | batched
deriving Repr, DecidableEq

def chooseMode (f : Flags) : Mode :=
  if f.isDefaultExpr && !f.supportsDefaultMetavalue then .rowAtATime false
  else if !f.supportsMultivaluesInsert ||
      (f.sortByParameterOrder && f.hasResultColumns &&
        (!f.hasSentinelColumns || (f.includesUpsert && !f.embedValuesCounter))) then
    .rowAtATime true
  else if f.hasUpsertBound && !f.embedValuesCounter && f.hasResultColumns then
    .rowAtATime true
  else .batched

/-! ## batch size and chunking -/

/-- `batch_size = min(batch_size, (max_params - outside) // per_batch)` when
    `max_params` is truthy.  `totalBinds = len(self.bind_names)`,
    `perBatch = len(imv.insert_crud_params)`.  `none` = ZeroDivisionError. -/
def effBatchSize (batchSize : Int) (maxParams totalBinds perBatch : Nat) : Option Int :=
  if maxParams == 0 then some batchSize
  else if perBatch == 0 then none
  else
    let outside : Int := (totalBinds : Int) - (perBatch : Int)
    some (min batchSize (Int.fdiv ((maxParams : Int) - outside) (perBatch : Int)))

def totalBatches (len bs : Nat) : Nat :=
  len / bs + (if len % bs != 0 then 1 else 0)

/-- the `while batches:` loop; `fuel` bounds the number of iterations -/
def chunkAux (n : Nat) : Nat → List α → List (List α)
  | 0, _ => []
  | fuel + 1, l =>
    if l.isEmpty then [] else l.take n :: chunkAux n fuel (l.drop n)

def chunk (n : Nat) (l : List α) : List (List α) := chunkAux n l.length l

structure Batch (α : Type) where
  params : List α     -- imv_batch.batch
  current : Nat       -- imv_batch.current_batch_size
  num : Nat           -- imv_batch.batchnum
  total : Nat         -- imv_batch.total_batches
  downgraded : Bool   -- imv_batch.is_downgraded
deriving Repr, DecidableEq

/-- the batched branch: `batchnum` starts at `start` -/
def mkBatches (bs total : Nat) : Nat → List (List α) → List (Batch α)
  | _, [] => []
  | num, b :: rest =>
    { params := b, current := (if rest.isEmpty then b.length else bs),
      num := num, total := total, downgraded := false } :: mkBatches bs total (num + 1) rest

/-- the row-at-a-time branch: `enumerate(zip(parameters, compiled_parameters), 1)` -/
def mkRows (len : Nat) (downgraded : Bool) : Nat → List α → List (Batch α)
  | _, [] => []
  | num, p :: rest =>
    { params := [p], current := 1, num := num, total := len, downgraded := downgraded }
      :: mkRows len downgraded (num + 1) rest

/-- `SQLCompiler._deliver_insertmanyvalues_batches` as a list of batches; `bs` is the
    effective batch size (must be positive: `bs = 0` is Python's ZeroDivisionError in
    `lenparams // batch_size`) -/
def deliver (mode : Mode) (bs : Nat) (ps : List α) : Option (List (Batch α)) :=
  match mode with
  | .rowAtATime d => some (mkRows ps.length d 1 ps)
  | .batched =>
    if bs == 0 then none
    else some (mkBatches bs (totalBatches ps.length bs) 1 (chunk bs ps))

/-! ## parameter rewriting -/

/-- `p[lo:hi]` for `0 ≤ lo`, `0 ≤ hi` -/
def slice (lo hi : Nat) (p : List β) : List β := (p.take hi).drop lo

/-- positional paramstyles: `extra_params_left + chain(batch_iterator) + extra_params_right`.
    The empty batch never occurs (`batch[0]` would raise IndexError). -/
def replacedPositional (numIns lo hi : Nat) (batch : List (List β)) : List β :=
  match batch with
  | [] => []
  | b0 :: _ =>
    if numIns == b0.length then batch.flatten
    else b0.take lo ++ (batch.map (slice lo hi)).flatten ++ b0.drop hi

/-- `expand_pos_lower_index`, `expand_pos_upper_index`: `min`/`max + 1` of the positions
    of `positiontup` whose name is one of the VALUES bind names (`flags[i]` = name `i` is
    such a name); `(0, 0)` when there is none -/
def expandBounds (flags : List Bool) : Nat × Nat :=
  let idx := (flags.zipIdx.filter (·.1)).map (·.2)
  match idx with
  | [] => (0, 0)
  | i :: rest => (rest.foldl min i, rest.foldl max i + 1)

/-- numeric paramstyles: `range(start, end)` with `start = lo + 1`,
    `end = num_ins_params * current_batch_size + start` -/
def numericPositions (numIns lo current : Nat) : List Nat :=
  (List.range (numIns * current)).map (· + (lo + 1))

/-- `keys_to_replace = all_keys ∩ {bind names of insert_crud_params}` (as a list in the
    order of `all_keys`) -/
def keysToReplace (allKeys crudNames : List String) : List String :=
  allKeys.filter (fun k => crudNames.contains k)

/-- named paramstyles: parameters as an association list keyed `(name, some i)`
    for `name__i`, `(name, none)` for the base parameters taken from `parameters[0]` -/
def replacedNamed (keysToReplace : List String) (base : List (String × β))
    (batch : List (List (String × β))) : List ((String × Option Nat) × β) :=
  base.map (fun kv => ((kv.1, none), kv.2)) ++
  (batch.zipIdx.map (fun (param, i) =>
    keysToReplace.filterMap (fun k => (param.lookup k).map (fun v => ((k, some i), v))))).flatten

/-! ## sorting RETURNING rows by sentinel -/

inductive Err where
  | rowcount   -- "Sentinel-keyed result set did not produce correct number of rows"
  | nomatch    -- "Can't match sentinel values in result set to parameter sets"
deriving Repr, DecidableEq

/-- `sorted(rows, key=operator.itemgetter(-1))` (stable) -/
def sortImplicit (key : ρ → Int) (rows : List ρ) : List ρ :=
  rows.mergeSort (fun a b => decide (key a ≤ key b))

/-- dict insertion: a repeated key keeps its first position and takes the last value -/
def dictInsert [BEq κ] (d : List (κ × ρ)) (k : κ) (v : ρ) : List (κ × ρ) :=
  match d with
  | [] => [(k, v)]
  | (k', v') :: rest => if k' == k then (k', v) :: rest else (k', v') :: dictInsert rest k v

/-- `{key(row): row for row in rows}` -/
def dictOf [BEq κ] (key : ρ → κ) (rows : List ρ) : List (κ × ρ) :=
  rows.foldl (fun d r => dictInsert d (key r) r) []

/-- the explicit (client side) sentinel branch of
    `DefaultDialect._deliver_insertmanyvalues_batches` -/
def sortExplicit [BEq κ] (key : ρ → κ) (nbatch : Nat) (sentinels : List κ) (rows : List ρ) :
    Except Err (List ρ) :=
  let d := dictOf key rows
  if d.length != nbatch then .error .rowcount
  else sentinels.mapM (fun s => match d.lookup s with
                                 | some r => .ok r
                                 | none => .error .nomatch)

inductive Style where
  | none       -- num_sentinel_columns = 0 (or no sort requested): rows as delivered
  | implicit   -- imv.implicit_sentinel
  | explicit   -- client side sentinel values in the parameters
deriving Repr, DecidableEq

/-- what is done with one batch's rows: `result.extend(...)` argument.
    `imv.num_sentinel_columns and not imv_batch.is_downgraded` guards the sort. -/
def sortBatch [BEq κ] (style : Style) (ikey : ρ → Int) (ekey : ρ → κ)
    (b : Batch α) (sentinelOf : α → κ) (rows : List ρ) : Except Err (List ρ) :=
  if b.downgraded then .ok rows
  else match style with
    | .none => .ok rows
    | .implicit => .ok (sortImplicit ikey rows)
    | .explicit => sortExplicit ekey b.params.length (b.params.map sentinelOf) rows

/-- the loop over batches: the cursor answers a batch with `answer b`
    (`fetchall_for_returning`); results are concatenated, the first error aborts -/
def runBatches [BEq κ] (style : Style) (ikey : ρ → Int) (ekey : ρ → κ) (sentinelOf : α → κ)
    (answer : Batch α → List ρ) : List (Batch α) → Except Err (List ρ)
  | [] => .ok []
  | b :: rest =>
    match sortBatch style ikey ekey b sentinelOf (answer b) with
    | .error e => .error e
    | .ok rows =>
      match runBatches style ikey ekey sentinelOf answer rest with
      | .error e => .error e
      | .ok more => .ok (rows ++ more)

/-- `Insert._sort_by_parameter_order` after a chain of generative `returning(...)` /
    `return_defaults(...)` calls: each call may switch the flag on, none switches it off -/
def sortFlagAfter (chain : List Bool) : Bool :=
  chain.foldl (fun acc f => acc || f) false

/-! ## compile-time sentinel selection tables (`_get_sentinel_column_for_table`) -/

/-- `_SentinelDefaultCharacterization` -/
inductive DefChar where
  | none | unknown | clientside | sentinelDefault | serverside | identity | sequence
  | monotonicFunction
deriving Repr, DecidableEq

structure SentinelTables where
  nonAutoinc : List (DefChar × Nat)   -- _sentinel_col_non_autoinc_lookup (bitmasks)
  autoinc : List (DefChar × Nat)      -- _sentinel_col_autoinc_lookup
deriving Repr

structure DialectFlags where
  name : String
  implicitSentinel : Nat              -- dialect.insertmanyvalues_implicit_sentinel
  supportsMultivaluesInsert : Bool
  supportsDefaultMetavalue : Bool
  useInsertmanyvalues : Bool
  woReturning : Bool
  maxParameters : Nat
  pageSize : Nat
deriving Repr

/-- `_get_sentinel_column_for_table` once `sent_cols is not None`:
    `some true` = the columns are returned, `some false` = `None`,
    `none` = InvalidRequestError (explicitly marked but incompatible) -/
def sentinelForTable (tbl : SentinelTables) (opts : Nat) (isAutoinc isExplicit : Bool)
    (c : DefChar) : Option Bool :=
  let bitmask := ((if isAutoinc then tbl.autoinc else tbl.nonAutoinc).lookup c).getD 0
  if opts &&& bitmask != 0 then some true
  else if isExplicit then none
  else some false

/-- the value of such a sentinel is produced by the server (so it can only be an
    *implicit* sentinel: there is no client-side value in the parameters) -/
def serverGenerated (isAutoinc : Bool) : DefChar → Bool
  | .identity | .sequence | .monotonicFunction | .serverside => true
  | .none => isAutoinc
  | _ => false

end SaVerif.Imv
