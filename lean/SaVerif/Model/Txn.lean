/-
M-TXN: transcription of the transaction state machine of
  lib/sqlalchemy/engine/base.py   Connection / RootTransaction / NestedTransaction
  lib/sqlalchemy/engine/util.py   TransactionalContext (__enter__/__exit__/_trans_ctx_check)
  lib/sqlalchemy/pool/base.py     _ConnectionFairy._reset / _finalize_fairy / Pool._invalidate /
                                  _ConnectionRecord.get_connection (the parts reached by one
                                  Connection at a time)
over an abstract database.  Import-free, total, executable.

Python                                              model
--------------------------------------------------  -------------------------------------------
Connection._transaction / _nested_transaction       Conn.transaction / Conn.nested : Option handle
Connection.__savepoint_seq                          Conn.spSeq
Connection._trans_context_manager                   Conn.ctxMgr
Connection._dbapi_connection is not None            Conn.hasDbapi
Connection.__can_reconnect                          Conn.canReconnect
RootTransaction / NestedTransaction objects         Conn.txns : List Txn, handle = index of creation
  .is_active / ._savepoint / ._previous_nested        Txn.active / Txn.sp / Txn.prev
  ._trans_subject / ._outer_trans_ctx                 Txn.subject / Txn.outerCtx
raise exc.X                                         second component `Res` of the result; the
                                                    first component is the state *after* every
                                                    `finally:` block on the way out has run
util.warn(...)                                      Conn.warns + 1
DBAPI connection + database                         DB: committed rows, the held raw connection
                                                    (working rows, SAVEPOINT stack), idle pooled
                                                    raw connections, logical clock, armed faults
dialect.is_disconnect(e)                            FKind.disc (vs FKind.err)
time.time()                                         DB.clock, strictly increasing per call
while/recursion over _previous_nested               fuel = number of handles
-/
namespace SaVerif.Txn

abbrev Data := List Nat

/-- outcome of one API call as canonicalised by the harness -/
inductive Res where
  | ok
  | invalidRequest     -- exc.InvalidRequestError itself
  | pendingRollback    -- exc.PendingRollbackError
  | resourceClosed     -- exc.ResourceClosedError
  | integrity          -- exc.IntegrityError (duplicate key), not a disconnect
  | operational        -- exc.OperationalError (unknown savepoint / injected), not a disconnect
  | disconnect         -- exc.DBAPIError with connection_invalidated = True
  | interrupted        -- a BaseException (KeyboardInterrupt) raised by the DBAPI passes through
deriving DecidableEq, Repr, Inhabited

inductive Stmt where
  | ins (k : Nat)      -- INSERT INTO t (id) VALUES (k)
  | del (k : Nat)      -- DELETE FROM t WHERE id = k
  | sel                -- SELECT id FROM t
deriving DecidableEq, Repr, Inhabited

/-- DBAPI call at which an armed fault fires -/
inductive FPoint where
  | cursor | execute | commit | rollback
  | connect      -- the creator called by `_ConnectionRecord.__connect`
deriving DecidableEq, Repr, Inhabited

/-- `err`: a dbapi.Error the dialect does not classify as a disconnect;
    `disc`: one it does (the raw connection is dead afterwards) -/
inductive FKind where
  | err | disc
  | kbi      -- a BaseException that is not an Exception (KeyboardInterrupt, CancelledError)
deriving DecidableEq, Repr, Inhabited

/-- pool reset_on_return -/
inductive ResetStyle where
  | rollback | commit | none
deriving DecidableEq, Repr, Inhabited

/-- `handle_error` event listener installed on the engine -/
inductive Listener where
  | none          -- no listener (or one that changes nothing)
  | forceDisc     -- sets `ctx.is_disconnect = True` for every DBAPI error
  | noPoolInval   -- sets `ctx.invalidate_pool_on_disconnect = False`
deriving DecidableEq, Repr, Inhabited

/-! ## abstract database -/

/-- one DBAPI connection -/
structure Raw where
  rid : Nat                      -- identity
  born : Nat                     -- _ConnectionRecord.starttime
  working : Data                 -- rows this connection sees (committed + own uncommitted)
  saves : List (Nat × Data)      -- SAVEPOINT stack, innermost first: (name, rows at SAVEPOINT)
  autocommit : Bool              -- isolation_level AUTOCOMMIT in effect on the DBAPI connection
  follows : Bool                 -- meaningful for idle connections only: no transaction is open,
                                 -- so at the next checkout it sees whatever is committed by then
  readUnc : Bool                 -- PRAGMA read_uncommitted = 1 (isolation_level READ UNCOMMITTED)
  finalize : List Bool           -- _ConnectionRecord.finalize_callback: one entry per
                                 -- _set_connection_characteristics call; true = it resets the
                                 -- isolation level
deriving DecidableEq, Repr, Inhabited

structure DB where
  committed : Data               -- what every other connection sees
  raw : Raw                      -- the DBAPI connection held by the Connection (if hasDbapi)
  idle : List (Option Raw)       -- QueuePool queue of records (FIFO: get from head, put at
                                 -- tail); `none` = a record whose connection was invalidated
  clock : Nat
  invalTime : Nat                -- Pool._invalidate_time
  nextRid : Nat
  faults : List (FPoint × FKind) -- armed one-shot faults, consumed at the next matching call
  reset : ResetStyle
  listener : Listener
  recycle : Option Nat           -- pool_recycle (in clock ticks); none = -1
  engineOpts : List Bool         -- engine-level execution_options registrations, in order:
                                 -- true = isolation_level="AUTOCOMMIT", false = logging_token
  skipAc : Bool := false         -- create_engine(skip_autocommit_rollback=True)
deriving DecidableEq, Repr, Inhabited

/-- `DefaultDialect.do_rollback`: `if self.skip_autocommit_rollback and
    self.detect_autocommit_setting(dbapi_connection): return` — decided on the state of the
    DBAPI connection itself, not on any option recorded on the Connection object -/
def DB.skipsRollback (db : DB) : Bool := db.skipAc && db.raw.autocommit

/-- the static engine configuration that decides how connections are reset -/
def DB.cfg (db : DB) : ResetStyle × Bool := (db.reset, db.skipAc)

def Data.insert (d : Data) (k : Nat) : Option Data :=
  if d.contains k then none else some (d ++ [k])

def Data.delete (d : Data) (k : Nat) : Data := d.filter (· != k)

/-- one-shot fault lookup -/
def DB.takeFault (db : DB) (p : FPoint) : Option FKind × DB :=
  match db.faults.find? (fun f => f.1 == p) with
  | none => (none, db)
  | some f => (some f.2, { db with faults := db.faults.erase f })

/-- stack from savepoint `n` (inclusive) downwards, if it exists -/
def dropTo (n : Nat) : List (Nat × Data) → Option (List (Nat × Data))
  | [] => none
  | (m, d) :: rest => if m == n then some ((m, d) :: rest) else dropTo n rest

def Raw.savepoint (r : Raw) (n : Nat) : Raw :=
  { r with saves := (n, r.working) :: r.saves }

/-- ROLLBACK TO SAVEPOINT n: restores, destroys inner savepoints, keeps n -/
def Raw.rollbackTo (r : Raw) (n : Nat) : Option Raw :=
  match dropTo n r.saves with
  | some ((m, d) :: rest) => some { r with working := d, saves := (m, d) :: rest }
  | _ => none

/-- RELEASE SAVEPOINT n: destroys n and the inner savepoints, keeps the rows -/
def Raw.release (r : Raw) (n : Nat) : Option Raw :=
  match dropTo n r.saves with
  | some (_ :: rest) => some { r with saves := rest }
  | _ => none

/-- dbapi_connection.commit() -/
def DB.commit (db : DB) : DB :=
  { db with committed := db.raw.working, raw := { db.raw with saves := [] } }

/-- dbapi_connection.rollback() -/
def DB.rollback (db : DB) : DB :=
  { db with raw := { db.raw with working := db.committed, saves := [] } }

/-- the held raw connection is closed / dead (its uncommitted work is gone) and its
    record goes back to the pool empty: `_ConnectionRecord.invalidate` + `checkin`.
    The fields of `raw` are meaningless until the next checkout; kept canonical. -/
def DB.kill (db : DB) : DB :=
  { db with raw := { db.raw with working := db.committed, saves := [], autocommit := false,
                                 readUnc := false, finalize := [] },
            idle := db.idle ++ [none] }

/-- `time.time()` -/
def DB.tick (db : DB) : DB × Nat := ({ db with clock := db.clock + 1 }, db.clock + 1)

/-- `_ConnectionRecord.__connect`: a new DBAPI connection -/
def DB.newRaw (db : DB) : DB :=
  let (db, t) := db.tick
  { db with raw := { rid := db.nextRid, born := t, working := db.committed, saves := [],
                     autocommit := false, follows := false, readUnc := false, finalize := [] },
            nextRid := db.nextRid + 1 }

/-- `_ConnectionRecord.get_connection` for a record that holds connection `r`: must it be
    recycled?  `elif pool._recycle > -1 and time.time() - self.starttime > pool._recycle`
    (the clock is read only when pool_recycle is configured), `elif pool._invalidate_time >
    self.starttime`. -/
def DB.staleCheck (db : DB) (r : Raw) : DB × Bool :=
  match db.recycle with
  | some rc =>
    let (db, t) := db.tick
    (db, decide (rc < t - r.born) || decide (db.invalTime > r.born))
  | none => (db, decide (db.invalTime > r.born))

/-- `Pool.connect()` for a QueuePool used by one thread, up to the point where a new DBAPI
    connection may be needed: `_do_get` takes the head of the queue (or will create a record);
    result = (state, connection to hand out if the record's one is usable, a record exists) -/
def DB.checkoutPre (db : DB) : DB × Option Raw × Bool :=
  match db.idle with
  | [] => (db, none, false)
  | none :: rest => ({ db with idle := rest }, none, true)       -- empty record: connect
  | some r :: rest =>
    let (db, st) := ({ db with idle := rest } : DB).staleCheck r
    if st then (db, none, true)                                   -- recycle: close + connect
    else (db, some r, true)

/-- hand out the pooled connection `r` -/
def DB.handOut (db : DB) (r : Raw) : DB :=
  if r.follows then { db with raw := { r with working := db.committed, follows := false } }
  else { db with raw := r }

/-- a record is created (`_ConnectionRecord.__init__` connects) and then checked out:
    `get_connection` runs its age test on the brand-new connection as well — one more clock
    reading when pool_recycle is configured (and with pool_recycle = 0 the connection is
    closed and opened once more) -/
def DB.freshRaw (db : DB) : DB :=
  let db := db.newRaw
  let (db', st) := db.staleCheck db.raw
  if st then db'.newRaw else db'

/-- `Pool.connect()` when the creator works -/
def DB.checkout (db : DB) : DB :=
  match db.checkoutPre with
  | (db, some r, _) => db.handOut r
  | (db, none, true) => db.newRaw
  | (db, none, false) => db.freshRaw

/-- `Pool.connect()` with a possibly failing creator (`_ConnectionRecord.__connect` reads the
    clock, then calls the creator): on failure an existing record goes back to the pool empty
    (`_checkin_failed`), a record being created is dropped.  -/
def DB.checkoutF (db : DB) : DB × Option FKind :=
  match db.checkoutPre with
  | (db1, none, hasRecord) =>
    match db1.takeFault .connect with
    | (some k, db2) =>
      let db3 := db2.tick.1
      (if hasRecord then { db3 with idle := db3.idle ++ [none] } else db3, some k)
    | (none, _) => (db.checkout, none)
  | _ => (db.checkout, none)

/-- `Pool._invalidate(fairy)`: `if self._invalidate_time < rec.starttime: … = time.time()` -/
def DB.poolInvalidate (db : DB) : DB :=
  if db.invalTime < db.raw.born then
    let (db, t) := db.tick
    { db with invalTime := t }
  else db

/-- `_ConnectionFairy._reset` followed by `_ConnectionRecord.checkin` → `_return_conn`.
    `transactionWasReset`: Connection.close() passed `transaction_reset=True`.
    A fault during the reset invalidates the record (`_finalize_fairy`'s except clause):
    the raw connection is closed and the empty record is checked in; nothing is raised —
    unless the fault is a BaseException that is not an Exception: then (fix 49615f9) the
    empty record is checked in as well and the exception is re-raised (`resetInterrupted`). -/
def DB.checkin (db : DB) (transactionWasReset : Bool) : DB :=
  let (db, bad) : DB × Bool :=
    match db.reset with
    | .rollback =>
      if transactionWasReset || db.skipsRollback then (db, false)
      else
        match db.takeFault .rollback with
        | (some _, db) => (db.kill, true)
        | (none, db) => (db.rollback, false)
    | .commit =>
      match db.takeFault .commit with
      | (some _, db) => (db.kill, true)
      | (none, db) => (db.commit, false)
    | .none => (db, false)
  if bad then db
  else
    -- `while self.finalize_callback: finalizer(connection)`: a callback that covers the
    -- isolation level puts it back to the default (autocommit off, read_uncommitted = 0)
    let iso := db.raw.finalize.any id
    let r := { db.raw with autocommit := db.raw.autocommit && !iso,
                           readUnc := db.raw.readUnc && !iso,
                           finalize := [],
                           follows := decide (db.raw.working = db.committed) && db.raw.saves.isEmpty }
    { db with raw := r, idle := db.idle ++ [some r] }

/-- the reset-on-return of `checkin` is interrupted by a BaseException -/
def DB.resetInterrupted (db : DB) (transactionWasReset : Bool) : Bool :=
  match db.reset with
  | .rollback => !transactionWasReset && !db.skipsRollback && (db.takeFault .rollback).1 == some .kbi
  | .commit => (db.takeFault .commit).1 == some .kbi
  | .none => false

/-! ## Connection and transaction objects -/

structure Txn where
  isRoot : Bool
  active : Bool
  sp : Nat                 -- savepoint sequence number (0 for a root transaction)
  prev : Option Nat        -- _previous_nested
  subject : Bool           -- _trans_subject is the connection (set by __enter__)
  outerCtx : Option Nat    -- _outer_trans_ctx
deriving DecidableEq, Repr, Inhabited

structure Conn where
  txns : List Txn
  transaction : Option Nat
  nested : Option Nat
  spSeq : Nat
  ctxMgr : Option Nat
  hasDbapi : Bool
  canReconnect : Bool
  warns : Nat
  db : DB
  zombie : Bool := false   -- close() was interrupted during reset-on-return: the Connection still
                           -- references a fairy whose record is invalidated and not checked in
deriving DecidableEq, Repr, Inhabited

def DB.init (reset : ResetStyle) (listener : Listener := .none) (engineOpts : List Bool := [])
    (recycle : Option Nat := none) (skipAc : Bool := false) : DB :=
  { committed := [], raw := default, idle := [], clock := 0, invalTime := 0, nextRid := 0,
    faults := [], reset := reset, listener := listener, recycle := recycle, engineOpts := engineOpts,
    skipAc := skipAc }

/-- one `_set_connection_characteristics` call on the held DBAPI connection: `iso` = it sets
    isolation_level "AUTOCOMMIT" (the fake driver commits what is pending when autocommit is
    switched on).  The per-checkout reset callback is queued on the record. -/
def DB.applyChar (db : DB) (autocommit : Bool) : DB :=
  let db := if autocommit then { db.commit with raw := { db.commit.raw with autocommit := true } } else db
  { db with raw := { db.raw with finalize := db.raw.finalize ++ [autocommit] } }

/-- pool checkout for a NEW Connection: the `engine_connect` listeners installed by
    engine-level execution options apply their characteristics -/
def DB.connectRaw (db : DB) : DB := db.engineOpts.foldl DB.applyChar db.checkout

/-- `engine.connect()` on a database/pool state -/
def Conn.connect (db : DB) : Conn :=
  { txns := [], transaction := none, nested := none, spSeq := 0, ctxMgr := none,
    hasDbapi := true, canReconnect := true, warns := 0, db := db.connectRaw }

def Conn.txn (c : Conn) (h : Nat) : Txn := c.txns.getD h default
def Conn.act (c : Conn) (h : Nat) : Bool := (c.txn h).active
def Conn.setTxn (c : Conn) (h : Nat) (f : Txn → Txn) : Conn :=
  { c with txns := c.txns.modify h f }
def Conn.warn (c : Conn) : Conn := { c with warns := c.warns + 1 }

def Conn.closed (c : Conn) : Bool := !c.hasDbapi && !c.canReconnect
def Conn.invalidated (c : Conn) : Bool := !c.hasDbapi && c.canReconnect

/-- `Connection.in_transaction()` -/
def Conn.inTransaction (c : Conn) : Bool :=
  match c.transaction with
  | some t => c.act t
  | none => false

/-- `Connection.in_nested_transaction()` -/
def Conn.inNested (c : Conn) : Bool :=
  match c.nested with
  | some n => c.act n
  | none => false

/-- `TransactionalContext._trans_ctx_check` raises -/
def Conn.ctxRaises (c : Conn) : Bool :=
  match c.ctxMgr with
  | some m => !c.act m
  | none => false

/-- exception propagation: run `f` on the state if the previous call returned normally,
    otherwise the exception (and the state it left) passes through unchanged -/
def andThen (x : Conn × Res) (f : Conn → Conn × Res) : Conn × Res :=
  match x.2 with
  | .ok => f x.1
  | _ => x

/-- `try: x finally: g` — `g` runs on the state whatever the outcome; the outcome is kept -/
def andFinally (x : Conn × Res) (g : Conn → Conn) : Conn × Res := (g x.1, x.2)

/-- `Connection._revalidate_connection` -/
def Conn.revalidate (c : Conn) : Conn × Res :=
  if c.canReconnect && !c.hasDbapi then
    if c.transaction.isSome then (c, .pendingRollback)
    else
      -- self._dbapi_connection = self.engine.raw_connection(); a failing connect reaches
      -- _handle_dbapi_exception in the caller: the Connection is (still) invalidated, so the
      -- only effect is the class of the error raised
      match c.db.checkoutF with
      | (db, none) => ({ c with hasDbapi := true, db := db }, .ok)
      | (db, some k) =>
        ({ c with db := db },
         if k == .kbi then .interrupted
         else if k == .disc || c.db.listener == .forceDisc then .disconnect else .operational)
  else (c, .resourceClosed)

/-- the `Connection.connection` property -/
def Conn.connProp (c : Conn) : Conn × Res :=
  if c.hasDbapi then (c, .ok) else c.revalidate

/-- the `finally:` of `_handle_dbapi_exception` when the error is a disconnect:
    `pool._invalidate(wrapper, e)` + `self.invalidate(e)` -/
def Conn.onDisconnect (c : Conn) : Conn :=
  if c.invalidated then c
  else { c with hasDbapi := false, db := c.db.poolInvalidate.kill }

/-- `Connection.invalidate()` (explicit): the fairy is invalidated, the pool's
    invalidation time is untouched -/
def Conn.invalidate (c : Conn) : Conn × Res :=
  if c.invalidated then (c, .ok)
  else if c.closed then (c, .resourceClosed)
  else ({ c with hasDbapi := false, db := c.db.kill }, .ok)

/-- attach a new RootTransaction object -/
def Conn.pushRoot (c : Conn) : Conn :=
  { c with txns := c.txns ++ [{ isRoot := true, active := true, sp := 0, prev := none,
                                 subject := false, outerCtx := none }],
           transaction := some c.txns.length }

/-- `RootTransaction.__init__` via `Connection.begin()` (transaction is None checked by caller):
    `_trans_ctx_check`, `_begin_impl` (uses `self.connection`), attach. -/
def Conn.beginRoot (c : Conn) : Conn × Res :=
  if c.ctxRaises then (c, .invalidRequest)
  else andThen c.connProp fun c => (c.pushRoot, .ok)

/-- `Connection.begin()` -/
def Conn.begin (c : Conn) : Conn × Res :=
  if c.transaction.isNone then c.beginRoot else (c, .invalidRequest)

/-- `if self._transaction is None: self._autobegin()` -/
def Conn.autobegin (c : Conn) : Conn × Res :=
  if c.transaction.isNone then c.begin else (c, .ok)

/-- what a statement does to the held raw connection; `none` = the database rejects it -/
inductive Sql where
  | stmt (s : Stmt)
  | savepoint (n : Nat)
  | rollbackTo (n : Nat)
  | release (n : Nat)
deriving DecidableEq, Repr, Inhabited

/-- write `d` as the rows of the held connection — and of everybody under driver-level
    AUTOCOMMIT, unless SQL has opened a transaction: in autocommit mode a SAVEPOINT starts a
    transaction that lasts until the outermost savepoint is released or COMMIT / ROLLBACK -/
def DB.write (db : DB) (d : Data) : DB :=
  if db.raw.autocommit && db.raw.saves.isEmpty then
    { db with raw := { db.raw with working := d }, committed := d }
  else { db with raw := { db.raw with working := d } }

def DB.apply (db : DB) : Sql → Option DB × Res
  | .stmt (.ins k) =>
    match db.raw.working.insert k with
    | some d => (some (db.write d), .ok)
    | none => (none, .integrity)
  | .stmt (.del k) => (some (db.write (db.raw.working.delete k)), .ok)
  | .stmt .sel => (some db, .ok)
  | .savepoint n => (some { db with raw := db.raw.savepoint n }, .ok)
  | .rollbackTo n =>
    match db.raw.rollbackTo n with
    | some r => (some { db with raw := r }, .ok)
    | none => (none, .operational)
  | .release n =>
    match db.raw.release n with
    | some r =>
      -- under driver-level autocommit the RELEASE of the outermost savepoint commits
      (some (if db.raw.autocommit && r.saves.isEmpty then { db with raw := r, committed := r.working }
             else { db with raw := r }), .ok)
    | none => (none, .operational)

/-- `_handle_dbapi_exception` for a dbapi.Error:
    `is_disconnect` = the dialect's classification, overridden by a `handle_error` listener;
    disconnect → (unless the listener cleared `invalidate_pool_on_disconnect`) invalidate the
    pool generation, then invalidate this connection. -/
def Conn.discError (c : Conn) : Conn × Res :=
  if c.db.listener == .noPoolInval then
    (if c.invalidated then c else { c with hasDbapi := false, db := c.db.kill }, .disconnect)
  else (c.onDisconnect, .disconnect)

/-- `_handle_dbapi_exception` for an exit exception (`util.is_exit_exception`): treated as a
    disconnect of THIS connection only (`invalidate_pool_on_disconnect = False`), never
    wrapped, re-raised as is -/
def Conn.kbiError (c : Conn) : Conn × Res :=
  (if c.invalidated then c else { c with hasDbapi := false, db := c.db.kill }, .interrupted)

/-- `_handle_dbapi_exception` for a dbapi.Error whose (possibly listener-adjusted)
    classification is "not a disconnect": nothing happens to the transaction state, but
    outside a transaction (a statement that failed before autobegin: cursor creation) the
    handler emits its "autorollback" `_rollback_impl()`.  When that rollback fails, the
    nested (re-entrant) `_handle_dbapi_exception` call classifies the new error with the
    dialect (no listeners), leaves the verdict in `self._is_disconnect` and re-raises; the
    outer call's `finally:` then invalidates the Connection — and the pool, as decided for
    the OUTER error (`invalidate_pool_on_disconnect`, which a listener may have cleared). -/
def Conn.plainError (c : Conn) : Conn × Res :=
  if c.inTransaction then (c, .operational)
  else if c.hasDbapi then
    if c.db.skipsRollback then (c, .operational)
    else
      match c.db.takeFault .rollback with
      | (some .err, db) => ({ c with db := db }, .operational)   -- raised as is
      | (some .disc, db) => (({ c with db := db } : Conn).discError.1, .operational)
      | (some .kbi, db) => (({ c with db := db } : Conn).discError.1, .interrupted)
      | (none, db) => ({ c with db := db.rollback }, .operational)
  else (c, .operational)

def Conn.dbapiError (c : Conn) (k : FKind) : Conn × Res :=
  if k == .kbi then c.kbiError
  else if c.db.listener == .forceDisc then c.discError
  else
    match k with
    | .disc => c.discError
    | _ => c.plainError

/-- a DBAPI call at fault point `p`: fails as armed, else `f` is applied to the database -/
def Conn.dbapiCall (c : Conn) (p : FPoint) (f : DB → DB) : Conn × Res :=
  match c.db.takeFault p with
  | (some k, db) => ({ c with db := db }).dbapiError k
  | (none, db) => ({ c with db := f db }, .ok)

/-- the `_invalid_transaction()` condition of `_execute_context` -/
def Conn.stale (c : Conn) : Bool :=
  (match c.transaction with | some t => !c.act t | none => false)
  || (match c.nested with | some n => !c.act n | none => false)

/-- `cursor.execute(...)` and the handling of its error -/
def Conn.runSql (c : Conn) (q : Sql) : Conn × Res :=
  match c.db.takeFault .execute with
  | (some k, db) => ({ c with db := db }).dbapiError k
  | (none, _) =>
    match c.db.apply q with
    | (some db, _) => ({ c with db := db }, .ok)
    | (none, r) =>
      -- the database rejected the statement (IntegrityError / OperationalError): same handler
      let x := c.dbapiError .err
      (x.1, if x.2 == .disconnect then .disconnect else r)

/-- `_execute_context` after the execution context (cursor) exists -/
def Conn.execChecked (c : Conn) (q : Sql) : Conn × Res :=
  if c.stale then (c, .pendingRollback)
  else if c.ctxRaises then (c, .invalidRequest)
  else andThen c.autobegin fun c => c.runSql q

/-- `Connection._execute_context` for one statement (also reached by
    `dialect.do_savepoint / do_rollback_to_savepoint / do_release_savepoint`,
    which call `connection.execute`). -/
def Conn.execute (c : Conn) (q : Sql) : Conn × Res :=
  -- conn = self._dbapi_connection; if conn is None: conn = self._revalidate_connection()
  andThen c.connProp fun c =>
    -- constructor(...): context.create_cursor()
    andThen (c.dbapiCall .cursor id) fun c => c.execChecked q

/-- `NestedTransaction._deactivate_from_connection(warn)` -/
def Conn.nestedDeactivate (c : Conn) (h : Nat) (warn : Bool) : Conn :=
  if c.nested == some h then { c with nested := (c.txn h).prev }
  else if warn then c.warn else c

def Conn.deactivate (c : Conn) (h : Nat) : Conn := c.setTxn h (fun t => { t with active := false })

/-- `NestedTransaction._cancel`, recursion over `_previous_nested` with fuel -/
def Conn.cancel : Nat → Conn → Nat → Conn
  | 0, c, _ => c
  | fuel + 1, c, h =>
    let c := (c.deactivate h).nestedDeactivate h true
    match (c.txn h).prev with
    | some p => Conn.cancel fuel c p
    | none => c

/-- `if self.connection._nested_transaction: self.connection._nested_transaction._cancel()` -/
def Conn.cancelNested (c : Conn) : Conn :=
  match c.nested with
  | some n => Conn.cancel c.txns.length c n
  | none => c

/-- `RootTransaction._deactivate_from_connection` -/
def Conn.rootDeactivate (c : Conn) (h : Nat) : Conn :=
  if c.act h then c.deactivate h
  else if c.transaction != some h then c.warn
  else c

/-- `Connection._rollback_impl` -/
def Conn.rollbackImpl (c : Conn) : Conn × Res :=
  if c.hasDbapi then
    if c.db.skipsRollback then (c, .ok)       -- dialect.do_rollback returns without a DBAPI call
    else c.dbapiCall .rollback DB.rollback
  else (c, .ok)

/-- the `finally:` of `RootTransaction._close_impl` -/
def Conn.rootCloseFinally (c : Conn) (h : Nat) (tryDeactivate : Bool) : Conn :=
  let c := if c.act h || tryDeactivate then c.rootDeactivate h else c
  if c.transaction == some h then { c with transaction := none } else c

/-- `RootTransaction._close_impl(try_deactivate)` -/
def Conn.rootCloseImpl (c : Conn) (h : Nat) (tryDeactivate : Bool) : Conn × Res :=
  -- try: if self.is_active: rollback_impl ; if conn._nested_transaction: cancel
  andFinally
    (andThen (if c.act h then c.rollbackImpl else (c, .ok)) fun c => (c.cancelNested, .ok))
    fun c => c.rootCloseFinally h tryDeactivate

/-- `Connection._commit_impl`: `do_commit(self.connection)` inside try/except →
    `_handle_dbapi_exception`; PendingRollbackError / ResourceClosedError from the
    `connection` property are re-raised unchanged -/
def Conn.commitImpl (c : Conn) : Conn × Res :=
  andThen c.connProp fun c => c.dbapiCall .commit DB.commit

/-- `RootTransaction._do_commit` -/
def Conn.rootCommit (c : Conn) (h : Nat) : Conn × Res :=
  if c.act h then
    -- finally: cancel nested, deactivate; then (only on success) detach
    andThen (andFinally c.commitImpl fun c => c.cancelNested.rootDeactivate h)
      fun c => ({ c with transaction := none }, .ok)
  else if c.transaction == some h then (c, .pendingRollback)
  else (c, .invalidRequest)

/-- `NestedTransaction._close_impl(deactivate_from_connection=True, warn_already_deactive)` -/
def Conn.nestedCloseImpl (c : Conn) (h : Nat) (warn : Bool) : Conn × Res :=
  andFinally
    (if c.act h && c.inTransaction && c.hasDbapi then c.execute (.rollbackTo (c.txn h).sp)
     else (c, .ok))
    fun c => (c.deactivate h).nestedDeactivate h warn

/-- `NestedTransaction._do_commit` -/
def Conn.nestedCommit (c : Conn) (h : Nat) : Conn × Res :=
  if c.act h then
    andThen (andFinally (c.execute (.release (c.txn h).sp)) fun c => c.deactivate h)
      fun c => (c.nestedDeactivate h true, .ok)
  else if c.nested == some h then (c, .pendingRollback)
  else (c, .invalidRequest)

/-- attach a new NestedTransaction object for the savepoint just created -/
def Conn.pushNested (c : Conn) : Conn :=
  { c with txns := c.txns ++ [{ isRoot := false, active := true, sp := c.spSeq,
                                 prev := c.nested, subject := false, outerCtx := none }],
           nested := some c.txns.length }

/-- `Connection.begin_nested()` → `NestedTransaction.__init__` -/
def Conn.beginNested (c : Conn) : Conn × Res :=
  andThen c.autobegin fun c =>
    if c.ctxRaises then (c, .invalidRequest)
    else
      -- _savepoint_impl: seq += 1, then do_savepoint → connection.execute
      let c := { c with spSeq := c.spSeq + 1 }
      andThen (c.execute (.savepoint c.spSeq)) fun c => (c.pushNested, .ok)

/-- `Transaction.commit()` on handle `h` -/
def Conn.tCommit (c : Conn) (h : Nat) : Conn × Res :=
  if (c.txn h).isRoot then c.rootCommit h else c.nestedCommit h

/-- `Transaction.rollback()` -/
def Conn.tRollback (c : Conn) (h : Nat) : Conn × Res :=
  if (c.txn h).isRoot then c.rootCloseImpl h true else c.nestedCloseImpl h true

/-- `Transaction.close()` -/
def Conn.tClose (c : Conn) (h : Nat) : Conn × Res :=
  if (c.txn h).isRoot then c.rootCloseImpl h false else c.nestedCloseImpl h false

/-- `Connection.commit()` -/
def Conn.commit (c : Conn) : Conn × Res :=
  match c.transaction with
  | some t => c.tCommit t
  | none => (c, .ok)

/-- `Connection.rollback()` -/
def Conn.rollback (c : Conn) : Conn × Res :=
  match c.transaction with
  | some t => c.tRollback t
  | none => (c, .ok)

/-- release of the DBAPI connection at the end of `Connection.close()` -/
def Conn.release (c : Conn) (skipReset : Bool) : Conn :=
  let c := if c.hasDbapi then { c with db := c.db.checkin skipReset, hasDbapi := false } else c
  { c with canReconnect := false }

/-- … or the BaseException raised by the DBAPI during reset-on-return comes out of
    `conn.close()`: `self._dbapi_connection = None` is never reached -/
def Conn.releaseOrInterrupt (c : Conn) (skipReset : Bool) : Conn × Res :=
  if c.hasDbapi && c.db.resetInterrupted skipReset then
    ({ c with db := c.db.checkin skipReset, zombie := true }, .interrupted)
  else (c.release skipReset, .ok)

/-- `Connection.close()` (with fix 387ee97: `skip_reset = self._transaction.is_active`,
    read before the transaction is closed); an exception from closing the transaction
    leaves close() before the connection is released -/
def Conn.close (c : Conn) : Conn × Res :=
  match c.transaction with
  | some t =>
    let skip := c.act t
    andThen (c.tClose t) fun c => c.releaseOrInterrupt skip
  | none => c.releaseOrInterrupt false

/-- `_transaction_is_closed()` is `not self._deactivated_from_connection`, i.e.
    "this object is still the connection's current (nested) transaction" -/
def Conn.attached (c : Conn) (h : Nat) : Bool :=
  if (c.txn h).isRoot then c.transaction == some h else c.nested == some h

/-- `TransactionalContext.__enter__` -/
def Conn.enter (c : Conn) (h : Nat) : Conn × Res :=
  let c' := c.setTxn h (fun t => { t with outerCtx := c.ctxMgr, subject := true })
  ({ c' with ctxMgr := some h }, .ok)

/-- the `finally:` of `__exit__` -/
def Conn.exitFinally (c : Conn) (h : Nat) (outOfBand : Bool) : Conn :=
  let c := if !outOfBand then { c with ctxMgr := (c.txn h).outerCtx } else c
  c.setTxn h (fun t => { t with subject := false, outerCtx := none })

/-- `except: with util.safe_reraise(): self.rollback()` — a failure of the rollback
    replaces the original exception -/
def Conn.commitOrRollback (c : Conn) (h : Nat) : Conn × Res :=
  let x := c.tCommit h
  match x.2 with
  | .ok => x
  | r =>
    let y := x.1.tRollback h
    match y.2 with
    | .ok => (y.1, r)
    | _ => y

/-- `TransactionalContext.__exit__(type_, …)`; `exc` = an exception is propagating -/
def Conn.exit (c : Conn) (h : Nat) (exc : Bool) : Conn × Res :=
  let outOfBand := !(c.txn h).subject || c.ctxMgr != some h
  andFinally
    (if !exc && c.act h then c.commitOrRollback h
     else if !c.act h then (if !c.attached h then c.tClose h else (c, .ok))
     else c.tRollback h)
    fun c => c.exitFinally h outOfBand

/-! ## operations and runs -/

inductive Op where
  | begin | beginNested
  | exec (s : Stmt)
  | commit | rollback | close
  | tCommit (h : Nat) | tRollback (h : Nat) | tClose (h : Nat)
  | enter (h : Nat) | exitOk (h : Nat) | exitExc (h : Nat)
  | invalidate
  | arm (p : FPoint) (k : FKind)     -- environment: the next DBAPI call at `p` fails
  | disarm                           -- environment: armed faults that did not fire are cleared
  | warm (n : Nat)                   -- environment: n other connections are opened, then all returned
  | connect                          -- the old Connection (if still open) is garbage collected,
                                     -- then a new one is checked out
  | gc                               -- the Connection is garbage collected without close()
  | autocommit                       -- conn.execution_options(isolation_level="AUTOCOMMIT")
  | readUnc                          -- conn.execution_options(isolation_level="READ UNCOMMITTED")
  | logToken                         -- conn.execution_options(logging_token=…)
  | otherOpt                         -- conn.execution_options(stream_results=True): no characteristic
  | tokenAuto                        -- logging_token and isolation_level="AUTOCOMMIT" in ONE call
deriving DecidableEq, Repr, Inhabited

/-- `[engine.connect() for _ in range(n)]` while ours is held … -/
def DB.warmTake : Nat → DB → List Raw → DB × List Raw
  | 0, db, acc => (db, acc)
  | n + 1, db, acc => let db' := db.connectRaw; DB.warmTake n db' (acc ++ [db'.raw])

/-- … then `.close()` on each of them in order (no transaction: ordinary reset-on-return) -/
def DB.warmReturn : List Raw → DB → DB
  | [], db => db
  | r :: rs, db => DB.warmReturn rs (({ db with raw := r } : DB).checkin false)

def DB.warm (n : Nat) (db : DB) : DB :=
  let held := db.raw
  let (db1, taken) := DB.warmTake n db []
  { DB.warmReturn taken db1 with raw := held }

/-- weakref callback → `_finalize_fairy(None, rec, pool, ref, …, transaction_was_reset=False)`.
    The Connection object and its transaction objects no longer exist: canonical empty state. -/
def Conn.gc (c : Conn) : Conn :=
  { txns := [], transaction := none, nested := none, spSeq := 0, ctxMgr := none,
    hasDbapi := false, canReconnect := false, warns := c.warns,
    -- a zombie's record was already checked in (`fairy_ref is not ref`: the finalizer returns)
    db := if c.zombie then c.db else if c.hasDbapi then c.db.checkin false else c.db }

/-- `Connection.execution_options(isolation_level="AUTOCOMMIT")` →
    `_set_connection_characteristics` -/
def Conn.setAutocommit (c : Conn) : Conn × Res :=
  if c.inTransaction then (c, .invalidRequest)
  else andThen c.connProp fun c => ({ c with db := c.db.applyChar true }, .ok)

/-- `isolation_level="READ UNCOMMITTED"`: isolation_level = "" (autocommit off) and
    PRAGMA read_uncommitted = 1 -/
def Conn.setReadUnc (c : Conn) : Conn × Res :=
  if c.inTransaction then (c, .invalidRequest)
  else
    andThen c.connProp fun c =>
      ({ c with db := { c.db with raw := { c.db.raw with autocommit := false, readUnc := true,
                                                          finalize := c.db.raw.finalize ++ [true] } } }, .ok)

/-- `logging_token=…`: not transactional, nothing changes on the DBAPI connection, but a
    (no-op) reset callback is queued -/
def Conn.setLogToken (c : Conn) : Conn × Res :=
  andThen c.connProp fun c => ({ c with db := c.db.applyChar false }, .ok)

def Conn.step (c : Conn) : Op → Conn × Res
  | .begin => c.begin
  | .beginNested => c.beginNested
  | .exec s => c.execute (.stmt s)
  | .commit => c.commit
  | .rollback => c.rollback
  | .close => c.close
  | .tCommit h => c.tCommit h
  | .tRollback h => c.tRollback h
  | .tClose h => c.tClose h
  | .enter h => c.enter h
  | .exitOk h => c.exit h false
  | .exitExc h => c.exit h true
  | .invalidate => c.invalidate
  | .arm p k => ({ c with db := { c.db with faults := c.db.faults ++ [(p, k)] } }, .ok)
  | .disarm => ({ c with db := { c.db with faults := [] } }, .ok)
  | .warm n => ({ c with db := DB.warm n c.db }, .ok)
  | .connect => (Conn.connect c.gc.db, .ok)
  | .gc => (c.gc, .ok)
  | .autocommit => c.setAutocommit
  | .readUnc => c.setReadUnc
  | .logToken => c.setLogToken
  | .otherOpt => (c, .ok)
  | .tokenAuto => c.setAutocommit

def Conn.run (c : Conn) : List Op → Conn
  | [] => c
  | op :: ops => Conn.run (c.step op).1 ops

/-- run and collect (result, state) after each op -/
def Conn.trace (c : Conn) : List Op → List (Res × Conn)
  | [] => []
  | op :: ops => let (c', r) := c.step op; (r, c') :: Conn.trace c' ops

end SaVerif.Txn
