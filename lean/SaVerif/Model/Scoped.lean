/-
M-SCOPED: `ScopedRegistry.__call__ / has / clear` (lib/sqlalchemy/util/_collections.py)
and `scoped_session.__call__ / remove` (lib/sqlalchemy/orm/scoping.py) as a labelled
transition system with per-thread program counters.  Import-free, total, executable.

Python                                              model
--------------------------------------------------  ----------------------------------------
scopefunc()                                         `scope[t]`: the key of thread t (several
                                                    threads may share one scope)
self.registry  (dict key -> Session)                `reg : List (Option Sess)` indexed by key
ThreadLocalRegistry (threading.local)               the same with scope[t] = t
def __call__(self):                                 idle/r1 --call--> c1
    key = self.scopefunc()
    try: return self.registry[key]                  c1 --ret s--> (idle | r2 s)   reg[k] = some s
    except KeyError:                                c1 --miss--> c2               reg[k] = none
        return self.registry.setdefault(            c2 --create s--> c3 s         s fresh, owner s = k
            key, self.createfunc())                 c3 s --ret s'--> ...          setdefault: reg[k] =
                                                       none → reg[k] := s, s' = s; some x → s' = x
def remove(self):                                   idle --rm--> r0
    if self.registry.has():                         r0 --has b--> (b: r1 | ¬b: r3)  b = reg[k].isSome
        self.registry().close()                     r1 --call--> c1 (continuation: remove)
                                                    r2 s --close s--> r3            closed += s
    self.registry.clear()                           r3 --clear--> idle              reg[k] := none
-/
namespace SaVerif.Scoped

abbrev Sess := Nat
abbrev Key := Nat

inductive Pc
  | idle
  | c1 (rm : Bool) | c2 (rm : Bool) | c3 (rm : Bool) (s : Sess)
  | r0 | r1 | r2 (s : Sess) | r3
deriving Repr, DecidableEq

inductive Label
  | call | ret (s : Sess) | miss | create (s : Sess)
  | rm | has (b : Bool) | close (s : Sess) | clear
deriving Repr, DecidableEq

structure Shared where
  reg    : List (Option Sess)     -- index = key
  owner  : List Key               -- index = session id: the scope that created it
  closed : List Sess
deriving Repr, DecidableEq

structure State extends Shared where
  pcs : List Pc
  got : List (Nat × Sess)         -- (thread, session) returned to a caller of scoped_session(), newest first
deriving Repr, DecidableEq

def init (nKeys nThreads : Nat) : State :=
  { reg := List.replicate nKeys none, owner := [], closed := [],
    pcs := List.replicate nThreads Pc.idle, got := [] }

def regAt (s : Shared) (k : Key) : Option Sess := (s.reg.getD k none)

/-- where a finished `registry()` call continues -/
def after (rm : Bool) (x : Sess) : Pc := if rm then .r2 x else .idle

/-- one transition of a thread of scope `k`; the Option Sess is the value handed to
    the caller of `scoped_session()` (not for the call inside remove()) -/
def trans (s : Shared) (k : Key) : Pc → Label → Option (Pc × Shared × Option Sess)
  | .idle, .call => some (.c1 false, s, none)
  | .r1, .call => some (.c1 true, s, none)
  | .c1 rm, .ret x =>
    if regAt s k = some x then some (after rm x, s, if rm then none else some x) else none
  | .c1 rm, .miss => if regAt s k = none then some (.c2 rm, s, none) else none
  | .c2 rm, .create x =>
    if x = s.owner.length then some (.c3 rm x, { s with owner := s.owner ++ [k] }, none) else none
  | .c3 rm x, .ret y =>
    match regAt s k with
    | none =>
      if y = x ∧ k < s.reg.length then
        some (after rm x, { s with reg := s.reg.set k (some x) }, if rm then none else some x)
      else none
    | some z => if y = z then some (after rm z, s, if rm then none else some z) else none
  | .idle, .rm => some (.r0, s, none)
  | .r0, .has b => if b = (regAt s k).isSome then some (if b then .r1 else .r3, s, none) else none
  | .r2 x, .close y => if y = x then some (.r3, { s with closed := x :: s.closed }, none) else none
  | .r3, .clear => some (.idle, { s with reg := s.reg.set k none }, none)
  | _, _ => none

def step (scope : List Key) (s : State) (t : Nat) (l : Label) : Option State :=
  match s.pcs[t]?, scope[t]? with
  | some pc, some k =>
    match trans s.toShared k pc l with
    | some (pc', sh, r) =>
      some { toShared := sh, pcs := s.pcs.set t pc',
             got := match r with
               | some x => (t, x) :: s.got
               | none => s.got }
    | none => none
  | _, _ => none

def run (scope : List Key) : State → List (Nat × Label) → Nat → Except Nat State
  | s, [], _ => .ok s
  | s, (t, l) :: rest, i =>
    match step scope s t l with
    | some s' => run scope s' rest (i + 1)
    | none => .error i

inductive Reach (scope : List Key) (nKeys : Nat) : State → Prop
  | init : Reach scope nKeys (init nKeys scope.length)
  | step {s s' : State} {t : Nat} {l : Label} :
      Reach scope nKeys s → step scope s t l = some s' → Reach scope nKeys s'

end SaVerif.Scoped
