/-
M-MERGELISTS — `util._collections.merge_lists_w_ordering(a, b)` (lib/sqlalchemy/util/_collections.py)

Python                                             model
-------------------------------------------------  ------------------------------------------
overlap = set(a).intersection(b)                   `overlap a b` (a list used as a set: only
                                                   membership and discard are ever applied)
current, other = iter(a), iter(b)                  the two remaining suffixes `cur`, `oth`
for element in current:                            head of `cur`
    if element in overlap:                         `ov.contains e`
        overlap.discard(element)                   `ov.filter (· != e)`
        other, current = current, other; break     recursive call with the suffixes swapped
    result.append(element)                         `res ++ [e]`
else: result.extend(other); break                  `res ++ oth`

Used by orm/decl_base.py and sql/_annotated_cols.py to reconcile `vars(cls)` with
`cls.__annotations__` (both duplicate-free key lists).  The model is total for every pair of
lists, duplicates included; every step consumes one element, hence termination.
-/
namespace SaVerif.MergeLists

def overlap [BEq α] (a b : List α) : List α := a.filter (fun x => b.contains x)

def go [BEq α] : (cur oth ov res : List α) → List α
  | [], oth, _, res => res ++ oth
  | e :: rest, oth, ov, res =>
    if ov.contains e then go oth rest (ov.filter (fun x => x != e)) res
    else go rest oth ov (res ++ [e])
termination_by cur oth => cur.length + oth.length
decreasing_by all_goals simp_wf <;> omega

def mergeListsWOrdering [BEq α] (a b : List α) : List α := go a b (overlap a b) []

end SaVerif.MergeLists
