/-!
# M-STR / identifiers — transcription of `IdentifierPreparer` (lib/sqlalchemy/sql/compiler.py)

Strings are `List Nat` (Unicode code points; `Nat` rather than `Char` because the kernel
decides the table theorems orders of magnitude faster on numerals), so that every theorem is about all
Python `str` values.  Import-free, total, executable.

| Python (sql/compiler.py, dialects/*/base.py)                      | model                      |
|--------------------------------------------------------------------|----------------------------|
| `str.replace(old, new)` (CPython, non-overlapping, left to right)   | `pyReplace`                |
| `str.lower()` per character (table regenerated from CPython)        | `Prep.lowerRanges/lowerSpecial`, `lower` |
| `LEGAL_CHARACTERS = re.compile(r"^[A-Z0-9_$]+$", re.I)` `.match`    | `legalMatch` (class probed per code point; `$` also matches before one trailing `\n`) |
| `IdentifierPreparer._escape_identifier` (+ MSSQL override)          | `escape` = `applyOps escOps` |
| `IdentifierPreparer._unescape_identifier` (+ MSSQL override)        | `unescape` = `applyOps unescOps` |
| `quote_identifier`                                                  | `quoteIdentifier`          |
| `_requires_quotes` (`value[0]` raises IndexError on `""`)           | `requiresQuotes` (`none` = IndexError) |
| `quote` with the `_strings` memo dict and `quoted_name.quote` force | `quote`, `quoteC` (stateful) |
| `format_table` / `format_column(use_table=True)` dotted joins       | `formatDotted`             |
| `DefaultDialect.normalize_name / denormalize_name`, `quoted_name.lower/upper` | `normalizeName`, `denormalizeName`, `lowerQ`, `upperQ` |
| `_r_identifiers` regex `(?:(?:IQ((?:ESC|[^FQ])+)FQ|([^\.]+))(?=\.|$))+` | `matchAt` (backtracking matcher, hand compiled) |
| `re.findall` + `a or b` + `_unescape_identifier`                    | `findall`, `unformat`      |

The second half is a *backend* model (not SQLAlchemy code): how a server lexes an
identifier token, per quoting style (`lexIdent`).  It is trusted for the
non-SQLite backends and validated by execution for SQLite.
-/
namespace SaVerif.Ident

abbrev Str := List Nat

/-! ## Python string primitives -/

/-- `List.isPrefixOf` written out (structural, easy to unfold) -/
def isPrefix : Str → Str → Bool
  | [], _ => true
  | _ :: _, [] => false
  | a :: as, b :: bs => a == b && isPrefix as bs

/-- CPython `s.replace(old, new)` for non-empty `old`: scan left to right, at each
    position where `old` matches emit `new` and skip `len(old)` characters
    (`skip` counts characters of the current match still to be skipped). -/
def pyReplaceAux (old new : Str) : Str → Nat → Str
  | [], _ => []
  | _ :: t, k + 1 => pyReplaceAux old new t k
  | c :: t, 0 =>
    if isPrefix old (c :: t) then new ++ pyReplaceAux old new t (old.length - 1)
    else c :: pyReplaceAux old new t 0

def pyReplace (old new s : Str) : Str := pyReplaceAux old new s 0

/-- a chain of `value = value.replace(old, new)` statements -/
def applyOps (ops : List (Str × Str)) (s : Str) : Str :=
  ops.foldl (fun acc op => pyReplace op.1 op.2 acc) s

/-- word tables travel as one space-separated string (fast to elaborate) -/
def ofS (s : String) : Str := s.toList.map Char.toNat
def toS (s : Str) : String := String.ofList (s.map Char.ofNat)
def splitWords (s : String) : List Str := (s.splitOn " ").map ofS

/-! ## the preparer -/

structure Prep where
  /-- `reserved_words` -/
  reserved : List Str
  /-- code points `c` with `legal_characters.match(c)` (probed from the compiled regex) -/
  legalChars : List Nat
  /-- `illegal_initial_characters` -/
  illegalInitial : List Nat
  /-- `initial_quote`, `final_quote` (one character each) -/
  iq : Nat
  fq : Nat
  /-- the `.replace` chain of `_escape_identifier` with `self.*` attributes resolved -/
  escOps : List (Str × Str)
  /-- the `.replace` chain of `_unescape_identifier` -/
  unescOps : List (Str × Str)
  /-- `str.lower()` of single code points, run-length encoded: `(start, count, stride, delta)`
      means `chr(start + i*stride).lower() == chr(start + i*stride + delta)` for `i < count` -/
  lowerRanges : List (Nat × Nat × Nat × Int)
  /-- code points whose `lower()` is not a single character -/
  lowerSpecial : List (Nat × Str)
  /-- the same two tables for `str.upper()` -/
  upperRanges : List (Nat × Nat × Nat × Int) := []
  upperSpecial : List (Nat × Str) := []
deriving Repr

def inLowerRange (c : Nat) (r : Nat × Nat × Nat × Int) : Bool :=
  r.1 ≤ c && c < r.1 + r.2.1 * r.2.2.1 && (c - r.1) % r.2.2.1 == 0

/-- ASCII: `A`–`Z` ↦ `a`–`z` (checked against CPython by the translator) -/
def asciiLowerChar (c : Nat) : Nat := if 65 ≤ c && c ≤ 90 then c + 32 else c
def asciiUpperChar (c : Nat) : Nat := if 97 ≤ c && c ≤ 122 then c - 32 else c

def lowerChar (p : Prep) (c : Nat) : Str :=
  if c < 128 then [asciiLowerChar c] else
  match p.lowerSpecial.lookup c with
  | some w => w
  | none =>
    match p.lowerRanges.find? (inLowerRange c) with
    | some r => [Int.toNat (c + r.2.2.2)]
    | none => [c]

/-- `value.lower()` (context-free part; final-sigma is not modelled: both σ and ς
    differ from Σ and are non-ASCII, which is all `_requires_quotes` observes) -/
def lower (p : Prep) (s : Str) : Str := s.flatMap (lowerChar p)

def upperChar (p : Prep) (c : Nat) : Str :=
  if c < 128 then [asciiUpperChar c] else
  match p.upperSpecial.lookup c with
  | some w => w
  | none =>
    match p.upperRanges.find? (inLowerRange c) with
    | some r => [Int.toNat (c + r.2.2.2)]
    | none => [c]

/-- `value.upper()` -/
def upper (p : Prep) (s : Str) : Str := s.flatMap (upperChar p)

/-- `legal_characters.match(value)` for the shape `^[class]+$`: one or more class
    characters, then end of string or exactly one final `\n`. -/
def legalMatch (p : Prep) (s : Str) : Bool :=
  let body := if s.getLast? == some 10 then s.dropLast else s
  !body.isEmpty && body.all (fun c => p.legalChars.contains c)

def escape (p : Prep) (s : Str) : Str := applyOps p.escOps s
def unescape (p : Prep) (s : Str) : Str := applyOps p.unescOps s

def quoteIdentifier (p : Prep) (s : Str) : Str := p.iq :: (escape p s ++ [p.fq])

/-- `_requires_quotes`; `none` = `IndexError` from `value[0]` on the empty string
    (raised only if the first disjunct is false, as in Python's `or` chain) -/
def requiresQuotes (p : Prep) (s : Str) : Option Bool :=
  let lc := lower p s
  if p.reserved.contains lc then some true else
  match s with
  | [] => none
  | c :: _ =>
    some (p.illegalInitial.contains c || !legalMatch p s || lc != s)

/-- `quote(ident)` without the memo; `force` = `getattr(ident, "quote", None)` -/
def quote (p : Prep) (force : Option Bool) (s : Str) : Option Str :=
  match force with
  | none =>
    match requiresQuotes p s with
    | none => none
    | some true => some (quoteIdentifier p s)
    | some false => some s
  | some true => some (quoteIdentifier p s)
  | some false => some s

/-- the `_strings` memo: association list, first match wins -/
abbrev Cache := List (Str × Str)

/-- `quote(ident)` as written, threading `self._strings` -/
def quoteC (p : Prep) (cache : Cache) (force : Option Bool) (s : Str) : Option Str × Cache :=
  match force with
  | none =>
    match cache.lookup s with
    | some r => (some r, cache)
    | none =>
      match requiresQuotes p s with
      | none => (none, cache)
      | some true => (some (quoteIdentifier p s), (s, quoteIdentifier p s) :: cache)
      | some false => (some s, (s, s) :: cache)
  | some true => (some (quoteIdentifier p s), cache)
  | some false => (some s, cache)

/-- run a sequence of `quote` calls on one preparer -/
def quoteSeq (p : Prep) : Cache → List (Option Bool × Str) → List (Option Str)
  | _, [] => []
  | c, (f, s) :: rest =>
    let (r, c') := quoteC p c f s
    r :: quoteSeq p c' rest

def intercalateDot : List Str → Str
  | [] => []
  | [a] => a
  | a :: b :: rest => a ++ 46 :: intercalateDot (b :: rest)

/-- `quote_schema(schema) + "." + quote(name) …` for plain `str` components -/
def quoteAll (p : Prep) : List Str → Option (List Str)
  | [] => some []
  | n :: ns =>
    match quote p none n, quoteAll p ns with
    | some q, some qs => some (q :: qs)
    | _, _ => none

def formatDotted (p : Prep) (names : List Str) : Option Str :=
  (quoteAll p names).map intercalateDot

/-! ## `DefaultDialect.normalize_name` / `denormalize_name` (engine/default.py)

Names travel with their `quoted_name.quote` flag (`none` for a plain `str`);
`quoted_name.lower()/upper()` return the name itself when the flag is `True`. -/

def lowerQ (p : Prep) (force : Option Bool) (s : Str) : Str := if force == some true then s else lower p s
def upperQ (p : Prep) (force : Option Bool) (s : Str) : Str := if force == some true then s else upper p s

/-- `normalize_name(name)` for a name as the server reports it (a plain `str`);
    outer `none` = `IndexError` escaping from `_requires_quotes` -/
def normalizeName (p : Prep) (s : Str) : Option (Str × Option Bool) :=
  let lo := lower p s
  let up := upper p s
  if up == lo then some (s, none)
  else if up == s then
    match requiresQuotes p lo with
    | none => none
    | some false => some (lo, none)
    | some true => if lo == s then some (s, some true) else some (s, none)
  else if lo == s then some (s, some true)
  else some (s, none)

/-- `denormalize_name(name)` -/
def denormalizeName (p : Prep) (force : Option Bool) (s : Str) : Option Str :=
  let lo := lowerQ p force s
  let up := upperQ p force s
  if up == lo then some s
  else if lo == s then
    match requiresQuotes p lo with
    | none => none
    | some false => some up
    | some true => some s
  else some s

/-! ## `_r_identifiers` / `unformat_identifiers` -/

/-- lookahead `(?=\.|$)`: next char is `.`, or end of string, or a final `\n` -/
def lookahead (t : Str) : Bool :=
  match t with
  | [] => true
  | [10] => true
  | c :: _ => c == 46

/-- `((?:ESC|[^FQ])+)FQ(?=\.|$)` from position `t`, with regex backtracking order:
    loop body alternatives first (ESC, then `[^FQ]`), leaving the loop last.
    `ne` = at least one loop iteration done.  Returns (group 1, rest after FQ).
    `fuel` ≥ `t.length + 1` is always enough (each step consumes a character). -/
def qbody (esc : Str) (fq : Nat) : Nat → Str → Bool → Option (Str × Str)
  | 0, _, _ => none
  | fuel + 1, t, ne =>
    let viaEsc : Option (Str × Str) :=
      if !esc.isEmpty && isPrefix esc t then
        match qbody esc fq fuel (t.drop esc.length) true with
        | some (g, r) => some (esc ++ g, r)
        | none => none
      else none
    match viaEsc with
    | some x => some x
    | none =>
      let viaChar : Option (Str × Str) :=
        match t with
        | c :: t' =>
          if c != fq then
            match qbody esc fq fuel t' true with
            | some (g, r) => some (c :: g, r)
            | none => none
          else none
        | [] => none
      match viaChar with
      | some x => some x
      | none =>
        if ne then
          match t with
          | c :: t' => if c == fq && lookahead t' then some ([], t') else none
          | [] => none
        else none

/-- `([^\.]+)(?=\.|$)`: the maximal run always satisfies the lookahead -/
def bareRun (t : Str) : Option (Str × Str) :=
  let run := t.takeWhile (· != 46)
  if run.isEmpty then none else some (run, t.dropWhile (· != 46))

/-- one iteration of the outer group: (group1?, group2?, rest) -/
def matchIter (p : Prep) (t : Str) : Option (Option Str × Option Str × Str) :=
  let alt1 : Option (Str × Str) :=
    match t with
    | c :: t' => if c == p.iq then qbody (escape p [p.fq]) p.fq (t'.length + 1) t' false else none
    | [] => none
  match alt1 with
  | some (g, r) => some (some g, none, r)
  | none =>
    match bareRun t with
    | some (g, r) => some (none, some g, r)
    | none => none

/-- greedy repetition of the outer group; a group keeps its last capture -/
def matchLoop (p : Prep) : Nat → Option Str → Option Str → Str → (Option Str × Option Str × Str)
  | 0, g1, g2, t => (g1, g2, t)
  | fuel + 1, g1, g2, t =>
    match matchIter p t with
    | some (a, b, r) =>
      if r.length < t.length then
        matchLoop p fuel (a.orElse fun _ => g1) (b.orElse fun _ => g2) r
      else (g1, g2, t)
    | none => (g1, g2, t)

/-- `pattern.match` at the start of `t` -/
def matchAt (p : Prep) (t : Str) : Option (Option Str × Option Str × Str) :=
  match matchIter p t with
  | some (a, b, r) => some (matchLoop p t.length a b r)
  | none => none

/-- `re.findall`: tuples `(group1 or '', group2 or '')` of successive matches -/
def findall (p : Prep) : Nat → Str → List (Str × Str)
  | 0, _ => []
  | fuel + 1, t =>
    match matchAt p t with
    | some (g1, g2, r) =>
      if r.length < t.length then (g1.getD [], g2.getD []) :: findall p fuel r
      else []
    | none =>
      match t with
      | [] => []
      | _ :: t' => findall p fuel t'

/-- `unformat_identifiers` -/
def unformat (p : Prep) (t : Str) : List Str :=
  (findall p (t.length + 1) t).map (fun ab => unescape p (if ab.1.isEmpty then ab.2 else ab.1))

/-! ## what the DBAPI does to the statement under `format`/`pyformat`

`cursor.execute(stmt, params)` computes `stmt % params`; on text without
placeholders that maps `%%` to `%` and rejects a lone `%`. -/
def unPercentAux : Str → Bool → Option Str
  | [], false => some []
  | [], true => none
  | c :: t, false =>
    if c == 37 then unPercentAux t true else (unPercentAux t false).map (c :: ·)
  | c :: t, true =>
    if c == 37 then (unPercentAux t false).map (37 :: ·) else none

/-- the flag of `unPercentAux` records a pending `%` -/
def unPercent (s : Str) : Option Str := unPercentAux s false

/-! ## backend identifier lexers (models of the *servers*, not of SQLAlchemy) -/

structure Backend where
  /-- opening / closing delimiter of a delimited identifier; the closing delimiter
      doubled stands for itself -/
  iq : Nat
  fq : Nat
  /-- may start / continue a regular (undelimited) identifier.  Characters ≥ U+0080
      are identifier characters on every backend modelled here. -/
  startAscii : List Nat
  contAscii : List Nat
  /-- words the grammar does not accept as a bare identifier -/
  keywords : List Str
  /-- case folding applied to regular identifiers: 0 none, 1 ASCII lower, 2 ASCII upper -/
  fold : Nat
  /-- the zero-length delimited identifier `""` is accepted (SQLite) -/
  emptyOk : Bool := false
deriving Repr

def Backend.isStart (b : Backend) (c : Nat) : Bool := b.startAscii.contains c || c ≥ 128
def Backend.isCont (b : Backend) (c : Nat) : Bool := b.contAscii.contains c || c ≥ 128

def Backend.foldStr (b : Backend) (s : Str) : Str :=
  if b.fold == 1 then s.map asciiLowerChar else if b.fold == 2 then s.map asciiUpperChar else s

/-- body of a delimited identifier: `fq fq` ↦ `fq`, single `fq` ends it; the flag
    records that the previous character was an unpaired `fq` -/
def lexQuotedAux (fq : Nat) : Str → Bool → Option (Str × Str)
  | [], false => none
  | [], true => some ([], [])
  | c :: t, false =>
    if c == fq then lexQuotedAux fq t true
    else (lexQuotedAux fq t false).map (fun gr => (c :: gr.1, gr.2))
  | c :: t, true =>
    if c == fq then (lexQuotedAux fq t false).map (fun gr => (fq :: gr.1, gr.2))
    else some ([], c :: t)

def lexQuotedBody (fq : Nat) (t : Str) : Option (Str × Str) := lexQuotedAux fq t false

/-- one identifier token at the start of `t`: (identifier as stored by the server, rest) -/
def lexIdent (b : Backend) (t : Str) : Option (Str × Str) :=
  match t with
  | [] => none
  | c :: t' =>
    if c == b.iq then
      match lexQuotedBody b.fq t' with
      | some (g, r) => if g.isEmpty && !b.emptyOk then none else some (g, r)
      | none => none
    else if b.isStart c then
      let word := c :: t'.takeWhile b.isCont
      if b.keywords.contains (word.map asciiLowerChar) then none
      else some (b.foldStr word, t'.dropWhile b.isCont)
    else none

end SaVerif.Ident
