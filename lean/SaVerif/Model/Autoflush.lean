/-
M-ORM/autoflush: one Session with pending adds, modifications and deletes over two
tables P(id, a) and C(id, pid, a) (relationship P.children, lazy="select",
viewonly), and the operations that emit a SELECT.

Transcribed code (lib/sqlalchemy/orm):

Python                                                    model
--------------------------------------------------------  ----------------------------------
Session._autoflush: `if self.autoflush and not            `autoflushOn` / `afStep`
  self._flushing: self.flush()`
Session.no_autoflush (sets self.autoflush = False)        `AfMode.ctxOff`
context.orm_pre_session_exec: `if load_options._autoflush:  `AfMode.optOff` (execution option
  session._autoflush()`                                     autoflush=False), `Op.query`
Session._execute_internal: "unconditionally autoflush     `Op.core` (Core select of the mapped
  for Core statements" (#9809)                              table: ignores the execution option)
Session._get_impl: identity-map hit → the instance, no    `Op.get`
  SQL, no flush (also for an instance marked deleted);
  miss → load_on_pk_identity (autoflush, SELECT)
strategies._LazyLoader._load_for_state → _emit_lazyload   `Op.children`
  (ORM statement; autoflush unless NO_AUTOFLUSH / pending
  parent)
Session.add / attribute set / Session.delete              `Op.add`, `Op.setA`, `Op.setPid`, `Op.del`
Session.flush: unitofwork — INSERTs (P before C, in       `doFlush` = `insertAll` ∘ updates ∘
  insertion order), UPDATEs of dirty states, DELETEs;       deletes; `none` = IntegrityError on a
  _register_persistent / _remove_newly_deleted              duplicate primary key (rollback)
loading.instances: rows whose identity is in the           `resultOf` (the session's object is
  identity map return the existing instance untouched       returned with its current values)

The database is as the session's transaction sees it; there is no other writer in
this model (C46 covers that), expire_on_commit is off.

Import-free, total, executable.
-/
namespace SaVerif.Autoflush

structure Key where
  t : Nat      -- 0 = P, 1 = C
  id : Nat
deriving DecidableEq, Repr

structure Row where
  a : Int
  pid : Option Nat    -- C.pid (always none for P)
deriving DecidableEq, Repr

structure Obj where
  row : Row
  dirty : Bool
  del : Bool
deriving DecidableEq, Repr

abbrev DB := Key → Option Row

structure Cfg where
  n : Nat        -- ids 0 .. n-1 in both tables
  af : Bool      -- Session(autoflush=…)
deriving Repr

structure St where
  db : DB
  saved : Option DB                 -- committed snapshot while uncommitted DML exists
  objs : Key → Option Obj           -- identity map (persistent objects)
  new : List (Key × Row)            -- session.new, insertion order

def St.init : St := ⟨fun _ => none, none, fun _ => none, []⟩

inductive AfMode | on | optOff | ctxOff
deriving DecidableEq, Repr

inductive Q
  | all (t : Nat)
  | byA (t : Nat) (v : Int)
  | byPid (p : Nat)               -- select(C).where(C.pid == p)
  | joinA (v : Int)               -- select(P).join(C, C.pid == P.id).where(C.a == v).distinct()
deriving Repr

inductive Op
  | add (k : Key) (r : Row)
  | setA (k : Key) (v : Int)
  | setPid (k : Key) (p : Option Nat)
  | del (k : Key)
  | query (q : Q) (m : AfMode)       -- ORM select of entities
  | count (q : Q) (m : AfMode)       -- select(func.count()).select_from(entity)…
  | core (q : Q) (m : AfMode)        -- Core select on the Table: ids only
  | legacy (q : Q) (m : AfMode)      -- legacy Query of Table columns only (no ORM entity): ids
  | legacyCount (q : Q) (m : AfMode) -- session.query(func.count(table.c.id))…
  | get (k : Key) (m : AfMode)
  | children (p : Nat) (m : AfMode)  -- lazy load of P.children (mode optOff not applicable)
  | flush
  | commit
deriving Repr

inductive Out
  | skip
  | done
  | rows (l : List (Nat × Int))      -- (id, a) as the session's objects show them
  | ids (l : List Nat)
  | num (n : Nat)
  | obj (o : Option (Int × Bool))    -- get: (a, marked deleted) | None
  | integrity
deriving DecidableEq, Repr

/-! ### relational evaluation over ids < n -/

def idsOf (n : Nat) (t : Nat) (db : DB) (p : Row → Bool) : List Nat :=
  (List.range n).filter (fun i => match db ⟨t, i⟩ with
                                  | some r => p r
                                  | none => false)

/-- entity table and ids selected by a query -/
def evalQ (n : Nat) (db : DB) : Q → Nat × List Nat
  | .all t => (t, idsOf n t db (fun _ => true))
  | .byA t v => (t, idsOf n t db (fun r => r.a == v))
  | .byPid p => (1, idsOf n 1 db (fun r => r.pid == some p))
  | .joinA v =>
    (0, (List.range n).filter (fun i =>
          (db ⟨0, i⟩).isSome && (idsOf n 1 db (fun r => r.pid == some i && r.a == v)).length != 0))

/-! ### flush -/

def pendingKey (new : List (Key × Row)) (k : Key) : Bool := new.any (fun e => e.1 == k)

/-- INSERTs: P rows first, then C rows, each in insertion order; `none` = duplicate pk -/
def insertAll : List (Key × Row) → DB → Option DB
  | [], db => some db
  | (k, r) :: rest, db =>
    match db k with
    | some _ => none
    | none => insertAll rest (fun j => if j = k then some r else db j)

def orderedNew (new : List (Key × Row)) : List (Key × Row) :=
  new.filter (fun e => e.1.t == 0) ++ new.filter (fun e => e.1.t != 0)

/-- UPDATEs and DELETEs of the persistent objects, pointwise -/
def applyObj (o : Option Obj) (row : Option Row) : Option Row :=
  match o with
  | some o => if o.del then none else if o.dirty then (match row with
                                                          | some _ => some o.row
                                                          | none => none) else row
  | none => row

def objAfterFlush (o : Option Obj) : Option Obj :=
  match o with
  | some o => if o.del then none else some { o with dirty := false }
  | none => none

def workAt (o : Option Obj) : Bool :=
  match o with
  | some o => o.dirty || o.del
  | none => false

def hasWork (c : Cfg) (st : St) : Bool :=
  !st.new.isEmpty || (List.range c.n).any (fun i => [0, 1].any (fun t => workAt (st.objs ⟨t, i⟩)))

/-- identity map after a successful flush: pending objects become persistent, deleted
    ones leave, the others are clean -/
def objsAfter (st : St) (k : Key) : Option Obj :=
  match st.new.find? (fun e => e.1 == k) with
  | some e => some ⟨e.2, false, false⟩
  | none => objAfterFlush (st.objs k)

/-- after an IntegrityError the session is rolled back and every object expired; the
    histories of this model end there (C46 covers expiry): the state is kept only so
    that `step` stays total, the driver stops at the first `integrity` -/
def rolledBack (st : St) : St :=
  let db := st.saved.getD st.db
  { db := db, saved := none, new := [], objs := fun _ => none }

/-- `Session.flush()`; `none` = IntegrityError (session rolled back) -/
def doFlush (c : Cfg) (st : St) : Option St :=
  if !hasWork c st then some st else
  match insertAll (orderedNew st.new) st.db with
  | none => none
  | some db1 =>
    some { db := fun k => applyObj (st.objs k) (db1 k),
           saved := match st.saved with
                    | some s => some s
                    | none => some st.db,
           objs := objsAfter st,
           new := [] }

def autoflushOn (c : Cfg) (m : AfMode) : Bool := c.af && m == .on

/-- Core statements ignore the ORM execution option -/
def coreFlushOn (c : Cfg) (m : AfMode) : Bool := c.af && m != .ctxOff

def afStep (c : Cfg) (on : Bool) (st : St) : Option St := if on then doFlush c st else some st

/-- values of the returned entities: the identity map's object if there is one -/
def resultOf (st : St) (t : Nat) (ids : List Nat) : List (Nat × Int) :=
  ids.map (fun i => match st.objs ⟨t, i⟩, st.db ⟨t, i⟩ with
                    | some o, _ => (i, o.row.a)
                    | none, some r => (i, r.a)
                    | none, none => (i, 0))

/-- loading rows puts new identities into the identity map -/
def loadInto (st : St) (t : Nat) (ids : List Nat) : St :=
  { st with objs := fun k =>
      if k.t = t ∧ ids.contains k.id then
        (match st.objs k, st.db k with
         | some o, _ => some o
         | none, some r => some ⟨r, false, false⟩
         | none, none => none)
      else st.objs k }

def keyOk (c : Cfg) (k : Key) : Bool := k.t < 2 && k.id < c.n

def step (c : Cfg) (st : St) : Op → St × Out
  | .add k r =>
    if (st.objs k).isSome || pendingKey st.new k then (st, .skip)
    else ({ st with new := st.new ++ [(k, if k.t = 0 then { r with pid := none } else r)] }, .done)
  | .setA k v =>
    match st.objs k with
    | some o =>
      if o.del then (st, .skip)
      else ({ st with objs := fun j => if j = k then some { o with row := { o.row with a := v }, dirty := true } else st.objs j }, .done)
    | none =>
      if pendingKey st.new k then
        ({ st with new := st.new.map (fun e => if e.1 = k then (e.1, { e.2 with a := v }) else e) }, .done)
      else (st, .skip)
  | .setPid k p =>
    if k.t != 1 then (st, .skip) else
    match st.objs k with
    | some o =>
      if o.del then (st, .skip)
      else ({ st with objs := fun j => if j = k then some { o with row := { o.row with pid := p }, dirty := true } else st.objs j }, .done)
    | none =>
      if pendingKey st.new k then
        ({ st with new := st.new.map (fun e => if e.1 = k then (e.1, { e.2 with pid := p }) else e) }, .done)
      else (st, .skip)
  | .del k =>
    match st.objs k with
    | some o =>
      if o.del then (st, .skip)
      else ({ st with objs := fun j => if j = k then some { o with del := true } else st.objs j }, .done)
    | none => (st, .skip)
  | .query q m =>
    match afStep c (autoflushOn c m) st with
    | none => (rolledBack st, .integrity)
    | some st1 =>
      let (t, ids) := evalQ c.n st1.db q
      let st2 := loadInto st1 t ids
      (st2, .rows (resultOf st2 t ids))
  | .count q m =>
    match afStep c (autoflushOn c m) st with
    | none => (rolledBack st, .integrity)
    | some st1 => (st1, .num (evalQ c.n st1.db q).2.length)
  | .core q m =>
    match afStep c (coreFlushOn c m) st with
    | none => (rolledBack st, .integrity)
    | some st1 => (st1, .ids (evalQ c.n st1.db q).2)
  | .legacy q m =>
    -- a Query is an ORM statement even without an entity: orm_pre_session_exec autoflushes
    -- according to its load options, whether or not there is a plugin_subject
    match afStep c (autoflushOn c m) st with
    | none => (rolledBack st, .integrity)
    | some st1 => (st1, .ids (evalQ c.n st1.db q).2)
  | .legacyCount q m =>
    match afStep c (autoflushOn c m) st with
    | none => (rolledBack st, .integrity)
    | some st1 => (st1, .num (evalQ c.n st1.db q).2.length)
  | .get k m =>
    match st.objs k with
    | some o => (st, .obj (some (o.row.a, o.del)))
    | none =>
      match afStep c (autoflushOn c m) st with
      | none => (rolledBack st, .integrity)
      | some st1 =>
        -- after the flush a pending object of that identity is persistent and found
        match st1.objs k, st1.db k with
        | some o, _ => (st1, .obj (some (o.row.a, o.del)))
        | none, some r =>
          if pendingKey st1.new k then (st1, .skip)   -- unflushed pending twin: the harness never does this
          else ({ st1 with objs := fun j => if j = k then some ⟨r, false, false⟩ else st1.objs j }, .obj (some (r.a, false)))
        | none, none => (st1, .obj none)
  | .children p m =>
    match st.objs ⟨0, p⟩ with
    | none => (st, .skip)
    | some o =>
      if o.del then (st, .skip) else
      match afStep c (c.af && m == .on) st with
      | none => (rolledBack st, .integrity)
      | some st1 =>
        let ids := (evalQ c.n st1.db (.byPid p)).2
        let st2 := loadInto st1 1 ids
        (st2, .rows (resultOf st2 1 ids))
  | .flush =>
    match doFlush c st with
    | none => (rolledBack st, .integrity)
    | some st1 => (st1, .done)
  | .commit =>
    match doFlush c st with
    | none => (rolledBack st, .integrity)
    | some st1 => ({ st1 with saved := none }, .done)

def run (c : Cfg) (st : St) : List Op → St
  | [] => st
  | o :: os => run c (step c st o).1 os

/-- outputs; the history ends at the first IntegrityError -/
def runOut (c : Cfg) (st : St) : List Op → List Out
  | [] => []
  | o :: os =>
    match (step c st o).2 with
    | .integrity => [.integrity]
    | out => out :: runOut c (step c st o).1 os

def qOk (c : Cfg) : Q → Bool
  | .all t | .byA t _ => t < 2
  | .byPid p => p < c.n
  | .joinA _ => true

def opOk (c : Cfg) : Op → Bool
  | .add k r => keyOk c k && (match r.pid with
                              | some p => p < c.n
                              | none => true)
  | .setA k _ | .del k | .get k _ => keyOk c k
  | .setPid k p => keyOk c k && (match p with
                                  | some p => p < c.n
                                  | none => true)
  | .query q _ | .count q _ | .core q _ | .legacy q _ | .legacyCount q _ => qOk c q
  | .children p m => p < c.n && m != .optOff
  | .flush | .commit => true

end SaVerif.Autoflush
