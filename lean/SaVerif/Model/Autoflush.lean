import SaVerif.Gen.AutoflushCfg
/-
M-ORM/autoflush: one Session with pending adds, modifications and deletes over two
tables P(id, a) and C(id, pid, a) (relationship P.children, lazy="select",
viewonly), and the operations that emit a SELECT.

Transcribed code (lib/sqlalchemy/orm):

Python                                                    model
--------------------------------------------------------  ----------------------------------
Session._autoflush: `if self.autoflush and not            `autoflushOn` / `afStep`
  self._flushing: self.flush()`
Session.no_autoflush (sets self.autoflush = False)        `AfMode.ctxOff`
context.orm_pre_session_exec: `if load_options._autoflush:  `AfMode.optOff` (execution option
  session._autoflush()`                                     autoflush=False), `Op.query`
Session._execute_internal(statement, _scalar_result):      `flushes` — the decision TABLE over
  compile_state_cls = ORM plugin class if                    (Kind.orm, Via, AfMode, Cfg.af):
    statement._propagate_attrs["compile_state_plugin"]       `Kind.orm` is regenerated from the real
    == "orm" else None                                       statements (Gen.AutoflushCfg.plugin*)
  if compile_state_cls is not None:                          ORM row: `c.af && m == .on`
    compile_state_cls.orm_pre_session_exec(…)   [context.py: `if not is_pre_event and
                                                  load_options._autoflush: session._autoflush()`]
  else: self._autoflush()   # "unconditionally autoflush   Core row: ignores the execution option;
        for Core statements" (#9809)                         flushes iff that call precedes the exit
  if _scalar_result and not compile_state_cls:               the entry point leaves through
      return conn.scalar(…)        # fast path               (Gen.AutoflushCfg.coreAutoflushBefore…,
  result = orm_execute_statement(…) | conn.execute(…)        read off session.py by the translator)
  return result.scalar() if _scalar_result else result
Session.execute / .scalars (= execute(…).scalars()) /      `Via.execute`, `.scalars`, `.scalar`;
  .scalar (_scalar_result=True): first column of the          `consume`: list | head of the list | None
  first row or None
Query.all / .first (LIMIT 1) / .one_or_none, .scalar       `Via.qAll`, `.qFirst`, `.qOne`, `.qCount`
  (MultipleResultsFound on a second row) / .count            (all of them `Query._iter` →
  (SELECT count(*) FROM (<query>))                            Session.execute with the Query's load options)
Session._get_impl: identity-map hit → the instance, no    `Op.get`
  SQL, no flush (also for an instance marked deleted);
  miss → load_on_pk_identity (autoflush, SELECT)
strategies._LazyLoader._load_for_state → _emit_lazyload   `Op.children`
  (ORM statement; autoflush unless NO_AUTOFLUSH / pending
  parent)
Session.add / attribute set / Session.delete              `Op.add`, `Op.setA`, `Op.setPid`, `Op.del`
Session.flush: unitofwork — INSERTs (P before C, in       `doFlush` = `insertAll` ∘ updates ∘
  insertion order), UPDATEs of dirty states, DELETEs;       deletes; `none` = IntegrityError on a
  _register_persistent / _remove_newly_deleted              duplicate primary key (rollback)
loading.instances: rows whose identity is in the           `resultOf` (the session's object is
  identity map return the existing instance untouched       returned with its current values)

The database is as the session's transaction sees it; there is no other writer in
this model (C46 covers that), expire_on_commit is off.

Imports only the regenerated table SaVerif.Gen.AutoflushCfg (translator: `gen` of
harness/props/c47.py); otherwise import-free, total, executable.
-/
namespace SaVerif.Autoflush
open SaVerif.Gen.AutoflushCfg

structure Key where
  t : Nat      -- 0 = P, 1 = C
  id : Nat
deriving DecidableEq, Repr

structure Row where
  a : Int
  pid : Option Nat    -- C.pid (always none for P)
deriving DecidableEq, Repr

structure Obj where
  row : Row
  dirty : Bool
  del : Bool
deriving DecidableEq, Repr

abbrev DB := Key → Option Row

structure Cfg where
  n : Nat        -- ids 0 .. n-1 in both tables
  af : Bool      -- Session(autoflush=…)
deriving Repr

structure St where
  db : DB
  saved : Option DB                 -- committed snapshot while uncommitted DML exists
  objs : Key → Option Obj           -- identity map (persistent objects)
  new : List (Key × Row)            -- session.new, insertion order

def St.init : St := ⟨fun _ => none, none, fun _ => none, []⟩

inductive AfMode | on | optOff | ctxOff
deriving DecidableEq, Repr

inductive Q
  | all (t : Nat)
  | byA (t : Nat) (v : Int)
  | byPid (p : Nat)               -- select(C).where(C.pid == p)
  | joinA (v : Int)               -- select(P).join(C, C.pid == P.id).where(C.a == v).distinct()
deriving Repr

/-- the statement kinds of harness/props/c47.py (`build_stmt` / `legacy_query`) -/
inductive Kind
  | entity        -- select(Entity)…                                            rows (id, a)
  | count         -- select(func.count(distinct(Entity.id))).select_from(Entity)…
  | core          -- select(table.c.id)…  (Core select on the Table)             ids
  | coreCount     -- select(func.count(distinct(table.c.id))).select_from(table)…
  | text          -- text("select id from … where a = :v order by id")           ids
  | textCount     -- text("select count(*) from (…)")
  | existsSel     -- select(exists().where(<ORM criteria>))                      bool
  | existsDot     -- exists().where(<ORM criteria>).select()                     bool
  | legacy        -- session.query(table.c.id)…  (Query of Table columns only)   ids
  | legacyCount   -- session.query(func.count(distinct(table.c.id)))…
deriving DecidableEq, Repr

/-- does the statement carry `_propagate_attrs["compile_state_plugin"] == "orm"`, i.e. is
    `compile_state_cls` not None in `Session._execute_internal`: read off the real statements
    by the translator (Core `exists()` does not propagate the plugin of its criteria) -/
def Kind.orm : Kind → Bool
  | .entity => pluginEntity
  | .count => pluginCount
  | .core => pluginCore
  | .coreCount => pluginCoreCount
  | .text => pluginText
  | .textCount => pluginTextCount
  | .existsSel => pluginExistsSel
  | .existsDot => pluginExistsDot
  | .legacy => pluginLegacy
  | .legacyCount => pluginLegacyCount

inductive Shape | ents | ids | num | flag
deriving DecidableEq, Repr

def Kind.shape : Kind → Shape
  | .entity => .ents
  | .core | .text | .legacy => .ids
  | .count | .coreCount | .textCount | .legacyCount => .num
  | .existsSel | .existsDot => .flag

def Kind.isLegacy : Kind → Bool
  | .legacy | .legacyCount => true
  | _ => false

/-- the entry point a statement is run through -/
inductive Via
  | execute     -- Session.execute(stmt).all()
  | scalars     -- Session.scalars(stmt).all()
  | scalar      -- Session.scalar(stmt): _execute_internal(_scalar_result=True)
  | qAll        -- Query.all()
  | qFirst      -- Query.first(): LIMIT 1, first row or None
  | qOne        -- Query.one_or_none() / Query.scalar(): MultipleResultsFound on a second row
  | qCount      -- Query.count(): SELECT count(*) FROM (<query>)
deriving DecidableEq, Repr

def viaOk (k : Kind) (v : Via) : Bool :=
  match v with
  | .execute | .scalars | .scalar => !k.isLegacy
  | .qAll | .qFirst | .qOne => k.isLegacy
  | .qCount => k == .legacy

inductive Op
  | add (k : Key) (r : Row)
  | setA (k : Key) (v : Int)
  | setPid (k : Key) (p : Option Nat)
  | del (k : Key)
  | read (k : Kind) (v : Via) (q : Q) (m : AfMode)   -- a statement of kind `k` run through `v`
  | get (k : Key) (m : AfMode)
  | children (p : Nat) (m : AfMode)  -- lazy load of P.children (mode optOff not applicable)
  | flush
  | commit
deriving Repr

/-- the former single-entry-point operations -/
@[reducible] def Op.query (q : Q) (m : AfMode) : Op := .read .entity .execute q m
@[reducible] def Op.count (q : Q) (m : AfMode) : Op := .read .count .execute q m
@[reducible] def Op.core (q : Q) (m : AfMode) : Op := .read .core .execute q m
@[reducible] def Op.legacy (q : Q) (m : AfMode) : Op := .read .legacy .qAll q m
@[reducible] def Op.legacyCount (q : Q) (m : AfMode) : Op := .read .legacyCount .qOne q m

/-- one element of a result, first column -/
inductive Val
  | ent (i : Nat) (a : Int)          -- entity (id, a) as the session's object shows it
  | id (i : Nat)
  | num (n : Nat)
  | flag (b : Bool)
deriving DecidableEq, Repr

inductive Out
  | skip
  | done
  | list (l : List Val)              -- .all() of the result, first column
  | one (o : Option Val)             -- scalar / first: head of the result or None
  | multi                            -- MultipleResultsFound
  | obj (o : Option (Int × Bool))    -- get: (a, marked deleted) | None
  | integrity
deriving DecidableEq, Repr

/-! ### relational evaluation over ids < n -/

def idsOf (n : Nat) (t : Nat) (db : DB) (p : Row → Bool) : List Nat :=
  (List.range n).filter (fun i => match db ⟨t, i⟩ with
                                  | some r => p r
                                  | none => false)

/-- entity table and ids selected by a query -/
def evalQ (n : Nat) (db : DB) : Q → Nat × List Nat
  | .all t => (t, idsOf n t db (fun _ => true))
  | .byA t v => (t, idsOf n t db (fun r => r.a == v))
  | .byPid p => (1, idsOf n 1 db (fun r => r.pid == some p))
  | .joinA v =>
    (0, (List.range n).filter (fun i =>
          (db ⟨0, i⟩).isSome && (idsOf n 1 db (fun r => r.pid == some i && r.a == v)).length != 0))

/-! ### flush -/

def pendingKey (new : List (Key × Row)) (k : Key) : Bool := new.any (fun e => e.1 == k)

/-- INSERTs: P rows first, then C rows, each in insertion order; `none` = duplicate pk -/
def insertAll : List (Key × Row) → DB → Option DB
  | [], db => some db
  | (k, r) :: rest, db =>
    match db k with
    | some _ => none
    | none => insertAll rest (fun j => if j = k then some r else db j)

def orderedNew (new : List (Key × Row)) : List (Key × Row) :=
  new.filter (fun e => e.1.t == 0) ++ new.filter (fun e => e.1.t != 0)

/-- UPDATEs and DELETEs of the persistent objects, pointwise -/
def applyObj (o : Option Obj) (row : Option Row) : Option Row :=
  match o with
  | some o => if o.del then none else if o.dirty then (match row with
                                                          | some _ => some o.row
                                                          | none => none) else row
  | none => row

def objAfterFlush (o : Option Obj) : Option Obj :=
  match o with
  | some o => if o.del then none else some { o with dirty := false }
  | none => none

def workAt (o : Option Obj) : Bool :=
  match o with
  | some o => o.dirty || o.del
  | none => false

def hasWork (c : Cfg) (st : St) : Bool :=
  !st.new.isEmpty || (List.range c.n).any (fun i => [0, 1].any (fun t => workAt (st.objs ⟨t, i⟩)))

/-- identity map after a successful flush: pending objects become persistent, deleted
    ones leave, the others are clean -/
def objsAfter (st : St) (k : Key) : Option Obj :=
  match st.new.find? (fun e => e.1 == k) with
  | some e => some ⟨e.2, false, false⟩
  | none => objAfterFlush (st.objs k)

/-- after an IntegrityError the session is rolled back and every object expired; the
    histories of this model end there (C46 covers expiry): the state is kept only so
    that `step` stays total, the driver stops at the first `integrity` -/
def rolledBack (st : St) : St :=
  let db := st.saved.getD st.db
  { db := db, saved := none, new := [], objs := fun _ => none }

/-- `Session.flush()`; `none` = IntegrityError (session rolled back) -/
def doFlush (c : Cfg) (st : St) : Option St :=
  if !hasWork c st then some st else
  match insertAll (orderedNew st.new) st.db with
  | none => none
  | some db1 =>
    some { db := fun k => applyObj (st.objs k) (db1 k),
           saved := match st.saved with
                    | some s => some s
                    | none => some st.db,
           objs := objsAfter st,
           new := [] }

def autoflushOn (c : Cfg) (m : AfMode) : Bool := c.af && m == .on

/-- Core statements ignore the ORM execution option -/
def coreFlushOn (c : Cfg) (m : AfMode) : Bool := c.af && m != .ctxOff

/-- is the `self._autoflush()` of the Core branch reached before the exit the entry point
    leaves `_execute_internal` through: `return conn.scalar(…)` for `Session.scalar`, the
    `conn.execute(…)` for every other entry point (regenerated ordering facts) -/
def coreCallReached : Via → Bool
  | .scalar => coreAutoflushBeforeScalarFastPath
  | _ => coreAutoflushBeforeExecute

/-- **the autoflush decision table** of `Session._execute_internal` + `orm_pre_session_exec`
    over (ORM plugin?, entry point, mode, Session.autoflush) -/
def flushes (c : Cfg) (orm : Bool) (v : Via) (m : AfMode) : Bool :=
  if orm then autoflushOn c m else coreFlushOn c m && coreCallReached v

def afStep (c : Cfg) (on : Bool) (st : St) : Option St := if on then doFlush c st else some st

/-- values of the returned entities: the identity map's object if there is one -/
def resultOf (st : St) (t : Nat) (ids : List Nat) : List (Nat × Int) :=
  ids.map (fun i => match st.objs ⟨t, i⟩, st.db ⟨t, i⟩ with
                    | some o, _ => (i, o.row.a)
                    | none, some r => (i, r.a)
                    | none, none => (i, 0))

/-- loading rows puts new identities into the identity map -/
def loadInto (st : St) (t : Nat) (ids : List Nat) : St :=
  { st with objs := fun k =>
      if k.t = t ∧ ids.contains k.id then
        (match st.objs k, st.db k with
         | some o, _ => some o
         | none, some r => some ⟨r, false, false⟩
         | none, none => none)
      else st.objs k }

/-- entry points that keep the first row only -/
def Via.isHead : Via → Bool
  | .scalar | .qFirst => true
  | _ => false

/-- entities that stay in the (weak) identity map: those handed to the caller -/
def loadFor (k : Kind) (v : Via) (st : St) (t : Nat) (ids : List Nat) : St :=
  match k.shape with
  | .ents => loadInto st t (if v.isHead then ids.take 1 else ids)
  | _ => st

/-- `.all()` of the statement's result, first column -/
def values (k : Kind) (st : St) (t : Nat) (ids : List Nat) : List Val :=
  match k.shape with
  | .ents => (resultOf st t ids).map (fun e => .ent e.1 e.2)
  | .ids => ids.map .id
  | .num => [.num ids.length]
  | .flag => [.flag (ids.length != 0)]

/-- what the entry point hands back of the result list -/
def consume : Via → List Val → Out
  | .execute, l | .scalars, l | .qAll, l => .list l
  | .scalar, l | .qFirst, l => .one l.head?
  | .qOne, l => if l.length ≤ 1 then .one l.head? else .multi
  | .qCount, l => .one (some (.num l.length))

def keyOk (c : Cfg) (k : Key) : Bool := k.t < 2 && k.id < c.n

def step (c : Cfg) (st : St) : Op → St × Out
  | .add k r =>
    if (st.objs k).isSome || pendingKey st.new k then (st, .skip)
    else ({ st with new := st.new ++ [(k, if k.t = 0 then { r with pid := none } else r)] }, .done)
  | .setA k v =>
    match st.objs k with
    | some o =>
      if o.del then (st, .skip)
      else ({ st with objs := fun j => if j = k then some { o with row := { o.row with a := v }, dirty := true } else st.objs j }, .done)
    | none =>
      if pendingKey st.new k then
        ({ st with new := st.new.map (fun e => if e.1 = k then (e.1, { e.2 with a := v }) else e) }, .done)
      else (st, .skip)
  | .setPid k p =>
    if k.t != 1 then (st, .skip) else
    match st.objs k with
    | some o =>
      if o.del then (st, .skip)
      else ({ st with objs := fun j => if j = k then some { o with row := { o.row with pid := p }, dirty := true } else st.objs j }, .done)
    | none =>
      if pendingKey st.new k then
        ({ st with new := st.new.map (fun e => if e.1 = k then (e.1, { e.2 with pid := p }) else e) }, .done)
      else (st, .skip)
  | .del k =>
    match st.objs k with
    | some o =>
      if o.del then (st, .skip)
      else ({ st with objs := fun j => if j = k then some { o with del := true } else st.objs j }, .done)
    | none => (st, .skip)
  | .read k v q m =>
    match afStep c (flushes c k.orm v m) st with
    | none => (rolledBack st, .integrity)
    | some st1 =>
      let (t, ids) := evalQ c.n st1.db q
      let st2 := loadFor k v st1 t ids
      (st2, consume v (values k st2 t ids))
  | .get k m =>
    match st.objs k with
    | some o => (st, .obj (some (o.row.a, o.del)))
    | none =>
      match afStep c (autoflushOn c m) st with
      | none => (rolledBack st, .integrity)
      | some st1 =>
        -- after the flush a pending object of that identity is persistent and found
        match st1.objs k, st1.db k with
        | some o, _ => (st1, .obj (some (o.row.a, o.del)))
        | none, some r =>
          if pendingKey st1.new k then (st1, .skip)   -- unflushed pending twin: the harness never does this
          else ({ st1 with objs := fun j => if j = k then some ⟨r, false, false⟩ else st1.objs j }, .obj (some (r.a, false)))
        | none, none => (st1, .obj none)
  | .children p m =>
    match st.objs ⟨0, p⟩ with
    | none => (st, .skip)
    | some o =>
      if o.del then (st, .skip) else
      match afStep c (c.af && m == .on) st with
      | none => (rolledBack st, .integrity)
      | some st1 =>
        let ids := (evalQ c.n st1.db (.byPid p)).2
        let st2 := loadInto st1 1 ids
        (st2, .list ((resultOf st2 1 ids).map (fun e => .ent e.1 e.2)))
  | .flush =>
    match doFlush c st with
    | none => (rolledBack st, .integrity)
    | some st1 => (st1, .done)
  | .commit =>
    match doFlush c st with
    | none => (rolledBack st, .integrity)
    | some st1 => ({ st1 with saved := none }, .done)

def run (c : Cfg) (st : St) : List Op → St
  | [] => st
  | o :: os => run c (step c st o).1 os

/-- outputs; the history ends at the first IntegrityError -/
def runOut (c : Cfg) (st : St) : List Op → List Out
  | [] => []
  | o :: os =>
    match (step c st o).2 with
    | .integrity => [.integrity]
    | out => out :: runOut c (step c st o).1 os

def qOk (c : Cfg) : Q → Bool
  | .all t | .byA t _ => t < 2
  | .byPid p => p < c.n
  | .joinA _ => true

def opOk (c : Cfg) : Op → Bool
  | .add k r => keyOk c k && (match r.pid with
                              | some p => p < c.n
                              | none => true)
  | .setA k _ | .del k | .get k _ => keyOk c k
  | .setPid k p => keyOk c k && (match p with
                                  | some p => p < c.n
                                  | none => true)
  | .read k v q _ => qOk c q && viaOk k v
  | .children p m => p < c.n && m != .optOff
  | .flush | .commit => true

end SaVerif.Autoflush
