/-
M-COLL (4b): `LRUCache` (lib/sqlalchemy/util/_collections.py) under threads, as a labelled
transition system.  Import-free, total, executable.

Any number of threads run programs of `get(k)` / `cache[k] = v` / `del cache[k]`.  One transition = one atomic
access to shared state (finer than a source line, so every line-level interleaving the
cooperative scheduler of harness/lib_sched.py can produce is a path of this LTS):

Python                                                     micro-steps (thread-local pc)
---------------------------------------------------------  ------------------------------------
get:  item = self._data.get(key)                           idle → gI0 | result None
      self._counter += 1   (load, store: NOT atomic)       gI0 → gI1 → gI2
      return self._counter (re-read)                       gI2 → gW
      item[2][0] = <that>  (the cell of the tuple seen     gW → idle (result item[1])
                            at the time of the lookup)
set:  self._counter += 1 ; return self._counter            idle → sI1 → sI2 → sSt
      self._data[key] = (key, value, [c])                  sSt → m0
      _manage_size:
        if not self._mutex.acquire(False): return          m0 → idle  | m0 → m1 (holder)
        while len(self) > capacity + capacity*threshold:   m1 → m2  | m1 → m4 ("all clear")
          by_counter = sorted(values, key=ctr, reverse)    m2 → m3 (keys of by_counter[capacity:])
          for item in …: try: del self._data[item[0]]     m3 (k :: ks) → m3 ks ; m3 [] → m1
                         except KeyError: continue
        finally: self._mutex.release()                     m4 → idle

`sorted(self._data.values(), …)` is one step: building the list from the dict view and the
sort itself run in C without releasing the GIL (trusted).  Every tuple stored gets a fresh
cell id so that a late `item[2][0] = …` of a reader hits the tuple it looked up, which may
no longer be the one in the dict.

Ghost fields (`extra`, `failed`, `stored`) do not influence behaviour; they carry the
statements of Props/C54.
-/
namespace SaVerif.LruMT

structure MEnt where
  key : Nat
  val : Nat
  ctr : Nat
  cid : Nat
deriving Repr, DecidableEq, Hashable

inductive MOp where
  | get (k : Nat)
  | set (k v : Nat)
  | del (k : Nat)
deriving Repr, DecidableEq, Hashable

inductive PC where
  | idle
  | gI0 (k : Nat) (it : MEnt)
  | gI1 (k : Nat) (it : MEnt) (r : Nat)
  | gI2 (k : Nat) (it : MEnt)
  | gW (k : Nat) (it : MEnt) (v : Nat)
  | sI1 (k v r : Nat)
  | sI2 (k v : Nat)
  | sSt (k v c : Nat)
  | m0
  | m1
  | m2
  | m3 (todo : List Nat)
  | m4
deriving Repr, DecidableEq, Hashable

structure Thread where
  pc : PC
  prog : List MOp
  /-- results of the completed `get`s, newest first: (key asked, value returned / None) -/
  rets : List (Nat × Option Nat)
deriving Repr, DecidableEq, Hashable

structure MState where
  cap : Nat
  num : Nat
  den : Nat
  data : List MEnt
  counter : Nat
  held : Bool
  nextCid : Nat
  threads : List Thread
  /-- ghost: new keys inserted since the last "all clear" check of a mutex holder -/
  extra : Nat
  /-- ghost: failed try-locks since the last "all clear" -/
  failed : Nat
deriving Repr, DecidableEq, Hashable

def init (cap num den : Nat) (progs : List (List MOp)) : MState :=
  { cap, num, den, data := [], counter := 0, held := false, nextCid := 0,
    threads := progs.map (fun p => ⟨.idle, p, []⟩), extra := 0, failed := 0 }

def find (data : List MEnt) (k : Nat) : Option MEnt := data.find? (fun e => e.key == k)

def hasKey (data : List MEnt) (k : Nat) : Bool := data.any (fun e => e.key == k)

/-- `self._data[key] = tuple`: an existing key keeps its dict position -/
def store (data : List MEnt) (e : MEnt) : List MEnt :=
  if hasKey data e.key then data.map (fun x => if x.key == e.key then e else x) else data ++ [e]

def delKey (data : List MEnt) (k : Nat) : List MEnt := data.filter (fun e => e.key != k)

/-- `item[2][0] = v` on the tuple with cell `cid` (if it is still in the dict) -/
def writeCell (data : List MEnt) (cid v : Nat) : List MEnt :=
  data.map (fun e => if e.cid == cid then { e with ctr := v } else e)

def over (s : MState) (n : Nat) : Bool := decide (n * s.den > s.cap * s.den + s.cap * s.num)

def insertDesc (x : MEnt) : List MEnt → List MEnt
  | [] => [x]
  | y :: ys => if x.ctr ≥ y.ctr then x :: y :: ys else y :: insertDesc x ys

def byCounter : List MEnt → List MEnt
  | [] => []
  | x :: xs => insertDesc x (byCounter xs)

def setThread (s : MState) (t : Nat) (th : Thread) : MState :=
  { s with threads := s.threads.set t th }

/-- one atomic step of thread `t`; `none` = the thread has nothing left to do -/
def mstep (s : MState) (t : Nat) : Option MState :=
  match s.threads[t]? with
  | none => none
  | some th =>
    match th.pc with
    | .idle =>
      match th.prog with
      | [] => none
      | .get k :: rest =>
        match find s.data k with
        | none => some (setThread s t { th with prog := rest, rets := (k, none) :: th.rets })
        | some it => some (setThread s t { th with prog := rest, pc := .gI0 k it })
      | .set k v :: rest => some (setThread s t { th with prog := rest, pc := .sI1 k v s.counter })
      | .del k :: rest =>
        -- `del cache[k]` is `del self._data[k]`: one atomic dict operation (KeyError when absent)
        some (setThread { s with data := delKey s.data k } t { th with prog := rest })
    | .gI0 k it => some (setThread s t { th with pc := .gI1 k it s.counter })
    | .gI1 k it r => some (setThread { s with counter := r + 1 } t { th with pc := .gI2 k it })
    | .gI2 k it => some (setThread s t { th with pc := .gW k it s.counter })
    | .gW k it v =>
      some (setThread { s with data := writeCell s.data it.cid v } t
        { th with pc := .idle, rets := (k, some it.val) :: th.rets })
    | .sI1 k v r => some (setThread { s with counter := r + 1 } t { th with pc := .sI2 k v })
    | .sI2 k v => some (setThread s t { th with pc := .sSt k v s.counter })
    | .sSt k v c =>
      some (setThread
        { s with data := store s.data ⟨k, v, c, s.nextCid⟩, nextCid := s.nextCid + 1,
                 extra := if hasKey s.data k then s.extra else s.extra + 1 } t
        { th with pc := .m0 })
    | .m0 =>
      if s.held then some (setThread { s with failed := s.failed + 1 } t { th with pc := .idle })
      else some (setThread { s with held := true } t { th with pc := .m1 })
    | .m1 =>
      if over s s.data.length then some (setThread s t { th with pc := .m2 })
      else some (setThread { s with extra := 0, failed := 0 } t { th with pc := .m4 })
    | .m2 =>
      some (setThread s t { th with pc := .m3 (((byCounter s.data).drop s.cap).map (·.key)) })
    | .m3 [] => some (setThread s t { th with pc := .m1 })
    | .m3 (k :: ks) => some (setThread { s with data := delKey s.data k } t { th with pc := .m3 ks })
    | .m4 => some (setThread { s with held := false } t { th with pc := .idle })

/-- reachability: any thread may move at any time (no fairness assumed) -/
inductive Reach (s0 : MState) : MState → Prop where
  | refl : Reach s0 s0
  | step {s s' : MState} (t : Nat) : Reach s0 s → mstep s t = some s' → Reach s0 s'

/-- run a schedule (list of thread numbers); a thread with nothing to do is skipped -/
def runSched (s : MState) : List Nat → MState
  | [] => s
  | t :: ts => match mstep s t with
    | some s' => runSched s' ts
    | none => runSched s ts

def quiescent (s : MState) : Bool := s.threads.all (fun th => th.pc == .idle && th.prog.isEmpty)

end SaVerif.LruMT
