/-!
# Hand-over protocol of a pool entry between concurrent checkouts (C26, concurrent part)

`_ConnectionRecord.checkout` / `_ConnectionRecord.checkin` / `_finalize_fairy` of
lib/sqlalchemy/pool/base.py seen as a protocol over shared cells, every write of a shared
cell being one atomic step so that ANY interleaving of any number of concurrent checkouts
is a run of the machine:

* `ref r`  -- `record.fairy_ref`: which checkout ("fairy") the entry currently belongs to
* `idle r` -- the entry is in the pool's queue, visible to every other thread
* `dead r` -- the entry was closed and forgotten (queue full)

A checkout attempt `a` (one `_ConnectionFairy`) goes
`start --pop/create--> got r --setref--> holding r --clear--> cleared r --put/drop--> done`.
`clear` is guarded the way `_finalize_fairy` guards `connection_record.checkin()`:
it happens only if `fairy_ref` still designates this fairy; otherwise the release is
SKIPPED (`skip`) and the entry returns nowhere -- the theorems show that `skip` is never
enabled, for every interleaving, provided `fairy_ref` is cleared BEFORE the entry is
made visible (`put`).  `stepLate` is the machine with the two writes in the other order;
there the entry can be lost (see `Props/C26.lean`).
-/
namespace SaVerif.RecProto

abbrev Fid := Nat
abbrev Rid := Nat

inductive Pc where
  | start
  | got (r : Rid)
  | holding (r : Rid)
  | cleared (r : Rid)
  | done
  deriving DecidableEq, Repr

structure St where
  pc : Fid → Pc
  ref : Rid → Option Fid
  idle : Rid → Bool
  used : Rid → Bool
  dead : Rid → Bool

def init : St :=
  { pc := fun _ => .start, ref := fun _ => none, idle := fun _ => false,
    used := fun _ => false, dead := fun _ => false }

inductive Label where
  /-- `_do_get` created a new entry -/
  | create (a : Fid) (r : Rid)
  /-- `_do_get` took an idle entry out of the queue -/
  | pop (a : Fid) (r : Rid)
  /-- `rec.fairy_ref = weakref.ref(fairy, ...)` -/
  | setref (a : Fid) (r : Rid)
  /-- `checkin()` reached through the guard `fairy_ref is (not None | ref)`: `self.fairy_ref = None` -/
  | clear (a : Fid) (r : Rid)
  /-- `_checkin_failed` before a fairy existed: `self.fairy_ref = None` -/
  | clearf (a : Fid) (r : Rid)
  /-- `_do_return_conn`: queue.put -/
  | put (a : Fid) (r : Rid)
  /-- `_do_return_conn`: queue full, entry closed -/
  | drop (a : Fid) (r : Rid)
  /-- the guard of `_finalize_fairy` found `fairy_ref` not designating this fairy: nothing returned -/
  | skip (a : Fid) (r : Rid)
  deriving DecidableEq, Repr

def upd {β : Type} (f : Nat → β) (k : Nat) (v : β) : Nat → β :=
  fun x => if x = k then v else f x

def step (s : St) : Label → Option St
  | .create a r =>
    if s.pc a = .start ∧ s.used r = false then
      some { s with pc := upd s.pc a (.got r), used := upd s.used r true }
    else none
  | .pop a r =>
    if s.pc a = .start ∧ s.idle r = true then
      some { s with pc := upd s.pc a (.got r), idle := upd s.idle r false }
    else none
  | .setref a r =>
    if s.pc a = .got r then
      some { s with pc := upd s.pc a (.holding r), ref := upd s.ref r (some a) }
    else none
  | .clear a r =>
    if s.pc a = .holding r ∧ s.ref r = some a then
      some { s with pc := upd s.pc a (.cleared r), ref := upd s.ref r none }
    else none
  | .clearf a r =>
    if s.pc a = .got r then
      some { s with pc := upd s.pc a (.cleared r), ref := upd s.ref r none }
    else none
  | .put a r =>
    if s.pc a = .cleared r then
      some { s with pc := upd s.pc a .done, idle := upd s.idle r true }
    else none
  | .drop a r =>
    if s.pc a = .cleared r then
      some { s with pc := upd s.pc a .done, dead := upd s.dead r true }
    else none
  | .skip a r =>
    if s.pc a = .holding r ∧ s.ref r ≠ some a then
      some { s with pc := upd s.pc a .done }
    else none

def run (s : St) : List Label → Option St
  | [] => some s
  | l :: ls => match step s l with
    | some s' => run s' ls
    | none => none

/-- the same machine with `checkin()` writing in the other order: the entry is put back
    first (`put` from `holding`), `fairy_ref` is cleared afterwards (`clear` from `cleared`,
    unguarded, as a plain `self.fairy_ref = None` is) -/
def stepLate (s : St) : Label → Option St
  | .put a r =>
    if s.pc a = .holding r ∧ s.ref r = some a then
      some { s with pc := upd s.pc a (.cleared r), idle := upd s.idle r true }
    else none
  | .clear a r =>
    if s.pc a = .cleared r then
      some { s with pc := upd s.pc a .done, ref := upd s.ref r none }
    else none
  | l => step s l

def runLate (s : St) : List Label → Option St
  | [] => some s
  | l :: ls => match stepLate s l with
    | some s' => runLate s' ls
    | none => none

/-- checkout attempt `a` is responsible for entry `r` -/
def Owns (s : St) (a : Fid) (r : Rid) : Prop :=
  s.pc a = .got r ∨ s.pc a = .holding r ∨ s.pc a = .cleared r

/-- no checkout attempt is in progress or holding anything -/
def Quiescent (s : St) : Prop := ∀ a, s.pc a = .start ∨ s.pc a = .done

end SaVerif.RecProto
