/-
M-SESS: transcription of the Session / SessionTransaction transaction-and-snapshot machinery of
  lib/sqlalchemy/orm/session.py
    SessionTransaction.__init__ / _take_snapshot / _restore_snapshot / _remove_snapshot /
      commit / _prepare_impl / rollback / close / _iterate_self_and_parents
    Session.begin / begin_nested / commit / rollback / close / flush (reduced) / add / delete
    Session._register_persistent / _register_altered / _remove_newly_deleted /
      _expunge_states / _update_impl(revert_deletion)
  lib/sqlalchemy/orm/state.py   InstanceState._detach_states / _expire / lifecycle predicates
over one table `item(id PRIMARY KEY, v)` with a SAVEPOINT stack.  Import-free, total,
executable.

Python                                         model
---------------------------------------------  ---------------------------------------------
InstanceState.key / session_id / _deleted      Obj.key / attached / delFlag
state.dict['id'], ['v'] present?               Obj.idL / vL (loaded), Obj.pk / v (values)
state.modified (+ which attribute)             Obj.modPk / modV
Session._new / _deleted / identity_map         Sess.new / marked / imap  (lists of object numbers)
Session._transaction chain (via _parent)       Sess.txns, innermost first
SessionTransaction._new/_dirty/_deleted/       STx.new / dirty / deleted / switches
  _key_switches, nested, _state                  STx.nested / closed
flush(): INSERT / UPDATE / DELETE of one row   Sess.flush (no failures: the harness uses fresh keys)
raise                                          second component `SRes`
-/
namespace SaVerif.SessTxn

abbrev Rows := List (Nat × Nat)

def Rows.get (r : Rows) (k : Nat) : Option Nat := (r.find? (fun p => p.1 == k)).map (·.2)
def Rows.del (r : Rows) (k : Nat) : Rows := r.filter (fun p => p.1 != k)
def Rows.set (r : Rows) (k v : Nat) : Rows := (r.del k) ++ [(k, v)]

inductive SRes where
  | ok
  | invalidRequest      -- InvalidRequestError
  | closedTxn           -- ResourceClosedError "This transaction is closed"
  | objectDeleted       -- ObjectDeletedError on refresh
deriving DecidableEq, Repr, Inhabited

structure Obj where
  key : Option Nat       -- identity key (primary key in the identity map)
  attached : Bool        -- session_id is this session
  delFlag : Bool         -- state._deleted
  pk : Nat               -- in-memory `id`
  v : Nat                -- in-memory `v`
  idL : Bool             -- `id` present in __dict__
  vL : Bool              -- `v` present in __dict__
  modPk : Bool           -- pending change of `id`
  modV : Bool            -- pending change of `v`
deriving DecidableEq, Repr, Inhabited

structure STx where
  h : Nat                          -- handle number (order of creation)
  nested : Bool
  new : List Nat                   -- _new
  dirty : List Nat                 -- _dirty
  deleted : List Nat               -- _deleted
  switches : List (Nat × (Nat × Nat))   -- _key_switches: obj ↦ (oldkey, newkey)
  saveRows : Rows                  -- rows when the scope's SAVEPOINT / BEGIN was taken
deriving DecidableEq, Repr, Inhabited

structure Sess where
  objs : List Obj
  new : List Nat                   -- session._new (insert order)
  marked : List Nat                -- session._deleted
  imap : List Nat                  -- objects in the identity map
  txns : List STx                  -- innermost first
  nextH : Nat
  ended : List Nat                 -- handles of closed transactions
  rows : Rows                      -- what the session's connection sees
  committed : Rows
  eoc : Bool                       -- expire_on_commit
  autoflush : Bool := true         -- Session.autoflush (also what a `no_autoflush` block switches)
deriving DecidableEq, Repr, Inhabited

def Sess.init (eoc : Bool) (autoflush : Bool := true) : Sess :=
  { objs := [], new := [], marked := [], imap := [], txns := [], nextH := 0, ended := [],
    rows := [], committed := [], eoc := eoc, autoflush := autoflush }

/-- the same session with the autoflush flag set to `b` -/
abbrev Sess.withAf (s : Sess) (b : Bool) : Sess := { s with autoflush := b }

def Sess.obj (s : Sess) (o : Nat) : Obj := s.objs.getD o default
def Sess.setObj (s : Sess) (o : Nat) (f : Obj → Obj) : Sess := { s with objs := s.objs.modify o f }

def Obj.modified (x : Obj) : Bool := x.modPk || x.modV

/-- `state._expire(dict, modified_set)`: every attribute unloaded, pending changes dropped -/
def Obj.expire (x : Obj) : Obj := { x with idL := false, vL := false, modPk := false, modV := false }

/-- `Session._autobegin_t()` -/
def Sess.autobegin (s : Sess) : Sess :=
  if s.txns.isEmpty then
    { s with txns := [{ h := s.nextH, nested := false, new := [], dirty := [], deleted := [],
                        switches := [], saveRows := s.rows }],
             nextH := s.nextH + 1 }
  else s

/-- apply `f` to the innermost transaction (the collections a flush registers into) -/
def Sess.modTop (s : Sess) (f : STx → STx) : Sess :=
  match s.txns with
  | t :: rest => { s with txns := f t :: rest }
  | [] => s

def addOnce (l : List Nat) (o : Nat) : List Nat := if l.contains o then l else l ++ [o]

/-- record a key switch in `_key_switches`: keep the ORIGINAL key if there is an entry -/
def switchPut (l : List (Nat × (Nat × Nat))) (o old new : Nat) : List (Nat × (Nat × Nat)) :=
  match l.find? (fun e => e.1 == o) with
  | some e => (l.filter (fun e => e.1 != o)) ++ [(o, (e.2.1, new))]
  | none => l ++ [(o, (old, new))]

/-- flush of one object (INSERT / UPDATE / DELETE + `_register_persistent` /
    `_remove_newly_deleted`) -/
def Sess.flushObj (s : Sess) (o : Nat) : Sess :=
  let x := s.obj o
  if s.marked.contains o then
    -- DELETE; _remove_newly_deleted
    match x.key with
    | some k =>
      -- the unit of work reads the primary key of the object: expired attributes are loaded
      let rv := (s.rows.get k).getD 0
      let s := { s with rows := s.rows.del k, imap := s.imap.filter (· != o),
                        marked := s.marked.filter (· != o) }
      let s := s.modTop fun t => { t with deleted := addOnce t.deleted o }
      s.setObj o fun x =>
        if x.idL then { x with delFlag := true }
        else { x with delFlag := true, pk := k, idL := true, v := if x.vL then x.v else rv, vL := true }
    | none => s
  else if s.new.contains o then
    -- INSERT; _register_persistent: key assigned, into the identity map, trans._new
    let s := { s with rows := s.rows.set x.pk x.v, imap := addOnce s.imap o,
                      new := s.new.filter (· != o) }
    let s := s.modTop fun t => { t with new := addOnce t.new o }
    s.setObj o fun x => { x with key := some x.pk, modPk := false, modV := false }
  else if s.imap.contains o && x.modified then
    -- UPDATE of the changed columns; a changed primary key is a key switch
    match x.key with
    | some k =>
      let oldv := (s.rows.get k).getD 0
      let newv := if x.modV then x.v else oldv
      let newk := if x.modPk then x.pk else k
      let s := { s with rows := (s.rows.del k).set newk newv }
      let s := s.modTop fun t =>
        { t with dirty := addOnce t.dirty o,
                 switches := if newk != k then switchPut t.switches o k newk else t.switches }
      s.setObj o fun x => { x with key := some newk, pk := newk, idL := true, modPk := false, modV := false }
    | none => s
  else s

def flushAll : List Nat → Sess → Sess
  | [], s => s
  | o :: os, s => flushAll os (s.flushObj o)

/-- is there anything to flush (`not self._is_clean()`) -/
def Sess.unclean (s : Sess) : Bool :=
  !s.new.isEmpty || !s.marked.isEmpty || s.imap.any (fun o => (s.obj o).modified)

/-- `Session.flush()` -/
def Sess.flush (s : Sess) : Sess :=
  if s.unclean then
    let s := s.autobegin
    flushAll (List.range s.objs.length) s
  else s

/-- `Session._autoflush()`: `if self.autoflush and not self._flushing: self.flush()` -/
def Sess.autoflushNow (s : Sess) : Sess := if s.autoflush then s.flush else s

/-- load the expired attributes of a persistent object from its row (a SELECT, preceded by
    the autoflush when autoflush is on) -/
def Sess.load (s : Sess) (o : Nat) : Sess × SRes :=
  let s := s.autobegin
  let s := s.autoflushNow
  let x := s.obj o
  match x.key.bind s.rows.get, x.key with
  | some rv, some k =>
    (s.setObj o fun x => { x with pk := if x.idL then x.pk else k, idL := true,
                                  v := if x.vL then x.v else rv, vL := true }, .ok)
  | _, _ => (s, .objectDeleted)

def Obj.persistent (x : Obj) : Bool := x.key.isSome && x.attached && !x.delFlag

/-- `InstanceState._detach_states([state], session, to_transient)` -/
def Obj.detach (x : Obj) (toTransient : Bool) : Obj :=
  { x with attached := false, key := if toTransient then none else x.key }

/-- `Session._expunge_states([o], to_transient=True)` -/
def Sess.expunge (s : Sess) (o : Nat) : Sess :=
  let s :=
    if s.new.contains o then { s with new := s.new.filter (· != o) }
    else if s.imap.contains o then
      { s with imap := s.imap.filter (· != o), marked := s.marked.filter (· != o) }
    else s.modTop fun t => { t with deleted := t.deleted.filter (· != o) }
  s.setObj o fun x => x.detach true

def expungeAll : List Nat → Sess → Sess
  | [], s => s
  | o :: os, s => expungeAll os (s.expunge o)

/-- the key-switch loop of `_restore_snapshot` -/
def restoreKeys (toExpunge : List Nat) : List (Nat × (Nat × Nat)) → Sess → Sess
  | [], s => s
  | (o, (old, _)) :: rest, s =>
    let s := { s with imap := s.imap.filter (· != o) }          -- safe_discard
    let s := s.setObj o fun x => { x with key := some old }      -- s.key = oldkey
    let s := if toExpunge.contains o then s else { s with imap := addOnce s.imap o }
    restoreKeys toExpunge rest s

/-- `_update_impl(s, revert_deletion=True)` -/
def Sess.revertDeletion (s : Sess) (o : Nat) : Sess :=
  let x := s.obj o
  if x.key.isNone then s        -- raises in Python; unreachable for tracked states
  else if x.delFlag && !x.attached then s
  else
    let s := s.setObj o fun x => { x with delFlag := false }
    { s with marked := s.marked.filter (· != o), imap := addOnce s.imap o }

def revertAll : List Nat → Sess → Sess
  | [], s => s
  | o :: os, s => revertAll os (s.revertDeletion o)

def expireWhere (p : Nat → Obj → Bool) : List Nat → Sess → Sess
  | [], s => s
  | o :: os, s =>
    expireWhere p os (if p o (s.obj o) then s.setObj o Obj.expire else s)

/-- `SessionTransaction._restore_snapshot(dirty_only)` for the boundary transaction `t` -/
def Sess.restoreSnapshot (s : Sess) (t : STx) (dirtyOnly : Bool) : Sess :=
  let toExpunge := (t.new ++ s.new).eraseDups
  let s := expungeAll toExpunge s
  let s := restoreKeys toExpunge t.switches s
  let s := revertAll ((t.deleted ++ s.marked).eraseDups) s
  expireWhere (fun o x => !dirtyOnly || x.modified || t.dirty.contains o) s.imap s

/-- `SessionTransaction._remove_snapshot()` for the boundary transaction `t` (already popped;
    the parent, if any, is now the innermost) -/
def Sess.removeSnapshot (s : Sess) (t : STx) : Sess :=
  if !t.nested && s.eoc then
    let s := expireWhere (fun _ _ => true) s.imap s
    -- _detach_states(list(self._deleted), session)
    t.deleted.foldl (fun s o => s.setObj o fun x => x.detach false) s
  else if t.nested then
    s.modTop fun p =>
      { p with new := t.new.foldl addOnce p.new, dirty := t.dirty.foldl addOnce p.dirty,
               deleted := t.deleted.foldl addOnce p.deleted,
               -- parent._key_switches.update(self._key_switches): the child's entry REPLACES
               -- the parent's (including its original key)
               switches := (p.switches.filter (fun e => !(t.switches.any (fun f => f.1 == e.1))))
                             ++ t.switches }
  else s

/-- pop the innermost transaction: `close()` -/
def Sess.popTx (s : Sess) : Sess :=
  match s.txns with
  | t :: rest => { s with txns := rest, ended := s.ended ++ [t.h] }
  | [] => s

/-- commit the innermost transaction (`SessionTransaction.commit` when it is the current one):
    flush, RELEASE / COMMIT, `_remove_snapshot`, close -/
def Sess.commitTop (s : Sess) : Sess :=
  let s := s.flush
  match s.txns with
  | t :: _ =>
    let s := if t.nested then s else { s with committed := s.rows }
    let s := s.popTx
    s.removeSnapshot t
  | [] => s

/-- roll back the innermost transaction (`SessionTransaction.rollback` when it is the current
    one): ROLLBACK [TO SAVEPOINT], `_restore_snapshot(dirty_only=nested)`, close -/
def Sess.rollbackTop (s : Sess) : Sess :=
  match s.txns with
  | t :: _ =>
    let s := { s with rows := if t.nested then t.saveRows else s.committed }
    let s := s.restoreSnapshot t t.nested
    s.popTx
  | [] => s

/-- close the innermost transaction WITHOUT restoring anything in the session (what
    `rollback()` of an outer transaction does to the inner ones); the database side of a
    savepoint is rolled back by the engine-level `Transaction.close()` -/
def Sess.closeTop (s : Sess) : Sess :=
  match s.txns with
  | t :: _ => ({ s with rows := if t.nested then t.saveRows else s.committed }).popTx
  | [] => s

def repeatN (n : Nat) (f : Sess → Sess) (s : Sess) : Sess :=
  match n with
  | 0 => s
  | n + 1 => repeatN n f (f s)

/-- position (from the innermost) of the open transaction with handle `h` -/
def Sess.depthOf (s : Sess) (h : Nat) : Option Nat := s.txns.findIdx? (fun t => t.h == h)

/-- `handle.commit()`: the inner transactions are committed first (`_prepare_impl`) -/
def Sess.tCommit (s : Sess) (h : Nat) : Sess × SRes :=
  match s.depthOf h with
  | some d => (repeatN (d + 1) Sess.commitTop s, .ok)
  | none => (s, .closedTxn)

/-- `handle.rollback()`: the inner transactions are only CLOSED, then this one is rolled back -/
def Sess.tRollback (s : Sess) (h : Nat) : Sess × SRes :=
  match s.depthOf h with
  | some d => ((repeatN d Sess.closeTop s).rollbackTop, .ok)
  | none => (s, .closedTxn)

/-- `Session.commit()`: `trans.commit(_to_root=True)` -/
def Sess.commit (s : Sess) : Sess :=
  if s.txns.isEmpty then
    -- a transaction is begun and committed inside the call; its handle is never observed
    let s := s.autobegin
    let s := s.commitTop
    { s with nextH := s.nextH - 1, ended := s.ended.dropLast }
  else repeatN s.txns.length Sess.commitTop s

/-- `Session.rollback()`: `trans.rollback(_to_root=True)` -/
def Sess.rollback (s : Sess) : Sess := repeatN s.txns.length Sess.rollbackTop s

/-- `Session.close()`: expunge_all(), then every transaction is closed -/
def Sess.close (s : Sess) : Sess :=
  let all := (s.imap ++ s.new).eraseDups
  let s := all.foldl (fun s o => s.setObj o fun x => x.detach false) s
  let s := { s with imap := [], new := [], marked := [] }
  repeatN s.txns.length Sess.closeTop s

inductive SOp where
  | add (pk v : Nat)
  | setV (o v : Nat)
  | setPk (o pk : Nat)
  | delete (o : Nat)
  | flush
  | load (o : Nat)
  | begin
  | beginNested
  | commit | rollback | close
  | tCommit (h : Nat) | tRollback (h : Nat)
  | setAutoflush (b : Bool)        -- session.autoflush = b (entering / leaving `no_autoflush`)
deriving DecidableEq, Repr, Inhabited

def Sess.step (s : Sess) : SOp → Sess × SRes
  | .add pk v =>
    let s := s.autobegin
    let o := s.objs.length
    ({ s with objs := s.objs ++ [{ key := none, attached := true, delFlag := false, pk := pk, v := v,
                                   idL := true, vL := true, modPk := false, modV := false }],
              new := s.new ++ [o] }, .ok)
  | .setV o v =>
    let x := s.obj o
    let s := if x.attached then s.autobegin else s
    (s.setObj o fun x => { x with v := v, vL := true, modV := x.attached && x.key.isSome }, .ok)
  | .setPk o pk =>
    let x := s.obj o
    -- the old value of a primary-key attribute is needed: an expired one is loaded first
    let (s, r) : Sess × SRes :=
      if x.persistent && !x.idL then s.load o else (if x.attached then s.autobegin else s, .ok)
    match r with
    | .ok => (s.setObj o fun x => { x with pk := pk, idL := true, modPk := x.attached && x.key.isSome }, .ok)
    | r => (s, r)
  | .delete o =>
    let s := s.autobegin
    ({ s with marked := addOnce s.marked o }, .ok)
  | .flush => (s.flush, .ok)
  | .load o =>
    let x := s.obj o
    if x.persistent && !x.vL then s.load o else (s, .ok)
  | .begin => if s.txns.isEmpty then (s.autobegin, .ok) else (s, .invalidRequest)
  | .beginNested =>
    -- `_take_snapshot`: `if not is_begin and not self.session._flushing: self.session.flush()` —
    -- an unconditional flush, whatever `autoflush` says: work pending in the enclosing scope
    -- is written BEFORE the SAVEPOINT
    let s := s.autobegin
    let s := s.flush
    ({ s with txns := { h := s.nextH, nested := true, new := [], dirty := [], deleted := [],
                        switches := [], saveRows := s.rows } :: s.txns,
              nextH := s.nextH + 1 }, .ok)
  | .commit => (s.commit, .ok)
  | .rollback => (s.rollback, .ok)
  | .close => (s.close, .ok)
  | .tCommit h => s.tCommit h
  | .tRollback h => s.tRollback h
  | .setAutoflush b => ({ s with autoflush := b }, .ok)

def Sess.run (s : Sess) : List SOp → Sess
  | [] => s
  | op :: ops => Sess.run (s.step op).1 ops

end SaVerif.SessTxn
