import SaVerif.Model.Bind
/-
M-STR/M-BIND (C16): schema_translate_map.  Transcription of

  lib/sqlalchemy/sql/compiler.py
    IdentifierPreparer._with_schema_translate   (symbol_getter)
    IdentifierPreparer._render_schema_translates
    IdentifierPreparer.format_table / visit_table / visit_column  (schema prefix)
  lib/sqlalchemy/sql/elements.py   ClauseElement._compile_w_cache  (key holds bool(map))
  lib/sqlalchemy/engine/default.py _init_compiled / _init_ddl (substitution after lookup)

Python                                              model
--------------------------------------------------  -----------------------------------
re `(__\[SCHEMA_([^\]]+)\])`                        `matchS` / `scanName` (greedy `[^\]]+` then `]`)
re.sub(pattern, replace, statement)                 `tokensS` then `renderToks`
dict with a possible `None` key                     `List (Option Str × Option Str)`, `mlookup`
`d["_none"] = d[None]` (mutates the caller's map)   `withNoneAlias`
`name in d` / `d[name]`                             `mlookup (some name)`
quote_schema(effective_schema)                      parameter `q : Str → Str` (identifier quoting: C06)
dialect.default_schema_name                         parameter `dflt : Option Str`
compiled cache keyed (…, bool(map), …)              `Cache`, `execCached`
exc.InvalidRequestError / CompileError              `Err`

Core Lean only (imports Model/Bind for `Str`, `stripPrefix`, association lists).
-/
namespace SaVerif.SchemaTr
open SaVerif.Bind

def schemaPrefix : Str := ['_', '_', '[', 'S', 'C', 'H', 'E', 'M', 'A', '_']

def noneAlias : Str := ['_', 'n', 'o', 'n', 'e']

/-- `([^\]]+)\]` with `acc` already consumed -/
def scanName (acc : Str) : Str → Option (Str × Str)
  | [] => none
  | c :: cs =>
    if c = ']' then (if acc.isEmpty then none else some (acc, cs))
    else scanName (acc ++ [c]) cs

/-- match of `__\[SCHEMA_([^\]]+)\]` at the head: (name, rest) -/
def matchS (s : Str) : Option (Str × Str) :=
  match stripPrefix schemaPrefix s with
  | none => none
  | some r => scanName [] r

inductive STok
  | lit (c : Char)
  | sch (name : Str)
  deriving DecidableEq, Repr

def tokensAuxS : Nat → Str → List STok
  | 0, _ => []
  | _ + 1, [] => []
  | fuel + 1, c :: cs =>
    match matchS (c :: cs) with
    | some (n, rest) => STok.sch n :: tokensAuxS fuel rest
    | none => STok.lit c :: tokensAuxS fuel cs

def tokensS (s : Str) : List STok := tokensAuxS (s.length + 1) s

/-! ## the map -/

abbrev SMap := List (Option Str × Option Str)

def mlookup (k : Option Str) : SMap → Option (Option Str)
  | [] => none
  | (k', v) :: r => if k' = k then some v else mlookup k r

def hasNone (m : SMap) : Bool := (mlookup none m).isSome

/-- `d[k] = v` -/
def mset (k : Option Str) (v : Option Str) : SMap → SMap
  | [] => [(k, v)]
  | (k', v') :: r => if k' = k then (k', v) :: r else (k', v') :: mset k v r

/-- `if None in d: d["_none"] = d[None]` -/
def withNoneAlias (m : SMap) : SMap :=
  match mlookup none m with
  | some v => mset (some noneAlias) v m
  | none => m

inductive Err
  | noneNowPresent        -- map has None, compiled statement was built without
  | noneNoLongerPresent   -- compiled statement has the None token, map lacks None
  | noDefaultSchema
  | squareBracket         -- CompileError at compile time
  deriving DecidableEq, Repr

/-- the `replace` callback: the schema text to insert (before quoting) -/
def effective (d : SMap) (dflt : Option Str) (name : Str) : Except Err Str :=
  let eff : Except Err (Option Str) :=
    match mlookup (some name) d with
    | some v => .ok v
    | none => if name = noneAlias then .error .noneNoLongerPresent else .ok (some name)
  match eff with
  | .error e => .error e
  | .ok (some s) =>
    if s.isEmpty then (match dflt with | some x => .ok x | none => .error .noDefaultSchema)
    else .ok s
  | .ok none => match dflt with | some x => .ok x | none => .error .noDefaultSchema

def renderToks (q : Str → Str) (d : SMap) (dflt : Option Str) : List STok → Except Err Str
  | [] => .ok []
  | .lit c :: r => (renderToks q d dflt r).map (c :: ·)
  | .sch n :: r =>
    match effective d dflt n with
    | .error e => .error e
    | .ok s => (renderToks q d dflt r).map (q s ++ ·)

/-- `_render_schema_translates(statement, map)` on a preparer built with
    `_includes_none_schema_translate = includesNone` -/
def renderTranslates (q : Str → Str) (dflt : Option Str) (includesNone : Bool)
    (statement : Str) (m : SMap) : Except Err Str :=
  if hasNone m && !includesNone then .error .noneNowPresent
  else renderToks q (withNoneAlias m) dflt (tokensS statement)

/-! ## compilation of the schema prefix -/

inductive Seg
  | text (t : Str)
  /-- a table / sequence / index reference: `.schema`, `._use_schema_map` -/
  | ref (schema : Option Str) (useMap : Bool)
  deriving DecidableEq, Repr

def token (name : Str) : Str := schemaPrefix ++ name ++ [']']

/-- `symbol_getter(obj)` followed by `quote_schema(…) + "."`; the symbol is a
    `quoted_name(…, quote=False)` so it is emitted verbatim -/
def compileSeg (q : Str → Str) (includesNone : Bool) : Seg → Except Err Str
  | .text t => .ok t
  | .ref schema useMap =>
    match schema with
    | some n =>
      if useMap then
        if n.contains '[' || n.contains ']' then .error .squareBracket
        else .ok (token n ++ ['.'])
      else if n.isEmpty then .ok [] else .ok (q n ++ ['.'])
    | none =>
      if useMap && includesNone then .ok (token noneAlias ++ ['.']) else .ok []

def compileSym (q : Str → Str) (includesNone : Bool) : List Seg → Except Err Str
  | [] => .ok []
  | s :: r =>
    match compileSeg q includesNone s with
    | .error e => .error e
    | .ok a => (compileSym q includesNone r).map (a ++ ·)

/-- compilation without any map (ordinary preparer) -/
def compileDirect (q : Str → Str) : List Seg → Str
  | [] => []
  | .text t :: r => t ++ compileDirect q r
  | .ref (some n) _ :: r => (if n.isEmpty then [] else q n ++ ['.']) ++ compileDirect q r
  | .ref none _ :: r => compileDirect q r

/-! ## execution through the compiled cache -/

structure Entry where
  includesNone : Bool
  translated : Bool          -- compiled.schema_translate_map is truthy
  string : Str
  deriving DecidableEq, Repr

abbrev Cache := List ((Nat × Bool) × Entry)

def clookup (k : Nat × Bool) : Cache → Option Entry
  | [] => none
  | (k', e) :: r => if k' = k then some e else clookup k r

/-- compile statement `segs` for map `m` (None / {} = falsy) -/
def compileFor (q : Str → Str) (segs : List Seg) (m : SMap) : Except Err Entry :=
  if m.isEmpty then .ok { includesNone := false, translated := false, string := compileDirect q segs }
  else
    match compileSym q (hasNone m) segs with
    | .error e => .error e
    | .ok s => .ok { includesNone := hasNone m, translated := true, string := s }

/-- `_init_compiled`: substitution happens after the cache lookup, with the map of
    THIS execution -/
def finish (q : Str → Str) (dflt : Option Str) (e : Entry) (m : SMap) : Except Err Str :=
  if e.translated then renderTranslates q dflt e.includesNone e.string m else .ok e.string

def execCold (q : Str → Str) (dflt : Option Str) (segs : List Seg) (m : SMap) : Except Err Str :=
  match compileFor q segs m with
  | .error e => .error e
  | .ok en => finish q dflt en m

/-- one execution against the shared cache: key = (statement id, bool(map)) -/
def execCached (q : Str → Str) (dflt : Option Str) (stmts : Nat → List Seg)
    (cache : Cache) (sid : Nat) (m : SMap) : Except Err Str × Cache :=
  let key := (sid, !m.isEmpty)
  match clookup key cache with
  | some en => (finish q dflt en m, cache)
  | none =>
    match compileFor q (stmts sid) m with
    | .error e => (.error e, cache)
    | .ok en => (finish q dflt en m, (key, en) :: cache)

def runHistory (q : Str → Str) (dflt : Option Str) (stmts : Nat → List Seg) :
    Cache → List (Nat × SMap) → List (Except Err Str)
  | _, [] => []
  | cache, (sid, m) :: r =>
    let (res, cache') := execCached q dflt stmts cache sid m
    res :: runHistory q dflt stmts cache' r

end SaVerif.SchemaTr
