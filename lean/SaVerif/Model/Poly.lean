/-
M-ORM / polymorphic loading: the row -> class decision of lib/sqlalchemy/orm/loading.py
(`_instance_processor`, `_decorate_polymorphic_switch`) and the plans the three inheritance
kinds produce (orm/mapper.py `_single_table_criterion`, `polymorphic_map`,
`_with_polymorphic_mappers`, `polymorphic_load="selectin"`; orm/context.py), over tables.
Import-free, total, executable.

A hierarchy is given by the ancestor chain of every class (`ancs[c]` = root … c); class `c`
owns one attribute column `a_c`; its polymorphic identity is the discriminator value
`idents[c]` (`none` = a `polymorphic_abstract` mapper, which has no identity); the value 0
stands for the falsy identities (integer 0, `False`, `''`).

Python                                               model
---------------------------------------------------  ------------------------------
mapper.polymorphic_map[discriminator]                 `classOf`; `decideClass`: no class
   KeyError -> AssertionError "No such                  carries the value ->
   polymorphic_identity"                                `.unknownIdentity`
discriminator is None -> InvalidRequestError          `.nullDiscriminator`
sub_mapper is mapper -> base instance_fn;             `decideClass` returns the class;
not sub_mapper.isa(mapper) -> InvalidRequestError        `.notSubMapper`
   "not a sub-mapper of the requested"
Mapper._single_table_criteria_component: the           `inList` (function of the mapper
   identities of self_and_descendants that are           tree)
   not polymorphic_abstract
single table: WHERE type IN (that list)                `selSingle` (no criterion for the
                                                         root class)
joined: FROM base JOIN … JOIN table(C)                `inAllTables (ancs C)`
concrete: polymorphic_union of the subtree             `queryConcrete`
with_polymorphic none / '*' / [classes]                `primaryCols` (what the first
                                                         SELECT carries)
deferred subclass columns: one SELECT per object       `deferredLoads`, values by
   on first access (load_scalar_attributes)              re-selecting the row by id
loading._instance / _populate_full /                   `populate` over `ASt` (dict value,
   _populate_partial for column attributes                expired flag) per attribute;
   (populators "quick" / "expire"), execution             `readAttr` = what attribute access
   option populate_existing, Mapper.always_refresh        returns
polymorphic_load="selectin": one extra SELECT per      `selectinVia`, `primaryStatements`
   selectin mapper found for a result object             (own class or direct parent only:
   (mapper._should_selectin_load,                         the walk stops where no mapper-level
    _iterate_to_target_viawpoly)                          with_polymorphic links parent to child)

Statement counts after attribute access are modelled only for hierarchies without
`polymorphic_load="selectin"` (the interplay of several selectin mappers with deferred
loading is not transcribed); the values and classes are modelled for all settings.
The `selectin_polymorphic()` option and the further `IN` loads change only which statement
brings a column; `populate` is applied once per object for the primary row (theorem
`later_loads_keep_db`: further populations do not change what is read).
Not modelled: composite keys, relationships, of_type(), aliased with_polymorphic against
a subquery, identical primary keys in two concrete tables, chunking of selectin loads
(500 keys), two classes sharing one identity (the later mapper wins, with a warning).
-/
namespace SaVerif.Poly

inductive Kind where | single | joined | concrete
deriving DecidableEq, Repr

/-- `ancs[c]` = ancestor chain root … c (inclusive); `selectin[c]` = polymorphic_load flag -/
structure Hier where
  ancs : List (List Nat)
  selectin : List Bool := []
  /-- `polymorphic_identity` per class; `none` = `polymorphic_abstract`; classes beyond the
      list are identified by their own number -/
  idents : List (Option Nat) := []
deriving Repr

def Hier.n (h : Hier) : Nat := h.ancs.length
def Hier.anc (h : Hier) (c : Nat) : List Nat := h.ancs.getD c []
/-- `mapper(d).isa(mapper(c))` -/
def Hier.isa (h : Hier) (d c : Nat) : Bool := (h.anc d).contains c
/-- the class and its descendants, in class order (`self_and_descendants`) -/
def Hier.sub (h : Hier) (c : Nat) : List Nat := (List.range h.n).filter (fun d => h.isa d c)

/-- `mapper(d).polymorphic_identity` -/
def Hier.ident (h : Hier) (d : Nat) : Option Nat :=
  match h.idents[d]? with
  | some v => v
  | none => some d
/-- `mapper.polymorphic_map[v]` (one map for the whole hierarchy) -/
def Hier.classOf (h : Hier) (v : Nat) : Option Nat :=
  (List.range h.n).find? (fun d => h.ident d == some v)
/-- `Mapper._single_table_criteria_component`: the discriminator values of the class and its
    descendants, the `polymorphic_abstract` ones left out -/
def Hier.inList (h : Hier) (c : Nat) : List Nat := (h.sub c).filterMap h.ident

/-- a loaded entity: primary key, class, the values of that class's attributes (ancestor order) -/
structure Ent where
  id : Nat
  cls : Nat
  vals : List (Option Int)
deriving DecidableEq, Repr

inductive LoadError where
  | unknownIdentity     -- AssertionError: No such polymorphic_identity … is defined
  | nullDiscriminator   -- InvalidRequestError: … discriminator column … is NULL
  | notSubMapper        -- InvalidRequestError: … not a sub-mapper of the requested …
  | missingRow          -- a deferred loader found no row (inconsistent joined tables)
deriving DecidableEq, Repr

abbrev Res := Except LoadError

/-- `_decorate_polymorphic_switch.polymorphic_instance`: which class loads this row -/
def decideClass (h : Hier) (c : Nat) (disc : Option Nat) : Res Nat :=
  match disc with
  | none => .error .nullDiscriminator
  | some v =>
    match h.classOf v with
    | some d => if h.isa d c then .ok d else .error .notSubMapper
    | none => .error .unknownIdentity

/-! ## single table inheritance -/

structure SRow where
  id : Nat
  disc : Option Nat
  vals : List (Option Int)   -- one column per class attribute
deriving DecidableEq, Repr

/-- `_single_table_criterion`: none for a class without `inherits` -/
def selSingle (h : Hier) (c : Nat) (r : SRow) : Bool :=
  if (h.anc c).length ≤ 1 then true
  else match r.disc with
    | some v => (h.inList c).contains v
    | none => false

def entOfSRow (h : Hier) (d : Nat) (r : SRow) : Ent :=
  ⟨r.id, d, (h.anc d).map (fun a => r.vals.getD a none)⟩

def loadSingle (h : Hier) (c : Nat) (r : SRow) : Res Ent :=
  match decideClass h c r.disc with
  | .ok d => .ok (entOfSRow h d r)
  | .error e => .error e

def querySingle (h : Hier) (c : Nat) (rows : List SRow) : Res (List Ent) :=
  (rows.filter (selSingle h c)).mapM (loadSingle h c)

/-! ## joined table inheritance -/

structure JTables where
  base : List (Nat × Option Nat × Option Int)   -- id, discriminator, a_root
  subs : List (List (Nat × Option Int))          -- per class: id, a_c (index = class; root unused)
deriving Repr

def JTables.hasRow (t : JTables) (root : Nat) (a : Nat) (id : Nat) : Bool :=
  if a == root then t.base.any (fun r => r.1 == id)
  else (t.subs.getD a []).any (fun r => r.1 == id)

/-- value of attribute `a` for primary key `id`; `none` = no such row -/
def JTables.attr (t : JTables) (root : Nat) (a : Nat) (id : Nat) : Option (Option Int) :=
  if a == root then (t.base.find? (fun r => r.1 == id)).map (fun r => r.2.2)
  else ((t.subs.getD a []).find? (fun r => r.1 == id)).map (fun r => r.2)

def loadJoined (h : Hier) (root c : Nat) (t : JTables) (r : Nat × Option Nat × Option Int) : Res Ent :=
  match decideClass h c r.2.1 with
  | .error e => .error e
  | .ok d =>
    match (h.anc d).mapM (fun a => t.attr root a r.1) with
    | some vals => .ok ⟨r.1, d, vals⟩
    | none => .error .missingRow

/-- FROM base JOIN … JOIN table(c): base rows whose id is present in every table of the chain -/
def queryJoined (h : Hier) (root c : Nat) (t : JTables) : Res (List Ent) :=
  (t.base.filter (fun r => (h.anc c).all (fun a => t.hasRow root a r.1))).mapM (loadJoined h root c t)

/-! ## concrete table inheritance -/

/-- table of class `d`: id and the values of the attributes of `anc d` -/
abbrev CTables := List (List (Nat × List (Option Int)))

def insertEnt (e : Ent) : List Ent → List Ent
  | [] => [e]
  | x :: xs => if e.id ≤ x.id then e :: x :: xs else x :: insertEnt e xs

/-- `ORDER BY id` -/
def sortEnts (l : List Ent) : List Ent := l.foldr insertEnt []

/-- polymorphic_union over the subtree: the literal `type` column names the table -/
def queryConcrete (h : Hier) (c : Nat) (t : CTables) : Res (List Ent) :=
  .ok (sortEnts ((h.sub c).flatMap (fun d => (t.getD d []).map (fun r => ⟨r.1, d, r.2⟩))))

/-! ## what the first SELECT carries, and the statements that follow -/

inductive WP where
  | none
  | all                      -- with_polymorphic(C, '*')
  | some (cs : List Nat)     -- with_polymorphic(C, [classes])
deriving Repr

/-- attribute columns present in the primary SELECT for a query against `c` -/
def primaryCols (h : Hier) (c : Nat) : WP → List Nat
  | .none => h.anc c
  | .all => (h.sub c).flatMap h.anc ++ h.anc c
  | .some cs => (cs.filter (fun w => h.isa w c)).flatMap h.anc ++ h.anc c

/-- objects whose class has a column the primary SELECT lacked: one deferred SELECT each,
    on first access (no `polymorphic_load="selectin"` anywhere) -/
def deferredLoads (h : Hier) (k : Kind) (c : Nat) (wp : WP) (ents : List Ent) : Nat :=
  match k with
  | .concrete => 0
  | _ => (ents.filter (fun e => !(h.anc e.cls).all (fun a => (primaryCols h c wp).contains a))).length

/-- `_should_selectin_load` over `_iterate_to_target_viawpoly`: the walk from the object's
    class towards the queried class yields the class itself and its parent, then stops
    (the parent has no mapper-level with_polymorphic naming the child); the first selectin
    mapper among those, the queried class excluded -/
def selectinVia (h : Hier) (c d : Nat) : Option Nat :=
  (((h.anc d).reverse.take 2).takeWhile (· != c)).find? (fun m => h.selectin.getD m false)

def dedup : List Nat → List Nat
  | [] => []
  | x :: xs => if (dedup xs).contains x then dedup xs else x :: dedup xs

/-- statements emitted while loading the result: the SELECT plus one `IN` load per selectin
    mapper met (results of at most 500 rows) -/
def primaryStatements (h : Hier) (k : Kind) (c : Nat) (ents : List Ent) : Nat :=
  match k with
  | .concrete => 1
  | _ => 1 + (dedup (ents.filterMap (fun e => selectinVia h c e.cls))).length

/-! ## population of an object's column attributes from a row

`loading._instance`: a row either creates a new instance or meets one already in the identity
map; `_populate_full` runs for new instances and under `populate_existing`
(`context.populate_existing or mapper.always_refresh`), `_populate_partial` otherwise.  The
populators of a column attribute are "quick" (the column is in the row) or "expire" with
`set_callable=True` (a column of the object's class the statement does not carry). -/

/-- one attribute of one object: `val` = the entry of the instance dict, `exp` = membership
    in `state.expired_attributes` -/
structure ASt where
  val : Option (Option Int) := none
  exp : Bool := false
deriving DecidableEq, Repr

/-- `isnew` = the instance was created by this row.  `inRow` = the attribute's column is in
    the row ("quick" populator), else it has an "expire" populator -/
def populate (created pe inRow : Bool) (rowv : Option Int) (s : ASt) : ASt :=
  if created || pe then
    -- _populate_full, isnew
    if inRow then ⟨some rowv, s.exp⟩
    else if pe then ⟨none, true⟩     -- dict_.pop(key); expired_attributes.add(key)
    else ⟨s.val, true⟩               -- expired_attributes.add(key)
  else
    -- _populate_partial: to_load = state.unloaded = the keys not in the dict
    match s.val with
    | some _ => s
    | none => if inRow then ⟨some rowv, s.exp⟩ else ⟨none, true⟩

/-- attribute access (`AttributeImpl.get`): the dict entry; else, when expired, the value
    re-selected from the database; else the default `None` -/
def readAttr (db : Option Int) (s : ASt) : Option Int :=
  match s.val with
  | some v => v
  | none => if s.exp then db else none

/-- the values of an entity's attributes as read after the load, `pre a` = the state of
    attribute `a` before (`none` = the object was not in the Session) -/
def readEnt (h : Hier) (c : Nat) (wp : WP) (pe : Bool) (pre : Nat → Option (Nat → ASt)) (e : Ent) : Ent :=
  let cols := primaryCols h c wp
  let vals := (h.anc e.cls).zip e.vals
  match pre e.id with
  | none => ⟨e.id, e.cls, vals.map (fun av => readAttr av.2 (populate true pe (cols.contains av.1) av.2 {}))⟩
  | some st => ⟨e.id, e.cls, vals.map (fun av => readAttr av.2 (populate false pe (cols.contains av.1) av.2 (st av.1)))⟩

/-- objects with an attribute to re-select after the load (one SELECT each on access) -/
def deferredLoadsSt (h : Hier) (k : Kind) (c : Nat) (wp : WP) (pe : Bool) (pre : Nat → Option (Nat → ASt))
    (ents : List Ent) : Nat :=
  match k with
  | .concrete => 0
  | _ => (ents.filter (fun e => (h.anc e.cls).any (fun a =>
      let s := match pre e.id with
        | none => populate true pe ((primaryCols h c wp).contains a) none {}
        | some st => populate false pe ((primaryCols h c wp).contains a) none (st a)
      s.val.isNone && s.exp))).length

end SaVerif.Poly
