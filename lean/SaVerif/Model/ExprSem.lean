import SaVerif.Model.Expr
import SaVerif.Model.ExprEval
/-!
# M-EXPR — meaning of API-call trees and of constructed elements (core fragment)

`evalNumU` / `evalBoolU`: what a tree of API calls *means* (three-valued logic; `and_` / `or_`
are the n-ary AND / OR of their clauses, `~` is NOT, `==` is equality, …) — the value of the
tree "rendered with every node explicitly parenthesised".
`evalCore`: value of a constructed element of the core fragment (grouping is transparent,
flattened lists fold from the left).
-/
namespace SaVerif.Expr
open SaExpr

variable [Abs]

def litVal : Lit → Val
  | .int i => .int i
  | .str s => .str s
  | .bool b => .int (if b then 1 else 0)
  | .num _ => .null
  | .null => .null

/-- value of `a <op> b` for the binary operators of the fragment -/
def binVal (op : Op) (a b : Val) : Val :=
  match op with
  | .add => evalArith .add a b
  | .sub => evalArith .sub a b
  | .mul => evalArith .mul a b
  | .mod => evalArith .mod a b
  | .concat_op => evalArith .concat_op a b
  | .and_ => evalArith .and_ a b
  | .or_ => evalArith .or_ a b
  | .eq => ofTV (evalCmp .eq a b)
  | .ne => ofTV (evalCmp .ne a b)
  | .lt => ofTV (evalCmp .lt a b)
  | .le => ofTV (evalCmp .le a b)
  | .gt => ofTV (evalCmp .gt a b)
  | .ge => ofTV (evalCmp .ge a b)
  | .is_ => ofTV (evalCmp .is_ a b)
  | .is_not => ofTV (evalCmp .is_not a b)
  | _ => .null

def unVal (op : Op) (v : Val) : Val :=
  match op with
  | .neg => (match v with | .int i => .int (-i) | _ => .null)
  | .inv => ofTV (not3 (truth v))
  | _ => .null

def foldVals (op : Op) : List Val → Val
  | [] => .null
  | v :: vs => vs.foldl (binVal op) v

/-- `CAST(x AS <type name of the dialect>)`; a dialect that skips the CAST leaves the value -/
def castVal (d : Dialect) (ty : Ty) (v : Val) : Val :=
  match Gen.castName d ty with
  | some n => Abs.castF n v
  | none => v

/-- value of a CASE from the values of its parts -/
def caseVal (noValue : Bool) (v : Val) (ws : List Val) (noElse : Bool) (e : Val) : Val :=
  let items := ws ++ (if noElse then [] else [e])
  if noValue then caseSearchedVal items else caseSimpleVal v items

/-- value of `a / b` (`truediv`) and `a // b` (`floordiv`) as the dialect spells them: the
    per-operator scheme of `visit_truediv_binary` / `visit_floordiv_binary` *is* the meaning of
    the operator on that dialect (`lt`, `rt`: the SQL types of the operands); what the theorems
    establish is that nesting never changes which values reach the backend's `/`.  A numeric
    literal such as `0.0` is NULL in this value model (`Val` has no non-integer numbers). -/
def divVal (d : Dialect) (op : Op) (lt rt : Ty) (a b : Val) : Val :=
  match op with
  | .truediv =>
    if d = .sqlite then Abs.div a (evalArith .add b .null)
    else if Gen.divIsFloordiv d then Abs.div a (Abs.castF ((Gen.castName d .num).getD "NUMERIC") b)
    else Abs.div a b
  | .floordiv =>
    if Gen.divIsFloordiv d ∧ rt = .int ∧ lt = .int then Abs.div a b
    else fnVal "FLOOR" [Abs.div a b]
  | _ => .null

/-- `x ILIKE y` as the dialect spells it: PostgreSQL has the operator, every other dialect
    renders `lower(x) LIKE lower(y)` -/
def ilikeTV (d : Dialect) (a b : Val) (esc : Option String) : TV :=
  if d = .postgresql then Abs.ilike a b esc
  else Abs.like (fnVal "lower" [a]) (fnVal "lower" [b]) esc

/-- value of the LIKE family (`NOT LIKE` is the three-valued negation of `LIKE`) -/
def likeVal (d : Dialect) (op : Op) (esc : Option String) (a b : Val) : Val :=
  match op with
  | .like_op => ofTV (Abs.like a b esc)
  | .not_like_op => ofTV (not3 (Abs.like a b esc))
  | .ilike_op => ofTV (ilikeTV d a b esc)
  | .not_ilike_op => ofTV (not3 (ilikeTV d a b esc))
  | _ => .null

/-- value of BETWEEN / NOT BETWEEN from the values of the operand and of the pair of bounds -/
def btwVal (negated : Bool) (x : Val) : List Val → Val
  | [lo, hi] => ofTV (if negated then not3 (evalBetween x lo hi) else evalBetween x lo hi)
  | _ => .null

mutual
def evalCore (env : String → Val) (d : Dialect) : SaExpr → Val
  | .col n _ => env n
  | .bind v _ => litVal v
  | .null => .null
  | .true_ => .int 1
  | .false_ => .int 0
  | .binary .truediv l r _ _ _ => divVal d .truediv (tyOf l) (tyOf r) (evalCore env d l) (evalCore env d r)
  | .binary .floordiv l r _ _ _ => divVal d .floordiv (tyOf l) (tyOf r) (evalCore env d l) (evalCore env d r)
  | .binary .between_op l (.clist .and_ cs false false _) _ _ _ =>
    btwVal false (evalCore env d l) (evalCoreList env d cs)
  | .binary .not_between_op l (.clist .and_ cs false false _) _ _ _ =>
    btwVal true (evalCore env d l) (evalCoreList env d cs)
  | .binary .in_op l (.inlist vs _ _) _ _ _ => ofTV (evalIn (evalCore env d l) (vs.map litVal))
  | .binary .not_in_op l (.inlist vs _ _) _ _ _ => ofTV (evalNotIn (evalCore env d l) (vs.map litVal))
  | .binary .like_op l r _ esc _ => likeVal d .like_op esc (evalCore env d l) (evalCore env d r)
  | .binary .not_like_op l r _ esc _ => likeVal d .not_like_op esc (evalCore env d l) (evalCore env d r)
  | .binary .ilike_op l r _ esc _ => likeVal d .ilike_op esc (evalCore env d l) (evalCore env d r)
  | .binary .not_ilike_op l r _ esc _ => likeVal d .not_ilike_op esc (evalCore env d l) (evalCore env d r)
  | .binary op l r _ _ _ => binVal op (evalCore env d l) (evalCore env d r)
  | .clist op cs _ _ _ => foldVals op (evalCoreList env d cs)
  | .unary op e _ => unVal op (evalCore env d e)
  | .grouping e => evalCore env d e
  | .subq n _ => env n
  | .func n args _ => fnVal n (evalCoreList env d args)
  | .cast e ty => castVal d ty (evalCore env d e)
  | .case_ v ws e _ =>
    caseVal (isAbsent v) (evalCore env d v) (evalCoreList env d ws) (isAbsent e) (evalCore env d e)
  | _ => .null
def evalCoreList (env : String → Val) (d : Dialect) : List SaExpr → List Val
  | [] => []
  | e :: es => evalCore env d e :: evalCoreList env d es
end

/-- SQL type of the element the API calls of `u` construct (SQLAlchemy's own type inference;
    `//` renders differently for Integer operands) -/
def tyU (u : U) : Ty := ((build u).map tyOf).getD .null

def isAbsentU : U → Bool
  | .absent => true
  | _ => false

mutual
/-- meaning of a numeric or string-valued API-call tree -/
def evalNumU (env : String → Val) (d : Dialect) : U → Val
  | .col n _ => env n
  | .subq n _ => env n
  | .li i => .int i
  | .ls s => .str s
  | .ln _ => .null
  | .bin .truediv a b => divVal d .truediv (tyU a) (tyU b) (evalNumU env d a) (evalNumU env d b)
  | .bin .floordiv a b => divVal d .floordiv (tyU a) (tyU b) (evalNumU env d a) (evalNumU env d b)
  | .bin k a b => binVal k.op (evalNumU env d a) (evalNumU env d b)
  | .neg a => unVal .neg (evalNumU env d a)
  | .cast ty a => castVal d ty (evalNumU env d a)
  | .coalesce cs => coalesceVal (evalNumUList env d cs)
  | .case_ v ws e =>
    -- a missing `else_` is NULL (`evalNumU .absent`)
    if isAbsentU v then evalSearched env d ws (evalNumU env d e)
    else evalSimple env d (evalNumU env d v) ws (evalNumU env d e)
  | _ => .null
def evalNumUList (env : String → Val) (d : Dialect) : List U → List Val
  | [] => []
  | u :: us => evalNumU env d u :: evalNumUList env d us
/-- searched CASE: the result of the first pair whose condition is TRUE, else `e` -/
def evalSearched (env : String → Val) (d : Dialect) : List U → Val → Val
  | c :: r :: rest, e =>
    if evalBoolU env d c = some true then evalNumU env d r else evalSearched env d rest e
  | _, e => e
/-- simple CASE: the result of the first pair whose value equals `v`, else `e` -/
def evalSimple (env : String → Val) (d : Dialect) (v : Val) : List U → Val → Val
  | c :: r :: rest, e =>
    if evalCmp .eq v (evalNumU env d c) = some true then evalNumU env d r
    else evalSimple env d v rest e
  | _, e => e
/-- meaning of a boolean API-call tree -/
def evalBoolU (env : String → Val) (d : Dialect) : U → TV
  | .bin k a b =>
    (match b with
     | .null =>
       -- `x == None` / `x.is_(None)` mean IS NULL, `x != None` / `x.is_not(None)` IS NOT NULL
       if k = .eq ∨ k = .is_ then evalCmp .is_ (evalNumU env d a) .null
       else evalCmp .is_not (evalNumU env d a) .null
     | _ => evalCmp k.op (evalNumU env d a) (evalNumU env d b))
  | .like k esc a b => truth (likeVal d k.op esc (evalNumU env d a) (evalNumU env d b))
  | .between x lo hi =>
    evalBetween (evalNumU env d x) (evalNumU env d lo) (evalNumU env d hi)
  | .inOp negated vals x =>
    if negated then evalNotIn (evalNumU env d x) (vals.map litVal)
    else evalIn (evalNumU env d x) (vals.map litVal)
  | .not_ a => not3 (evalBoolU env d a)
  | .and_ cs => andAll (evalBoolUList env d cs)
  | .or_ cs => orAll (evalBoolUList env d cs)
  | _ => none
def evalBoolUList (env : String → Val) (d : Dialect) : List U → List TV
  | [] => []
  | u :: us => evalBoolU env d u :: evalBoolUList env d us
end

end SaVerif.Expr
