import SaVerif.Model.Expr
import SaVerif.Model.ExprEval
/-!
# M-EXPR — meaning of API-call trees and of constructed elements (core fragment)

`evalNumU` / `evalBoolU`: what a tree of API calls *means* (three-valued logic; `and_` / `or_`
are the n-ary AND / OR of their clauses, `~` is NOT, `==` is equality, …) — the value of the
tree "rendered with every node explicitly parenthesised".
`evalCore`: value of a constructed element of the core fragment (grouping is transparent,
flattened lists fold from the left).
-/
namespace SaVerif.Expr
open SaExpr

def litVal : Lit → Val
  | .int i => .int i
  | .str s => .str s
  | .bool b => .int (if b then 1 else 0)
  | .num _ => .null
  | .null => .null

/-- value of `a <op> b` for the binary operators of the fragment -/
def binVal (op : Op) (a b : Val) : Val :=
  match op with
  | .add => evalArith .add a b
  | .sub => evalArith .sub a b
  | .mul => evalArith .mul a b
  | .mod => evalArith .mod a b
  | .and_ => evalArith .and_ a b
  | .or_ => evalArith .or_ a b
  | .eq => ofTV (evalCmp .eq a b)
  | .ne => ofTV (evalCmp .ne a b)
  | .lt => ofTV (evalCmp .lt a b)
  | .le => ofTV (evalCmp .le a b)
  | .gt => ofTV (evalCmp .gt a b)
  | .ge => ofTV (evalCmp .ge a b)
  | .is_ => ofTV (evalCmp .is_ a b)
  | .is_not => ofTV (evalCmp .is_not a b)
  | _ => .null

def unVal (op : Op) (v : Val) : Val :=
  match op with
  | .neg => (match v with | .int i => .int (-i) | _ => .null)
  | .inv => ofTV (not3 (truth v))
  | _ => .null

def foldVals (op : Op) : List Val → Val
  | [] => .null
  | v :: vs => vs.foldl (binVal op) v

mutual
def evalCore (env : String → Val) : SaExpr → Val
  | .col n _ => env n
  | .bind v _ => litVal v
  | .null => .null
  | .true_ => .int 1
  | .false_ => .int 0
  | .binary op l r _ _ _ => binVal op (evalCore env l) (evalCore env r)
  | .clist op cs _ _ _ => foldVals op (evalCoreList env cs)
  | .unary op e _ => unVal op (evalCore env e)
  | .grouping e => evalCore env e
  | _ => .null
def evalCoreList (env : String → Val) : List SaExpr → List Val
  | [] => []
  | e :: es => evalCore env e :: evalCoreList env es
end

/-- meaning of a numeric API-call tree -/
def evalNumU (env : String → Val) : U → Val
  | .col n _ => env n
  | .li i => .int i
  | .ln _ => .null
  | .bin k a b => binVal k.op (evalNumU env a) (evalNumU env b)
  | .neg a => unVal .neg (evalNumU env a)
  | _ => .null

mutual
/-- meaning of a boolean API-call tree -/
def evalBoolU (env : String → Val) : U → TV
  | .bin k a b =>
    (match b with
     | .null =>
       -- `x == None` / `x.is_(None)` mean IS NULL, `x != None` / `x.is_not(None)` IS NOT NULL
       if k = .eq ∨ k = .is_ then evalCmp .is_ (evalNumU env a) .null
       else evalCmp .is_not (evalNumU env a) .null
     | _ => evalCmp k.op (evalNumU env a) (evalNumU env b))
  | .not_ a => not3 (evalBoolU env a)
  | .and_ cs => andAll (evalBoolUList env cs)
  | .or_ cs => orAll (evalBoolUList env cs)
  | _ => none
def evalBoolUList (env : String → Val) : List U → List TV
  | [] => []
  | u :: us => evalBoolU env u :: evalBoolUList env us
end

end SaVerif.Expr
