/-
M-TOPO: transcription of lib/sqlalchemy/util/topological.py
  sort_as_subsets / sort / find_cycles
Import-free, total, executable.  Nodes are natural numbers (the harness maps
hashable Python items to their index of first appearance).

Python                                   model
---------------------------------------  -------------------------------------
edges[child].add(parent)                 parentsOf tuples child
todo (list) / todo_set (set)             one list `todo`; `set(todo) = todo_set`
                                         is an invariant of the loop, so
                                         `x in todo_set` = `todo.contains x`
while todo_set: ...                      sortAux, fuel = todo.length
raise CircularDependencyError            Except.error ()
-/
namespace SaVerif.Topo

abbrev Node := Nat
/-- (parent, child): parent must come before child -/
abbrev Edge := Node × Node

/-- `edges[n]` of sort_as_subsets: the parents of `n` -/
def parentsOf (tuples : List Edge) (n : Node) : List Node :=
  (tuples.filter (fun e => e.2 == n)).map (·.1)

/-- `todo_set.isdisjoint(edges[node])` -/
def ready (tuples : List Edge) (todo : List Node) (n : Node) : Bool :=
  (parentsOf tuples n).all (fun p => !todo.contains p)

/-- one pass of the `while todo_set` loop body: the `output` list -/
def layer (tuples : List Edge) (todo : List Node) : List Node :=
  todo.filter (ready tuples todo)

/-- `todo = [t for t in todo if t in todo_set]` after `difference_update(output)` -/
def remaining (todo output : List Node) : List Node :=
  todo.filter (fun t => !output.contains t)

/-- the loop of sort_as_subsets.  `none` = CircularDependencyError. -/
def sortAux (tuples : List Edge) : Nat → List Node → Option (List (List Node))
  | 0, todo => if todo.isEmpty then some [] else none
  | fuel + 1, todo =>
    if todo.isEmpty then some []
    else
      let output := layer tuples todo
      if output.isEmpty then none
      else
        match sortAux tuples fuel (remaining todo output) with
        | none => none
        | some rest => some (output :: rest)

def sortAsSubsets (tuples : List Edge) (items : List Node) : Option (List (List Node)) :=
  sortAux tuples items.length items

/-- `sort`: flatten of the subsets -/
def sort (tuples : List Edge) (items : List Node) : Option (List Node) :=
  (sortAsSubsets tuples items).map List.flatten

/-! ### find_cycles

`edges[parent].add(child)`; `nodes_to_test = set(edges)`.
Python iterates sets in unspecified order; the model iterates in list order of
first appearance; the result is a *set* and the driver prints it sorted.  -/

def childrenOf (tuples : List Edge) (n : Node) : List Node :=
  ((tuples.filter (fun e => e.1 == n)).map (·.2)).eraseDups

def parentNodes (tuples : List Edge) : List Node :=
  (tuples.map (·.1)).eraseDups

/-- `stack[stack.index(node):]` where the stack is kept top-first (reversed):
    the nodes from `node` up to the top = prefix of the reversed stack up to and
    including `node`. -/
def cycSlice (stack : List Node) (node : Node) : List Node :=
  match stack with
  | [] => []
  | x :: xs => if x == node then [x] else x :: cycSlice xs node

structure DfsState where
  stack  : List Node      -- top first
  todo   : List Node
  output : List Node
deriving Repr

/-- the `for node in edges[top]` loop, with the `break`/`else` encoded in the
    returned Bool (`true` = broke out after pushing) -/
def scanChildren (cs : List Node) (st : DfsState) : DfsState × Bool :=
  match cs with
  | [] => (st, false)
  | c :: cs =>
    let st1 : DfsState :=
      if st.stack.contains c then
        let cyc := cycSlice st.stack c
        { st with todo := st.todo.filter (fun t => !cyc.contains t),
                  output := st.output ++ cyc }
      else st
    if st1.todo.contains c then
      ({ st1 with stack := c :: st1.stack, todo := st1.todo.filter (· != c) }, true)
    else scanChildren cs st1

/-- `while stack:` loop, fuelled.  -/
def dfsLoop (tuples : List Edge) : Nat → DfsState → DfsState
  | 0, st => st
  | fuel + 1, st =>
    match st.stack with
    | [] => st
    | top :: rest =>
      let (st', pushed) := scanChildren (childrenOf tuples top) st
      if pushed then dfsLoop tuples fuel st'
      else dfsLoop tuples fuel { st' with stack := rest }

def findCyclesFrom (tuples : List Edge) (nodes : List Node) (start : Node) (out : List Node) :
    List Node :=
  let st : DfsState := { stack := [start], todo := nodes.filter (· != start), output := out }
  -- each iteration either pushes (≤ |nodes| times) or pops (≤ pushes+1 times)
  (dfsLoop tuples (2 * nodes.length + 2) st).output

def findCycles (tuples : List Edge) : List Node :=
  let nodes := parentNodes tuples
  (nodes.foldl (fun out n => findCyclesFrom tuples nodes n out) []).eraseDups

end SaVerif.Topo
