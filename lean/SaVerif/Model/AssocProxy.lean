/-
M-APROXY: transcription of the proxied collections of lib/sqlalchemy/ext/associationproxy.py
(`_AssociationList`, `_AssociationSet`, `_AssociationDict`) over an underlying
relationship collection of intermediary objects.

An intermediary object is `Mem` = (identity, value of the proxied attribute); `creator(v)`
makes a fresh identity.  The underlying collection `col` is a list (for sets: in iteration
order, which is irrelevant to every statement; for dicts: insertion order of the keys).

Python                                                model
----------------------------------------------------  ----------------------------------
_AssociationSet.__contains__ (loop, `_get(m) == v`)   `Set.contains`
add: if v not in self: col.add(creator(v))            `Set.add`
discard: first member with that value, col.discard    `Set.discard` (`eraseFirst`)
remove: same, else KeyError                           `Set.remove`
update / __ior__: add each                            `Set.update`
difference_update / __isub__: discard each            `Set.differenceUpdate`
intersection_update / __iand__: want = self & other;  `Set.intersectionUpdate`
   remove(have - want); add(want - have)
symmetric_difference_update / __ixor__                `Set.symDiffUpdate`
clear: col.clear()                                    `Set.clear`
_AssociationDict.__setitem__: key in col -> setter    `Dict.setItem`
   on the existing object, else col[key] = creator
__delitem__: del col[key] (KeyError)                  `Dict.delItem`
pop(key[, default]): member = col.pop(key, *arg);     `Dict.pop` (with a default and a missing key the
   return _get(member)                                 getter is applied to the default: `getterOnDefault`)
setdefault, update (dict built first, then setitem)   `Dict.setDefault`, `Dict.update`
_AssociationList.append / extend / __iadd__           `Lst.append`, `Lst.extend`
insert: col[i:i] = [creator(v)]                       `Lst.insert`
pop(i): getter(col.pop(i)); remove(v): first index    `Lst.pop`, `Lst.remove`
__setitem__(int): setter(col[i], v); __delitem__(int) `Lst.setItem`, `Lst.delItem`
__imul__(n): n == 0 clear; n > 1 extend(list(self)    `Lst.imul` (n < 0 and n = 1: nothing)
   * (n - 1))
Import-free, total, executable.
-/
namespace SaVerif.AssocProxy

structure Mem where
  id  : Nat
  val : Int
deriving Repr, DecidableEq

inductive Err where
  | keyError
  | indexError
  | valueError
  /-- the getter was applied to something that is not an intermediary object -/
  | getterOnDefault
deriving Repr, DecidableEq

/-! ## set proxy -/
namespace Set

structure St where
  col  : List Mem
  next : Nat
deriving Repr

def view (s : St) : List Int := s.col.map (·.val)

def contains (s : St) (v : Int) : Bool := s.col.any (fun m => m.val == v)

def add (s : St) (v : Int) : St :=
  if contains s v then s else { col := s.col ++ [⟨s.next, v⟩], next := s.next + 1 }

/-- `for member in col: if _get(member) == v: col.discard(member); break` -/
def eraseFirst : List Mem → Int → List Mem
  | [], _ => []
  | m :: ms, v => if m.val == v then ms else m :: eraseFirst ms v

def discard (s : St) (v : Int) : St := { s with col := eraseFirst s.col v }

def remove (s : St) (v : Int) : Except Err St :=
  if contains s v then .ok (discard s v) else .error .keyError

def update (s : St) (vs : List Int) : St := vs.foldl add s

def differenceUpdate (s : St) (vs : List Int) : St := vs.foldl discard s

/-- `remove` of every element of a Python set difference (each value once) -/
def removeAll (s : St) : List Int → Except Err St
  | [] => .ok s
  | v :: vs =>
    match remove s v with
    | .ok s1 => removeAll s1 vs
    | .error e => .error e

/-- want = set(self) & other; remove = have - want; add = want - have (= ∅) -/
def intersectionUpdate (s : St) (other : List Int) : Except Err St :=
  let have_ := (view s).eraseDups
  let want := have_.filter (fun x => other.contains x)
  let rem := have_.filter (fun x => !want.contains x)
  let add_ := want.filter (fun x => !have_.contains x)
  match removeAll s rem with
  | .ok s1 => .ok (update s1 add_)
  | .error e => .error e

/-- want = set(self) ^ other; remove = have - want; add = want - have -/
def symDiffUpdate (s : St) (other : List Int) : Except Err St :=
  let have_ := (view s).eraseDups
  let o := other.eraseDups
  let want := have_.filter (fun x => !o.contains x) ++ o.filter (fun x => !have_.contains x)
  let rem := have_.filter (fun x => !want.contains x)
  let add_ := want.filter (fun x => !have_.contains x)
  match removeAll s rem with
  | .ok s1 => .ok (update s1 add_)
  | .error e => .error e

def clear (s : St) : St := { s with col := [] }

end Set

/-! ## dict proxy -/
namespace Dict

structure St where
  col  : List (Int × Mem)
  next : Nat
deriving Repr

def view (s : St) : List (Int × Int) := s.col.map (fun p => (p.1, p.2.val))

def hasKey (s : St) (k : Int) : Bool := s.col.any (fun p => p.1 == k)

/-- `setter(col[key], key, value)` on the existing object -/
def setExisting : List (Int × Mem) → Int → Int → List (Int × Mem)
  | [], _, _ => []
  | p :: ps, k, v => if p.1 == k then (p.1, { p.2 with val := v }) :: ps else p :: setExisting ps k v

def setItem (s : St) (k v : Int) : St :=
  if hasKey s k then { s with col := setExisting s.col k v }
  else { col := s.col ++ [(k, ⟨s.next, v⟩)], next := s.next + 1 }

def eraseKey : List (Int × Mem) → Int → List (Int × Mem)
  | [], _ => []
  | p :: ps, k => if p.1 == k then ps else p :: eraseKey ps k

def delItem (s : St) (k : Int) : Except Err St :=
  if hasKey s k then .ok { s with col := eraseKey s.col k } else .error .keyError

/-- `pop(key)` (`dflt = 0`), `pop(key, None)` (`dflt = 1`), `pop(key, <other>)` (`dflt = 2`):
    `member = col.pop(key, *arg); return getter(member)` where the default getter is
    `_getter(instance) if instance is not None else None` -/
def pop (s : St) (k : Int) (dflt : Nat) : Except Err St :=
  if hasKey s k then .ok { s with col := eraseKey s.col k }
  else if dflt = 0 then .error .keyError
  else if dflt = 1 then .ok s
  else .error .getterOnDefault

def setDefault (s : St) (k d : Int) : St :=
  if hasKey s k then s else { col := s.col ++ [(k, ⟨s.next, d⟩)], next := s.next + 1 }

/-- `up = {}; up.update(...)` is built by the builtin (an input), then `self[key] = value` -/
def update (s : St) (up : List (Int × Int)) : St := up.foldl (fun s p => setItem s p.1 p.2) s

def clear (s : St) : St := { s with col := [] }

end Dict

/-! ## list proxy -/
namespace Lst

structure St where
  col  : List Mem
  next : Nat
deriving Repr

def view (s : St) : List Int := s.col.map (·.val)

def append (s : St) (v : Int) : St := { col := s.col ++ [⟨s.next, v⟩], next := s.next + 1 }

def extend (s : St) (vs : List Int) : St := vs.foldl append s

/-- index at which `col[i:i] = [x]` (= `list.insert`) puts the element -/
def pyInsertIdx (n : Nat) (i : Int) : Nat :=
  if i < 0 then (if i + n < 0 then 0 else (i + n).toNat)
  else (if i > n then n else i.toNat)

def insert (s : St) (i : Int) (v : Int) : St :=
  let k := pyInsertIdx s.col.length i
  { col := s.col.take k ++ [⟨s.next, v⟩] ++ s.col.drop k, next := s.next + 1 }

def normIdx (n : Nat) (i : Int) : Option Nat :=
  if i < 0 then (if i + n < 0 then none else some (i + n).toNat)
  else (if i < n then some i.toNat else none)

def delItem (s : St) (i : Int) : Except Err St :=
  match normIdx s.col.length i with
  | none => .error .indexError
  | some k => .ok { s with col := s.col.eraseIdx k }

def pop (s : St) (i : Int) : Except Err St := delItem s i

def setItem (s : St) (i : Int) (v : Int) : Except Err St :=
  match normIdx s.col.length i with
  | none => .error .indexError
  | some k => .ok { s with col := s.col.modify k (fun m => { m with val := v }) }

/-- `for i, val in enumerate(self): if val == value: del self.col[i]; return` -/
def eraseFirst : List Mem → Int → List Mem
  | [], _ => []
  | m :: ms, v => if m.val == v then ms else m :: eraseFirst ms v

def remove (s : St) (v : Int) : Except Err St :=
  if s.col.any (fun m => m.val == v) then .ok { s with col := eraseFirst s.col v }
  else .error .valueError

def clear (s : St) : St := { s with col := [] }

/-- `list(self) * (n - 1)` -/
def repeatList (l : List Int) : Nat → List Int
  | 0 => []
  | k + 1 => l ++ repeatList l k

def imul (s : St) (n : Int) : St :=
  if n = 0 then clear s
  else if n > 1 then extend s (repeatList (view s) (n - 1).toNat)
  else s

end Lst

end SaVerif.AssocProxy
