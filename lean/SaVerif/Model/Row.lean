import SaVerif.Model.PySeq
/-
M-ROW: transcription of `BaseRow` (lib/sqlalchemy/engine/_row_cy.py) and the comparison layer of
`Row` (lib/sqlalchemy/engine/row.py).  Core Lean only, total, executable.

A row is its parent's key list (`_fields`, distinct names numbered 0..) and the data tuple
`_data`; `_key_to_index` maps key `k` to position `k` (the harness uses distinct keys, the
duplicate-key machinery is M-ROWKEYS of C11).  Values are integers.

Python                                             model
-------------------------------------------------  ------------------------------------
_apply_processors(proc, data)                      applyProcs   (assert len(data) == len(proc))
BaseRow.__init__(parent, processors, k2i, data)    Row.make
__len__ / __iter__ / _values_impl                  len / data
__getitem__(int | slice) = self._data[key]         getitem / getslice (tuple semantics of M-PYSEQ)
__getattr__(name) → _get_by_key_impl(name, True)   getattr  (AttributeError)
_mapping[key]     → _get_by_key_impl(key, False)   getkey   (KeyError)
__contains__                                       contains
__hash__ = hash(self._data)                        hashKey (the tuple itself stands for its hash)
Row._op: compare `_to_tuple_instance()` tuples     lt / le / eq (lexicographic on `_data`)
__setattr__ / __delattr__                          always AttributeError
__getstate__ / __setstate__ / rowproxy_reconstructor   pickle = rebuild from (parent, data)
-/
namespace SaVerif.Row
open SaVerif.PySeq (Slice sliceIndices rangeList)

abbrev Val := Int

/-- a result processor: none / negate / double (what the harness installs) -/
inductive Proc where
  | none | neg | dbl
deriving Repr, DecidableEq

def Proc.apply : Proc → Val → Val
  | .none, v => v
  | .neg, v => -v
  | .dbl, v => v * 2

/-- `_apply_processors`: `none` = the `assert len(data) == proc_size` fails -/
def applyProcs (procs : List Proc) (data : List Val) : Option (List Val) :=
  if procs.length != data.length then none
  else some ((procs.zip data).map (fun p => p.1.apply p.2))

structure Row where
  nkeys : Nat          -- parent keys are 0 .. nkeys-1 (`_key_to_index[k] = k`)
  data : List Val
deriving Repr, DecidableEq

inductive Err where
  | indexError | attributeError | keyError | valueError | assertion
deriving Repr, DecidableEq

/-- `BaseRow.__init__`: processors applied when given, `tuple(data)` otherwise -/
def Row.make (nkeys : Nat) (procs : Option (List Proc)) (data : List Val) : Except Err Row :=
  match procs with
  | none => .ok ⟨nkeys, data⟩
  | some ps => match applyProcs ps data with
    | some d => .ok ⟨nkeys, d⟩
    | none => .error .assertion

def Row.len (r : Row) : Nat := r.data.length

def tupleGet (t : List Val) (i : Int) : Except Err Val :=
  let j := if i < 0 then i + t.length else i
  if j < 0 then .error .indexError
  else match t[j.toNat]? with
    | some v => .ok v
    | none => .error .indexError

def tupleSlice (t : List Val) (s : Slice) : Except Err (List Val) :=
  match sliceIndices t.length s with
  | none => .error .valueError
  | some (a, b, c) => .ok ((rangeList a b c).filterMap (fun i => if i < 0 then none else t[i.toNat]?))

def Row.getitem (r : Row) (i : Int) : Except Err Val := tupleGet r.data i
def Row.getslice (r : Row) (s : Slice) : Except Err (List Val) := tupleSlice r.data s

/-- `index = self._key_to_index.get(key); if index is not None: return self._data[index]` -/
def Row.byKey (r : Row) (k : Nat) (attrErr : Bool) : Except Err Val :=
  if k < r.nkeys then
    match r.data[k]? with
    | some v => .ok v
    | none => .error .indexError
  else .error (if attrErr then .attributeError else .keyError)

def Row.getattr (r : Row) (k : Nat) : Except Err Val := r.byKey k true
def Row.getkey (r : Row) (k : Nat) : Except Err Val := r.byKey k false
def Row.contains (r : Row) (v : Val) : Bool := r.data.contains v

/-- tuple ordering -/
def tupleLt : List Val → List Val → Bool
  | [], [] => false
  | [], _ :: _ => true
  | _ :: _, [] => false
  | a :: as, b :: bs => if a < b then true else if b < a then false else tupleLt as bs

def Row.lt (r : Row) (o : List Val) : Bool := tupleLt r.data o
def Row.le (r : Row) (o : List Val) : Bool := tupleLt r.data o || r.data == o
def Row.gt (r : Row) (o : List Val) : Bool := tupleLt o r.data
def Row.ge (r : Row) (o : List Val) : Bool := tupleLt o r.data || r.data == o
def Row.eq (r : Row) (o : List Val) : Bool := r.data == o

/-- what `hash(row)` is computed from -/
def Row.hashKey (r : Row) : List Val := r.data

/-- `pickle.loads(pickle.dumps(row))`: `__getstate__` keeps parent and data, `__setstate__`
    takes `_key_to_index` from the parent again -/
def Row.pickle (r : Row) : Row := ⟨r.nkeys, r.data⟩

def Row.asdict (r : Row) : List (Nat × Val) := (List.range r.nkeys).zip r.data

end SaVerif.Row
