/-
M-ORDLIST: transcription of lib/sqlalchemy/ext/orderinglist.py `OrderingList` as it runs
inside a mapped relationship (methods wrapped by orm/collections.py `_list_decorators`).

Python                                              model
--------------------------------------------------  -----------------------------------------
entity objects, `entity.position`                   entity ids `Nat`, `pos : Nat → Option Int`
ordering_func = count_from_n(start)(index, self)    `ordFn st index = index + start`
_order_entity(index, entity, reorder)               `orderEntity`
reorder() / _reorder                                `reorder` (`reorderFrom`: the enumerate loop)
append: super().append; _order_entity(len-1, e,     `append`
        self.reorder_on_append)
insert: super().insert(index, e); _reorder()        `insert` (`pyInsertIdx` = list.insert clamping)
remove: super().remove(e); if owned: _reorder()     `remove` (ValueError when absent)
pop:    super().pop(index); _reorder()              `pop` (`normIdx` = IndexError outside [-n, n))
__setitem__(int): decorator reads self[index]       `setItem`: IndexError first, then
        (IndexError), then _order_entity(int(index),  pos := ordFn(index) with the index AS GIVEN
        entity, True); super().__setitem__            (negative stays negative), then store
__delitem__(int | slice): super(); _reorder()       `delItem`, `delIdxs` (the indices removed by the
                                                     builtin slice deletion are an input)
__setitem__(slice) — `_list_decorators.__setitem__` `setSlice` on (start, stop, step) =
        decomposes: step 1: `del self[start]` while   `slice.indices(len)` (input): the loops of the
        len > start, then insert(i+start, item);      decorator, calling delItem / insert / setItem
        else zip(rng, value): self[i] = item
extend / __iadd__ (decorator: for v: self.append)   `extend`
clear (decorator, list.clear)                       `clear`
sort / reverse (NOT overridden, not instrumented)   `setOrder` (result order is an input), `reverse`
Import-free, total, executable.
-/
namespace SaVerif.OrderingList

structure St where
  /-- entity ids in list order -/
  items : List Nat
  /-- `entity.position` -/
  pos   : Nat → Option Int
  /-- ordering_func = count_from(start) -/
  start : Int
  /-- reorder_on_append -/
  roa   : Bool

inductive Err where
  | indexError
  | valueError
deriving Repr, DecidableEq

/-- `ordering_func(index, self)` -/
def ordFn (st : St) (index : Int) : Int := index + st.start

def setPos (st : St) (e : Nat) (v : Int) : St :=
  { st with pos := fun x => if x = e then some v else st.pos x }

/-- `_order_entity(index, entity, reorder)`:
    have = get; if have is not None and not reorder: return;
    should_be = ordering_func(index, self); if have != should_be: set -/
def orderEntity (st : St) (index : Int) (e : Nat) (reorder : Bool) : St :=
  if (st.pos e).isSome && !reorder then st else setPos st e (ordFn st index)

/-- the loop `for index, entity in enumerate(self): self._order_entity(index, entity, True)` -/
def reorderFrom (start : Int) : Nat → List Nat → (Nat → Option Int) → (Nat → Option Int)
  | _, [], pos => pos
  | k, e :: es, pos => reorderFrom start (k + 1) es (fun x => if x = e then some (k + start) else pos x)

def reorder (st : St) : St :=
  { st with pos := reorderFrom st.start 0 st.items st.pos }

def append (st : St) (e : Nat) : St :=
  let st1 := { st with items := st.items ++ [e] }
  orderEntity st1 ((st1.items.length : Int) - 1) e st.roa

/-- index at which `list.insert(i, x)` puts the element -/
def pyInsertIdx (n : Nat) (i : Int) : Nat :=
  if i < 0 then (if i + n < 0 then 0 else (i + n).toNat)
  else (if i > n then n else i.toNat)

def insertAt (l : List Nat) (k : Nat) (e : Nat) : List Nat := l.take k ++ [e] ++ l.drop k

def insert (st : St) (i : Int) (e : Nat) : St :=
  reorder { st with items := insertAt st.items (pyInsertIdx st.items.length i) e }

/-- index normalisation of `l[i]`, `l.pop(i)`, `del l[i]`: `none` = IndexError -/
def normIdx (n : Nat) (i : Int) : Option Nat :=
  if i < 0 then (if i + n < 0 then none else some (i + n).toNat)
  else (if i < n then some i.toNat else none)

def remove (st : St) (e : Nat) : Except Err St :=
  if st.items.contains e then .ok (reorder { st with items := st.items.erase e })
  else .error .valueError

def delItem (st : St) (i : Int) : Except Err St :=
  match normIdx st.items.length i with
  | none => .error .indexError
  | some k => .ok (reorder { st with items := st.items.eraseIdx k })

/-- `pop(index)` — same list effect as `del self[index]` -/
def pop (st : St) (i : Int) : Except Err St := delItem st i

def setItem (st : St) (i : Int) (e : Nat) : Except Err St :=
  match normIdx st.items.length i with
  | none => .error .indexError
  | some k =>
    let st1 := orderEntity st i e true
    .ok { st1 with items := st1.items.set k e }

/-- removal of the given indices (what `list.__delitem__(slice)` removes), then `_reorder` -/
def delIdxs (st : St) (idxs : List Nat) : St :=
  let kept := (st.items.zipIdx.filter (fun p => !idxs.contains p.2)).map (·.1)
  reorder { st with items := kept }

def extend (st : St) (es : List Nat) : St := es.foldl append st

def clear (st : St) : St := { st with items := [] }

def reverse (st : St) : St := { st with items := st.items.reverse }

/-- `list.sort(...)`: the resulting order is an input; nothing else happens -/
def setOrder (st : St) (l : List Nat) : St := { st with items := l }

/-- `for i in range(start, stop): if len(self) > start: del self[start]` -/
def delLoop (st : St) (start : Nat) : Nat → St
  | 0 => st
  | k + 1 =>
    if st.items.length > start then
      match delItem st start with
      | .ok st1 => delLoop st1 start k
      | .error _ => st
    else delLoop st start k

/-- `for i, item in enumerate(value): self.insert(i + start, item)` -/
def insLoop (st : St) (start : Nat) : List Nat → St
  | [] => st
  | e :: es => insLoop (insert st start e) (start + 1) es

/-- `for i, item in zip(rng, value): self.__setitem__(i, item)` -/
def setLoop (st : St) : List (Int × Nat) → Except Err St
  | [] => .ok st
  | (i, e) :: rest =>
    match setItem st i e with
    | .ok st1 => setLoop st1 rest
    | .error x => .error x

/-- `range(start, stop, step)` for normalised slice indices -/
def pyRange (start stop step : Int) : List Int :=
  if step > 0 then
    if stop ≤ start then [] else
      (List.range ((stop - start + step - 1) / step).toNat).map (fun (k : Nat) => start + step * (k : Int))
  else if step < 0 then
    if start ≤ stop then [] else
      (List.range ((start - stop + (-step) - 1) / (-step)).toNat).map (fun (k : Nat) => start + step * (k : Int))
  else []

/-- `_list_decorators.__setitem__` for a slice; (start, stop, step) = `index.indices(len(self))` -/
def setSlice (st : St) (start stop step : Int) (vals : List Nat) : Except Err St :=
  if step = 1 then
    let n := (pyRange start stop 1).length
    .ok (insLoop (delLoop st start.toNat n) start.toNat vals)
  else
    let rng := pyRange start stop step
    if vals.length ≠ rng.length then .error .valueError
    else setLoop st (rng.zip vals)

inductive Op where
  | append (e : Nat)
  | insert (i : Int) (e : Nat)
  | remove (e : Nat)
  | pop (i : Int)
  | setItem (i : Int) (e : Nat)
  | delItem (i : Int)
  | delIdxs (idxs : List Nat)
  | setSlice (start stop step : Int) (vals : List Nat)
  | extend (es : List Nat)
  | clear
  | reverse
  | setOrder (l : List Nat)
  | reorder
deriving Repr

def step (st : St) : Op → Except Err St
  | .append e => .ok (append st e)
  | .insert i e => .ok (insert st i e)
  | .remove e => remove st e
  | .pop i => pop st i
  | .setItem i e => setItem st i e
  | .delItem i => delItem st i
  | .delIdxs idxs => .ok (delIdxs st idxs)
  | .setSlice a b c vals => setSlice st a b c vals
  | .extend es => .ok (extend st es)
  | .clear => .ok (clear st)
  | .reverse => .ok (reverse st)
  | .setOrder l => .ok (setOrder st l)
  | .reorder => .ok (reorder st)

/-- a failing operation leaves the state as it is (the exception reaches the caller) -/
def stepKeep (st : St) (op : Op) : St :=
  match step st op with
  | .ok st1 => st1
  | .error _ => st

def run (st : St) : List Op → St
  | [] => st
  | op :: ops => run (stepKeep st op) ops

def init (start : Int) (roa : Bool) : St :=
  { items := [], pos := fun _ => none, start := start, roa := roa }

end SaVerif.OrderingList
